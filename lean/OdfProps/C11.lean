import OdfProofs.Pretty
import OdfProofs.Package5

/-!
# C11 — saving is neutral: pretty / packaging change layout only; save never edits memory

Model: `OdfModel/Para/Pretty.lean` — `pretty_indent` over a first-child / next-sibling forest with
the `TEXT_CONTENT` set REGENERATED from `container.py` at every run, and the ODF §6.1.2 reading of
every paragraph and heading (`readAll`, through the consumer of C05).  Statements are for every
tree (any depth, any tags, any character data).  The hypothesis `WF` (no paragraph directly inside
textual content; paragraphs inside notes / frames / annotations are fine) is decidable (`wfB`)
and is evaluated by the harness on every tree it meets.
The save protocol (`Document.save`) is modelled below on abstract parts.
-/
namespace Odf.C11
open Odf.Pretty

/-- **structure and attributes**: pretty-printing changes character data only — every element
    keeps its name, its attributes, its children, in order -/
theorem pretty_keeps_structure (f : Forest) : erase (prettyRoot f) = erase f := erase_pretty f 0 0 false false

/-- **text**: what an ODF consumer reads in EVERY paragraph and heading of the tree, at any
    depth, is the same after pretty-printing -/
theorem pretty_keeps_paragraph_text (f : Forest) (hwf : WF false f) : readAll (prettyRoot f) = readAll f :=
  readAll_pretty f false hwf 0 0 false

/-- the hypothesis is what the harness evaluates -/
theorem wf_decidable (f : Forest) : wfB false f = true ↔ WF false f := wfB_iff false f

/-- inside textual content the consumer's state after the children is the same, up to collapsible
    white space at the very end of a paragraph / heading (the lemma the text theorem rests on) -/
theorem pretty_inside_text (f : Forest) (hwf : WF true f) (lvl pl : Nat) (pph ign : Bool) (out : List Char) :
    Ws.collapseItems (flat (prettyF lvl pl true pph f)) ign out =
      bump (lastBump pph f) (Ws.collapseItems (flat f) ign out) := flat_pretty f hwf lvl pl pph ign out

/-- the regenerated `TEXT_CONTENT` still holds the mixed-content elements of a paragraph (their
    character data must not be indented) and none of the elements whose content is not text -/
theorem text_content_core :
    (["text:p", "text:h", "text:span", "text:a", "text:meta", "text:meta-field", "text:ruby-base", "text:ruby-text",
      "text:note-citation", "text:title", "text:date", "text:page-number", "text:user-defined", "text:variable-set",
      "text:bookmark-ref", "text:reference-ref", "dc:creator", "dc:date", "meta:user-defined"].all textual) = true ∧
    (["text:s", "text:tab", "text:line-break", "text:note", "text:note-body", "draw:frame", "draw:text-box",
      "office:annotation", "text:bookmark", "text:list", "text:list-item", "table:table-cell", "office:text",
      "text:ruby", "text:section"].any textual) = false := by
  decide +kernel

/-! ### the save protocol -/

/-- a document in memory: the container's parts (as trees: the bytes of a part are abstracted to the
    tree they parse to) and the parts already parsed (possibly edited) -/
structure Doc where
  container : String → Option Forest
  parsed : String → Option Forest

def stdParts : List String := ["content.xml", "meta.xml", "settings.xml", "styles.xml"]

/-- `Document.save(pretty=…)` for zip / folder packaging: every parsed part is serialised into the
    container (through `pretty_indent` on a COPY when pretty); a pretty save first parses the
    four standard parts.  Returns the new state; what is written is its `container`. -/
def save (pretty : Bool) (d : Doc) : Doc :=
  let parsed' : String → Option Forest := fun p =>
    match d.parsed p with
    | some t => some t
    | none => if pretty ∧ p ∈ stdParts then d.container p else none
  { parsed := parsed'
    container := fun p =>
      match parsed' p with
      | some t => some (if pretty then prettyRoot t else t)
      | none => d.container p }

/-- **save never edits memory**: a parsed part is the same tree after any save -/
theorem save_keeps_memory (pretty : Bool) (d : Doc) (p : String) (t : Forest) (h : d.parsed p = some t) :
    (save pretty d).parsed p = some t := by
  simp [save, h]

/-- **saving twice writes the same content** -/
theorem save_twice (pretty : Bool) (d : Doc) : (save pretty (save pretty d)).container = (save pretty d).container := by
  funext p
  simp only [save]
  cases hp : d.parsed p with
  | some t => simp
  | none =>
    by_cases hc : pretty = true ∧ p ∈ stdParts
    · simp only [hc, and_self, if_true]
      cases hcp : d.container p <;> simp
    · simp only [hc, if_false]

/-- **pretty then plain writes what a plain save writes** (for a document whose standard parts are
    what the container holds or are parsed) -/
theorem pretty_then_plain (d : Doc) : (save false (save true d)).container = (save false d).container := by
  funext p
  simp only [save]
  cases hp : d.parsed p with
  | some t => simp
  | none =>
    by_cases hc : p ∈ stdParts
    · simp only [hc, and_self, if_true, true_and]
      cases hcp : d.container p <;> simp
    · simp [hc]

/-! ## the pretty branch of `Document.save` on the package model (`OdfModel/Package.lean`: lazy container, manifest,
manifest.rdf reconciliation, parsed parts) — `pp` is ANY pretty serialiser -/
section package
open Odf.Pkg

/-- **what a pretty save writes**, name for name: what the plain save writes, passed through the pretty serialiser when the
    part is parsed or is one of the four standard parts, untouched otherwise -/
theorem pretty_save_writes (pp : Blob → Blob) (d : Pkg.Doc) (rdf : Blob) (h : WFd d) (m : Nat) :
    look (d.savePretty pp rdf).2 m =
      if (look (d.prepared rdf).parsed m).isSome ∨ m ∈ Pkg.stdParts then (look (d.save rdf).2 m).map pp
      else look (d.save rdf).2 m := by
  rw [savePretty_written pp d rdf h m, save_written d rdf h m]

/-- **packaging / pretty change the layout only — never the list of parts**: a name is written by the pretty save exactly
    when the plain save writes it (no part is lost, none is invented: an optional part the package does not have stays absent) -/
theorem pretty_save_same_parts (pp : Blob → Blob) (d : Pkg.Doc) (rdf : Blob) (h : WFd d) (m : Nat) :
    look (d.savePretty pp rdf).2 m = none ↔ look (d.save rdf).2 m = none := by
  rw [pretty_save_writes pp d rdf h m]
  split <;> simp

/-- … and each part is the one the plain save writes, as it is or pretty-printed -/
theorem pretty_save_layout_only (pp : Blob → Blob) (d : Pkg.Doc) (rdf : Blob) (h : WFd d) (m : Nat) (b : Blob)
    (hb : look (d.save rdf).2 m = some b) :
    look (d.savePretty pp rdf).2 m = some b ∨ look (d.savePretty pp rdf).2 m = some (pp b) := by
  rw [pretty_save_writes pp d rdf h m, hb]
  split <;> simp

/-- pictures and every other part that is neither parsed nor standard are written byte for byte -/
theorem pretty_save_other_parts_untouched (pp : Blob → Blob) (d : Pkg.Doc) (rdf : Blob) (h : WFd d) (m : Nat)
    (hp : look (d.prepared rdf).parsed m = none) (hs : m ∉ Pkg.stdParts) :
    look (d.savePretty pp rdf).2 m = look (d.save rdf).2 m := by
  rw [pretty_save_writes pp d rdf h m]
  simp [hp, hs]

/-- with a serialiser that changes nothing the pretty save writes the plain save -/
theorem pretty_save_with_identity (d : Pkg.Doc) (rdf : Blob) (h : WFd d) (m : Nat) :
    look (d.savePretty id rdf).2 m = look (d.save rdf).2 m := by
  rw [pretty_save_writes id d rdf h m]
  split <;> simp

/-! non-vacuity: a package opened by path WITHOUT settings.xml (name 4), a picture (name 9), content edited; `pp` marks what it
    touches: content / meta / styles come out pretty, the picture and the mimetype as they are, settings.xml stays absent -/
example :
    let pp : Blob → Blob := fun b => match b with | .raw k => .raw (k + 100) | b => b
    let d := (Pkg.Doc.ofPath [(0, .raw 1), (1, .man [(2, 1), (3, 1), (5, 1), (9, 2)]), (2, .raw 2), (3, .raw 3), (5, .raw 5), (9, .raw 9)]).edit 2 (.raw 7)
    ((d.savePretty pp (.raw 66)).2.map (fun p => (p.1, match p.2 with | .raw k => k | .man _ => 0))) =
      [(0, 1), (2, 107), (3, 103), (1, 0), (5, 105), (9, 9)] := by decide +kernel

end package

/-! non-vacuity: a paragraph ending with a text:s inside a note inside a paragraph -/
example : wfB false (.node "office:text" 0 [] (.node "text:p" 1 "a ".toList
    (.node "text:note" 2 [] (.node "text:note-body" 3 [] (.node "text:p" 4 "n".toList (.node "text:s" 1 [] .nil [] .nil) [] .nil) [] .nil) [] .nil)
    [] .nil) [] .nil) = true := by decide +kernel
example : readAll (prettyRoot (.node "text:p" 1 "a".toList (.node "text:s" 2 [] .nil [] .nil) [] .nil)) = ["a  ".toList] := by
  decide +kernel
-- white space after a text:s in the MIDDLE of a paragraph would be read: the rule "only after the last child" matters
example : Ws.collapse [.str "a".toList, .s 1, .str (indent 1), .str "b".toList] ≠ Ws.collapse [.str "a".toList, .s 1, .str [], .str "b".toList] := by
  decide +kernel

end Odf.C11
