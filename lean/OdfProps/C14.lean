import OdfProofs.XPathLit

/-!
# C14 — anything is found again under the name it was given, whatever the name contains

Every lookup by name builds `…[@attr=<literal>]` with `xpath_literal`.  XPath 1.0 string
literals have no escape sequence, so the identifier must be quoted with the other kind of
quote, or split with `concat(…)`.  Model: `OdfModel/XPathLit.lean` (the helper, and the XPath
evaluation of `Literal` / `concat(Literal, …)`, which the correspondence compares with lxml).
-/
namespace Odf.C14
open Odf.XPathLit

/-- **for every identifier** — any characters, any quotes, any length — the literal built by
    `xpath_literal` is well formed and evaluates to exactly that identifier: the predicate
    `[@attr=literal]` therefore holds of an element iff its attribute equals the identifier
    (no query error, no match with a different identifier) -/
theorem literal_total (v : List Char) : evalExpr (xpathLiteral v) = some v := by
  unfold xpathLiteral
  by_cases h1 : '"' ∉ v
  · rw [if_pos h1]
    unfold evalExpr
    have hnp : ("concat(".toList.isPrefixOf (['"'] ++ v ++ ['"'])) = false := by
      simp [List.isPrefixOf]
    rw [hnp]
    have := parseLiteral_quoted '"' (Or.inl rfl) v [] h1
    simp only [List.append_nil] at this
    simp only [Bool.false_eq_true, if_false, this]
  · rw [if_neg h1]
    by_cases h2 : '\'' ∉ v
    · rw [if_pos h2]
      unfold evalExpr
      have hnp : ("concat(".toList.isPrefixOf (['\''] ++ v ++ ['\''])) = false := by
        simp [List.isPrefixOf]
      rw [hnp]
      have := parseLiteral_quoted '\'' (Or.inr rfl) v [] h2
      simp only [List.append_nil] at this
      simp only [Bool.false_eq_true, if_false, this]
    · rw [if_neg h2]
      unfold evalExpr
      have hc : ("concat(" : String).toList = ['c', 'o', 'n', 'c', 'a', 't', '('] := by decide
      have hp : ("concat(".toList.isPrefixOf ("concat(".toList ++ joinParts (splitQ v) ++ [')'])) = true := by
        rw [hc]; simp [List.isPrefixOf]
      rw [hp]
      simp only [if_true]
      have hd : ("concat(".toList ++ joinParts (splitQ v) ++ [')']).drop 7 = joinParts (splitQ v) ++ [')'] := by
        rw [hc]; simp
      rw [hd, parseArgs_join (splitQ v) (splitQ_ne_nil v) (splitQ_noquote v) _ ?_, joinQ_splitQ]
      -- enough fuel: every part costs at least two characters of the expression
      have hlen : ∀ ps : List (List Char), ps ≠ [] → 2 * ps.length ≤ (joinParts ps).length := by
        intro ps
        induction ps with
        | nil => intro h; exact absurd rfl h
        | cons p t ih =>
          intro _
          cases t with
          | nil => simp [joinParts]
          | cons q qs =>
            have := ih (by simp)
            have hsep : (", '\"', " : String).toList.length = 7 := by decide
            simp only [joinParts, List.length_append, List.length_cons, List.length_nil, hsep] at this ⊢
            omega
      have := hlen (splitQ v) (splitQ_ne_nil v)
      simp only [List.length_append]
      omega

/-- two different identifiers never satisfy each other's predicate -/
theorem literal_injective (v w : List Char) (h : xpathLiteral v = xpathLiteral w) : v = w := by
  have h1 := literal_total v
  have h2 := literal_total w
  rw [h] at h1
  rw [h1] at h2
  exact Option.some.inj h2

/-! ## the lookup itself: among elements carrying any identifiers, the one stored under `v` and only it -/

theorem firstIdx_spec (w : List Char) (names : List (List Char)) (i0 : Nat) :
    (∀ i, firstIdx w names i0 = some i →
      i0 ≤ i ∧ names[i - i0]? = some w ∧ ∀ j, j < i - i0 → names[j]? ≠ some w) ∧
    (firstIdx w names i0 = none → w ∉ names) := by
  induction names generalizing i0 with
  | nil => simp [firstIdx]
  | cons n ns ih =>
    unfold firstIdx
    by_cases h : n = w
    · subst h
      simp only [if_true, Option.some.injEq]
      refine ⟨?_, by simp⟩
      intro i hi; subst hi
      simp
    · simp only [if_neg h]
      obtain ⟨ih1, ih2⟩ := ih (i0 + 1)
      refine ⟨?_, ?_⟩
      · intro i hi
        obtain ⟨h1, h2, h3⟩ := ih1 i hi
        have e : i - i0 = (i - (i0 + 1)) + 1 := by omega
        refine ⟨by omega, ?_, ?_⟩
        · rw [e, List.getElem?_cons_succ]; exact h2
        · intro j hj
          cases j with
          | zero => simpa using h
          | succ j => rw [List.getElem?_cons_succ]; exact h3 j (by omega)
      · intro hn
        have := ih2 hn
        simp only [List.mem_cons, not_or]
        exact ⟨fun e => h e.symm, this⟩

/-- **never an internal query error**, whatever the identifier and whatever the document holds -/
theorem lookup_never_errors (names : List (List Char)) (v : List Char) : selectByName names v ≠ .error := by
  unfold selectByName
  rw [literal_total]
  simp only
  split <;> simp

/-- **only it**: what a lookup returns carries exactly the identifier asked for — never an object with a different
    identifier — and it is the first such object of the document -/
theorem lookup_returns_only_the_named (names : List (List Char)) (v : List Char) (i : Nat)
    (h : selectByName names v = .at i) : names[i]? = some v ∧ ∀ j, j < i → names[j]? ≠ some v := by
  unfold selectByName at h
  rw [literal_total] at h
  simp only at h
  split at h
  · cases h
  · rename_i k hk
    cases h
    have := (firstIdx_spec v names 0).1 i hk
    simpa using this.2

/-- **found again**: an object stored under `v` (at any place, among objects with any other identifiers) is found -/
theorem lookup_finds_the_stored (names : List (List Char)) (v : List Char) (h : v ∈ names) :
    ∃ i, selectByName names v = .at i ∧ names[i]? = some v := by
  unfold selectByName
  rw [literal_total]
  simp only
  cases hk : firstIdx v names 0 with
  | none => exact absurd h ((firstIdx_spec v names 0).2 hk)
  | some i =>
    refine ⟨i, rfl, ?_⟩
    have := (firstIdx_spec v names 0).1 i hk
    simpa using this.2.1

/-- … and a name nothing was stored under finds nothing -/
theorem lookup_absent (names : List (List Char)) (v : List Char) (h : v ∉ names) : selectByName names v = .nothing := by
  unfold selectByName
  rw [literal_total]
  simp only
  cases hk : firstIdx v names 0 with
  | none => rfl
  | some i =>
    have := ((firstIdx_spec v names 0).1 i hk).2.1
    exact absurd (List.mem_of_getElem? this) h

example : selectByName ["a\"b".toList, "a'b".toList, "a\"b'c".toList, "a\"b'c".toList] "a\"b'c".toList = .at 2 := by decide +kernel
example : selectByName ["a\"b".toList, "x\" or \"1\"=\"1".toList] "x".toList = .nothing := by decide +kernel

/-- the old way (`"` + value + `"`) is a syntax error or another string as soon as the value
    holds a double quote: the theorem above is not trivial -/
example : evalExpr ("\"a\"b\"".toList) = none := by decide +kernel
example : xpathLiteral "a\"b'c".toList = "concat(\"a\", '\"', \"b'c\")".toList := by decide +kernel
example : evalExpr (xpathLiteral "it's \"quoted\"".toList) = some "it's \"quoted\"".toList := by decide +kernel

end Odf.C14
