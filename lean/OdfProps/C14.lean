import OdfProofs.XPathLit

/-!
# C14 — anything is found again under the name it was given, whatever the name contains

Every lookup by name builds `…[@attr=<literal>]` with `xpath_literal`.  XPath 1.0 string
literals have no escape sequence, so the identifier must be quoted with the other kind of
quote, or split with `concat(…)`.  Model: `OdfModel/XPathLit.lean` (the helper, and the XPath
evaluation of `Literal` / `concat(Literal, …)`, which the correspondence compares with lxml).
-/
namespace Odf.C14
open Odf.XPathLit

/-- **for every identifier** — any characters, any quotes, any length — the literal built by
    `xpath_literal` is well formed and evaluates to exactly that identifier: the predicate
    `[@attr=literal]` therefore holds of an element iff its attribute equals the identifier
    (no query error, no match with a different identifier) -/
theorem literal_total (v : List Char) : evalExpr (xpathLiteral v) = some v := by
  unfold xpathLiteral
  by_cases h1 : '"' ∉ v
  · rw [if_pos h1]
    unfold evalExpr
    have hnp : ("concat(".toList.isPrefixOf (['"'] ++ v ++ ['"'])) = false := by
      simp [List.isPrefixOf]
    rw [hnp]
    have := parseLiteral_quoted '"' (Or.inl rfl) v [] h1
    simp only [List.append_nil] at this
    simp only [Bool.false_eq_true, if_false, this]
  · rw [if_neg h1]
    by_cases h2 : '\'' ∉ v
    · rw [if_pos h2]
      unfold evalExpr
      have hnp : ("concat(".toList.isPrefixOf (['\''] ++ v ++ ['\''])) = false := by
        simp [List.isPrefixOf]
      rw [hnp]
      have := parseLiteral_quoted '\'' (Or.inr rfl) v [] h2
      simp only [List.append_nil] at this
      simp only [Bool.false_eq_true, if_false, this]
    · rw [if_neg h2]
      unfold evalExpr
      have hc : ("concat(" : String).toList = ['c', 'o', 'n', 'c', 'a', 't', '('] := by decide
      have hp : ("concat(".toList.isPrefixOf ("concat(".toList ++ joinParts (splitQ v) ++ [')'])) = true := by
        rw [hc]; simp [List.isPrefixOf]
      rw [hp]
      simp only [if_true]
      have hd : ("concat(".toList ++ joinParts (splitQ v) ++ [')']).drop 7 = joinParts (splitQ v) ++ [')'] := by
        rw [hc]; simp
      rw [hd, parseArgs_join (splitQ v) (splitQ_ne_nil v) (splitQ_noquote v) _ ?_, joinQ_splitQ]
      -- enough fuel: every part costs at least two characters of the expression
      have hlen : ∀ ps : List (List Char), ps ≠ [] → 2 * ps.length ≤ (joinParts ps).length := by
        intro ps
        induction ps with
        | nil => intro h; exact absurd rfl h
        | cons p t ih =>
          intro _
          cases t with
          | nil => simp [joinParts]
          | cons q qs =>
            have := ih (by simp)
            have hsep : (", '\"', " : String).toList.length = 7 := by decide
            simp only [joinParts, List.length_append, List.length_cons, List.length_nil, hsep] at this ⊢
            omega
      have := hlen (splitQ v) (splitQ_ne_nil v)
      simp only [List.length_append]
      omega

/-- two different identifiers never satisfy each other's predicate -/
theorem literal_injective (v w : List Char) (h : xpathLiteral v = xpathLiteral w) : v = w := by
  have h1 := literal_total v
  have h2 := literal_total w
  rw [h] at h1
  rw [h1] at h2
  exact Option.some.inj h2

/-- the old way (`"` + value + `"`) is a syntax error or another string as soon as the value
    holds a double quote: the theorem above is not trivial -/
example : evalExpr ("\"a\"b\"".toList) = none := by decide +kernel
example : xpathLiteral "a\"b'c".toList = "concat(\"a\", '\"', \"b'c\")".toList := by decide +kernel
example : evalExpr (xpathLiteral "it's \"quoted\"".toList) = some "it's \"quoted\"".toList := by decide +kernel

end Odf.C14
