import OdfProofs.Traverse
import OdfProofs.TableHist
import OdfProofs.Heap

/-!
# C08 — table getters return correctly addressed, expanded, detached copies

What a model can carry: the *addressing* and *expansion* clauses.  Model:
`OdfModel/Traverse.lean` (the two branches of `Row.traverse`, `Table._yield_odf_rows`) and
`getValue` of `OdfModel/Table.lean`.
"detached" (mutating a returned object changes nothing) is about object identity: a pure model
has no aliasing to get wrong.  It is carried by the ownership heap of `OdfModel/Heap.lean` (the
model of C10): the table is owner 0, every object a getter returns is an owner of its own, born
with fresh objects only; a modification of a returned object is a sequence of `alloc` / `write`
steps of that owner.  The theorems below are about every such history; the correspondence walks
the live Python objects (wrappers, their dicts and lists, lxml trees) after the read and after
each modification and replays what it saw on the model (`hp`), which refuses a step that
changes an object of another owner and has no object with two owners.
-/
namespace Odf.C08
open Odf.Rle Odf.Table Odf.Grid

/-- `Row.traverse()`: the k-th yielded cell is addressed `x = k`, holds the k-th cell of the
    expanded row, and carries no repeat count -/
theorem row_traverse (r : RowObj) (h : MapOk r) :
    (rowTraverseAll r).map (·.1) = List.range (rowWidth r) ∧
    (rowTraverseAll r).map (·.2.1) = expand r.runs ∧
    ∀ p ∈ rowTraverseAll r, p.2.2 = none := rowTraverseAll_ok r h

/-- `Row.traverse(start, end)` / `get_cells(coord)` / `Table.get_cells(area)`: no yielded cell
    carries a repeat count, wherever the range starts (also on the last position of a run) -/
theorem row_traverse_range_norepeat (r : RowObj) (h : MapOk r) (start : Nat) (end_ : Option Nat) :
    ∀ p ∈ rowTraverseRange r start end_, p.2.2 = none := rowTraverseRange_norepeat r h start end_

/-- `Table.traverse` / `rows` / `get_rows`: one row per repetition, in order -/
theorem table_rows_expanded (t : Tbl) (h : Inv t) : yieldOdfRows t.rows.runs = expand t.rows.runs :=
  yieldOdfRows_ok _ h.rows.2

/-- **`Table.traverse(start, end)`** (behind `get_rows`, `get_values`, `iter_values`, `get_cells` with coordinates): what is
    yielded is addressed `y` inside the bounds, is the `y`-th row of the expanded table — also when the range begins strictly
    inside a repeated run — and carries no repeat count … -/
theorem table_traverse_range_sound (t : Tbl) (h : Inv t) (start : Nat) (end_ : Option Nat) (y : Nat) (d : RowD) (r : Option Nat)
    (hm : (y, d, r) ∈ tableTraverse t start end_) :
    start ≤ y ∧ (∀ e, end_ = some e → y ≤ e) ∧ r = none ∧ (expand t.rows.runs)[y]? = some d := by
  unfold tableTraverse at hm
  rw [yieldOdfRows_ok _ h.rows.2] at hm
  simp only [List.mem_filter, List.mem_map, Bool.and_eq_true, decide_eq_true_eq] at hm
  obtain ⟨⟨p, hp, he⟩, hs, hb⟩ := hm
  obtain ⟨pd, pi⟩ := p
  simp only [Prod.mk.injEq] at he
  obtain ⟨rfl, rfl, rfl⟩ := he
  have hz := List.mem_zipIdx hp
  refine ⟨hs, ?_, rfl, ?_⟩
  · intro e he; subst he; simpa using hb
  · simp only [Nat.zero_le, Nat.sub_zero, true_and, Nat.zero_add] at hz
    rw [List.getElem?_eq_getElem hz.1]
    exact congrArg some hz.2.symm

/-- … every row of the table inside the bounds is yielded, and in increasing order of `y` (each once) -/
theorem table_traverse_range_complete (t : Tbl) (h : Inv t) (start : Nat) (end_ : Option Nat) (y : Nat) (d : RowD)
    (hs : start ≤ y) (he : ∀ e, end_ = some e → y ≤ e) (hd : (expand t.rows.runs)[y]? = some d) :
    (y, d, none) ∈ tableTraverse t start end_ ∧
    (tableTraverse t start end_).Pairwise (fun a b => a.1 < b.1) := by
  unfold tableTraverse
  rw [yieldOdfRows_ok _ h.rows.2]
  constructor
  · simp only [List.mem_filter, List.mem_map, Bool.and_eq_true, decide_eq_true_eq]
    refine ⟨⟨(d, y), ?_, rfl⟩, hs, ?_⟩
    · rw [List.mk_mem_zipIdx_iff_getElem?]; simpa using hd
    · cases end_ with
      | none => rfl
      | some e => simpa using he e rfl
  · apply List.Pairwise.filter
    rw [List.pairwise_map]
    have := List.pairwise_lt_range' (s := 0) (n := (expand t.rows.runs).length) (step := 1)
    -- the indices of zipIdx are 0, 1, 2, …
    have hz : ((expand t.rows.runs).zipIdx).map (·.2) = List.range' 0 (expand t.rows.runs).length := by
      rw [List.zipIdx_map_snd]
    have hp : (((expand t.rows.runs).zipIdx).map (·.2)).Pairwise (· < ·) := by rw [hz]; exact List.pairwise_lt_range'
    rw [List.pairwise_map] at hp
    exact hp

/-- `get_value` / `get_cell` address the cell they are asked for, for every integer
    coordinate; outside the populated area the answer is the empty cell (nothing fails,
    nothing grows) -/
theorem get_value_addressed (t : Tbl) (h : Inv t) (x y : Int) :
    getValue t x y = Grid.getValue (absT t) x y := getValue_ok t h x y

theorem get_value_outside (t : Tbl) (h : Inv t) (x y : Int)
    (hy : Grid.height (absT t) ≤ Grid.norm y (Grid.height (absT t))) : getValue t x y = 0 := by
  rw [getValue_ok t h]
  unfold Grid.getValue
  simp only
  rw [getD_of_length_le (absT t).rows _ [] hy]
  rfl

/-! ## detached copies (ownership heap) -/
section heap
open Odf.Heap
variable {V : Type}

/-- **modifying returned objects never changes the table**: after any history of modifications of
    returned objects (no step applied to the table, owner 0), every mutable object of the table
    holds what it held -/
theorem returned_copies_detached (mods : List (Op V)) (w w' : World V)
    (h : Heap.run w mods = some w') (hno : ∀ op ∈ mods, op.target ≠ 0) : cellsOf w' 0 = cellsOf w 0 := by
  obtain ⟨w2, hr, he⟩ := run_sim mods 0 w w w' rfl h
  have : own 0 mods = [] := by
    simp only [own, List.filter_eq_nil_iff]
    intro op hop; simpa using hno op hop
  rw [this] at hr
  simp only [Heap.run, Option.some.injEq] at hr
  subst hr; exact he

/-- … nor any other returned object: what returned object `j` holds depends on the modifications
    applied to `j` only, whatever was done to the others and to the table in between -/
theorem returned_copies_independent (ops : List (Op V)) (j : Nat) (w w' : World V) (h : Heap.run w ops = some w') :
    ∃ w'', Heap.run w (own j ops) = some w'' ∧ cellsOf w'' j = cellsOf w' j := by
  obtain ⟨w2, hr, he⟩ := run_sim ops j w w w' rfl h
  exact ⟨w2, hr, he.symm⟩

/-- **the whole read**: a read (steps of the table: it may fill its caches), the birth of the
    returned objects and any modifications of them leave the table as the read alone leaves it -/
theorem read_then_modify (read rest : List (Op V)) (w w' : World V)
    (hread : ∀ op ∈ read, op.target = 0) (hrest : ∀ op ∈ rest, op.target ≠ 0)
    (h : Heap.run w (read ++ rest) = some w') :
    ∃ w1, Heap.run w read = some w1 ∧ cellsOf w' 0 = cellsOf w1 0 := by
  obtain ⟨w2, hr, he⟩ := run_sim (read ++ rest) 0 w w w' rfl h
  have : own 0 (read ++ rest) = read := by
    simp only [own, List.filter_append]
    have h1 : read.filter (fun op => op.target == 0) = read := by
      rw [List.filter_eq_self]; intro op hop; simpa using hread op hop
    have h2 : rest.filter (fun op => op.target == 0) = [] := by
      rw [List.filter_eq_nil_iff]; intro op hop; simpa using hrest op hop
    rw [h1, h2, List.append_nil]
  rw [this] at hr
  exact ⟨w2, hr, he⟩

/-- **until it is pushed back**: if the table's objects differ after a history, the history holds
    a step applied to the table itself (a `set_…` call) -/
theorem table_changes_only_by_table_steps (ops : List (Op V)) (w w' : World V)
    (h : Heap.run w ops = some w') (hd : cellsOf w' 0 ≠ cellsOf w 0) : ∃ op ∈ ops, op.target = 0 := by
  apply Classical.byContradiction
  intro hc
  exact hd (returned_copies_detached ops w w' h (fun op hop ht => hc ⟨op, hop, ht⟩))

/-! non-vacuity: a table with three objects; a read fills a cache (alloc 0) and returns two rows
    (owners 1, 2) born with two objects each; both are modified; the table is as after the read -/
example :
    let ops : List (Op Nat) := [.alloc 0 [10, 11, 12], .alloc 0 [13], .alloc 1 [20, 21], .alloc 2 [20, 21],
                                .write 1 0 99, .write 2 1 77, .alloc 1 [5]]
    (Heap.run [] ops).map (fun w => (cellsOf w 0, cellsOf w 1, cellsOf w 2)) = some ([10, 11, 12, 13], [99, 21, 5], [20, 77]) := by
  decide +kernel
/-- a live object handed out instead of a copy needs a step the model does not have: returned object 1
    has one object, a write to a second one (the table's) is refused -/
example : Heap.run ([] : World Nat) [.alloc 0 [10], .alloc 1 [10], .write 1 1 99] = none := by decide +kernel

end heap

/-! non-vacuity: a table of 3 + 2 + 1 rows read from the middle of the first repeated run to the middle of the second -/
example :
    tableTraverse (Odf.Table.parse [(0, 2)] [([(7, 2)], 3), ([(8, 1), (9, 1)], 2), ([(5, 2)], 1)]) 1 (some 3) =
      [(1, [(7, 2)], none), (2, [(7, 2)], none), (3, [(8, 1), (9, 1)], none)] := by decide +kernel

/-! non-vacuity: a repeated run read from its last position -/
example : rowTraverseRange (rowObj [(1, 1), (7, 3), (2, 1)]) 3 (some 4) = [(3, 7, none), (4, 2, none)] := by
  decide +kernel
example : rowTraverseAll (rowObj [(1, 2), (7, 1)]) = [(0, 1, none), (1, 1, none), (2, 7, none)] := by decide +kernel

end Odf.C08
