import OdfProofs.Traverse
import OdfProofs.TableHist

/-!
# C08 — table getters return correctly addressed, expanded, detached copies

What a model can carry: the *addressing* and *expansion* clauses.  Model:
`OdfModel/Traverse.lean` (the two branches of `Row.traverse`, `Table._yield_odf_rows`) and
`getValue` of `OdfModel/Table.lean`.
PARTIAL: "detached" (mutating a returned object changes nothing) is about object identity; a
pure model has no aliasing to get wrong, so that clause is decided by the correspondence run
only (every getter, every mutation of the returned object, table serialisation before/after).
-/
namespace Odf.C08
open Odf.Rle Odf.Table Odf.Grid

/-- `Row.traverse()`: the k-th yielded cell is addressed `x = k`, holds the k-th cell of the
    expanded row, and carries no repeat count -/
theorem row_traverse (r : RowObj) (h : MapOk r) :
    (rowTraverseAll r).map (·.1) = List.range (rowWidth r) ∧
    (rowTraverseAll r).map (·.2.1) = expand r.runs ∧
    ∀ p ∈ rowTraverseAll r, p.2.2 = none := rowTraverseAll_ok r h

/-- `Row.traverse(start, end)` / `get_cells(coord)` / `Table.get_cells(area)`: no yielded cell
    carries a repeat count, wherever the range starts (also on the last position of a run) -/
theorem row_traverse_range_norepeat (r : RowObj) (h : MapOk r) (start : Nat) (end_ : Option Nat) :
    ∀ p ∈ rowTraverseRange r start end_, p.2.2 = none := rowTraverseRange_norepeat r h start end_

/-- `Table.traverse` / `rows` / `get_rows`: one row per repetition, in order -/
theorem table_rows_expanded (t : Tbl) (h : Inv t) : yieldOdfRows t.rows.runs = expand t.rows.runs :=
  yieldOdfRows_ok _ h.rows.2

/-- `get_value` / `get_cell` address the cell they are asked for, for every integer
    coordinate; outside the populated area the answer is the empty cell (nothing fails,
    nothing grows) -/
theorem get_value_addressed (t : Tbl) (h : Inv t) (x y : Int) :
    getValue t x y = Grid.getValue (absT t) x y := getValue_ok t h x y

theorem get_value_outside (t : Tbl) (h : Inv t) (x y : Int)
    (hy : Grid.height (absT t) ≤ Grid.norm y (Grid.height (absT t))) : getValue t x y = 0 := by
  rw [getValue_ok t h]
  unfold Grid.getValue
  simp only
  rw [getD_of_length_le (absT t).rows _ [] hy]
  rfl

/-! non-vacuity: a repeated run read from its last position -/
example : rowTraverseRange (rowObj [(1, 1), (7, 3), (2, 1)]) 3 (some 4) = [(3, 7, none), (4, 2, none)] := by
  decide +kernel
example : rowTraverseAll (rowObj [(1, 2), (7, 1)]) = [(0, 1, none), (1, 1, none), (2, 7, none)] := by decide +kernel

end Odf.C08
