import OdfModel.Registry
import OdfModel.Gen.Ctors

/-!
# C12 — every element class round-trips through XML and comes back as the same class

Model: `OdfModel/Registry.lean` — the dispatch of `Element.from_tag` over the table DUMPED from
the live registry at every run (`Gen/Registry.lean`: lxml tag, class, the tag the class declares
as its own), and the generic attribute getter / setter behind every `PropDef` property.
The constructors (89 classes): `Gen/Ctors.lean` is regenerated at every run from the AST of every
constructor — for each parameter that has a generic attribute property of the same name, whether the
constructor stores the parameter in that property (directly, through a method of the class, or by
forwarding it to a base constructor that does); `ctor_params_stored` is re-decided over the whole table.
That the stored value is then what the property reports is `propdef_roundtrip`; what a constructor does
with the other parameters (children, text, computed attributes) is decided by the harness (type-directed
arguments, re-parse), as DESIGN.md says (PARTIAL).
-/
namespace Odf.C12
open Odf.Registry

/-- **generic properties**: what is written is what is read back, for every value, except that the
    two strings "true" and "false" come back as booleans (known finding C14-F3) -/
theorem propdef_roundtrip (v : PV) : getAttr (setAttr v) = norm v := by
  cases v with
  | none => rfl
  | bool b => cases b <;> decide
  | str s =>
    simp only [setAttr, getAttr, norm]

theorem propdef_identity (v : PV) (h1 : v ≠ .str "true".toList) (h2 : v ≠ .str "false".toList) :
    getAttr (setAttr v) = v := by
  rw [propdef_roundtrip]
  cases v with
  | none => rfl
  | bool b => rfl
  | str s =>
    have e1 : s ≠ "true".toList := fun e => h1 (by rw [e])
    have e2 : s ≠ "false".toList := fun e => h2 (by rw [e])
    show (if s = "true".toList then PV.bool true else if s = "false".toList then PV.bool false else PV.str s) = PV.str s
    rw [if_neg e1, if_neg e2]

/-- `None` deletes the attribute, and a deleted attribute reads `None` -/
theorem propdef_none : setAttr .none = none ∧ getAttr none = .none := ⟨rfl, rfl⟩

/-- a boolean is stored as the ODF lexical form and read back as a boolean -/
theorem propdef_bool (b : Bool) :
    setAttr (.bool b) = some (if b then "true".toList else "false".toList) ∧ getAttr (setAttr (.bool b)) = .bool b := by
  cases b <;> exact ⟨rfl, by decide⟩

/-- **the registry is a function**: no tag is registered twice (tags are numbered by the dump) -/
theorem registry_is_a_function : (Odf.Gen.registry.map (·.1)).Nodup := by decide +kernel

/-- **every registered class is what its own tag dispatches to**: parsing an instance of the class
    (whose tag is the class's `_tag`) gives that class back — for all classes of the live registry -/
theorem every_class_dispatches_to_itself :
    ∀ r ∈ Odf.Gen.registry, r.2.2 ≠ 0 → classOf r.2.2 = r.2.1 := by decide +kernel

/-- every tag of the registry dispatches to the class registered for it -/
theorem dispatch_follows_registry : ∀ r ∈ Odf.Gen.registry, classOf r.1 = r.2.1 := by decide +kernel

/-- an unknown tag falls back to the base class -/
theorem unknown_tag_is_element : classOf 0 = 0 ∧ className 0 = "Element" := by decide +kernel

/-- the Element subclasses the package exports without registering them are exactly the base
    classes and TabStopStyle (dispatched to Style through its tag list) -/
theorem unregistered_are_known : Odf.Gen.unregistered = ["Element", "ElementTyped", "TabStopStyle"] := by decide +kernel

/-- **no constructor argument is dropped or stored under another name**: every constructor parameter
    that has a generic attribute property of the same name is stored in that property (table regenerated
    from the constructors' AST at every run; found BackgroundImage(repeat / opacity / filter), fix C12-F7) -/
theorem ctor_params_stored : ∀ r ∈ Odf.Gen.ctorParams, r.2.2 = true := by decide +kernel

/-- the table is not empty: the statement above speaks of more than a hundred (class, parameter) pairs -/
theorem ctor_table_covers : 100 ≤ Odf.Gen.ctorParams.length := by decide +kernel

end Odf.C12
