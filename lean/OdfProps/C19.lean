import OdfProofs.Coord
import OdfProofs.Addr

/-!
# C19 — all ways of addressing cells agree; written addresses parse back to themselves

Property theorems only. Model: `OdfModel/Coord.lean` (transcription of
`src/odfdo/utils/coordinates.py`). Every statement is for *all* naturals / all words,
no bound on column number, row number or word length.
-/
namespace Odf.C19
open Odf.Coord Odf.Addr

/-- letters → number → letters is the identity: `alpha_to_digit(digit_to_alpha(n)) == n`
    for every column number. -/
theorem bijection_left (n : Nat) : alphaToDigit (digitToAlpha n) = n := by
  unfold alphaToDigit digitToAlpha
  rw [toAlphaAux_val]
  simp [alphaVal]

/-- `digit_to_alpha` produces a non-empty word of letters A..Z (digits 0..25). -/
theorem digitToAlpha_wf (n : Nat) :
    digitToAlpha n ≠ [] ∧ ∀ l ∈ digitToAlpha n, l < 26 :=
  ⟨toAlphaAux_ne_nil _ _ (Or.inl (by omega)), toAlphaAux_lt26 _ _ (by simp)⟩

/-- number → letters → number, the other direction: every non-empty word over A..Z is
    the name of exactly the column it decodes to. -/
theorem bijection_right (ls : List Nat) (hne : ls ≠ []) (h : ∀ l ∈ ls, l < 26) :
    digitToAlpha (alphaToDigit ls) = ls := by
  unfold alphaToDigit digitToAlpha
  have := alphaVal_pos ls hne
  rw [show alphaVal ls - 1 + 1 = alphaVal ls by omega]
  exact toAlphaAux_alphaVal ls h

/-- the same at the character level (`chr(65+…)`, `ord(c.lower()) - ord('a') + 1`). -/
theorem bijection_left_str (n : Nat) : alphaToDigitStr (digitToAlphaStr n) = n := by
  unfold alphaToDigitStr digitToAlphaStr
  rw [map_letterDigit_letterOf _ (digitToAlpha_wf n).2]
  exact bijection_left n

/-- distinct column numbers have distinct names (injectivity, a corollary). -/
theorem digitToAlpha_injective (m n : Nat) (h : digitToAlpha m = digitToAlpha n) : m = n := by
  have := congrArg alphaToDigit h
  simpa [bijection_left] using this

theorem parseInt_digits (ds : List Nat) (hne : ds ≠ []) (h : ∀ d ∈ ds, d < 10) :
    parseInt (ds.map digitChar) = some (decVal ds : Int) := by
  cases ds with
  | nil => exact absurd rfl hne
  | cons d t =>
    have hd := h d (by simp)
    have hs := not_sign_digitChar d hd
    have hall : ((d :: t).map digitChar).all isDigit = true := by
      simp only [List.all_eq_true, List.mem_map]
      rintro c ⟨k, hk, rfl⟩
      exact isDigit_digitChar k (h k hk)
    have hmap := map_charDigit_digitChar (d :: t) h
    simp only [List.map_cons] at hall ⊢
    unfold parseInt
    split
    · rename_i heq; simp at heq
    · rename_i heq; simp at heq; exact absurd heq.1 hs.1
    · rename_i heq; simp at heq; exact absurd heq.1 hs.2
    · rw [if_pos hall]
      simp only [← List.map_cons]
      rw [hmap]

/-- `int(str(n)) == n` on the model's decimal conversion. -/
theorem int_roundtrip (n : Nat) : parseInt (natToStr n) = some (n : Int) := by
  unfold natToStr
  rw [parseInt_digits _ (toDec_ne_nil n) (toDec_lt10 n), decVal_toDec]

theorem convertOne_format (x y : Nat) :
    convertOne (formatCell x y) = .ok (some x, some (y : Int)) := by
  have hA := digitToAlpha_wf x
  have hD10 := toDec_lt10 (y + 1)
  have hDne := toDec_ne_nil (y + 1)
  have htake : (formatCell x y).takeWhile isAsciiAlpha = digitToAlphaStr x := by
    unfold formatCell
    apply takeWhile_append_stop
    · intro c hc
      simp only [digitToAlphaStr, List.mem_map] at hc
      obtain ⟨k, hk, rfl⟩ := hc
      exact isAsciiAlpha_letterOf k (hA.2 k hk)
    · intro c hc
      unfold natToStr at hc
      cases hds : toDec (y + 1) with
      | nil => exact absurd hds hDne
      | cons d t =>
        rw [hds] at hc
        simp at hc
        subst hc
        exact not_alpha_digitChar d (hD10 d (by simp [hds]))
  have hne : digitToAlphaStr x ≠ [] := by
    simp [digitToAlphaStr, hA.1]
  unfold convertOne
  simp only [htake]
  have hdrop : List.drop (digitToAlphaStr x).length (formatCell x y) = natToStr (y + 1) := by
    simp [formatCell]
  have hnb : ∀ c ∈ natToStr (y + 1), isBlank c = false := by
    intro c hc
    simp only [natToStr, List.mem_map] at hc
    obtain ⟨k, hk, rfl⟩ := hc
    exact not_blank_digitChar k (hD10 k hk)
  rw [hdrop, strip_id _ hnb, int_roundtrip, if_neg hne, bijection_left_str]
  simp only [Option.map_some]
  have : ((y + 1 : Nat) : Int) - 1 = (y : Int) := by omega
  rw [this]
  split
  · rename_i h; omega
  · rfl

theorem formatCell_clean (x y : Nat) :
    (∀ c ∈ formatCell x y, isBlank c = false) ∧ (∀ c ∈ formatCell x y, (c != ':') = true) := by
  have hA := digitToAlpha_wf x
  have hD10 := toDec_lt10 (y + 1)
  constructor <;>
  · intro c hc
    simp only [formatCell, digitToAlphaStr, natToStr, List.mem_append, List.mem_map] at hc
    rcases hc with ⟨k, hk, rfl⟩ | ⟨k, hk, rfl⟩
    · first | exact not_blank_letterOf k (hA.2 k hk) | exact not_colon_letterOf k (hA.2 k hk)
    · first | exact not_blank_digitChar k (hD10 k hk) | exact not_colon_digitChar k (hD10 k hk)

/-- a written cell address parses back to the same zero-based pair, for every column and
    row: `convert_coordinates(digit_to_alpha(x) + str(y+1)) == (x, y)`. -/
theorem parse_format_cell (x y : Nat) :
    convertCoordinates (formatCell x y) = .ok [some (x : Int), some (y : Int)] := by
  have hc := formatCell_clean x y
  unfold convertCoordinates splitColon
  rw [takeWhile_all _ _ hc.2]
  simp only [List.drop_length]
  rw [strip_id _ hc.1, convertOne_format]
  rfl

/-- a written area address `"A1:B3"` parses back to the same four numbers. -/
theorem parse_format_area (x y z t : Nat) :
    convertCoordinates (formatArea x y z t) =
      .ok [some (x : Int), some (y : Int), some (z : Int), some (t : Int)] := by
  have hc := formatCell_clean x y
  have hc2 := formatCell_clean z t
  unfold convertCoordinates splitColon
  have htw : (formatArea x y z t).takeWhile (· != ':') = formatCell x y := by
    unfold formatArea
    rw [List.append_assoc]
    apply takeWhile_append_stop _ _ _ hc.2
    intro a ha
    simp at ha
    subst ha
    decide
  rw [htw]
  have hdrop : List.drop (formatCell x y).length (formatArea x y z t) = ':' :: formatCell z t := by
    simp [formatArea]
  simp only [hdrop]
  rw [strip_id _ hc.1, convertOne_format, strip_id _ hc2.1, convertOne_format]
  rfl

/-- a non-negative number is left alone -/
theorem increment_nonneg_id (v : Int) (n : Nat) (h : 0 ≤ v) : increment v n = v := by
  unfold increment
  rw [if_neg (by omega)]

/-- negative numbers count from the current end: for `-n ≤ v < 0`, `increment v n = n + v`. -/
theorem increment_from_end (v : Int) (n : Nat) (hv : v < 0) (h : -(n : Int) ≤ v) :
    increment v n = n + v := by
  unfold increment
  have hn : n ≠ 0 := by omega
  rw [if_pos hv, if_neg hn, increment_nonneg_id _ _ (by omega)]
  omega

/-- the result of `increment` is never negative (so it can be used as an index) -/
theorem increment_nonneg (v : Int) (n : Nat) : 0 ≤ increment v n := by
  induction hk : (-v).toNat using Nat.strongRecOn generalizing v with
  | _ k ih =>
    unfold increment
    split
    · split
      · omega
      · exact ih ((-(v + n)).toNat) (by omega) (v + n) rfl
    · omega

/-- the string form and the tuple form designate the same cell in `translate_from_any`
    (used by every Row/Table method taking an `x` or a `y`). -/
theorem forms_agree (x y len : Nat) :
    translateFromAnyStr (formatCell x y) len 0 = .ok (translateFromAnyInt x len) ∧
    translateFromAnyStr (formatCell x y) len 1 = .ok (translateFromAnyInt y len) := by
  unfold translateFromAnyStr translateFromAnyInt
  rw [parse_format_cell]
  constructor <;> simp

/-! ### named-range addresses (`table:cell-range-address`, `table:base-cell-address`) -/

theorem splitBody_plain (name m : List Char) (b : Char)
    (hn : ∀ c ∈ name, c ≠ '.' ∧ c ≠ '\'') :
    splitBody (name ++ '.' :: (m ++ [b])) = (name, clean (m ++ [b])) := by
  have htw : (name ++ '.' :: (m ++ [b])).takeWhile (· != '.') = name := by
    apply takeWhile_append_stop
    · intro c hc; simpa using (hn c hc).1
    · intro c hc; simp at hc; subst hc; decide
  unfold splitBody
  split
  · rename_i r heq
    cases name with
    | nil => simp at heq
    | cons a t => simp at heq; exact absurd heq.1 (hn a (by simp)).2
  · simp only [htw]
    simp

theorem splitBody_quoted (name m : List Char) (b : Char) :
    splitBody ('\'' :: (escapeName name ++ ['\''] ++ '.' :: (m ++ [b]))) = (name, clean (m ++ [b])) := by
  unfold splitBody
  simp only
  rw [scanQuoted_escape name ('.' :: (m ++ [b])) [] (by intro c hc; simp at hc; subst hc; decide)]
  simp [clean]

theorem splitAddress_written (plain : Char → Bool)
    (hp : ∀ c, plain c = true → c ≠ '.' ∧ c ≠ '\'')
    (name tail : List Char) (htail : ∃ m b, tail = m ++ [b] ∧ isBlank b = false) :
    splitAddress (['$'] ++ quoteName plain name ++ ['.'] ++ tail) = (name, clean tail) := by
  obtain ⟨m, b, rfl, hb⟩ := htail
  have hstrip : strip (['$'] ++ quoteName plain name ++ ['.'] ++ (m ++ [b]))
      = '$' :: (quoteName plain name ++ '.' :: (m ++ [b])) := by
    have e : ['$'] ++ quoteName plain name ++ ['.'] ++ (m ++ [b])
        = '$' :: ((quoteName plain name ++ '.' :: m) ++ [b]) := by simp
    rw [e, strip_ends _ _ _ (by decide) hb]
    simp
  unfold splitAddress
  rw [hstrip]
  simp only
  by_cases hall : name.all plain = true
  · have hall' : ∀ c ∈ name, plain c = true := by simpa using hall
    rw [quoteName, if_pos hall]
    exact splitBody_plain name m b (fun c hc => hp c (hall' c hc))
  · rw [quoteName, if_neg hall]
    have e : ['\''] ++ escapeName name ++ ['\''] ++ '.' :: (m ++ [b])
        = '\'' :: (escapeName name ++ ['\''] ++ '.' :: (m ++ [b])) := by simp
    rw [e]
    exact splitBody_quoted name m b

/-- **named range round trip.** For *every* table name (any characters: blanks, dots, `$`,
    apostrophes, non-ASCII …) and every cell or area, the address odfdo writes is read back
    as the same table name and the same four numbers. `plain` is `c.isalnum() or c == "_"`;
    all that is used about it is that a plain character is neither `.` nor an apostrophe. -/
theorem named_range_roundtrip (plain : Char → Bool)
    (hp : ∀ c, plain c = true → c ≠ '.' ∧ c ≠ '\'')
    (name : List Char) (x y z t : Nat) :
    readRange (cellRangeAddress plain name x y z t) =
      (name, .ok [some (x : Int), some (y : Int), some (z : Int), some (t : Int)]) := by
  unfold readRange cellRangeAddress
  obtain ⟨m, b, hm, hb⟩ := natToStr_snoc (y + 1)
  obtain ⟨m', b', hm', hb'⟩ := natToStr_snoc (t + 1)
  split
  · rename_i hxy
    obtain ⟨rfl, rfl⟩ := hxy
    have e : baseCellAddress plain name x y =
        ['$'] ++ quoteName plain name ++ ['.'] ++ ('$' :: digitToAlphaStr x ++ '$' :: natToStr (y + 1)) := by
      simp [baseCellAddress]
    rw [e, splitAddress_written plain hp name _
      ⟨'$' :: digitToAlphaStr x ++ '$' :: m, b, by simp [hm], hb⟩]
    have hc : clean ('$' :: digitToAlphaStr x ++ '$' :: natToStr (y + 1)) = formatCell x y := by
      have : '$' :: digitToAlphaStr x ++ '$' :: natToStr (y + 1)
          = ['$'] ++ digitToAlphaStr x ++ ['$'] ++ natToStr (y + 1) := by simp
      rw [this]
      simp only [clean_append, clean_alpha, clean_num, formatCell]
      simp [clean]
    simp only [hc, parse_format_cell]
  · have e : baseCellAddress plain name x y ++ [':', '.', '$'] ++ digitToAlphaStr z ++ ['$'] ++ natToStr (t + 1) =
        ['$'] ++ quoteName plain name ++ ['.'] ++
          ('$' :: digitToAlphaStr x ++ '$' :: natToStr (y + 1) ++ ':' :: '.' :: '$' :: digitToAlphaStr z ++ '$' :: natToStr (t + 1)) := by
      simp [baseCellAddress]
    rw [e, splitAddress_written plain hp name _
      ⟨'$' :: digitToAlphaStr x ++ '$' :: natToStr (y + 1) ++ ':' :: '.' :: '$' :: digitToAlphaStr z ++ '$' :: m', b', by simp [hm'], hb'⟩]
    have hc : clean ('$' :: digitToAlphaStr x ++ '$' :: natToStr (y + 1) ++ ':' :: '.' :: '$' :: digitToAlphaStr z ++ '$' :: natToStr (t + 1))
        = formatArea x y z t := by
      have : '$' :: digitToAlphaStr x ++ '$' :: natToStr (y + 1) ++ ':' :: '.' :: '$' :: digitToAlphaStr z ++ '$' :: natToStr (t + 1)
          = ['$'] ++ digitToAlphaStr x ++ ['$'] ++ natToStr (y + 1) ++ [':', '.', '$'] ++ digitToAlphaStr z ++ ['$'] ++ natToStr (t + 1) := by simp
      rw [this]
      simp only [clean_append, clean_alpha, clean_num, formatArea, formatCell]
      simp [clean]
    simp only [hc, parse_format_area]


/-! non-vacuity: concrete instances of the hypotheses and statements -/
example : digitToAlphaStr 27 = ['A', 'B'] := by decide +kernel
example : alphaToDigitStr ['a', 'b'] = 27 := by decide +kernel
example : convertCoordinates "C4:AA10".toList = .ok [some 2, some 3, some 26, some 9] := by
  decide +kernel
example : convertCoordinates "A0".toList = .error .value := by decide +kernel
example : convertCoordinates "A:C".toList = .ok [some 0, none, some 2, none] := by decide +kernel
example : convertCoordinates "1:4".toList = .ok [none, some 0, none, some 3] := by decide +kernel
example : increment (-1) 5 = 4 := by decide +kernel
example : increment (-7) 5 = 3 := by decide +kernel
example : increment (-7) 0 = 0 := by decide +kernel
example : cellRangeAddress (fun c => c.isAlphanum) "a.b'c d".toList 1 1 2 2 = "$'a.b''c d'.$B$2:.$C$3".toList := by
  decide +kernel
example : readRange "$'a.b''c d'.$B$2:.$C$3".toList = ("a.b'c d".toList, .ok [some 1, some 1, some 2, some 2]) := by
  decide +kernel

end Odf.C19
