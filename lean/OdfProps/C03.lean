import OdfProofs.Package5

/-!
# C03 — saving and reopening a document loses nothing, in every packaging

Model: `OdfModel/Package.lean`.  `Doc.view d n` is the content of the document under the name `n`:
the parsed (edited) XML part when it is parsed, else what the container holds (set, deleted or
loaded), else what is still only on disk.  Statements are for every reachable state: any history of
reads (which change WHAT IS CACHED, not the view), edits, `set_part`, `add_file`, `del_part`,
clones and save / reopen cycles, for documents opened by path (lazy) or from a buffer (eager).
-/
namespace Odf.C03
open Odf.Pkg

inductive Op where
  | parse (n : Nat)                                  -- Document.get_part of an XML part (read)
  | get (n : Nat)                                    -- Container.get_part (read of a raw part)
  | edit (n : Nat) (b : Blob)
  | setPart (n : Nat) (b : Blob)
  | addFile (name : Nat) (data : Blob) (mt : Nat)
  | delPart (name : Nat)
  | clone
  | saveReopen (rdf : Blob)

def step (d : Doc) : Op → Doc
  | .parse n => (d.parse n).2
  | .get n => { d with c := (d.c.get n).2 }
  | .edit n b => d.edit n b
  | .setPart n b => d.setPart n b
  | .addFile name data mt => d.addFile name data mt
  | .delPart name => d.delPart name
  | .clone => d.clone
  | .saveReopen rdf => Doc.ofBytes (d.save rdf).2

theorem setPart_wf (d : Doc) (n : Nat) (b : Blob) (h : WFd d) : WFd (d.setPart n b) := by
  refine ⟨wf_set _ _ _ h.1, ?_⟩
  simp only [Doc.setPart]
  split
  · exact (keys_del d.parsed n h.2).1
  · exact h.2

/-- the dictionaries stay well formed along every history (no name twice) -/
theorem step_wf (d : Doc) (op : Op) (h : WFd d) : WFd (step d op) := by
  cases op with
  | parse n => exact parse_wf d n h
  | get n => exact ⟨get_snd_wf d.c n h.1, h.2⟩
  | edit n b => exact edit_wf d n b h
  | setPart n b => exact setPart_wf d n b h
  | addFile name data mt => exact addFile_wf d name data mt h
  | delPart name => exact delPart_wf d name h
  | clone => exact clone_wf d h
  | saveReopen rdf => exact ofBytes_wf _ (save_written_nodup d rdf h)

theorem history_wf (ops : List Op) (d : Doc) (h : WFd d) : WFd (ops.foldl step d) := by
  induction ops generalizing d with
  | nil => exact h
  | cons op rest ih => simp only [List.foldl_cons]; exact ih _ (step_wf d op h)

/-- **reads never change the document**, whatever they cache -/
theorem reads_keep_view (d : Doc) (n m : Nat) :
    (step d (.parse n)).view m = d.view m ∧ (step d (.get n)).view m = d.view m := by
  constructor
  · exact parse_view d n m
  · simp only [step, view_eq, get_snd_cview]

/-- **save writes the document**: whatever the history did (and cached), the package written holds
    under every name exactly what the document holds — the parsed form of the XML parts that are
    parsed, the bytes of the others — nothing more, nothing less, no name twice.
    (`prepared` = the document with the generator stamp and the manifest.rdf reconciliation.) -/
theorem save_writes_the_document (ops : List Op) (d0 : Doc) (h0 : WFd d0) (rdf : Blob) :
    let d := ops.foldl step d0
    (keys (d.save rdf).2).Nodup ∧ ∀ n, look (d.save rdf).2 n = (d.prepared rdf).view n := by
  have hw := history_wf ops d0 h0
  exact ⟨save_written_nodup _ rdf hw, fun n => save_written _ rdf hw n⟩

/-- when manifest.rdf is present exactly when the manifest declares it (all templates and samples),
    the preparation changes nothing: the package IS the in-memory document -/
theorem save_writes_the_view (d : Doc) (hw : WFd d) (rdf : Blob) (hr : RdfOk (d.parse nMeta).2) (n : Nat) :
    look (d.save rdf).2 n = d.view n := by
  rw [save_written d rdf hw, prepared_view_of_ok d rdf hr]

/-- **no part lost, none invented** -/
theorem no_part_lost_or_invented (d : Doc) (hw : WFd d) (rdf : Blob) (hr : RdfOk (d.parse nMeta).2) (n : Nat) :
    (look (d.save rdf).2 n).isSome = (d.view n).isSome := by
  rw [save_writes_the_view d hw rdf hr]

/-- **reopening the saved package gives the document back** -/
theorem reopen_is_the_document (d : Doc) (hw : WFd d) (rdf : Blob) (hr : RdfOk (d.parse nMeta).2) (n : Nat) :
    (Doc.ofBytes (d.save rdf).2).view n = d.view n := by
  rw [ofBytes_view, save_writes_the_view d hw rdf hr]

/-- **… in every packaging**: reopening what a PRETTY save wrote (zip or folder; `pp` = any pretty serialiser) gives the
    document back, name for name, the parts that are parsed or standard through the serialiser, every other part as it was -/
theorem reopen_after_pretty_save (pp : Blob → Blob) (d : Doc) (hw : WFd d) (rdf : Blob) (hr : RdfOk (d.parse nMeta).2) (n : Nat) :
    (Doc.ofBytes (d.savePretty pp rdf).2).view n =
      if (look (d.prepared rdf).parsed n).isSome ∨ n ∈ stdParts then (d.view n).map pp else d.view n := by
  rw [ofBytes_view, savePretty_written pp d rdf hw n, prepared_view_of_ok d rdf hr]

/-- … no part lost, none invented by a pretty save either -/
theorem pretty_no_part_lost_or_invented (pp : Blob → Blob) (d : Doc) (hw : WFd d) (rdf : Blob) (hr : RdfOk (d.parse nMeta).2) (n : Nat) :
    (look (d.savePretty pp rdf).2 n).isSome = (d.view n).isSome := by
  rw [savePretty_written pp d rdf hw n, prepared_view_of_ok d rdf hr]
  split <;> simp

/-- **an unmodified open / save cycle is the identity on content**, for a file opened by path
    (parts read lazily at save time) as for one read from a buffer -/
theorem open_save_identity (files : List (Nat × Blob)) (hn : (keys files).Nodup) (rdf : Blob)
    (hp : RdfOk ((Doc.ofPath files).parse nMeta).2) (hb : RdfOk ((Doc.ofBytes files).parse nMeta).2) (n : Nat) :
    look ((Doc.ofPath files).save rdf).2 n = look files n ∧ look ((Doc.ofBytes files).save rdf).2 n = look files n := by
  constructor
  · rw [save_writes_the_view _ (ofPath_wf files hn) rdf hp, ofPath_view]
  · rw [save_writes_the_view _ (ofBytes_wf files hn) rdf hb, ofBytes_view]

/-- an edit made through the API is what the reader of the file sees -/
theorem edit_is_saved (d : Doc) (hw : WFd d) (rdf : Blob) (n : Nat) (b : Blob) (hs : (d.view n).isSome = true)
    (hr : RdfOk ((d.edit n b).parse nMeta).2) : look ((d.edit n b).save rdf).2 n = some b := by
  rw [save_writes_the_view _ (edit_wf d n b hw) rdf hr, edit_view]
  simp [hs]

/-- bytes given to `set_part` are what is saved, whether or not the part had been parsed before -/
theorem set_part_is_saved (d : Doc) (hw : WFd d) (rdf : Blob) (n : Nat) (b : Blob) (hx : isXmlTop n = true)
    (hr : RdfOk ((d.setPart n b).parse nMeta).2) : look ((d.setPart n b).save rdf).2 n = some b := by
  rw [save_writes_the_view _ (setPart_wf d n b hw) rdf hr]
  simp only [Doc.setPart, hx, if_true, view_eq, look_del _ _ _ hw.2, cview_set]

/-! non-vacuity -/
example : look ((step (step (Doc.ofPath [(0, .raw 1), (2, .raw 2), (3, .raw 4), (1, .man [(8, 5), (2, 6), (3, 6)])]) (.parse 2))
    (.setPart 2 (.raw 9))).save (.raw 0)).2 2 = some (.raw 9) := by decide +kernel

end Odf.C03
