import OdfProofs.Ws4

/-!
# C05 — paragraph text round-trips exactly and is in ODF white-space normal form

Model: `OdfModel/Para/Ws.lean` (transcription of `append_plain_text` and its helpers, of
`Element.__append`, `inner_text`, and of a §6.1.2 consumer).  All statements are for **every**
string (no bound on length, any characters) and every way of cutting it into appends.
-/
namespace Odf.C05
open Odf.Ws

theorem atoms_appendPlainText (p : Para) (s : List Char) :
    atoms (appendPlainText p s) = ((expandSpaces p s).flatMap mergedAtoms).map tabifyA ∧
      tight (atoms (appendPlainText p s)) = true := by
  have hA : atoms (replaceTabsLb (mergeSpaces (expandSpaces p s)))
      = ((expandSpaces p s).flatMap mergedAtoms).map tabifyA := by
    rw [atoms_replaceTabsLb, atoms_mergeSpaces]
  have hT : tight (((expandSpaces p s).flatMap mergedAtoms).map tabifyA) = true := by
    rw [tight_map_tabifyA]; exact flatMap_mergedAtoms_tight _
  have hD : noDblA (atoms (replaceTabsLb (mergeSpaces (expandSpaces p s)))) = true := by
    rw [hA]
    simp only [tight, Bool.and_eq_true] at hT
    exact hT.1.1
  unfold appendPlainText
  rw [atoms_rebuild _ hD, hA]
  exact ⟨rfl, hT⟩

/-- **text, one append**: whatever the paragraph already holds (text nodes, `text:s`, tabs,
    line breaks, inline elements), appending a string appends exactly that string to the text
    the paragraph reports. -/
theorem text_append (p : Para) (s : List Char) :
    innerText (appendPlainText p s) = innerText p ++ s := by
  rw [innerText_eq, (atoms_appendPlainText p s).1, atomsText_map_tabifyA, flatMap_mergedAtoms_text,
    innerText_eq, atoms_expandSpaces, atomsText_append, unspace_text, atomsText_map_c, ← innerText_eq]

/-- **text**: a paragraph / span / heading created from `s` reports exactly `s`. -/
theorem text_roundtrip (s : List Char) : innerText (fromText s) = s := by
  unfold fromText
  rw [text_append]
  simp [innerText]

/-- **text, any splitting**: built by appending the pieces one after the other, the element
    reports exactly their concatenation. -/
theorem text_appends (ps : List (List Char)) (p : Para) :
    innerText (ps.foldl appendPlainText p) = innerText p ++ ps.flatten := by
  induction ps generalizing p with
  | nil => simp
  | cons s t ih => simp [ih, text_append]

/-- **normal form, one append**: if the paragraph holds no inline element and the resulting
    text has no U+000D, an ODF consumer applying §6.1.2 reads exactly the text — no run of
    spaces, leading or trailing space, tab or line break is lost or doubled. The paragraph
    `p` is arbitrary otherwise: its existing text nodes are re-encoded by the append. -/
theorem nf_append (p : Para) (s : List Char)
    (hel : ∀ i t, Item.el i t ∉ p) (hcr : '\r' ∉ innerText p ++ s) :
    collapse (appendPlainText p s) = innerText p ++ s := by
  obtain ⟨hA, hT⟩ := atoms_appendPlainText p s
  rw [collapse_tight _ ?_ hT, text_append]
  -- cleanliness of the produced atoms
  intro a ha
  rw [hA] at ha
  simp only [List.mem_map] at ha
  obtain ⟨a0, ha0, rfl⟩ := ha
  have htxt : atomsText ((expandSpaces p s).flatMap mergedAtoms) = innerText p ++ s := by
    rw [flatMap_mergedAtoms_text, innerText_eq, atoms_expandSpaces, atomsText_append, unspace_text,
      atomsText_map_c, ← innerText_eq]
  constructor
  · -- no inline element can appear
    intro i t heq
    have hmem : Atom.el i t ∈ ((expandSpaces p s).flatMap mergedAtoms).map tabifyA := by
      rw [← heq]; exact List.mem_map.2 ⟨a0, ha0, rfl⟩
    exact hel i t (el_mem_pipeline p s i t hmem)
  · -- the only collapsible character left as character data is the plain space
    intro ch heq hws
    cases a0 with
    | c ch0 =>
      simp only [tabifyA, tabifyC] at heq
      split at heq
      · cases heq
      · split at heq
        · cases heq
        · rename_i hn ht
          simp only [Atom.c.injEq] at heq
          subst heq
          have hmem : ch0 ∈ innerText p ++ s := by
            rw [← htxt]; exact mem_atomsText_of_c _ _ ha0
          simp only [isWs, Bool.or_eq_true, decide_eq_true_eq] at hws
          rcases hws with ((h | h) | h) | h
          · exact h
          · exact absurd h ht
          · exact absurd h hn
          · subst h; exact absurd hmem hcr
    | _ => simp [tabifyA] at heq

/-- **normal form**: the XML produced for any string without U+000D is in ODF white-space
    normal form. -/
theorem nf_roundtrip (s : List Char) (hcr : '\r' ∉ s) : collapse (fromText s) = s := by
  have := nf_append [] s (by simp) (by simpa [innerText] using hcr)
  simpa [fromText, innerText] using this

theorem noel_appendPlainText (p : Para) (s : List Char) (hel : ∀ i t, Item.el i t ∉ p) :
    ∀ i t, Item.el i t ∉ appendPlainText p s := by
  intro i t hmem
  have hat : Atom.el i t ∈ atoms (appendPlainText p s) := (el_atom_item _ i t).2 hmem
  rw [(atoms_appendPlainText p s).1] at hat
  exact hel i t (el_mem_pipeline p s i t hat)

/-- **normal form, any splitting**: however the string is cut into successive appends, the
    resulting XML is in white-space normal form and spells the concatenation. -/
theorem nf_appends (ps : List (List Char)) (p : Para)
    (hel : ∀ i t, Item.el i t ∉ p) (hcr : '\r' ∉ innerText p ++ ps.flatten) (hne : ps ≠ []) :
    collapse (ps.foldl appendPlainText p) = innerText p ++ ps.flatten := by
  induction ps generalizing p with
  | nil => exact absurd rfl hne
  | cons s t ih =>
    simp only [List.foldl_cons, List.flatten_cons]
    by_cases ht : t = []
    · subst ht
      simp only [List.foldl_nil, List.flatten_nil, List.append_nil] at hcr ⊢
      exact nf_append p s hel (by simpa using hcr)
    · rw [ih (appendPlainText p s) (noel_appendPlainText p s hel) (by
        rw [text_append]; simpa [List.append_assoc] using hcr) ht, text_append]
      simp

/-! non-vacuity and concrete instances -/
example : fromText " a  b\t c ".toList =
    [.s 1, .str "a ".toList, .s 1, .str "b".toList, .tab, .str " c".toList, .s 1] := by decide +kernel
example : collapse (fromText " a  b\t c ".toList) = " a  b\t c ".toList := by decide +kernel
example : innerText ((["a  ".toList, " ".toList, "b".toList]).foldl appendPlainText []) = "a   b".toList := by
  decide +kernel
-- without the encoding a consumer would read something else: the theorem is not trivial
example : collapse [.str " a  b ".toList] = "a b".toList := by decide +kernel

end Odf.C05
