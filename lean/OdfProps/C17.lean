import OdfProofs.Transform
import OdfProofs.Transform2
import OdfProofs.Span

/-!
# C17 — whole-table transformations preserve the content they are not meant to remove

Grid-level specs in `OdfModel/Transform.lean` (rstrip, transpose) and `OdfModel/Span.lean`
(set_span / del_span, merge=False).  The run-length code-level model of `Table.rstrip`
(`tblRstrip`: trailing empty row ELEMENTS deleted, trailing empty cell ELEMENTS of every row deleted,
declared columns trimmed from the end) is compared with the implementation on every case of the check,
and `rstrip_refines` proves that on every coherent run-length state it denotes the grid spec and leaves a
coherent state — so the three laws below hold of the run-length code-level model too
(`rstrip_table_idempotent`, `rstrip_table_keeps`).  `transpose` is modelled at the grid level (the code
works on the expanded cells of `traverse`); `optimize_width` has a run-length model (`tblOptimize`, compared with the
implementation on every case) with its structural theorem (`optimize_width_coherent_and_fits`); its value laws and CSV
export/import are decided by the oracle only.
-/
namespace Odf.C17
open Odf.Transform Odf.Grid Odf.Span

/-- transposing twice gives back the matrix (rows completed with empty cells to the common
    width) for every table holding at least one cell -/
theorem transpose_involutive (rows : List (List Nat)) (hw : 0 < maxLen rows) :
    transposePad (transposePad rows) = rows.map (fun r => padRow r (maxLen rows)) :=
  transposePad_involutive rows hw

/-- stripping is idempotent -/
theorem rstrip_idempotent (emp : Nat → Bool) (g : Grid) : gridRstrip emp (gridRstrip emp g) = gridRstrip emp g :=
  gridRstrip_idem emp g

/-- stripping keeps every non-empty value at its coordinates -/
theorem rstrip_keeps (emp : Nat → Bool) (g : Grid) (x y : Nat) (row : List Nat) (v : Nat)
    (hrow : g.rows[y]? = some row) (hv : row[x]? = some v) (hne : emp v = false) :
    ∃ row', (gridRstrip emp g).rows[y]? = some row' ∧ row'[x]? = some v :=
  gridRstrip_keeps emp g x y row v hrow hv hne

/-- stripping removes only trailing all-empty rows and trailing empty cells -/
theorem rstrip_only_trailing (emp : Nat → Bool) (g : Grid) :
    ∃ removedRows : List (List Nat), g.rows.length = (gridRstrip emp g).rows.length + removedRows.length ∧
      (∀ r ∈ removedRows, r.all emp = true) ∧
      ∀ (y : Nat) (row' : List Nat), (gridRstrip emp g).rows[y]? = some row' →
        ∃ (row suf : List Nat), g.rows[y]? = some row ∧ row = row' ++ suf ∧ ∀ c ∈ suf, emp c = true :=
  gridRstrip_only_trailing emp g

/-- **`Table.rstrip` on run-length XML refines the grid spec**, for every coherent state (any run-length
    encoding, ragged rows, styled empties per `emp`), and the result is coherent again -/
theorem rstrip_refines (emp : Nat → Bool) (t : Odf.Table.Tbl) (h : Odf.Table.Inv t) :
    Odf.Table.absT (tblRstrip emp t) = gridRstrip emp (Odf.Table.absT t) ∧ Odf.Table.Inv (tblRstrip emp t) :=
  ⟨tblRstrip_refines emp t h, tblRstrip_inv emp t h⟩

/-- hence stripping the run-length table twice denotes the same grid as stripping it once -/
theorem rstrip_table_idempotent (emp : Nat → Bool) (t : Odf.Table.Tbl) (h : Odf.Table.Inv t) :
    Odf.Table.absT (tblRstrip emp (tblRstrip emp t)) = Odf.Table.absT (tblRstrip emp t) := by
  rw [tblRstrip_refines emp _ (tblRstrip_inv emp t h), tblRstrip_refines emp t h, gridRstrip_idem]

/-- … and every non-empty value of the run-length table is still read at its coordinates -/
theorem rstrip_table_keeps (emp : Nat → Bool) (t : Odf.Table.Tbl) (h : Odf.Table.Inv t) (x y : Nat) (row : List Nat) (v : Nat)
    (hrow : (Odf.Table.absT t).rows[y]? = some row) (hv : row[x]? = some v) (hne : emp v = false) :
    ∃ row', (Odf.Table.absT (tblRstrip emp t)).rows[y]? = some row' ∧ row'[x]? = some v := by
  rw [tblRstrip_refines emp t h]
  exact gridRstrip_keeps emp (Odf.Table.absT t) x y row v hrow hv hne

/-- **`Table.transpose()` on run-length XML denotes the transposed grid**, for every state, and the table it
    builds is coherent -/
theorem transpose_refines (t : Odf.Table.Tbl) :
    Odf.Table.absT (tblTranspose t) = transposeG (Odf.Table.absT t) ∧ Odf.Table.Inv (tblTranspose t) :=
  ⟨tblTranspose_refines t, tblTranspose_inv t⟩

/-- hence transposing the run-length table twice gives back its matrix, every row completed with empty
    cells to the common width (for every table holding at least one cell) -/
theorem transpose_table_twice (t : Odf.Table.Tbl) (hw : 0 < maxLen (Odf.Table.absT t).rows) :
    (Odf.Table.absT (tblTranspose (tblTranspose t))).rows =
      (Odf.Table.absT t).rows.map (fun r => padRow r (maxLen (Odf.Table.absT t).rows)) := by
  rw [tblTranspose_refines, tblTranspose_refines]
  exact transposePad_involutive _ hw

/-- **`Table.optimize_width()`** (run-length model `tblOptimize`: trailing empty row elements but one deleted, the kept one
    counted once, every row's trailing REPEATED empty cell element shortened to the largest minimized row width, declared
    columns trimmed to it): the result is a coherent table and no row is wider than the declared columns -/
theorem optimize_width_coherent_and_fits (t : Odf.Table.Tbl) (h : Odf.Table.Inv t) (hfit : Odf.Table.GridFit (Odf.Table.absT t)) :
    Odf.Table.Inv (tblOptimize t) ∧ Odf.Table.GridFit (Odf.Table.absT (tblOptimize t)) :=
  tblOptimize_inv_fit t h hfit

/-- … and every value (a cell that is not empty even for `aggressive=True`) is still read at its coordinates -/
theorem optimize_width_keeps_values (t : Odf.Table.Tbl) (h : Odf.Table.Inv t) (x y v : Nat) (row : List Nat)
    (hrow : (Odf.Table.absT t).rows[y]? = some row) (hv : row[x]? = some v) (hne : empOf true v = false) :
    ∃ row', (Odf.Table.absT (tblOptimize t)).rows[y]? = some row' ∧ row'[x]? = some v :=
  tblOptimize_keeps t h x y v row hrow hv hne

/-- … and optimising twice gives the very same run-length table as optimising once -/
theorem optimize_width_idempotent (t : Odf.Table.Tbl) (h : Odf.Table.Inv t) : tblOptimize (tblOptimize t) = tblOptimize t :=
  tblOptimize_idem t h

/-- … and what goes is only trailing: the result's rows are, one for one, the first rows of the table, each of them
    the old row minus a block of trailing empty cells (styled or not), and the rows that are dropped are empty rows -/
theorem optimize_width_removes_only_trailing_empties (t : Odf.Table.Tbl) (h : Odf.Table.Inv t) :
    ∃ cut : List Odf.Table.RowD,
      (Odf.Rle.expand t.rows.runs).length = (Odf.Table.absT (tblOptimize t)).rows.length + cut.length ∧
      (∀ d ∈ cut, d.all (fun c => empOf false c.1) = true) ∧
      ∀ (y : Nat) (row' : List Nat), (Odf.Table.absT (tblOptimize t)).rows[y]? = some row' →
        ∃ (row suf : List Nat), (Odf.Table.absT t).rows[y]? = some row ∧ row = row' ++ suf ∧
          ∀ c ∈ suf, empOf true c = true :=
  tblOptimize_only_trailing t h

example :
    let t := Odf.Table.parse [(0, 5)] [([(5, 1), (0, 4)], 1), ([(0, 5)], 1), ([(0, 5)], 2)]
    (tblOptimize t).rows.runs = [([(5, 1), (0, 1)], 1), ([(0, 2)], 1)] ∧ (tblOptimize t).cols.runs = [(0, 2)] := by
  decide +kernel

/-! non-vacuity: a ragged run-length table with styled empties (payload 1) and trailing empties -/
example :
    let t := Odf.Table.parse [(0, 2), (0, 3)] [([(5, 1), (0, 2), (1, 2)], 2), ([(0, 5)], 1), ([(0, 1), (1, 1)], 3)]
    Odf.Table.absT (tblRstrip (fun c => c == 0) t) = gridRstrip (fun c => c == 0) (Odf.Table.absT t) ∧
      (gridRstrip (fun c => c == 0) (Odf.Table.absT t)).ncols = 5 ∧
      (gridRstrip (fun c => c < 2) (Odf.Table.absT t)) = { ncols := 1, rows := [[5], [5]] } := by
  decide +kernel

/-- a span never changes a value (merge = False) and touches nothing outside the area -/
theorem setSpan_values_and_area (g g' : SGrid) (x y z t : Nat) (h : setSpan g x y z t = some g') (j i : Nat) :
    (g'[j]?.bind (fun r => r[i]?)).map (·.val) = (g[j]?.bind (fun r => r[i]?)).map (·.val) ∧
    (inArea x y z t i j = false → (g'[j]?.bind (fun r => r[i]?)) = (g[j]?.bind (fun r => r[i]?))) := by
  unfold setSpan at h
  split at h
  · cases h
  · split at h
    · cases h
    · simp only [Option.some.injEq] at h
      subst h
      rw [getElem?_mapArea]
      constructor
      · cases (g[j]?.bind (fun r => r[i]?)) with
        | none => rfl
        | some c =>
          simp only [Option.map_some]
          split
          · split <;> rfl
          · rfl
      · intro hout
        cases (g[j]?.bind (fun r => r[i]?)) with
        | none => rfl
        | some c => simp [hout]

/-- a span refuses to overlap an existing span -/
theorem setSpan_refuses_overlap (g : SGrid) (x y z t : Nat) (h : anyArea x y z t SCell.isSpanned g = true) :
    setSpan g x y z t = none := by
  unfold setSpan
  split
  · rfl
  · simp [h]

/-- **creating a span and deleting it restores the table**, for every area inside the table -/
theorem delSpan_setSpan (g g' : SGrid) (x y z t : Nat) (hxz : x ≤ z) (hyt : y ≤ t)
    (hy : y < g.length) (hx : x < (g.getD y []).length)
    (h : setSpan g x y z t = some g') : delSpan g' x y = some g := by
  unfold setSpan at h
  split at h
  · cases h
  · rename_i hne
    split at h
    · cases h
    · rename_i hany
      have hany' : anyArea x y z t SCell.isSpanned g = false := by simpa using hany
      simp only [Option.some.injEq] at h
      -- the anchor cell after set_span
      have hrow : g[y]? = some g[y] := List.getElem?_eq_getElem hy
      have hx' : x < g[y].length := by
        simpa [List.getD_eq_getElem?_getD, hrow] using hx
      have hcell : g[y][x]? = some g[y][x] := List.getElem?_eq_getElem hx'
      have hinxy : inArea x y z t x y = true := by simp [inArea, hxz, hyt]
      have hanchor : (g'.getD y []).getD x (plain 0) =
          { g[y][x] with spanC := some (z - x + 1), spanR := some (t - y + 1) } := by
        have := getElem?_mapArea x y z t (fun i j c =>
          if i = x ∧ j = y then { c with spanC := some (z - x + 1), spanR := some (t - y + 1) }
          else { c with covered := true }) g y x
        rw [h] at this
        simp only [hrow, Option.bind_some, hcell, Option.map_some, hinxy, if_true, and_self] at this
        cases hg' : g'[y]? with
        | none => rw [hg'] at this; simp at this
        | some r' =>
          rw [hg'] at this
          simp only [Option.bind_some] at this
          simp only [List.getD_eq_getElem?_getD, hg', Option.getD_some, this]
      unfold delSpan
      rw [hanchor]
      simp only
      have e1 : x + (z - x + 1) - 1 = z := by omega
      have e2 : y + (t - y + 1) - 1 = t := by omega
      rw [e1, e2]
      congr 1
      rw [← h]
      apply sgrid_ext
      · rw [(mapArea_shape _ _ _ _ _ _).1, (mapArea_shape _ _ _ _ _ _).1]
      · intro j
        rw [(mapArea_shape _ _ _ _ _ _).2, (mapArea_shape _ _ _ _ _ _).2]
      · intro j i
        rw [getElem?_mapArea, getElem?_mapArea]
        cases hr : g[j]? with
        | none => rfl
        | some r =>
          simp only [Option.bind_some]
          cases hc : r[i]? with
          | none => rfl
          | some c =>
            simp only [Option.map_some, Option.some.injEq]
            by_cases hin : inArea x y z t i j = true
            · have hns := anyArea_false x y z t SCell.isSpanned g hany' j i r c hr hc hin
              simp only [SCell.isSpanned, Bool.or_eq_false_iff, Option.isSome_eq_false_iff,
                Option.isNone_iff_eq_none] at hns
              obtain ⟨⟨h1, h2⟩, h3⟩ := hns
              simp only [hin, if_true]
              by_cases hxy : i = x ∧ j = y
              · simp only [hxy, and_self, if_true]
                obtain ⟨rfl, rfl⟩ := hxy
                cases c; simp_all
              · simp only [hxy, if_false]
                cases c; simp_all
            · have hin' : inArea x y z t i j = false := by simpa using hin
              simp [hin']

/-! non-vacuity -/
def g0 : SGrid := [[plain 1, plain 2, plain 3], [plain 4, plain 5, plain 6]]
example : (setSpan g0 0 0 1 1).bind (fun g => delSpan g 0 0) = some g0 := by decide +kernel
example : (setSpan g0 0 0 1 1).bind (fun g => setSpan g 1 1 2 1) = none := by decide +kernel
example : transposePad [[1, 2, 3], [4]] = [[1, 4], [2, 0], [3, 0]] := by decide +kernel
example : gridRstrip (· == 0) ⟨4, [[1, 0, 2, 0], [0, 0], [3], [0], []]⟩ = ⟨3, [[1, 0, 2], [], [3]]⟩ := by decide +kernel

end Odf.C17
