import OdfProofs.TableHist
import OdfProofs.Names

/-!
# C07 — table XML stays structurally valid and repeat-consistent after every operation

On the run-length model: repeat attributes (what `_set_repeated` writes), "no row wider than
the declared columns", "the first row declares the columns", "height and width are the sums
of the repeats".  Names (table name, named-range name) are in `OdfProps/C07Names.lean`.
Child order (columns before rows, rows hold only cells) is not representable in the model
(columns and rows are separate lists by construction): it is checked on the real XML by the
lxml walk of the harness after every step.
-/
namespace Odf.C07
open Odf.Rle Odf.Table Odf.Grid

/-- what `_set_repeated(n)` leaves in the XML: no attribute below 2 -/
def attrOf (n : Nat) : Option Nat := if n < 2 then none else some n

/-- a repeat attribute is absent or an integer of at least 2 — for every count -/
theorem attr_absent_or_ge2 (n : Nat) : attrOf n = none ∨ ∃ k, attrOf n = some k ∧ 2 ≤ k := by
  unfold attrOf
  split
  · exact Or.inl rfl
  · exact Or.inr ⟨n, rfl, by omega⟩

/-- reading the attribute back (`max(int, 1)`, missing = 1) gives the count, for counts ≥ 1 -/
theorem attr_roundtrip (n : Nat) (h : 1 ≤ n) : (attrOf n).getD 1 = n := by
  unfold attrOf
  split
  · simp; omega
  · rfl

/-- every stored count stays ≥ 1 along every history (so the attribute written is absent or
    ≥ 2 and reads back as the count), rows never get wider than the declared columns, and the
    reported size is the sum of the repeats -/
theorem history_structure (ops : List Op) (t : Tbl) (h : Inv t) (hfit : GridFit (absT t))
    (hv : ∀ op ∈ ops, op.Valid)
    (hlimbo : ∀ k, k ≤ ops.length → NoLimbo (grun (absT t) (ops.take k))) :
    ∃ t', run t ops = some t' ∧ Pos t'.cols.runs ∧ Pos t'.rows.runs ∧ (∀ p ∈ t'.rows.runs, Pos p.1) ∧
      (∀ p ∈ t'.rows.runs, total p.1 ≤ total t'.cols.runs) ∧
      Table.sizeOf t' = (total t'.cols.runs, total t'.rows.runs) ∧
      (t'.rows.runs ≠ [] → t'.cols.runs ≠ []) := by
  obtain ⟨t', e, _, i, f⟩ := history_refines ops t h hfit hv hlimbo
  refine ⟨t', e, i.cols.2, i.rows.2, i.cells, ?_, ?_, i.declared⟩
  · intro p hp
    have hmem : p.1 ∈ expand t'.rows.runs := mem_expand_of_mem _ i.rows.2 p hp
    have := f (expand p.1) (by simp only [absT, List.mem_map]; exact ⟨p.1, hmem, rfl⟩)
    simpa [absT, expand_length] using this
  · simp [Table.sizeOf, Table.width, Table.height, size_ok _ i.cols, size_ok _ i.rows]

/-- adding the first row to a table without columns declares its columns: as many as the
    row is wide, at least one -/
theorem first_row_declares (d : RowD) (r : Nat) (hd : Pos d) (hr : 1 ≤ r) :
    (absT (appendRow (parse [] []) d r r)).ncols = max 1 (expand d).length := by
  have hinv : Inv (parse [] []) := ⟨MapOk.fresh _ (by intro p hp; simp at hp), MapOk.fresh _ (by intro p hp; simp at hp),
    by intro p hp; simp [parse, fresh] at hp, by intro h; exact absurd rfl h⟩
  obtain ⟨_, a⟩ := appendRow_ok (parse [] []) hinv d r hd hr
  rw [a, appendRow_ncols _ _ _ hr]
  simp only [absT, parse, fresh, total_nil, Nat.zero_max]
  split <;> omega

/-- no operation of the alphabet makes a row wider than the declared columns (grid level) -/
theorem fit_preserved (g : Grid) (hfit : GridFit g) (op : Op) : GridFit (gstep g op) := fit_gstep g hfit op

/-! ### names -/
open Odf.Names Odf.Coord in
/-- **table names**: the API check (strip, non-empty, the regular expression generated from the
    source) accepts exactly what the office applications accept, for every name without a
    line feed (which no application lets one type into a sheet tab). -/
theorem table_name_rule (name : List Char) (hnl : '\n' ∉ strip name) :
    apiAcceptsTable name = officeAcceptsTable name := by
  unfold apiAcceptsTable officeAcceptsTable
  simp only [gen_table_forbidden, gen_table_lead, gen_table_trail]
  generalize strip name = s at hnl
  have hany : (s.any fun c => ['\n', '*', '/', ':', '?', '[', '\\', ']'].contains c)
      = !(s.all fun c => !("[]*?:/\\".toList.contains c)) := by
    induction s with
    | nil => rfl
    | cons a t ih =>
      have hat : '\n' ∉ t := fun h => hnl (by simp [h])
      have ha : a ≠ '\n' := fun h => hnl (by simp [h])
      simp only [List.any_cons, List.all_cons, ih hat, Bool.not_and, Bool.not_not]
      congr 1
      have hs : ("[]*?:/\\" : String).toList = ['[', ']', '*', '?', ':', '/', '\\'] := by decide
      rw [hs]
      simp only [List.contains_cons, List.contains_nil, Bool.or_false, beq_iff_eq]
      have : (a == '\n') = false := by simpa using ha
      rw [this]
      simp only [Bool.false_or]
      ac_rfl
  rw [hany]
  have hb : ∀ v c : Char, (v == c) = decide (v = c) := by
    intro v c; by_cases h : v = c <;> simp [h]
  cases hh : s.head? <;> cases hl : s.getLast? <;> simp [List.contains_cons, bne, Bool.and_assoc, hb] <;> ac_rfl

open Odf.Names Odf.Coord in
/-- **named-range names**: over the printable ASCII alphabet, the API check accepts exactly
    the names made of letters, digits and underscore that are not of the cell-reference form
    letters+digits. -/
theorem range_name_rule (name : List Char) (hp : ∀ c ∈ strip name, c ∈ printable) :
    apiAcceptsRange name = ruleAcceptsRange name := by
  unfold apiAcceptsRange ruleAcceptsRange
  simp only
  generalize strip name = s at hp
  have hany : (s.any fun c => Odf.Gen.rangeNameForbidden.contains c)
      = !(s.all fun c => isLetter c || isDigitC c || c == '_') := by
    induction s with
    | nil => rfl
    | cons a t ih =>
      simp only [List.any_cons, List.all_cons, ih (fun c hc => hp c (by simp [hc])),
        gen_range_forbidden a (hp a (by simp)), Bool.not_and]
  rw [hany]
  have hscan : (a1Scan s .start != .digits) = !isA1Form s := by
    by_cases h : isA1Form s = true
    · have := (scan_start s).2 h
      simp [this, h]
    · have hne : a1Scan s .start ≠ .digits := fun e => h ((scan_start s).1 e)
      have h' : isA1Form s = false := by simpa using h
      simp [hne, h']
  rw [hscan, Bool.not_not]

/-! non-vacuity -/
open Odf.Names in
example : apiAcceptsTable "it's ok".toList = true ∧ apiAcceptsTable "'x".toList = false ∧
    apiAcceptsTable "a/b".toList = false ∧ apiAcceptsTable "  ".toList = false := by decide +kernel
open Odf.Names in
example : apiAcceptsRange "total_1".toList = true ∧ apiAcceptsRange "AB12".toList = false ∧
    apiAcceptsRange "a-b".toList = false ∧ apiAcceptsRange "A1b".toList = true := by decide +kernel
example : attrOf 1 = none ∧ attrOf 2 = some 2 ∧ attrOf 0 = none := by decide
example : (absT (appendRow (parse [] []) [] 1 1)).ncols = 1 := by decide +kernel

end Odf.C07
