import OdfProofs.Package4

/-!
# C10 — a clone is equal at birth and independent for life (package layer)

Model: `OdfModel/Package.lean` (`Container.clone`, `Document.clone`).  In a pure model two values
cannot share state, so "independent for life" is true by construction and is NOT claimed as
evidence: independence is decided by the correspondence / oracle of the harness only.  What the
theorems add: the clone holds the same document as the original whatever had been cached, edited,
replaced or deleted before, and the original is left as it was.
-/
namespace Odf.C10
open Odf.Pkg

/-- **equal at birth**: under every name the clone holds what the original holds (parsed and edited
    XML parts, replaced parts, deleted parts, parts still unread on disk) -/
theorem clone_equal_at_birth (d : Doc) (hw : WFd d) (n : Nat) : d.clone.view n = d.view n := clone_view d hw n

/-- a container's clone holds what the container holds, in memory: nothing is left on disk only -/
theorem container_clone_equal (c : Cont) (n : Nat) : cview c.clone n = cview c n ∧ c.clone.lazy = false ∧ c.clone.src = [] :=
  ⟨cont_clone_cview c n, rfl, rfl⟩

/-- the clone starts without any parsed part: it re-reads what the original had serialised into it -/
theorem clone_parses_nothing (d : Doc) : d.clone.parsed = [] := rfl

/-- **saving the clone writes what saving the original writes** -/
theorem clone_saves_the_same (d : Doc) (hw : WFd d) (rdf : Blob)
    (h1 : RdfOk (d.parse nMeta).2) (h2 : RdfOk (d.clone.parse nMeta).2) (n : Nat) :
    look (d.clone.save rdf).2 n = look (d.save rdf).2 n := by
  rw [save_written _ rdf (clone_wf d hw), prepared_view_of_ok _ rdf h2, clone_view d hw,
    save_written d rdf hw, prepared_view_of_ok d rdf h1]

/-- a clone of a clone is still the same document -/
theorem clone_twice (d : Doc) (hw : WFd d) (n : Nat) : d.clone.clone.view n = d.view n := by
  rw [clone_view _ (clone_wf d hw), clone_view d hw]

/-! non-vacuity: a lazily opened zip, one part parsed and edited, one deleted, then cloned -/
example :
    let d := (((Doc.ofPath [(0, .raw 1), (2, .raw 2), (9, .raw 4), (1, .man [])]).edit 2 (.raw 7))).delPart 9
    (d.clone.view 2, d.clone.view 9, d.clone.view 0) = (some (.raw 7), none, some (.raw 1)) := by decide +kernel

end Odf.C10
