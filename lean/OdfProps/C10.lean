import OdfProofs.Package4
import OdfProofs.Heap

/-!
# C10 — a clone is equal at birth and independent for life (package layer)

Two models.

`OdfModel/Package.lean` (`Container.clone`, `Document.clone`): equality at birth.  In that pure
model two values cannot share state, so independence is true by construction and NOT claimed from
it; its theorems say that the clone holds the same document as the original whatever had been
cached, edited, replaced or deleted before, and that the original is left as it was.

`OdfModel/Heap.lean`: independence for life, as a statement about aliasing.  The mutable objects
behind the twins (lxml trees, cache lists and dicts, attribute dicts of wrappers, dicts of parts)
are cells of a heap, each owned by one twin; an operation on a twin allocates and writes cells of
that twin.  The theorems: what a twin can observe depends on its own sub-history only, for every
history and every interleaving.  The tie to the code is the trace check of harness/heapwalk.py: the
live objects reachable from the original and from the clone are walked after every operation, and
the allocations / changes seen are replayed on the model (a shared object or a change in the other
twin's objects is not a step of the model and is reported).
-/
namespace Odf.C10
open Odf.Pkg

/-- **equal at birth**: under every name the clone holds what the original holds (parsed and edited
    XML parts, replaced parts, deleted parts, parts still unread on disk) -/
theorem clone_equal_at_birth (d : Doc) (hw : WFd d) (n : Nat) : d.clone.view n = d.view n := clone_view d hw n

/-- a container's clone holds what the container holds, in memory: nothing is left on disk only -/
theorem container_clone_equal (c : Cont) (n : Nat) : cview c.clone n = cview c n ∧ c.clone.lazy = false ∧ c.clone.src = [] :=
  ⟨cont_clone_cview c n, rfl, rfl⟩

/-- the clone starts without any parsed part: it re-reads what the original had serialised into it -/
theorem clone_parses_nothing (d : Doc) : d.clone.parsed = [] := rfl

/-- **saving the clone writes what saving the original writes** -/
theorem clone_saves_the_same (d : Doc) (hw : WFd d) (rdf : Blob)
    (h1 : RdfOk (d.parse nMeta).2) (h2 : RdfOk (d.clone.parse nMeta).2) (n : Nat) :
    look (d.clone.save rdf).2 n = look (d.save rdf).2 n := by
  rw [save_written _ rdf (clone_wf d hw), prepared_view_of_ok _ rdf h2, clone_view d hw,
    save_written d rdf hw, prepared_view_of_ok d rdf h1]

/-- a clone of a clone is still the same document -/
theorem clone_twice (d : Doc) (hw : WFd d) (n : Nat) : d.clone.clone.view n = d.view n := by
  rw [clone_view _ (clone_wf d hw), clone_view d hw]

/-! non-vacuity: a lazily opened zip, one part parsed and edited, one deleted, then cloned -/
example :
    let d := (((Doc.ofPath [(0, .raw 1), (2, .raw 2), (9, .raw 4), (1, .man [])]).edit 2 (.raw 7))).delPart 9
    (d.clone.view 2, d.clone.view 9, d.clone.view 0) = (some (.raw 7), none, some (.raw 1)) := by decide +kernel

/-! ## independent for life (ownership heap) -/
section heap
open Odf.Heap
variable {V : Type}

/-- **no operation on the other twin is observable**: a history none of whose operations is applied
    to `o` leaves the contents of every mutable object of `o` as they were -/
theorem untouched_twin_unchanged (ops : List (Op V)) (o : Nat) (w w' : World V)
    (h : run w ops = some w') (hno : ∀ op ∈ ops, op.target ≠ o) : cellsOf w' o = cellsOf w o := by
  obtain ⟨w2, hr, he⟩ := run_sim ops o w w w' rfl h
  have : own o ops = [] := by
    simp only [own, List.filter_eq_nil_iff]
    intro op hop; simpa using hno op hop
  rw [this] at hr
  simp only [run, Option.some.injEq] at hr
  subst hr; exact he

/-- **a twin sees its own history only**: after any history on any number of twins, the contents of
    `o`'s objects are those the sub-history of the operations applied to `o` gives on its own -/
theorem own_history_only (ops : List (Op V)) (o : Nat) (w w' : World V) (h : run w ops = some w') :
    ∃ w'', run w (own o ops) = some w'' ∧ cellsOf w'' o = cellsOf w' o := by
  obtain ⟨w2, hr, he⟩ := run_sim ops o w w w' rfl h
  exact ⟨w2, hr, he.symm⟩

/-- **any interleaving**: two histories that apply the same operations, in the same order, to each
    twin - however they are interleaved - leave every twin with the same contents -/
theorem interleaving_irrelevant (ops1 ops2 : List (Op V)) (w w1 w2 : World V)
    (h1 : run w ops1 = some w1) (h2 : run w ops2 = some w2)
    (hsame : ∀ o, own o ops1 = own o ops2) (o : Nat) : cellsOf w1 o = cellsOf w2 o := by
  obtain ⟨a, ha, hea⟩ := own_history_only ops1 o w w1 h1
  obtain ⟨b, hb, heb⟩ := own_history_only ops2 o w w2 h2
  rw [hsame o, hb] at ha
  simp only [Option.some.injEq] at ha
  subst ha
  rw [← hea, ← heb]

/-- cloning (the birth of a new twin: fresh objects only) never modifies the original, and the new
    twin holds exactly the objects it was born with -/
theorem birth_keeps_the_original (w : World V) (o o' : Nat) (vs : List V) (hne : o' ≠ o)
    (hnew : cellsOf w o' = []) :
    ∃ w', step w (.alloc o' vs) = some w' ∧ cellsOf w' o = cellsOf w o ∧ cellsOf w' o' = vs := by
  refine ⟨_, rfl, ?_, ?_⟩
  · rw [cellsOf_append, cellsOf_fresh_other o' o vs hne]; simp
  · rw [cellsOf_append, hnew, cellsOf_fresh_own]; simp

/-- a write is refused exactly when the twin has no such object: the model has no step that
    reaches an object of another twin -/
theorem write_needs_an_own_object (w : World V) (o i : Nat) (v : V) :
    (∃ w', step w (.write o i v) = some w') ↔ i < (cellsOf w o).length :=
  ⟨fun ⟨w', h⟩ => (writeNth_own w o i v w' h).1, fun h => writeNth_succeeds w o i v h⟩

/-! non-vacuity: original 0 with two objects, clone 1 born with two, operations interleaved;
    the same per-twin histories in another interleaving; a write to a missing object is refused -/
example :
    let ops : List (Op Nat) := [.alloc 0 [10, 11], .alloc 1 [10, 11], .write 1 0 99, .write 0 1 7, .alloc 1 [5], .write 1 2 6]
    (run [] ops).map (fun w => (cellsOf w 0, cellsOf w 1)) = some ([10, 7], [99, 11, 6]) := by decide +kernel
example :
    let ops : List (Op Nat) := [.alloc 0 [10, 11], .write 0 1 7, .alloc 1 [10, 11], .alloc 1 [5], .write 1 0 99, .write 1 2 6]
    (run [] ops).map (fun w => (cellsOf w 0, cellsOf w 1)) = some ([10, 7], [99, 11, 6]) := by decide +kernel
example : (run [] ([.alloc 0 [1], .write 1 0 5] : List (Op Nat))).isNone = true := by decide +kernel

end heap

end Odf.C10
