import OdfModel.Gen.Dispatch
import OdfProps.C18
import OdfProofs.Coord

/-!
# C06 — typed values survive the trip through the document for every value of every type

The part of C06 that is logic: (1) which branch of the writers' `isinstance` chains a value of
each Python type enters — the chains are REGENERATED from the AST of the source on every run
(`OdfModel/Gen/Dispatch.lean`), so a reordering of the tests changes the input of the `decide`
theorems below; (2) the codecs the branches use, whose round trips are the theorems of C18.
What stays correspondence-only (PARTIAL): `str(float)` / `Decimal(str)` / `int(Decimal)` (CPython),
the carriers' attribute plumbing, and the document save/reopen path.
-/
namespace Odf.C06
open Odf.PyT Odf.Gen

/-- **`set_value_and_type`** (Cell, VarSet, UserFieldDecl, UserDefined, Table/Row.set_value): for
    every Python type, the first branch entered writes the ODF value type that corresponds to
    it, and a datetime is encoded as a datetime (not by the `date` branch, which would drop the
    time) although `datetime` is a subclass of `date` — likewise `bool` / `int` -/
theorem dispatch_sound : ∀ t ∈ PyT.all,
    branchOf setValueAndTypeChain t = some (odfType t) := by
  decide +kernel

theorem dispatch_datetime_keeps_time :
    branchOf setValueAndTypeEncoders .datetime = some "DateTime" ∧
    branchOf setValueAndTypeEncoders .date = some "Date" ∧
    branchOf setValueAndTypeEncoders .bool = some "Boolean" ∧
    branchOf setValueAndTypeEncoders .timedelta = some "Duration" := by decide +kernel

/-- **user-defined metadata**: the same for `Meta.set_user_defined_metadata` -/
theorem meta_dispatch_sound : ∀ t ∈ PyT.all,
    branchOf userDefinedMetaChain t = some (odfType t) := by
  decide +kernel

theorem meta_dispatch_datetime_keeps_time :
    branchOf userDefinedMetaEncoders .datetime = some "DateTime" ∧
    branchOf userDefinedMetaEncoders .date = some "Date" ∧
    branchOf userDefinedMetaEncoders .timedelta = some "Duration" := by decide +kernel

/-- **`Cell.value = v`**: every type reaches the property setter meant for it (`bool` is tested
    before `int`, `datetime` before `date`) -/
theorem cell_setter_dispatch :
    PyT.all.map (branchOf cellValueSetterChain) =
      [some "bool", some "int", some "float", some "decimal", some "string", some "datetime", some "date", some "duration"] := by
  decide +kernel

/-- the codecs used by the branches are exact inverses (C18) -/
theorem duration_codec (total : Int) :
    Odf.Codec.decodeDur (Odf.Codec.encodeDur total) = some total := Odf.C18.duration_roundtrip total
theorem datetime_codec (t : Odf.Codec.DateTime) (hv : t.valid) :
    Odf.Codec.decodeDateTime (Odf.Codec.encodeDateTime t) = some t := Odf.C18.datetime_roundtrip t hv
theorem bool_codec (b : Bool) : Odf.Codec.decodeBool (Odf.Codec.encodeBool b) = some b := Odf.C18.bool_roundtrip b

/-- an integer of any size and sign is written (`str(v)`) and read (`int(...)`) without loss -/
theorem int_lexical (z : Int) : Odf.Coord.parseInt (Odf.Coord.intToStr z) = some z := Odf.Coord.parseInt_intToStr z

/-- a chain that tested `date` before `datetime` would send datetimes to the date branch: the
    theorems above are not vacuous -/
example : branchOf [([.date], "Date"), ([.datetime], "DateTime")] .datetime = some "Date" := by decide

end Odf.C06
