import OdfProofs.Codec
import OdfModel.Gen.Colors

/-!
# C18 — date, time, duration, boolean, colour codecs: exact inverses, ODF lexical form

Model: `OdfModel/Codec.lean`. All statements are unbounded (every duration of either sign down
to the microsecond, every colour, every valid date / datetime / offset).
-/
namespace Odf.C18
open Odf.Coord Odf.Codec

/-! ### Duration -/

/-- the fraction written after the seconds: nothing for whole seconds, else `.` and the
    microseconds as six digits with the trailing zeros stripped -/
def fracPart (m : Nat) : List Char :=
  if m = 0 then [] else '.' :: digitsStr (rstripZeros (fixedDigits 6 m))

theorem encodeDur_shape (total : Int) :
    encodeDur total =
      (if total < 0 then ['-'] else []) ++ 'P' :: 'T' ::
        (digitsStr (pad2 (total.natAbs / 3600000000)) ++ 'H' ::
          (digitsStr (pad2 (total.natAbs % 3600000000 / 60000000)) ++ 'M' ::
            (digitsStr (pad2 (total.natAbs % 3600000000 % 60000000 / 1000000)) ++
              (fracPart (total.natAbs % 3600000000 % 60000000 % 1000000) ++ ['S'])))) := by
  simp [encodeDur, fracPart]

/-- the encoded string is in the xsd:duration lexical space: optional `-`, `PT`, then three
    non-empty all-digit fields (each at least two digits) closed by `H`, `M`, `S`, the seconds
    optionally followed by `.` and one to six digits not ending in a stripped-away zero run. -/
theorem duration_lexical (total : Int) :
    ∃ hh mm ss ff : List Nat,
      (∀ d ∈ hh ++ mm ++ ss ++ ff, d < 10) ∧ 2 ≤ hh.length ∧ mm.length = 2 ∧ ss.length = 2 ∧ ff.length ≤ 6 ∧
      (ff = [] ↔ total % 1000000 = 0) ∧
      encodeDur total = (if total < 0 then ['-'] else []) ++ 'P' :: 'T' ::
        (digitsStr hh ++ 'H' :: (digitsStr mm ++ 'M' :: (digitsStr ss ++
          ((if ff = [] then [] else '.' :: digitsStr ff) ++ ['S'])))) := by
  by_cases hm : total.natAbs % 3600000000 % 60000000 % 1000000 = 0
  · refine ⟨pad2 (total.natAbs / 3600000000), pad2 (total.natAbs % 3600000000 / 60000000),
      pad2 (total.natAbs % 3600000000 % 60000000 / 1000000), [], ?_, ?_, ?_, ?_, by simp, ?_, ?_⟩
    · intro d hd
      simp only [List.mem_append, List.append_nil] at hd
      rcases hd with (hd | hd) | hd <;> exact pad2_lt10 _ d hd
    · unfold pad2
      split
      · simp
      · exact toDec_length_ge2 _ (by omega)
    · have : total.natAbs % 3600000000 / 60000000 < 60 := by omega
      unfold pad2; split
      · simp
      · rename_i h
        have h2 := toDec_two (total.natAbs % 3600000000 / 60000000) (by omega) (by omega)
        rw [h2]; rfl
    · have : total.natAbs % 3600000000 % 60000000 / 1000000 < 60 := by omega
      unfold pad2; split
      · simp
      · rename_i h
        have h2 := toDec_two (total.natAbs % 3600000000 % 60000000 / 1000000) (by omega) (by omega)
        rw [h2]; rfl
    · simp only [true_iff]; omega
    · rw [encodeDur_shape, fracPart, if_pos hm]; simp
  · have hlt : total.natAbs % 3600000000 % 60000000 % 1000000 < 1000000 := by omega
    have hne : rstripZeros (fixedDigits 6 (total.natAbs % 3600000000 % 60000000 % 1000000)) ≠ [] := by
      apply rstripZeros_ne_nil
      rw [decVal_fixedDigits]; omega
    refine ⟨pad2 (total.natAbs / 3600000000), pad2 (total.natAbs % 3600000000 / 60000000),
      pad2 (total.natAbs % 3600000000 % 60000000 / 1000000),
      rstripZeros (fixedDigits 6 (total.natAbs % 3600000000 % 60000000 % 1000000)), ?_, ?_, ?_, ?_, ?_, ?_, ?_⟩
    · intro d hd
      simp only [List.mem_append] at hd
      rcases hd with ((hd | hd) | hd) | hd
      · exact pad2_lt10 _ d hd
      · exact pad2_lt10 _ d hd
      · exact pad2_lt10 _ d hd
      · exact rstripZeros_lt10 _ (fixedDigits_lt10 6 _) d hd
    · unfold pad2
      split
      · simp
      · exact toDec_length_ge2 _ (by omega)
    · have : total.natAbs % 3600000000 / 60000000 < 60 := by omega
      unfold pad2; split
      · simp
      · rename_i h
        have h2 := toDec_two (total.natAbs % 3600000000 / 60000000) (by omega) (by omega)
        rw [h2]; rfl
    · have : total.natAbs % 3600000000 % 60000000 / 1000000 < 60 := by omega
      unfold pad2; split
      · simp
      · rename_i h
        have h2 := toDec_two (total.natAbs % 3600000000 % 60000000 / 1000000) (by omega) (by omega)
        rw [h2]; rfl
    · have := rstripZeros_length_le (fixedDigits 6 (total.natAbs % 3600000000 % 60000000 % 1000000))
      rw [fixedDigits_length] at this; exact this
    · constructor
      · intro h; exact absurd h hne
      · intro h; omega
    · rw [encodeDur_shape, fracPart, if_neg hm, if_neg hne]

theorem decodeDur_pos_body (hh mm ss : List Nat) (m : Nat) (hm : m < 1000000)
    (hh10 : ∀ d ∈ hh, d < 10) (mm10 : ∀ d ∈ mm, d < 10) (ss10 : ∀ d ∈ ss, d < 10)
    (hhne : hh ≠ []) (mmne : mm ≠ []) (ssne : ss ≠ []) :
    decodeDurBody ('P' :: 'T' :: (digitsStr hh ++ 'H' :: (digitsStr mm ++ 'M' :: (digitsStr ss ++ (fracPart m ++ ['S']))))) =
      some (((decVal hh * 60 + decVal mm) * 60 + decVal ss) * 1000000 + m) := by
  unfold decodeDurBody
  simp only
  have hD : optNum 'D' ('T' :: (digitsStr hh ++ 'H' :: (digitsStr mm ++ 'M' :: (digitsStr ss ++ (fracPart m ++ ['S'])))))
      = (none, 'T' :: (digitsStr hh ++ 'H' :: (digitsStr mm ++ 'M' :: (digitsStr ss ++ (fracPart m ++ ['S']))))) := by
    have := optNum_miss 'D' 'T' (by decide) (by decide) [] (by simp)
      (digitsStr hh ++ 'H' :: (digitsStr mm ++ 'M' :: (digitsStr ss ++ (fracPart m ++ ['S']))))
    simpa [digitsStr] using this
  rw [hD]
  simp only
  cases hhd : hh with
  | nil => exact absurd hhd hhne
  | cons a t =>
    have hcons : digitsStr (a :: t) = digitChar a :: digitsStr t := rfl
    have ha : isDigit (digitChar a) = true := isDigit_digitChar a (hh10 a (by simp [hhd]))
    rw [hcons]
    simp only [List.cons_append, ha, if_true]
    rw [← List.cons_append, ← hcons, ← hhd]
    rw [optNum_hit 'H' (by decide) hh hhne hh10]
    simp only
    rw [optNum_hit 'M' (by decide) mm mmne mm10]
    simp only
    by_cases hm0 : m = 0
    · subst hm0
      simp only [fracPart, if_true, List.nil_append]
      rw [optSec_plain ss ssne ss10]
      simp [fracMicros, numVal, decVal, charDigit]
    · have hne : rstripZeros (fixedDigits 6 m) ≠ [] := by
        apply rstripZeros_ne_nil
        rw [decVal_fixedDigits]; omega
      simp only [fracPart, if_neg hm0, List.cons_append]
      rw [optSec_frac ss _ ssne hne ss10 (rstripZeros_lt10 _ (fixedDigits_lt10 6 m))]
      simp [fracMicros_frac m hm]

/-- **duration round trip**: for EVERY duration of either sign, down to the microsecond,
    `Duration.decode(Duration.encode(d)) == d`. -/
theorem duration_roundtrip (total : Int) :
    decodeDur (encodeDur total) = some total := by
  rw [encodeDur_shape]
  have key := decodeDur_pos_body (pad2 (total.natAbs / 3600000000))
    (pad2 (total.natAbs % 3600000000 / 60000000))
    (pad2 (total.natAbs % 3600000000 % 60000000 / 1000000))
    (total.natAbs % 3600000000 % 60000000 % 1000000) (by omega)
    (pad2_lt10 _) (pad2_lt10 _) (pad2_lt10 _) (pad2_ne_nil _) (pad2_ne_nil _) (pad2_ne_nil _)
  simp only [decVal_pad2] at key
  have harith : ((total.natAbs / 3600000000 * 60 + total.natAbs % 3600000000 / 60000000) * 60 +
      total.natAbs % 3600000000 % 60000000 / 1000000) * 1000000 +
      total.natAbs % 3600000000 % 60000000 % 1000000 = total.natAbs := by
    omega
  rw [harith] at key
  by_cases hneg : total < 0
  · rw [if_pos hneg]
    simp only [List.cons_append, List.nil_append, decodeDur]
    rw [key]
    simp
    omega
  · rw [if_neg hneg, List.nil_append]
    simp only [decodeDur]
    rw [key]
    simp
    omega

/-- decoding rejects what is outside the form: a few representative classes, each for *all*
    instances (no designator at all, a year or month designator, a bare `T`). -/
theorem duration_rejects_no_P (s : List Char) (h1 : s.head? ≠ some 'P') (h2 : s.head? ≠ some '-') :
    decodeDur s = none := by
  cases s with
  | nil => rfl
  | cons c r =>
    simp at h1 h2
    unfold decodeDur
    split
    · rename_i heq; simp at heq; exact absurd heq.1 h2
    · unfold decodeDurBody
      split
      · rename_i heq; simp at heq; exact absurd heq.1 h1
      · rfl

/-! ### Boolean -/

theorem bool_roundtrip (b : Bool) : decodeBool (encodeBool b) = some b := by
  cases b <;> decide

theorem bool_lexical (b : Bool) : encodeBool b = "true".toList ∨ encodeBool b = "false".toList := by
  cases b <;> simp [encodeBool]

theorem bool_rejects (s : List Char) (h1 : s ≠ "true".toList) (h2 : s ≠ "false".toList) :
    decodeBool s = none := by
  unfold decodeBool
  rw [if_neg h1, if_neg h2]

/-! ### colours -/

/-- every 24-bit colour: `hex2rgb(rgb2hex((r, g, b))) == (r, g, b)` and the string is `#RRGGBB`. -/
theorem colour_roundtrip (r g b : Nat) (hr : r ≤ 255) (hg : g ≤ 255) (hb : b ≤ 255) :
    ∃ s, rgb2hex r g b = some s ∧ hex2rgb s = some (r, g, b) ∧ isHexColour s = true := by
  refine ⟨['#'] ++ hex2 r ++ hex2 g ++ hex2 b, by simp [rgb2hex, hr, hg, hb], ?_, ?_⟩
  · simp only [hex2, List.cons_append, List.nil_append, hex2rgb]
    rw [hexPair_hex2 r (by omega), hexPair_hex2 g (by omega), hexPair_hex2 b (by omega)]
  · have h1 := hex2_isHex r (by omega)
    have h2 := hex2_isHex g (by omega)
    have h3 := hex2_isHex b (by omega)
    simp [hex2, isHexColour, h1.1, h1.2, h2.1, h2.2, h3.1, h3.2]

theorem colour_rejects_out_of_range (r g b : Nat) (h : 255 < r ∨ 255 < g ∨ 255 < b) :
    rgb2hex r g b = none := by
  unfold rgb2hex
  rw [if_neg (by omega)]

/-- every entry of the CSS colour table *as it stands in the source now* (the table is
    regenerated from `const.py` on every run) has three channels in 0..255 … -/
theorem css_table_in_range :
    ∀ e ∈ Odf.Gen.cssColors, e.2.1 ≤ 255 ∧ e.2.2.1 ≤ 255 ∧ e.2.2.2 ≤ 255 := by
  decide +kernel

/-- … hence every CSS colour name encodes to a `#RRGGBB` string that decodes to its table entry -/
theorem css_roundtrip (e : String × Nat × Nat × Nat) (he : e ∈ Odf.Gen.cssColors) :
    ∃ s, rgb2hex e.2.1 e.2.2.1 e.2.2.2 = some s ∧ hex2rgb s = some (e.2.1, e.2.2.1, e.2.2.2) ∧
      isHexColour s = true := by
  obtain ⟨h1, h2, h3⟩ := css_table_in_range e he
  exact colour_roundtrip _ _ _ h1 h2 h3

/-! ### dates -/

theorem parseDate_iso (d : Date) (hv : d.valid) (rest : List Char) :
    parseDate (isoDate d ++ rest) = some (d, rest) := by
  obtain ⟨h1, h2, h3, h4, h5, h6⟩ := hv
  unfold parseDate isoDate
  simp only [List.append_assoc, List.cons_append, List.nil_append]
  rw [takeNum_fixed]
  simp only [Option.bind_eq_bind, Option.bind_some, expect, if_true]
  rw [takeNum_fixed]
  simp only [Option.bind_some, expect, if_true]
  rw [takeNum_fixed]
  simp only [Option.bind_some]
  have e1 : d.y % 10 ^ 4 = d.y := Nat.mod_eq_of_lt (by omega)
  have e2 : d.m % 10 ^ 2 = d.m := Nat.mod_eq_of_lt (by omega)
  have e3 : d.d % 10 ^ 2 = d.d := Nat.mod_eq_of_lt (by omega)
  rw [e1, e2, e3, if_pos ⟨h1, h3, h4, h5, h6⟩]

/-- `Date.decode(Date.encode(d))` is the same day at 00:00 (odfdo's decoder is
    `datetime.fromisoformat`: the *value* is preserved, the *type* is widened to datetime —
    recorded as finding C18-F2 on the implementation side). -/
theorem date_roundtrip (d : Date) (hv : d.valid) :
    decodeDate (encodeDate d) = some ⟨d, 0, 0, 0, 0, none⟩ := by
  unfold decodeDate decodeDateTime encodeDate
  have := parseDate_iso d hv []
  simp only [List.append_nil] at this
  rw [this]

/-! ### datetimes -/

theorem parseTz_iso (tz : Option Tz) (hv : ∀ z, tz = some z → z.valid) :
    parseTz (tzStr tz) = some tz := by
  cases tz with
  | none => rfl
  | some z =>
    obtain ⟨h1, h2, h3⟩ := hv z rfl
    obtain ⟨neg, hh, mm⟩ := z
    simp only at h1 h2 h3
    have e1 : hh % 10 ^ 2 = hh := Nat.mod_eq_of_lt (by omega)
    have e2 : mm % 10 ^ 2 = mm := Nat.mod_eq_of_lt (by omega)
    have hfd : ∀ n, fixedDigits 2 n = [n / 10 % 10, n % 10] := by intro n; simp [fixedDigits]
    cases neg with
    | false =>
      simp only [tzStr, isoTz, Bool.false_eq_true, if_false, List.cons_append, List.nil_append]
      have hnz : ('+' :: (digitsStr (fixedDigits 2 hh) ++ ':' :: digitsStr (fixedDigits 2 mm))) ≠ ['Z'] := by simp
      unfold parseTz
      split
      · rename_i heq; simp at heq
      · rename_i heq; exact absurd heq hnz
      · rename_i sg r hne1 hne2 heq
        simp only [List.cons.injEq] at heq
        obtain ⟨rfl, rfl⟩ := heq
        simp only [true_or, if_true, List.append_assoc, List.cons_append, List.nil_append]
        have := takeNum_fixed 2 hh (':' :: digitsStr (fixedDigits 2 mm))
        rw [this]
        simp only [Option.bind_eq_bind, Option.bind_some, expect, if_true]
        have := takeNum_fixed 2 mm []
        simp only [List.append_nil] at this
        rw [this]
        simp
        omega
    | true =>
      simp only [tzStr, isoTz, if_true, List.cons_append, List.nil_append]
      have hnz : ('-' :: (digitsStr (fixedDigits 2 hh) ++ ':' :: digitsStr (fixedDigits 2 mm))) ≠ ['Z'] := by simp
      unfold parseTz
      split
      · rename_i heq; simp at heq
      · rename_i heq; exact absurd heq hnz
      · rename_i sg r hne1 hne2 heq
        simp only [List.cons.injEq] at heq
        obtain ⟨rfl, rfl⟩ := heq
        simp only [or_true, if_true, List.append_assoc, List.cons_append, List.nil_append]
        have := takeNum_fixed 2 hh (':' :: digitsStr (fixedDigits 2 mm))
        rw [this]
        simp only [Option.bind_eq_bind, Option.bind_some, expect, if_true]
        have := takeNum_fixed 2 mm []
        simp only [List.append_nil] at this
        rw [this]
        have := h3 rfl
        simp
        omega

theorem tzStr_head (tz : Option Tz) : ∀ c, (tzStr tz).head? = some c → c ≠ '.' := by
  intro c hc
  cases tz with
  | none => simp [tzStr] at hc
  | some z =>
    simp only [tzStr, isoTz, List.cons_append, List.nil_append, List.head?_cons, Option.some.injEq] at hc
    subst hc
    split <;> decide

theorem parseFrac_iso (us : Nat) (hus : us < 1000000) (tz : Option Tz) :
    parseFrac (usStr us ++ tzStr tz) = some (us, tzStr tz) := by
  unfold usStr
  split
  · rename_i h0
    subst h0
    simp only [List.nil_append]
    unfold parseFrac
    split
    · rename_i r' heq
      have := tzStr_head tz '.' (by rw [heq]; rfl)
      exact absurd rfl this
    · rfl
  · simp only [List.cons_append, List.nil_append, parseFrac]
    rw [takeNum_fixed]
    rw [Nat.mod_eq_of_lt (by omega)]

/-- decoding `date T HH:MM:SS [.ffffff] <zone>` for any zone string that `parseTz` accepts -/
theorem decode_general (t : DateTime) (hv : t.valid) (tzs : List Char)
    (hhead : ∀ c, tzs.head? = some c → c ≠ '.')
    (hparse : parseTz tzs = some t.tz) :
    decodeDateTime (isoDate t.date ++ ['T'] ++ digitsStr (fixedDigits 2 t.h) ++ [':'] ++
      digitsStr (fixedDigits 2 t.mi) ++ [':'] ++ digitsStr (fixedDigits 2 t.s) ++ usStr t.us ++ tzs) = some t := by
  obtain ⟨hd, hh, hmi, hs, hus, htz⟩ := hv
  unfold decodeDateTime
  simp only [List.append_assoc, List.cons_append, List.nil_append]
  rw [parseDate_iso t.date hd]
  simp only
  unfold parseTimePart
  simp only [expect, if_true, Option.bind_eq_bind, Option.bind_some]
  rw [takeNum_fixed]
  simp only [Option.bind_some, expect, if_true]
  rw [takeNum_fixed]
  simp only [Option.bind_some, expect, if_true]
  rw [takeNum_fixed]
  simp only [Option.bind_some]
  have hfrac : parseFrac (usStr t.us ++ tzs) = some (t.us, tzs) := by
    unfold usStr
    split
    · rename_i h0
      simp only [List.nil_append]
      cases tzs with
      | nil => simp [parseFrac, h0]
      | cons c r =>
        have hc : c ≠ '.' := hhead c rfl
        unfold parseFrac
        split
        · rename_i heq; simp at heq; exact absurd heq.1 hc
        · rw [h0]
    · simp only [List.cons_append, List.nil_append, parseFrac]
      rw [takeNum_fixed, Nat.mod_eq_of_lt (by omega)]
  rw [hfrac]
  simp only [Option.bind_some]
  rw [hparse]
  simp only [Option.bind_some]
  have e1 : t.h % 10 ^ 2 = t.h := Nat.mod_eq_of_lt (by omega)
  have e2 : t.mi % 10 ^ 2 = t.mi := Nat.mod_eq_of_lt (by omega)
  have e3 : t.s % 10 ^ 2 = t.s := Nat.mod_eq_of_lt (by omega)
  rw [e1, e2, e3, if_pos ⟨hh, hmi, hs⟩]

/-- `datetime.fromisoformat(dt.isoformat()) == dt` on the model of the two CPython functions,
    for every valid datetime: years 1..9999, every microsecond, naive or with any ±HH:MM offset. -/
theorem datetime_iso_roundtrip (t : DateTime) (hv : t.valid) :
    decodeDateTime (isoDateTime t) = some t := by
  unfold isoDateTime
  exact decode_general t hv (tzStr t.tz) (tzStr_head t.tz) (parseTz_iso t.tz hv.2.2.2.2.2)

theorem suffix_split {α} (a b : List α) (k : Nat) (hb : b.length = k) :
    (a ++ b).drop ((a ++ b).length - k) = b ∧ (a ++ b).take ((a ++ b).length - k) = a := by
  have : (a ++ b).length - k = a.length := by simp; omega
  rw [this]
  simp

theorem digitChar_zero : ∀ d, d < 10 → digitChar d = '0' → d = 0 := by decide
theorem digitChar_ne_plus : ∀ d, d < 10 → digitChar d ≠ '+' := by decide

theorem isoTz_length (z : Tz) : (isoTz z).length = 6 := by
  simp [isoTz, digitsStr, fixedDigits_length]

theorem isoTz_utc (z : Tz) (hz : z.valid) (h : isoTz z = "+00:00".toList) : z = ⟨false, 0, 0⟩ := by
  obtain ⟨neg, hh, mm⟩ := z
  obtain ⟨h1, h2, _⟩ := hz
  simp only at h1 h2
  have hl : ("+00:00" : String).toList = ['+', '0', '0', ':', '0', '0'] := by decide
  rw [hl] at h
  simp only [isoTz, digitsStr, fixedDigits, List.nil_append, List.map_cons, List.map_nil,
    List.cons_append] at h
  simp only [List.cons.injEq, and_true] at h
  obtain ⟨hs, a, b, _, c, d⟩ := h
  have ha := digitChar_zero _ (by omega) a
  have hb := digitChar_zero _ (by omega) b
  have hc := digitChar_zero _ (by omega) c
  have hd := digitChar_zero _ (by omega) d
  have : neg = false := by
    cases neg with
    | false => rfl
    | true => simp at hs
  subst this
  have : hh = 0 := by omega
  have : mm = 0 := by omega
  subst_vars
  rfl

/-- **datetime round trip through odfdo's codec** (`DateTime.encode` rewrites a trailing
    `+00:00` to `Z`, `DateTime.decode` is `fromisoformat`): for every valid datetime,
    naive or aware, with or without microseconds, `decode (encode t) = t`. -/
theorem datetime_roundtrip (t : DateTime) (hv : t.valid) :
    decodeDateTime (encodeDateTime t) = some t := by
  have hiso := datetime_iso_roundtrip t hv
  unfold encodeDateTime
  simp only
  cases htz : t.tz with
  | some z =>
    have hzv := hv.2.2.2.2.2 z htz
    have htext : isoDateTime t = (isoDate t.date ++ ['T'] ++ digitsStr (fixedDigits 2 t.h) ++ [':'] ++
        digitsStr (fixedDigits 2 t.mi) ++ [':'] ++ digitsStr (fixedDigits 2 t.s) ++ usStr t.us) ++ isoTz z := by
      simp [isoDateTime, htz, tzStr]
    obtain ⟨hdrop, htake⟩ := suffix_split (isoDate t.date ++ ['T'] ++ digitsStr (fixedDigits 2 t.h) ++ [':'] ++
        digitsStr (fixedDigits 2 t.mi) ++ [':'] ++ digitsStr (fixedDigits 2 t.s) ++ usStr t.us) (isoTz z) 6 (isoTz_length z)
    rw [htext, hdrop, htake]
    split
    · rename_i hutc
      have hz := isoTz_utc z hzv hutc
      apply decode_general t hv ['Z'] (by intro c hc; simp at hc; subst hc; decide)
      rw [htz, hz]
      rfl
    · rw [← htext]; exact hiso
  | none =>
    have hne : (isoDateTime t).drop ((isoDateTime t).length - 6) ≠ "+00:00".toList := by
      by_cases hus : t.us = 0
      · have htext : isoDateTime t = (isoDate t.date ++ ['T'] ++ digitsStr (fixedDigits 2 t.h)) ++
            ([':'] ++ digitsStr (fixedDigits 2 t.mi) ++ [':'] ++ digitsStr (fixedDigits 2 t.s)) := by
          simp [isoDateTime, htz, tzStr, usStr, hus]
        rw [htext, (suffix_split _ _ 6 (by simp [digitsStr, fixedDigits_length])).1]
        simp
      · have htext : isoDateTime t = (isoDate t.date ++ ['T'] ++ digitsStr (fixedDigits 2 t.h) ++ [':'] ++
            digitsStr (fixedDigits 2 t.mi) ++ [':'] ++ digitsStr (fixedDigits 2 t.s) ++ ['.']) ++
            digitsStr (fixedDigits 6 t.us) := by
          simp [isoDateTime, htz, tzStr, usStr, hus]
        rw [htext, (suffix_split _ _ 6 (by simp [digitsStr, fixedDigits_length])).1]
        intro h
        have hlen : (fixedDigits 6 t.us).length = 6 := fixedDigits_length 6 t.us
        match hfd : fixedDigits 6 t.us, hlen with
        | [a, b, c, d, e, f], _ =>
          rw [hfd] at h
          have ha : a < 10 := fixedDigits_lt10 6 t.us a (by rw [hfd]; simp)
          simp [digitsStr] at h
          exact absurd h.1 (digitChar_ne_plus a ha)
    rw [if_neg hne]
    exact hiso

/-! non-vacuity / concrete instances -/
example : encodeDur 45296000000 = "PT12H34M56S".toList := by decide +kernel
example : decodeDur "PT12H34M56S".toList = some 45296000000 := by decide +kernel
example : encodeDur (-1000000) = "-PT00H00M01S".toList := by decide +kernel
example : decodeDur "P1Y2D".toList = none := by decide +kernel
example : decodeDur "PXYZ".toList = none := by decide +kernel
example : decodeDur "PT1.5S".toList = some 1500000 := by decide +kernel
example : decodeDur "P2DT3H".toList = some 183600000000 := by decide +kernel
example : decodeDur "P1DT".toList = none := by decide +kernel
example : rgb2hex 238 130 238 = some "#EE82EE".toList := by decide +kernel
example : hex2rgb "#ee82EE".toList = some (238, 130, 238) := by decide +kernel
example : (⟨2024, 1, 31⟩ : Date).valid := by unfold Date.valid; decide
example : encodeDate ⟨2024, 1, 31⟩ = "2024-01-31".toList := by decide +kernel
example : encodeDateTime ⟨⟨2024, 1, 31⟩, 12, 30, 15, 0, some ⟨false, 0, 0⟩⟩ = "2024-01-31T12:30:15Z".toList := by
  decide +kernel
example : decodeDateTime "2024-01-31T12:30:15.000250-05:30".toList =
    some ⟨⟨2024, 1, 31⟩, 12, 30, 15, 250, some ⟨true, 5, 30⟩⟩ := by decide +kernel

end Odf.C18
