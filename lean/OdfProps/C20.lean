import OdfProofs.Toc

/-!
# C20 — a filled table of contents lists exactly the headings, in order, numbered right

Model: `OdfModel/Toc.lean` — `TOC._header_numbering` with its `dict` of counters, the copy in
`scripts/headers.py`, and the entry loop of `fill`.  Spec: outline counters as a plain list.
All statements are for every sequence of heading levels ≥ 1 (any order, skipped levels, any
depth) and every outline level.  The text of an entry is `number ++ " " ++ heading text` passed
through the paragraph encoder, whose exactness is C05's theorem.
-/
namespace Odf.C20
open Odf.Toc

/-- **one heading**: on a dict whose keys are 1..k, numbering a heading of level L ≥ 1 gives
    the spec's numbers, leaves the keys exactly 1..L (deeper counters are *all* dropped — the
    `while idx in level_indexes` loop), and the dict holds the numbers just issued -/
theorem step_refines (d : Dict) (k L : Nat) (hc : Contig d k) (hL : 1 ≤ L) :
    (headerNumbering d L).2 = specStep (absList d k) L ∧
    Contig (headerNumbering d L).1 L ∧
    absList (headerNumbering d L).1 L = (headerNumbering d L).2 := by
  obtain ⟨hs1, hs2⟩ := setDefaults_spec (L - 1) d 1
  -- the dict after the three statements before the loop
  have hlook2 : ∀ i, look (dset (setDefaults d 1 (L - 1)).1 L ((look (setDefaults d 1 (L - 1)).1 L).getD 0 + 1)) i =
      if i = L then some ((look d L).getD 0 + 1)
      else if 1 ≤ i ∧ i < L then some ((look d i).getD 1) else look d i := by
    intro i
    rw [look_dset]
    by_cases hi : i = L
    · subst hi
      rw [if_pos rfl, if_pos rfl, hs1 i, if_neg (by omega)]
    · rw [if_neg hi, if_neg hi, hs1 i]
      by_cases hin : 1 ≤ i ∧ i < 1 + (L - 1)
      · rw [if_pos hin, if_pos (by omega)]
      · rw [if_neg hin, if_neg (by omega)]
  -- keys after the loop
  have hdel := delFrom_spec (maxKey (dset (setDefaults d 1 (L - 1)).1 L ((look (setDefaults d 1 (L - 1)).1 L).getD 0 + 1)) + 2)
    (dset (setDefaults d 1 (L - 1)).1 L ((look (setDefaults d 1 (L - 1)).1 L).getD 0 + 1)) (L + 1) (max k L) (by
      intro i hi
      rw [hlook2 i, if_neg (by omega), if_neg (by omega), hc i]
      omega) (by
      have : max k L ≤ maxKey (dset (setDefaults d 1 (L - 1)).1 L ((look (setDefaults d 1 (L - 1)).1 L).getD 0 + 1)) := by
        apply key_le_maxKey
        rw [hlook2]
        by_cases hkl : max k L = L
        · rw [if_pos hkl]; rfl
        · rw [if_neg hkl, if_neg (by omega), hc]; omega
      omega)
  have hfinal : ∀ i, look (headerNumbering d L).1 i =
      if L + 1 ≤ i then none
      else if i = L then some ((look d L).getD 0 + 1)
      else if 1 ≤ i ∧ i < L then some ((look d i).getD 1) else look d i := by
    intro i
    unfold headerNumbering
    simp only
    rw [hdel i, hlook2 i]
  have hnums : (headerNumbering d L).2 =
      (List.range (L - 1)).map (fun t => (look d (1 + t)).getD 1) ++ [(look d L).getD 0 + 1] := by
    unfold headerNumbering
    simp only
    rw [hs2, hs1 L, if_neg (by omega)]
  have hnone : ∀ i, k < i → look d i = none := by
    intro i hi
    have := hc i
    cases hl : look d i with
    | none => rfl
    | some v => rw [hl] at this; simp at this; omega
  refine ⟨?_, ?_, ?_⟩
  · -- numbers = spec
    rw [hnums]
    unfold specStep absList
    simp only [List.length_take, List.length_map, List.length_range]
    congr 1
    · apply List.ext_getElem?
      intro i
      by_cases hi : i < L - 1
      · rw [List.getElem?_map, List.getElem?_range hi]
        simp only [Option.map_some]
        by_cases hik : i < k
        · rw [List.getElem?_append_left (by simp; omega), List.getElem?_take_of_lt hi,
            List.getElem?_map, List.getElem?_range hik]
          simp only [Option.map_some, Option.some.injEq]
          have : (look d (i + 1)).isSome := (hc (i + 1)).2 (by omega)
          rw [Nat.add_comm 1 i]
          cases hl : look d (i + 1) with
          | none => rw [hl] at this; simp at this
          | some v => rfl
        · rw [List.getElem?_append_right (by simp; omega), List.getElem?_replicate]
          rw [if_pos (by simp; omega), Nat.add_comm 1 i, hnone (i + 1) (by omega)]
          rfl
      · rw [List.getElem?_eq_none (by simp; omega), List.getElem?_eq_none (by simp; omega)]
    · congr 2
      by_cases hLk : L ≤ k
      · rw [List.getD_eq_getElem?_getD, List.getElem?_map, List.getElem?_range (by omega)]
        simp only [Option.map_some, Option.getD_some]
        have : L - 1 + 1 = L := by omega
        rw [this]
      · rw [hnone L (by omega), List.getD_eq_getElem?_getD, List.getElem?_eq_none (by simp; omega)]
  · -- keys are exactly 1..L
    intro i
    rw [hfinal i]
    by_cases h1 : L + 1 ≤ i
    · rw [if_pos h1]; simp; omega
    · rw [if_neg h1]
      by_cases h2 : i = L
      · rw [if_pos h2]; simp; omega
      · rw [if_neg h2]
        by_cases h3 : 1 ≤ i ∧ i < L
        · rw [if_pos h3]; simp; omega
        · rw [if_neg h3]
          have hi0 : i = 0 := by omega
          subst hi0
          have := hc 0
          simp at this ⊢
          cases hl : look d 0 with
          | none => simp
          | some v => rw [hl] at this; simp at this
  · -- the dict holds the numbers just issued
    rw [hnums]
    unfold absList
    apply List.ext_getElem?
    intro i
    by_cases hi : i < L - 1
    · rw [List.getElem?_map, List.getElem?_range (by omega), List.getElem?_append_left (by simp; omega),
        List.getElem?_map, List.getElem?_range hi]
      simp only [Option.map_some, Option.some.injEq]
      rw [hfinal (i + 1), if_neg (by omega), if_neg (by omega), if_pos (by omega), Nat.add_comm 1 i]
      rfl
    · by_cases hi2 : i = L - 1
      · subst hi2
        rw [List.getElem?_map, List.getElem?_range (by omega), List.getElem?_append_right (by simp)]
        simp only [List.length_map, List.length_range, Nat.sub_self, Option.map_some]
        have : L - 1 + 1 = L := by omega
        rw [this, hfinal L, if_neg (by omega), if_pos rfl]
        rfl
      · rw [List.getElem?_eq_none (by simp; omega), List.getElem?_eq_none (by simp; omega)]

/-- the heading-listing tool numbers exactly as the TOC does -/
theorem tool_agrees (d : Dict) (L : Nat) : headerNumberingTool d L = headerNumbering d L := rfl

theorem go_refines (ol : Nat) (levels : List Nat) (d : Dict) (k : Nat) (hc : Contig d k)
    (hl : ∀ l ∈ levels, 1 ≤ l) :
    fillEntries.go ol d levels = specRun ol (absList d k) levels := by
  induction levels generalizing d k with
  | nil => rfl
  | cons l rest ih =>
    simp only [fillEntries.go, specRun]
    have hl1 : 1 ≤ l := hl l (by simp)
    split
    · exact ih d k hc (fun x hx => hl x (by simp [hx]))
    · obtain ⟨h1, h2, h3⟩ := step_refines d k l hc hl1
      rw [h1]
      congr 1
      have := ih (headerNumbering d l).1 l h2 (fun x hx => hl x (by simp [hx]))
      rw [this, h3, h1]

/-- **every heading sequence**: the entries a fill produces are, in document order, exactly the
    headings whose level does not exceed the outline level, each with its outline number -/
theorem fill_is_outline (outline : Nat) (levels : List Nat) (hl : ∀ l ∈ levels, 1 ≤ l) :
    fillEntries outline levels = specRun (if outline = 0 then 10 else outline) [] levels := by
  unfold fillEntries
  have hc : Contig [] 0 := by
    intro i
    simp [look]
    omega
  exact go_refines _ levels [] 0 hc hl

/-- the entries are the filtered headings, in order (nothing else, nothing missing) -/
theorem entries_are_filtered_headings (ol : Nat) (c : List Nat) (levels : List Nat) :
    (specRun ol c levels).map (·.1) = levels.filter (fun l => decide (l ≤ ol)) := by
  induction levels generalizing c with
  | nil => rfl
  | cons l rest ih =>
    simp only [specRun, List.filter_cons]
    by_cases h : l > ol
    · rw [if_pos h, ih]
      have : decide (l ≤ ol) = false := by simp; omega
      rw [this]; rfl
    · rw [if_neg h]
      have : decide (l ≤ ol) = true := by simp; omega
      rw [this]
      simp [ih]

/-- the number of a heading has as many components as its level and ends with the count of
    its own level since the last shallower heading -/
theorem number_length (c : List Nat) (L : Nat) (hL : 1 ≤ L) : (specStep c L).length = L := by
  unfold specStep
  simp only [List.length_append, List.length_take, List.length_replicate, List.length_singleton]
  omega

/-! non-vacuity: skipped levels, deep climbs -/
example : fillEntries 0 [1, 2, 3, 1, 3] = [(1, [1]), (2, [1, 1]), (3, [1, 1, 1]), (1, [2]), (3, [2, 1, 1])] := by
  decide +kernel
example : fillEntries 2 [1, 3, 2, 2] = [(1, [1]), (2, [1, 1]), (2, [1, 2])] := by decide +kernel
example : (headerNumbering [(2, 5), (1, 3), (3, 9)] 2) = ([(2, 6), (1, 3)], [3, 6]) := by decide +kernel

end Odf.C20
