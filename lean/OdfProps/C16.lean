import OdfProofs.Replace
import OdfProps.C05

/-!
# C16 — search and replace act on the text exactly as the regular expression says

Model: `OdfModel/Para/Replace.lean` over the token stream of `Para/Markup.lean`.  The regex
engine is a PARAMETER: the statements hold for every family of spans `finditer` can yield
(increasing, non overlapping, inside the node).  `formatted=True` rebuilds the containers with
`append_plain_text("")`: its two theorems are instances of C05's.
-/
namespace Odf.C16
open Odf.Markup Odf.Replace

/-- **count**: the number reported is the number of matches in document order -/
theorem count_is_total (spans : List (List (Nat × Nat))) :
    countMatches spans = (indexed spans 0).length := countMatches_indexed spans 0

/-- **markup and neighbouring nodes stay in place**: after a replacement the token stream has
    the same tokens at the same places; only the characters of text nodes differ -/
theorem replace_keeps_markup (new : List Char) (ts : Toks) (spans : List (List (Nat × Nat))) :
    (replaceAll new ts spans).map Tok.erase = ts.map Tok.erase := replaceAll_shape new ts spans

/-- **no match, no change** -/
theorem replace_nomatch_untouched (new : List Char) (ts : Toks) (spans : List (List (Nat × Nat)))
    (h : ∀ sp ∈ spans, sp = []) : replaceAll new ts spans = ts := replaceAll_nomatch new ts spans h

/-- **the replacement changes the matches and nothing else**: a text node is the weave of the
    gaps between the matches with the matches; the new node is the weave of THE SAME gaps with
    the replacement string -/
theorem replace_changes_matches_only (cs new : List Char) (spans : List (Nat × Nat))
    (hs : Sorted cs.length 0 spans) :
    cs = weave (gaps cs 0 spans) (spans.map (fun p => (cs.take p.2).drop p.1)) ∧
    subNode cs new 0 spans = weave (gaps cs 0 spans) (spans.map (fun _ => new)) := by
  constructor
  · have := original_weave cs 0 spans hs
    simpa using this
  · exact subNode_weave cs new 0 spans

/-- **replacement templates** (`re.sub` syntax: literal pieces and references to the whole match): the new node is the weave of
    THE SAME gaps with the expansion of the template at each match -/
theorem replace_template_changes_matches_only (cs : List Char) (tpl : Template) (spans : List (Nat × Nat)) :
    subNodeT cs tpl 0 spans = weave (gaps cs 0 spans) (spans.map (fun p => expandT tpl ((cs.take p.2).drop p.1))) :=
  subNodeT_weave cs tpl 0 spans

/-- … markup and neighbouring nodes stay in place under a template as well -/
theorem replace_template_keeps_markup (tpl : Template) (ts : Toks) (spans : List (List (Nat × Nat))) :
    (replaceAllT tpl ts spans).map Tok.erase = ts.map Tok.erase := replaceAllT_shape tpl ts spans

/-- the template made of one reference to the whole match rewrites every node into itself, for every family of matches
    `finditer` can yield -/
theorem replace_by_whole_match_is_identity (cs : List Char) (spans : List (Nat × Nat)) (hs : Sorted cs.length 0 spans) :
    subNodeT cs [none] 0 spans = cs := by
  rw [subNodeT_weave]
  have := original_weave cs 0 spans hs
  simp only [List.drop_zero] at this
  conv => rhs; rw [this]
  congr 1
  apply List.map_congr_left
  intro p _
  exact expandT_whole _

/-- a template without reference is the literal replacement of the theorems above -/
theorem template_literal_is_literal (cs l : List Char) (spans : List (Nat × Nat)) :
    subNodeT cs [some l] 0 spans = subNode cs l 0 spans := subNodeT_literal cs l 0 spans

example : subNodeT "ab cab".toList [some ['['], none, some [']']] 0 [(0, 2), (4, 6)] = "[ab] c[ab]".toList := by decide +kernel

/-- replacing every match by itself is the identity (sanity of `subNode`) when there is one match -/
theorem replace_by_itself (cs : List Char) (a b : Nat) (h : Sorted cs.length 0 [(a, b)]) :
    subNode cs ((cs.take b).drop a) 0 [(a, b)] = cs := by
  obtain ⟨h1, _⟩ := replace_changes_matches_only cs ((cs.take b).drop a) [(a, b)] h
  rw [subNode_weave]
  simpa using h1.symm

/-- **text_at on a search result gives the matched text**; out-of-range arguments clamp -/
theorem text_at_of_span (own : List Char) (a b : Nat) (h : a ≤ b) :
    textAt own (a : Int) (some (b : Int)) = (own.take b).drop a := by
  simp [textAt, Nat.max_eq_left h]

theorem text_at_clamps (own : List Char) (s e : Int) (hs : s < 0) :
    textAt own s (some e) = textAt own 0 (some e) ∧ textAt own s none = own := by
  have : s.toNat = 0 := by omega
  simp [textAt, this]

/-- **formatted=True keeps the characters**: rebuilding a container with `append_plain_text("")`
    leaves its text as it is (C05) … -/
theorem formatted_keeps_text (p : Ws.Para) : Ws.innerText (Ws.appendPlainText p []) = Ws.innerText p := by
  rw [C05.text_append]; simp

/-- … **and encodes it as a freshly created paragraph would**: a consumer applying ODF §6.1.2 reads
    exactly the text (no inline element among the direct children, no U+000D) -/
theorem formatted_normal_form (p : Ws.Para) (hel : ∀ i t, Ws.Item.el i t ∉ p) (hcr : '\r' ∉ Ws.innerText p) :
    Ws.collapse (Ws.appendPlainText p []) = Ws.innerText p := by
  have := C05.nf_append p [] hel (by simpa using hcr)
  simpa using this

/-! non-vacuity -/
example : subNode "abcabc".toList "X".toList 0 [(1, 2), (4, 5)] = "aXcaXc".toList := by decide
example : Sorted 6 0 [(1, 2), (4, 5)] := by simp [Sorted]
example : replaceAll ['-'] [.txt false false "a b".toList, .op 4 0 false, .txt false false " c".toList, .cl] [[(1, 2)], [(0, 1)]] =
    [.txt false false "a-b".toList, .op 4 0 false, .txt false false "-c".toList, .cl] := by decide

end Odf.C16
