import OdfProofs.TableObj
import OdfProofs.TableHist

/-!
# C01 — the table editing API behaves like a plain grid of cells under every history

Code-level model: `OdfModel/Rle.lean` (the vault of `element_cached.py`, position-map arithmetic
included) and `OdfModel/Table.lean` (`table.py` / `row.py`).  Spec: `OdfModel/Grid.lean`, a list
of lists.  `absT` expands the run-length state.  The statements quantify over every coherent
run-length state, every operation of the alphabet, every integer coordinate (in range, at the
edge, beyond, negative) and every repeat count ≥ 1 — no bound on sizes or on history length.
-/
namespace Odf.C01
open Odf.Rle Odf.Table Odf.Grid

/-- any run-length encoding read from XML is a coherent state (the "arbitrary run-length
    encodings" of the quantifier): repeats ≥ 1 as `elements_repeated_sequence` guarantees, and
    columns declared when there are rows -/
theorem parse_inv (cols : Runs Nat) (rows : Runs RowD) (hc : Pos cols) (hr : Pos rows)
    (hcells : ∀ p ∈ rows, Pos p.1) (hdecl : rows ≠ [] → cols ≠ []) : Inv (parse cols rows) :=
  ⟨MapOk.fresh cols hc, MapOk.fresh rows hr, hcells, hdecl⟩

/-- the three vault edits on a coherent vault are the list operations (set with overlap
    trimming, insert, delete) -/
theorem vault_set (v : Vault α) (hok : MapOk v) (pos : Nat) (x : α) (r : Nat)
    (hpos : pos < total v.runs) (hr : 1 ≤ r) :
    ∃ v', setItem v pos x r = some v' ∧ MapOk v' ∧
      expand v'.runs = (expand v.runs).take pos ++ List.replicate r x ++ (expand v.runs).drop (pos + r) :=
  setItem_ok v hok pos x r hpos hr

theorem vault_insert (v : Vault α) (hok : MapOk v) (pos : Nat) (x : α) (r : Nat)
    (hpos : pos < total v.runs) (hr : 1 ≤ r) :
    ∃ v', insertItem v pos x r = some v' ∧ MapOk v' ∧
      expand v'.runs = (expand v.runs).take pos ++ List.replicate r x ++ (expand v.runs).drop pos :=
  insertItem_ok v hok pos x r hpos hr

theorem vault_delete (v : Vault α) (hok : MapOk v) (pos : Nat) (hpos : pos < total v.runs) :
    ∃ v', deleteItem v pos = some v' ∧ MapOk v' ∧ expand v'.runs = (expand v.runs).eraseIdx pos :=
  deleteItem_ok v hok pos hpos

/-- **one step refines the grid** -/
theorem step_refines (t : Tbl) (h : Inv t) (hfit : GridFit (absT t)) (op : Op) (hv : op.Valid) :
    ∃ t', step t op = some t' ∧ absT t' = gstep (absT t) op ∧ (NoLimbo (absT t') → Inv t') :=
  Odf.Table.step_refines t h hfit op hv

/-- **every history refines the grid** (see `history_refines` for the one excluded state) -/
theorem history_refines (ops : List Op) (t : Tbl) (h : Inv t) (hfit : GridFit (absT t))
    (hv : ∀ op ∈ ops, op.Valid)
    (hlimbo : ∀ k, k ≤ ops.length → NoLimbo (grun (absT t) (ops.take k))) :
    ∃ t', run t ops = some t' ∧ absT t' = grun (absT t) ops ∧ Inv t' ∧ GridFit (absT t') :=
  Odf.Table.history_refines ops t h hfit hv hlimbo

/-- **reads**: on a coherent state, size and the full matrix are those of the grid … -/
theorem reads_size (t : Tbl) (h : Inv t) : Table.sizeOf t = Grid.size (absT t) := sizeOf_ok t h
theorem reads_values (t : Tbl) (h : Inv t) : getValues t = Grid.values (absT t) := getValues_ok t h

/-- … hence after any history every such read returns exactly what the same sequence
    produces on the uncompressed grid -/
theorem history_reads (ops : List Op) (t : Tbl) (h : Inv t) (hfit : GridFit (absT t))
    (hv : ∀ op ∈ ops, op.Valid)
    (hlimbo : ∀ k, k ≤ ops.length → NoLimbo (grun (absT t) (ops.take k))) :
    ∃ t', run t ops = some t' ∧ getValues t' = Grid.values (grun (absT t) ops) ∧
      Table.sizeOf t' = Grid.size (grun (absT t) ops) := by
  obtain ⟨t', e, a, i, _⟩ := history_refines ops t h hfit hv hlimbo
  exact ⟨t', e, by rw [getValues_ok t' i, a], by rw [sizeOf_ok t' i, a]⟩

/-- "an operation addressed to one cell changes that row only, also inside a repeated run":
    `set_cell` leaves every other row of the grid as it was -/
theorem setCell_other_rows (g : Grid) (x y : Int) (c rep : Nat) (y' : Nat)
    (hne : y' ≠ Grid.norm y (Grid.height g)) (hy' : y' < Grid.height g) :
    (Grid.setCell g x y c rep).rows.getD y' [] = g.rows.getD y' [] := by
  unfold Grid.setCell Grid.setCellN Grid.editRowN
  simp only
  rw [declare_rows]
  simp only [widen, Grid.modifyRow]
  have hlen : y' < g.rows.length := hy'
  have hp : (padRows g.rows (Grid.norm y (Grid.height g) + 1)).getD y' [] = g.rows.getD y' [] := by
    unfold padRows
    rw [List.getD_eq_getElem?_getD, List.getD_eq_getElem?_getD, List.getElem?_append_left hlen]
  rcases Nat.lt_or_gt_of_ne hne with hlt | hgt
  · rw [List.getD_eq_getElem?_getD, List.getElem?_append_left (by
      simp only [List.length_append, List.length_take, padRows, List.length_replicate]; omega)]
    rw [List.getElem?_append_left (by simp only [List.length_take, padRows, List.length_append, List.length_replicate]; omega)]
    rw [List.getElem?_take_of_lt hlt, ← List.getD_eq_getElem?_getD, hp]
  · have hl1 : (List.take (Grid.norm y (Grid.height g)) (padRows g.rows (Grid.norm y (Grid.height g) + 1))).length
        = Grid.norm y (Grid.height g) := by
      simp only [List.length_take, padRows, List.length_append, List.length_replicate]; omega
    have hsome : ∃ r0, (padRows g.rows (Grid.norm y (Grid.height g) + 1))[Grid.norm y (Grid.height g)]? = some r0 := by
      have : Grid.norm y (Grid.height g) < (padRows g.rows (Grid.norm y (Grid.height g) + 1)).length := by
        simp only [padRows, List.length_append, List.length_replicate]; omega
      exact ⟨_, List.getElem?_eq_getElem this⟩
    obtain ⟨r0, hr0⟩ := hsome
    rw [hr0]
    rw [List.getD_eq_getElem?_getD, List.getElem?_append_right (by simp only [List.length_append, hl1, List.length_singleton]; omega)]
    simp only [List.length_append, hl1, List.length_singleton]
    rw [List.getElem?_drop, ← List.getD_eq_getElem?_getD]
    have : Grid.norm y (Grid.height g) + 1 + (y' - (Grid.norm y (Grid.height g) + 1)) = y' := by omega
    rw [this, hp]

/-- "a column insertion shifts every row alike": every row that reaches the column gets the
    same `rep` empty cells at the same place, every shorter row is untouched -/
theorem insertColumn_uniform (g : Grid) (x : Int) (rep : Nat) :
    (Grid.insertColumn g x rep).rows =
      g.rows.map (fun r => if r.length > Grid.norm x g.ncols then insSlice r (Grid.norm x g.ncols) rep 0 else r) := rfl

theorem deleteColumn_uniform (g : Grid) (x : Int) (h : Grid.norm x g.ncols < g.ncols) :
    (Grid.deleteColumn g x).rows =
      g.rows.map (fun r => if r.length > Grid.norm x g.ncols then r.eraseIdx (Grid.norm x g.ncols) else r) := by
  unfold Grid.deleteColumn
  simp only
  rw [if_pos h]

/-! non-vacuity: a concrete coherent repeated state, and one step on it -/
def t0 : Tbl := parse [(0, 2), (0, 1)] [([(1, 3)], 2), ([(2, 1), (0, 1)], 1)]
example : Inv t0 := parse_inv _ _ (by unfold Pos; decide) (by unfold Pos; decide) (by unfold Pos; decide) (by decide)
example : GridFit (absT t0) := by unfold GridFit; decide
example : (step t0 (.setCell 1 0 5 3)).map absT =
    some { ncols := 4, rows := [[1, 5, 5, 5], [1, 1, 1], [2, 0]] } := by decide +kernel
example : (step t0 (.deleteCell 0 1)).map (fun t => t.rows.runs) =
    some [([(1, 3)], 1), ([(1, 2)], 1), ([(2, 1), (0, 1)], 1)] := by decide +kernel

/-- **set_column_values / set_column_cells(x, cells)** (outside the history alphabet because it is
    defined only for a list as long as the table is high): it denotes "cell x of row y := cells[y]"
    for every row, and raises for any other length -/
theorem set_column_values_refines (t : Tbl) (h : Inv t) (x : Int) (cells : List Nat) (hl : cells.length = height t) :
    ∃ t', setColumnValues t x cells = some t' ∧ Inv t' ∧ absT t' = Grid.setColumnValues (absT t) x cells :=
  setColumnValues_ok t h x cells hl

theorem set_column_values_wrong_length (t : Tbl) (x : Int) (cells : List Nat) (hl : cells.length ≠ height t) :
    setColumnValues t x cells = none := setColumnValues_wrong_length t x cells hl


/-! ## through the caches of wrapper objects

The theorems above speak of the table as XML + position maps.  The table object also keeps `Row` /
`Cell` wrappers created by earlier reads (`OdfModel/TableObj.lean`, proofs in `OdfProofs/TableObj.lean`,
C02).  Composing the two refinements: a history of the 13 mutators INTERLEAVED WITH READS that fill those
caches, run through the caches, answers at every step exactly what the plain list-of-lists grid answers. -/
open Odf.TableObj in
theorem history_through_caches_is_the_grid (ops : List OOp) (t : Tbl) (h : Inv t) (hfit : GridFit (absT t))
    (hv : ∀ op ∈ muts ops, op.Valid)
    (hlimbo : ∀ k, k ≤ (muts ops).length → NoLimbo (grun (absT t) ((muts ops).take k))) :
    ∃ o', orun (parsed t) ops = some (o', grunAll (absT t) ops) ∧ absT o'.t = grun (absT t) (muts ops) := by
  obtain ⟨o', ans, e, f, _, _⟩ := cached_history ops (parsed t) (CacheOk.parsed t) h hfit hv hlimbo
  obtain ⟨t', f', a⟩ := frun_is_grid ops t h hfit hv hlimbo
  have hf : frun t ops = some (o'.t, ans) := f
  rw [f'] at hf
  simp only [Option.some.injEq, Prod.mk.injEq] at hf
  obtain ⟨ht, ha⟩ := hf
  exact ⟨o', by rw [e, ← ha], by rw [← ht]; exact a⟩

/-! non-vacuity: a history with reads before and after edits, evaluated on both sides -/
open Odf.TableObj in
example :
    let t := parse [(0, 3)] [([(1, 1), (0, 2)], 1), ([(2, 1)], 2)]
    let ops : List OOp := [.readRow 1, .edit (.insertColumn 0 1), .readRow 1, .readValue 1 0, .edit (.setCell 3 2 5 1), .readRow 2]
    (orun (parsed t) ops).map (·.2) = some (grunAll (absT t) ops) ∧
      grunAll (absT t) ops = [[2, 0, 0], [], [0, 2, 0, 0], [1], [], [0, 2, 0, 5]] := by
  decide +kernel

end Odf.C01
