import OdfProofs.Markup3
import OdfProofs.Markup2

/-!
# C09 — inserting or removing markup never alters the paragraph text around it

Model: `OdfModel/Para/Markup.lean` — the paragraph as the token stream of its lxml subtree,
`_by_regex_offset` (offset and regex forms), `Element._insert` / `_insert_at` / `_insert_around`,
`Paragraph._insert_start_end`, `delete(keep_tail=True)`, `strip_tags` / `strip_elements`.
The regular-expression engine is a PARAMETER: every statement about a regex-addressed operation
is for every matcher (every family of `(start, end)` spans with `start ≤ end`; for the
"wraps exactly the matches" statement: in increasing order without overlap, as `finditer`
yields them).  All statements are for every token stream (any nesting, any number of text
nodes, white-space elements, notes, earlier marks), every offset / length / position.
`plainMain` = the readable text of the paragraph, `plainHidden` = the text inside its notes and
annotations, `rawAll` = every character in document order.
-/
namespace Odf.C09
open Odf.Markup

/-! ### set_span / set_link -/

/-- the element built around a match contains exactly the match (a span re-encodes it through
    `append_plain_text`: C05) -/
theorem wrapped_text_is_match (w : Wrap) (s : Bool) (m : List Char) :
    plainMain (w.build false s m) = m ∧ plainHidden (w.build false s m) = [] := by
  rw [plainMain_eq, plainHidden_eq, plain_build, plain_build]
  simp

/-- **offset form, text**: whatever the offset and the length, in or beyond range, the readable
    text of the paragraph and the text inside its notes are unchanged -/
theorem offset_text_unchanged (w : Wrap) (off len : Nat) (ts : Toks) :
    plainMain (byOffset w off len ts 0) = plainMain ts ∧ plainHidden (byOffset w off len ts 0) = plainHidden ts := by
  rw [plainMain_eq, plainHidden_eq, plain_byOffset, plain_byOffset]
  exact ⟨rfl, rfl⟩

/-- **offset form, what is wrapped** (text-node coordinate, the one the code implements): the
    node that holds character #off is cut into before / wrapped / after, the wrapped part being
    `length` characters from there (to the end of the node when `length = 0` or larger); every
    other token is untouched -/
theorem offset_wraps_node_slice (w : Wrap) (off len : Nat) (pre post : Toks) (h s : Bool) (cs : List Char)
    (h1 : nodeLen pre ≤ off) (h2 : off < nodeLen pre + cs.length) :
    byOffset w off len (pre ++ .txt h s cs :: post) 0 =
      pre ++ wrapSlice w h s cs (off - nodeLen pre)
        (off - nodeLen pre + (if len > 0 then min len cs.length else cs.length)) ++ post := by
  have := byOffset_at w off len pre post h s cs 0 (by omega) (by omega)
  simpa using this

/-- **offset beyond the text**: the paragraph is untouched -/
theorem offset_beyond_untouched (w : Wrap) (off len : Nat) (ts : Toks) (h : nodeLen ts ≤ off) :
    byOffset w off len ts 0 = ts := byOffset_beyond w off len ts 0 (by omega)

/-- **regex form, text**: for every matcher, the readable text and the notes' text are unchanged -/
theorem regex_text_unchanged (w : Wrap) (ts : Toks) (spans : List (List (Nat × Nat)))
    (hle : ∀ sp ∈ spans, ∀ p ∈ sp, p.1 ≤ p.2) :
    plainMain (byRegex w ts spans) = plainMain ts ∧ plainHidden (byRegex w ts spans) = plainHidden ts := by
  rw [plainMain_eq, plainHidden_eq, plain_byRegex w false ts spans hle, plain_byRegex w true ts spans hle]
  exact ⟨rfl, rfl⟩

/-- **a pattern that matches nothing leaves the paragraph untouched** -/
theorem regex_nomatch_untouched (w : Wrap) (ts : Toks) (spans : List (List (Nat × Nat))) (h : ∀ sp ∈ spans, sp = []) :
    byRegex w ts spans = ts := byRegex_nomatch w ts spans h

/-- **regex form, what is wrapped**: although the code applies the matches of a node from the
    last to the first on a text it keeps rewriting, the result is the `finditer` layout of the
    ORIGINAL text: the text before the first match, then every match wrapped, each followed by
    the untouched text up to the next match -/
theorem regex_wraps_exactly_matches (w : Wrap) (h s : Bool) (cs : List Char) (spans : List (Nat × Nat))
    (hs : Sorted cs.length 0 spans) :
    wrapNode w h s cs spans = wrapFwd w h s cs cs.length 0 spans := by
  have := wrapRev_sorted w h s cs cs.length spans [] hs
  simpa [wrapNode] using this

/-! ### marks, notes, annotations : `_insert` -/

/-- **by position**: the element is put inside one main text node, exactly `position` characters
    after the start of the main text (text-node coordinate); nothing else moves -/
theorem mark_by_position (elem : Toks) (p : Nat) (ts ts' : Toks) (h : insertPos elem p ts 0 = some ts') :
    ∃ pre hh cs post, ts = pre ++ .txt hh false cs :: post ∧
      ts' = pre ++ splitInsert hh false cs (p - mainLen pre) elem ++ post ∧
      mainLen pre ≤ p ∧ p ≤ mainLen pre + cs.length := by
  obtain ⟨pre, hh, cs, post, e1, e2, e3, e4⟩ := insertPos_spec elem p ts ts' 0 (Nat.zero_le _) h
  exact ⟨pre, hh, cs, post, e1, by simpa using e2, by simpa using e3, by simpa using e4⟩

/-- a position beyond the main text raises (`none`), nothing is inserted -/
theorem mark_position_beyond_raises (elem : Toks) (p : Nat) (ts : Toks) (h : mainLen ts < p) :
    insertPos elem p ts 0 = none := insertPos_none elem p ts 0 (by omega)

theorem mark_by_position_text (elem : Toks) (p : Nat) (ts ts' : Toks) (he : plainMain elem = [])
    (h : insertPos elem p ts 0 = some ts') : plainMain ts' = plainMain ts :=
  plain_insertPos_main elem p ts ts' he h

/-- **by regex (before= / after=)**: the element goes to the start (before) or the end (after) of
    the match the search designates, inside the main text node that holds it -/
theorem mark_by_regex (elem : Toks) (before : Bool) (position : Int) (spans : List (List (Nat × Nat)))
    (ts ts' : Toks) (h : insertRe elem before position spans ts = some ts') :
    ∃ idx a b pre hh cs post, search position spans = some (idx, (a, b)) ∧
      ts = pre ++ .txt hh false cs :: post ∧ mainCount pre = idx ∧
      ts' = pre ++ splitInsert hh false cs (if before then a else b) elem ++ post := by
  unfold insertRe at h
  cases hs : search position spans with
  | none => rw [hs] at h; simp at h
  | some r =>
    obtain ⟨idx, a, b⟩ := r
    rw [hs] at h
    simp only at h
    obtain ⟨pre, hh, cs, post, e1, e2, e3⟩ := onMainNode_spec _ ts ts' idx h
    exact ⟨idx, a, b, pre, hh, cs, post, rfl, e1, e3, e2⟩

/-- the match designated: the `position`-th in document order, or the last one for a negative
    position; no such match = `ValueError`, nothing inserted -/
theorem search_designates (position : Int) (spans : List (List (Nat × Nat))) :
    search position spans =
      if position < 0 then (indexed spans 0).getLast? else (indexed spans 0)[position.toNat]? := by
  unfold search
  split
  · exact search_negative_last spans
  · rw [searchPositive_spec position.toNat spans 0 0 (Nat.zero_le _)]; rfl

theorem mark_by_regex_text (elem : Toks) (before : Bool) (position : Int) (spans : List (List (Nat × Nat)))
    (ts ts' : Toks) (he : plainMain elem = []) (h : insertRe elem before position spans ts = some ts') :
    plainMain ts' = plainMain ts := by
  obtain ⟨idx, a, b, pre, hh, cs, post, _, e1, _, e2⟩ := mark_by_regex elem before position spans ts ts' h
  rw [plainMain_eq, plainMain_eq, e1, e2, plain_append, plain_append, plain_splitInsert_main _ _ _ _ _ he]
  simp

/-- **range by content=**: the start and the end element enclose exactly the designated match -/
theorem range_by_content (st en : Toks) (position : Int) (spans : List (List (Nat × Nat))) (ts ts' : Toks)
    (h : insertAround st en position spans ts = some ts') :
    ∃ idx a b pre hh cs post, search position spans = some (idx, (a, b)) ∧
      ts = pre ++ .txt hh false cs :: post ∧ mainCount pre = idx ∧
      ts' = pre ++ (txtOpt hh false ((cs.take b).take a) ++ st.map (Tok.host hh false) ++
        [.txt hh false ((cs.take b).drop a)] ++ en.map (Tok.host hh false) ++ [.txt hh false (cs.drop b)]) ++ post := by
  unfold insertAround at h
  cases hs : search position spans with
  | none => rw [hs] at h; simp at h
  | some r =>
    obtain ⟨idx, a, b⟩ := r
    rw [hs] at h
    simp only at h
    obtain ⟨pre, hh, cs, post, e1, e2, e3⟩ := onMainNode_spec _ ts ts' idx h
    exact ⟨idx, a, b, pre, hh, cs, post, rfl, e1, e3, e2⟩

theorem range_by_content_text (st en : Toks) (position : Int) (spans : List (List (Nat × Nat))) (ts ts' : Toks)
    (hst : plainMain st = []) (hen : plainMain en = [])
    (h : insertAround st en position spans ts = some ts') : plainMain ts' = plainMain ts := by
  obtain ⟨idx, a, b, pre, hh, cs, post, _, e1, _, e2⟩ := range_by_content st en position spans ts ts' h
  rw [plainMain_eq, plainMain_eq, e1, e2]
  simp only [plain_append, plain_txtOpt, plain_host_main hh false st hst, plain_host_main hh false en hen,
    plain_cons, plain_nil, chars_txt, List.append_nil, List.nil_append]
  by_cases hx : hh = false
  · simp only [hx, if_true]
    rw [List.take_append_drop, List.take_append_drop]
    simp
  · simp [hx]

/-- **range by (from, to)**: both elements or none; the text is unchanged -/
theorem range_by_positions_text (st en : Toks) (i j : Nat) (ts ts' : Toks)
    (hst : plainMain st = []) (hen : plainMain en = [])
    (h : insertRange st en i j ts = some ts') : plainMain ts' = plainMain ts := by
  unfold insertRange at h
  cases h1 : insertPos st i ts 0 with
  | none => rw [h1] at h; simp at h
  | some ts1 =>
    rw [h1] at h
    simp only at h
    rw [plainMain_eq, plainMain_eq, plain_insertPos_main en j ts1 ts' hen h, plain_insertPos_main st i ts ts1 hst h1]

/-- the roll-back of `_insert_start_end` (`start.delete()` when the end tag finds no place) gives
    back the very token stream: here for a start tag without content (bookmark, reference mark) -/
theorem rollback_restores (pre post : Toks) (h s hm : Bool) (cs : List Char) (pos k l : Nat)
    (hpre : ∀ h' s' ds, pre.getLast? ≠ some (.txt h' s' ds)) :
    deleteAt (pre ++ splitInsert h s cs pos [.op k l hm, .cl] ++ post) (pre ++ txtOpt h s (cs.take pos)).length =
      pre ++ .txt h s cs :: post := by
  unfold deleteAt splitInsert
  have e : pre ++ (txtOpt h s (cs.take pos) ++ [Tok.op k l hm, Tok.cl].map (Tok.host h s) ++ [.txt h s (cs.drop pos)]) ++ post
      = (pre ++ txtOpt h s (cs.take pos)) ++ (.op k l (h || hm) :: .cl :: .txt h s (cs.drop pos) :: post) := by
    simp [Tok.host]
  rw [e, List.take_left, List.drop_left]
  simp only [takeElem]
  unfold txtOpt
  by_cases hc : cs.take pos = []
  · rw [if_pos hc, List.append_nil]
    have hd : cs.drop pos = cs := by
      have := List.take_append_drop pos cs
      rw [hc] at this; simpa using this
    rw [hd]
    -- `pre` does not end with a text node: nothing to merge
    clear e hd hc
    induction pre with
    | nil => rfl
    | cons t rest ih =>
      cases rest with
      | nil =>
        cases t with
        | txt h' s' ds => exact absurd rfl (hpre h' s' ds)
        | op k' l' h' => rfl
        | cl => rfl
      | cons u rest' =>
        have : joinToks (t :: u :: rest') (.txt h s cs :: post) = t :: joinToks (u :: rest') (.txt h s cs :: post) := by
          cases t <;> simp [joinToks]
        rw [this, ih (by intro h' s' ds; have := hpre h' s' ds; simpa using this)]
        rfl
  · rw [if_neg hc]
    have hj : ∀ (a : Toks), joinToks (a ++ [.txt h s (cs.take pos)]) (.txt h s (cs.drop pos) :: post) =
        a ++ .txt h s (cs.take pos ++ cs.drop pos) :: post := by
      intro a
      induction a with
      | nil => rfl
      | cons t rest ih =>
        have : joinToks (t :: (rest ++ [.txt h s (cs.take pos)])) (.txt h s (cs.drop pos) :: post) =
            t :: joinToks (rest ++ [.txt h s (cs.take pos)]) (.txt h s (cs.drop pos) :: post) := by
          cases rest with
          | nil => cases t <;> simp [joinToks]
          | cons u r => cases t <;> simp [joinToks]
        rw [List.cons_append, this, ih]
        rfl
    rw [hj pre, List.take_append_drop]

/-! ### histories of insertions -/

inductive Ins where
  | offset (w : Wrap) (off len : Nat)
  | regex (w : Wrap) (spans : List (List (Nat × Nat)))
  | pos (elem : Toks) (p : Nat)
  | re (elem : Toks) (before : Bool) (position : Int) (spans : List (List (Nat × Nat)))
  | around (st en : Toks) (position : Int) (spans : List (List (Nat × Nat)))
  | range (st en : Toks) (i j : Nat)

/-- what the caller observes: the new paragraph, or the old one when the call raised -/
def Ins.apply : Ins → Toks → Toks
  | .offset w off len, ts => byOffset w off len ts 0
  | .regex w spans, ts => byRegex w ts spans
  | .pos elem p, ts => (insertPos elem p ts 0).getD ts
  | .re elem b position spans, ts => (insertRe elem b position spans ts).getD ts
  | .around st en position spans, ts => (insertAround st en position spans ts).getD ts
  | .range st en i j, ts => (insertRange st en i j ts).getD ts

/-- the inserted marks / notes / annotations carry no paragraph text; match spans have
    `start ≤ end` -/
def Ins.Ok : Ins → Prop
  | .offset _ _ _ => True
  | .regex _ spans => ∀ sp ∈ spans, ∀ p ∈ sp, p.1 ≤ p.2
  | .pos elem _ => plainMain elem = []
  | .re elem _ _ _ => plainMain elem = []
  | .around st en _ _ => plainMain st = [] ∧ plainMain en = []
  | .range st en _ _ => plainMain st = [] ∧ plainMain en = []

theorem step_text_unchanged (o : Ins) (ho : o.Ok) (ts : Toks) : plainMain (o.apply ts) = plainMain ts := by
  cases o with
  | offset w off len => exact (offset_text_unchanged w off len ts).1
  | regex w spans => exact (regex_text_unchanged w ts spans ho).1
  | pos elem p =>
    simp only [Ins.apply]
    cases h : insertPos elem p ts 0 with
    | none => rfl
    | some ts' => exact mark_by_position_text elem p ts ts' ho h
  | re elem b position spans =>
    simp only [Ins.apply]
    cases h : insertRe elem b position spans ts with
    | none => rfl
    | some ts' => exact mark_by_regex_text elem b position spans ts ts' ho h
  | around st en position spans =>
    simp only [Ins.apply]
    cases h : insertAround st en position spans ts with
    | none => rfl
    | some ts' => exact range_by_content_text st en position spans ts ts' ho.1 ho.2 h
  | range st en i j =>
    simp only [Ins.apply]
    cases h : insertRange st en i j ts with
    | none => rfl
    | some ts' => exact range_by_positions_text st en i j ts ts' ho.1 ho.2 h

/-- **every history**: after any sequence of insertions of mixed kinds, successful or raising, on
    any paragraph, the readable text is the one the paragraph had at the start -/
theorem history_text_unchanged (ops : List Ins) (hok : ∀ o ∈ ops, o.Ok) (ts : Toks) :
    plainMain (ops.foldl (fun t o => o.apply t) ts) = plainMain ts := by
  induction ops generalizing ts with
  | nil => rfl
  | cons o rest ih =>
    simp only [List.foldl_cons]
    rw [ih (fun q hq => hok q (by simp [hq])), step_text_unchanged o (hok o (by simp))]

/-! ### removals -/

/-- **delete of an inline element**: every character outside the element stays, in order, its
    tail included; exactly the characters of the element go -/
theorem delete_keeps_rest (ts : Toks) (i : Nat) :
    rawAll (deleteAt ts i) = rawAll (ts.take i) ++ rawAll (takeElem (ts.drop i) 0).2 ∧
    rawAll ts = rawAll (ts.take i) ++ (rawAll (takeElem (ts.drop i) 0).1 ++ rawAll (takeElem (ts.drop i) 0).2) := by
  constructor
  · unfold deleteAt; rw [rawAll_joinToks]
  · rw [rawAll_takeElem, ← rawAll_append, List.take_append_drop]

/-- **remove_spans / remove_links**: every character stays, in order -/
theorem strip_keeps_every_character (k : Nat) (hk : k ≠ 1 ∧ k ≠ 2 ∧ k ≠ 3) (ts : Toks) :
    rawAll (stripKind k ts) = rawAll ts := by
  unfold stripKind
  rw [rawAll_mergeTxt, rawAll_dropTags k hk]

/-- **remove_span / remove_link of one element**: every character stays, in order -/
theorem strip_one_keeps_every_character (ts : Toks) (i : Nat)
    (hk : ∀ k l h, ts[i]? = some (.op k l h) → k ≠ 1 ∧ k ≠ 2 ∧ k ≠ 3) :
    rawAll (stripAt ts i) = rawAll ts := by
  unfold stripAt
  split
  · rename_i k l h rest heq
    rw [rawAll_mergeTxt, rawAll_append, rawAll_append, rawAll_takeInner]
    have hi : ts[i]? = some (.op k l h) := by
      have := congrArg List.head? heq
      simpa [List.head?_drop] using this
    have hraw : (Tok.op k l h).raw = [] := by
      obtain ⟨h1, h2, h3⟩ := hk k l h hi
      unfold Tok.raw
      split <;> simp_all
    conv => rhs; rw [← List.take_append_drop i ts, heq, rawAll_append, rawAll_cons, hraw]
    rfl
  · rfl

/-- **remove_all_reference_marks** (`strip_tags` with several tags at once: point marks, start and end tags of ranges):
    every character stays, in order -/
theorem strip_kinds_keeps_every_character (ks : List Nat) (hk : ∀ k ∈ ks, k ≠ 1 ∧ k ≠ 2 ∧ k ≠ 3) (ts : Toks) :
    rawAll (stripKinds ks ts) = rawAll ts := by
  unfold stripKinds
  induction ks generalizing ts with
  | nil => rfl
  | cons k ks ih =>
    simp only [List.foldl_cons]
    rw [ih (fun k' hk' => hk k' (List.mem_cons_of_mem _ hk')), strip_keeps_every_character k (hk k (List.mem_cons_self ..))]

/-- none of the elements stripped one after the other is a white-space element (`text:s`, `text:tab`, `text:line-break`
    stand for characters; the range tags `remove_reference_mark` strips are of kinds 10 and 11) -/
def StripOk : List Nat → Toks → Prop
  | [], _ => True
  | i :: is, ts => (∀ k l h, ts[i]? = some (.op k l h) → k ≠ 1 ∧ k ≠ 2 ∧ k ≠ 3) ∧ StripOk is (stripAt ts i)

/-- **remove_reference_mark** (`strip_elements` of the start and the end tag of one range, any number of elements): every
    character stays, in order -/
theorem strip_elements_keeps_every_character (is : List Nat) (ts : Toks) (hk : StripOk is ts) :
    rawAll (stripAts is ts) = rawAll ts := by
  unfold stripAts
  induction is generalizing ts with
  | nil => rfl
  | cons i is ih =>
    simp only [List.foldl_cons]
    rw [ih _ hk.2, strip_one_keeps_every_character ts i hk.1]

/-- a range inside a span that follows another element: both tags go, the text stays -/
example :
    let ts : Toks := [.op 4 0 false, .txt false false "aaa".toList, .cl, .op 4 1 false, .op 10 2 false, .cl, .txt false false "bbb".toList, .op 11 3 false, .cl, .txt false false "c".toList, .cl]
    StripOk [7, 4] ts ∧ stripAts [7, 4] ts = [.op 4 0 false, .txt false false "aaa".toList, .cl, .op 4 1 false, .txt false false "bbbc".toList, .cl] := by
  refine ⟨⟨?_, ?_, trivial⟩, by decide +kernel⟩
  · intro k l h hh
    have : (Tok.op 11 3 false) = Tok.op k l h := by simpa using hh
    cases this; decide
  · intro k l h hh
    have e : stripAt [Tok.op 4 0 false, .txt false false "aaa".toList, .cl, .op 4 1 false, .op 10 2 false, .cl, .txt false false "bbb".toList, .op 11 3 false, .cl, .txt false false "c".toList, .cl] 7
        = [.op 4 0 false, .txt false false "aaa".toList, .cl, .op 4 1 false, .op 10 2 false, .cl, .txt false false "bbbc".toList, .cl] := by decide +kernel
    rw [e] at hh
    have : (Tok.op 10 2 false) = Tok.op k l h := by simpa using hh
    cases this; decide

/-! ### non-vacuity -/

-- 'ab cd' with a span over 'b c' (offset 1, length 3), then a bookmark at position 2
example : byOffset (.link 9) 1 3 [.txt false false "ab cd".toList] 0 =
    [.txt false false ['a'], .op 5 9 false, .txt false false "b c".toList, .cl, .txt false false ['d']] := by decide
example : insertPos [.op 6 1 false, .cl] 2 [.txt false false "ab".toList, .op 4 0 false, .txt false false "cd".toList, .cl] 0 =
    some [.txt false false "ab".toList, .op 6 1 false, .cl, .txt false false [], .op 4 0 false, .txt false false "cd".toList, .cl] := by decide
example : Sorted 5 0 [(0, 1), (3, 5)] := by simp [Sorted]
example : wrapNode (.link 9) false false "ab cd".toList [(0, 1), (3, 5)] =
    [.txt false false [], .op 5 9 false, .txt false false ['a'], .cl, .txt false false "b ".toList,
     .op 5 9 false, .txt false false "cd".toList, .cl, .txt false false []] := by decide
-- a span with a = b+1 would duplicate text: the hypothesis `start ≤ end` is needed
example : plainMain (wrapNode (.link 9) false false "abc".toList [(2, 1)]) ≠ "abc".toList := by decide


/-! ### moving the end tag of a range (`set_reference_mark_end`, `insert_annotation_end`, after fix C09-F6) -/

/-- **an address that matches nothing raises without partial modification**: when the insertion of the new end tag finds no
    place, the whole operation fails — the former end tag has not been touched (the model of the code AFTER fix C09-F6; before it
    the former tag was deleted first) -/
theorem move_end_raises_without_modification (k lab tmp : Nat) (ins : Toks → Option Toks) (ts : Toks) (h : ins ts = none) :
    moveEnd k lab tmp ins ts = none := by
  unfold moveEnd; rw [h]; rfl

/-- **moving the end tag keeps every character of the paragraph**, whatever way `ins` the new tag is inserted (by position, before /
    after a match) as long as that insertion keeps every character, the former end tag being an empty element -/
theorem move_end_keeps_every_character (k lab tmp : Nat) (hk : k ≠ 1 ∧ k ≠ 2 ∧ k ≠ 3) (ins : Toks → Option Toks) (ts ts2 : Toks)
    (hins : ∀ r, ins ts = some r → rawAll r = rawAll ts)
    (hempty : ∀ r i, ins ts = some r → findOp k lab r 0 = some i → rawAll (takeElem (r.drop i) 0).1 = [])
    (h : moveEnd k lab tmp ins ts = some ts2) : rawAll ts2 = rawAll ts :=
  rawAll_moveEnd k lab tmp hk ins ts ts2 hins hempty h

/-- the insertion by position is such an insertion -/
theorem insert_by_position_keeps_every_character (el : Toks) (he : rawAll el = []) (p : Nat) (ts ts' : Toks)
    (h : insertPos el p ts 0 = some ts') : rawAll ts' = rawAll ts :=
  rawAll_insertPos el he p ts 0 ts' h

/-- so is the insertion before / after a match, for every matcher -/
theorem insert_by_regex_keeps_every_character (el : Toks) (he : rawAll el = []) (before : Bool) (position : Int)
    (spans : List (List (Nat × Nat))) (ts ts' : Toks) (h : insertRe el before position spans ts = some ts') : rawAll ts' = rawAll ts :=
  rawAll_insertRe el he before position spans ts ts' h

/-! non-vacuity: `abc def<end/> ghi`, the end (kind 9, label 5) moved to position 2: one end tag, at the new place, tail merged back -/
example :
    moveEnd 9 5 99 (fun ts => insertPos [.op 9 99 false, .cl] 2 ts 0)
      [.txt false false "abc def".toList, .op 9 5 false, .cl, .txt false false " ghi".toList] =
    some [.txt false false "ab".toList, .op 9 5 false, .cl, .txt false false "c def ghi".toList] := by decide +kernel
example :
    moveEnd 9 5 99 (fun ts => insertPos [.op 9 99 false, .cl] 40 ts 0)
      [.txt false false "abc def".toList, .op 9 5 false, .cl, .txt false false " ghi".toList] = none := by decide +kernel

end Odf.C09
