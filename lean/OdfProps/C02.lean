import OdfProofs.TableHist
import OdfProofs.TableObj

/-!
# C02 — what a table answers in memory is what its own XML says when parsed afresh

In the model a `Table` object is its XML (column runs, row runs) **plus** the two position
maps it keeps (`_cmap`, `_tmap`); a `Row` object reached through the table is its XML plus a
freshly computed `_rmap`.  "Parsed afresh" is `parse` (maps recomputed by `make_cache_map`).
The theorems say: after every operation of every history the kept maps are exactly the
recomputed ones, so the live object *is* the freshly parsed one and every read agrees.

The second half of the file is the OBJECT layer (`OdfModel/TableObj.lean`): the table's cache
of `Row` wrappers (`_indexes["_tmap"]`), each wrapper's own `_rmap` and its cache of `Cell`
wrappers (`_indexes["_rmap"]`).  There a read is served from whatever an earlier read cached, an
edit of an unrepeated row goes through the cached wrapper in place, and the caches are emptied
exactly where the code empties them.  `cached_history_fresh` says: for every history of
mutations interleaved with cache-filling reads, every answer and the XML are those of tables
that never cache anything, i.e. of the fresh parse at every step.

PARTIAL (stated in DESIGN.md): the cache of column wrappers (`_indexes["_cmap"]`) and wrappers
kept by the caller across later edits (C08 / C10) are outside the model; the identification of
a cached wrapper's element with the element at its key is checked on the live objects by the
correspondence (`harness/c02.py`, `cache_walk`) after every step.
-/
namespace Odf.C02
open Odf.Rle Odf.Table Odf.Grid

/-- a coherent live table equals the fresh parse of its own XML -/
theorem reparse_id (t : Tbl) (h : Inv t) : parse t.cols.runs t.rows.runs = t := by
  obtain ⟨cols, rows⟩ := t
  obtain ⟨cr, cm⟩ := cols
  obtain ⟨rr, rm⟩ := rows
  have h1 := h.cols.1
  have h2 := h.rows.1
  simp only at h1 h2
  subst h1 h2
  rfl

/-- the three vault edits keep the position map equal to the recomputed one -/
theorem set_keeps_map (v : Vault α) (hok : MapOk v) (pos : Nat) (x : α) (r : Nat)
    (hpos : pos < total v.runs) (hr : 1 ≤ r) :
    ∃ v', setItem v pos x r = some v' ∧ v'.map = makeCacheMap v'.runs := by
  obtain ⟨v', e, m, _⟩ := setItem_ok v hok pos x r hpos hr
  exact ⟨v', e, m.1⟩

theorem insert_keeps_map (v : Vault α) (hok : MapOk v) (pos : Nat) (x : α) (r : Nat)
    (hpos : pos < total v.runs) (hr : 1 ≤ r) :
    ∃ v', insertItem v pos x r = some v' ∧ v'.map = makeCacheMap v'.runs := by
  obtain ⟨v', e, m, _⟩ := insertItem_ok v hok pos x r hpos hr
  exact ⟨v', e, m.1⟩

theorem delete_keeps_map (v : Vault α) (hok : MapOk v) (pos : Nat) (hpos : pos < total v.runs) :
    ∃ v', deleteItem v pos = some v' ∧ v'.map = makeCacheMap v'.runs := by
  obtain ⟨v', e, m, _⟩ := deleteItem_ok v hok pos hpos
  exact ⟨v', e, m.1⟩

/-- `find_odf_idx` on a coherent map returns the run that really covers the position -/
theorem find_covers (runs : Runs α) (pos : Nat) (hpos : pos < total runs) :
    ∃ a b c n, runs = a ++ (c, n) :: b ∧ findOdfIdx (makeCacheMap runs) pos = some a.length ∧
      total a ≤ pos ∧ pos < total a + n := by
  obtain ⟨a, b, c, n, off, hr, ho, hp, hf⟩ := decompose runs pos hpos
  exact ⟨a, b, c, n, hr, hf, by omega, by omega⟩

/-- past the end the lookup fails (the callers then answer with an empty cell / row) -/
theorem find_none_past_end (runs : Runs α) (pos : Nat) (hpos : total runs ≤ pos) :
    findOdfIdx (makeCacheMap runs) pos = none := by
  rw [findOdfIdx_mcm, locate_none_of_ge runs pos hpos]; rfl

/-- **after every step of every history** the live table is the fresh parse of its own XML,
    so every read of the live object equals the read after serialise + parse -/
theorem history_fresh (ops : List Op) (t : Tbl) (h : Inv t) (hfit : GridFit (absT t))
    (hv : ∀ op ∈ ops, op.Valid)
    (hlimbo : ∀ k, k ≤ ops.length → NoLimbo (grun (absT t) (ops.take k))) :
    ∃ t', run t ops = some t' ∧ parse t'.cols.runs t'.rows.runs = t' ∧
      getValues (parse t'.cols.runs t'.rows.runs) = getValues t' ∧
      Table.sizeOf (parse t'.cols.runs t'.rows.runs) = Table.sizeOf t' := by
  obtain ⟨t', e, _, i, _⟩ := history_refines ops t h hfit hv hlimbo
  have := reparse_id t' i
  exact ⟨t', e, this, by rw [this], by rw [this]⟩

/-- the size answered from the maps is the sum of the repeats in the XML -/
theorem size_is_sum (t : Tbl) (h : Inv t) :
    Table.sizeOf t = (total t.cols.runs, total t.rows.runs) := by
  simp [Table.sizeOf, Table.width, Table.height, size_ok _ h.cols, size_ok _ h.rows]

/-! a stale map is observable: the theorem is not vacuous -/
example : getValue { cols := fresh [(0, 2)], rows := { runs := [([(1, 1)], 1), ([(2, 1)], 1)], map := [1] } } 0 1
    ≠ getValue (parse [(0, 2)] [([(1, 1)], 1), ([(2, 1)], 1)]) 0 1 := by decide +kernel
example : Table.sizeOf { cols := fresh [(0, 2)], rows := { runs := [([(1, 1)], 1), ([(2, 1)], 1)], map := [1] } }
    ≠ Table.sizeOf (parse [(0, 2)] [([(1, 1)], 1), ([(2, 1)], 1)]) := by decide +kernel

/-! ## the object layer: caches of wrapper objects -/

open Odf.TableObj

/-- one operation made through coherent caches does to the XML and the maps what it does on a
    table that has no cached wrapper at all -/
theorem cached_step_refines (o : OTbl) (hc : CacheOk o) (hi : Inv o.t) (op : Op) (hv : op.Valid) :
    (ostep o op).map (·.t) = step o.t op := ostep_refines o hc hi op hv

/-- … and leaves every cached wrapper describing the element at its key: its own map is the
    map of the element's current cells, its cached cells are the cells at their keys -/
theorem cached_step_keeps_caches (o : OTbl) (hc : CacheOk o) (hi : Inv o.t) (op : Op) (hv : op.Valid)
    (o' : OTbl) (h : ostep o op = some o') : CacheOk o' := ostep_cacheOk o hc hi op hv o' h

/-- `get_value` served from the caches = `get_value` of the fresh parse of the XML -/
theorem cached_get_value_fresh (o : OTbl) (hc : CacheOk o) (hi : Inv o.t) (x y : Int) :
    (oGetValue o x y).1 = getValue (parse o.t.cols.runs o.t.rows.runs) x y ∧
      (oGetValue o x y).2.t = o.t ∧ CacheOk (oGetValue o x y).2 := by
  rw [reparse_id o.t hi]; exact oGetValue_ok o hc x y

/-- `get_row_values` served from the caches (the wrapper's own map expands the row) = the
    expansion of the row in a fresh parse -/
theorem cached_row_values_fresh (o : OTbl) (hc : CacheOk o) (hi : Inv o.t) (y : Int) :
    (oGetRowValues o y).1 = rowValuesFresh (parse o.t.cols.runs o.t.rows.runs) y ∧
      (oGetRowValues o y).2.t = o.t ∧ CacheOk (oGetRowValues o y).2 := by
  rw [reparse_id o.t hi]; exact oGetRowValues_ok o hc hi y

/-- **every history of mutations interleaved with cache-filling reads**, from a freshly parsed
    table: the run through the caches succeeds, gives at every step the answer of the run that
    never caches a wrapper, reaches the same XML, and that XML parsed afresh is the live table -/
theorem cached_history_fresh (ops : List OOp) (t : Tbl) (hi : Inv t) (hfit : GridFit (absT t))
    (hv : ∀ op ∈ muts ops, op.Valid)
    (hlimbo : ∀ k, k ≤ (muts ops).length → NoLimbo (grun (absT t) ((muts ops).take k))) :
    ∃ o' answers, orun (parsed t) ops = some (o', answers) ∧ frun t ops = some (o'.t, answers) ∧
      CacheOk o' ∧ parse o'.t.cols.runs o'.t.rows.runs = o'.t := by
  obtain ⟨o', ans, e, f, c, i⟩ := cached_history ops (parsed t) (CacheOk.parsed t) hi hfit hv hlimbo
  exact ⟨o', ans, e, f, c, reparse_id o'.t i⟩

/-! the theorems are not vacuous: reads do fill the caches, an in-place edit keeps them, and
    a wrapper left behind with an obsolete map (what `insert_column` without its final
    `_indexes["_tmap"] = {}` leaves) answers differently from the fresh parse -/
def t0 : Tbl := parse [(0, 3)] [([(1, 1), (0, 2)], 1), ([(2, 1)], 2)]

example : ((orun (parsed t0) [.readValue 0 0, .readRow 0, .edit (.setCell 1 0 3 1), .readValue 1 0, .touchRow 2]).map
    (fun r => (r.1.tcache, r.2))) =
    some ([(1, { rmap := [1], ccache := [] }), (0, { rmap := [1, 2, 3], ccache := [(1, 3)] })],
      [[1], [1, 0, 0], [], [3], []]) := by decide +kernel

/-- the state `insert_column(0)` would leave if it kept the cached wrapper of row 0 -/
def staleT : OTbl :=
  { t := parse [(0, 1), (0, 3)] [([(0, 1), (1, 1), (0, 2)], 1), ([(0, 1), (2, 1)], 2)],
    tcache := [(0, { rmap := [1, 3], ccache := [(0, 1)] })] }

example : (oGetRowValues staleT 0).1 = [1, 1, 1, 0] ∧ rowValuesFresh staleT.t 0 = [0, 1, 0, 0] := by decide +kernel
example : (oGetValue staleT 1 0).1 = 1 ∧ getValue staleT.t 2 0 = 0 ∧ (oGetValue staleT 2 0).1 = 1 := by decide +kernel

/-! ### known finding C02-F3: the `repeated` setter of a live row

`t.get_row(y, clone=False).repeated = n` changes the XML but not the position map of the table
object the caller holds: the table goes on answering with the old height.  Counter-example
(model = code, replayed on the implementation by `harness/c02.py`, classifier
`live_repeated_setter`): a run of 7 rows set to 3 through its live wrapper. -/
def t7 : Tbl := parse [(0, 1)] [([(1, 1)], 7), ([(2, 1)], 1)]

theorem live_repeated_setter_cex :
    (oLiveRowRepeated (parsed t7) 5 3).map (fun (o : OTbl) => (Table.height o.t, Table.height (parse o.t.cols.runs o.t.rows.runs))) = some (8, 4) ∧
    (oLiveRowRepeated (parsed t7) 5 3).map (fun (o : OTbl) => ((oGetValue o 0 3).1, getValue (parse o.t.cols.runs o.t.rows.runs) 0 3)) = some (1, 2) := by
  decide +kernel

end Odf.C02
