import OdfProofs.TableHist

/-!
# C02 — what a table answers in memory is what its own XML says when parsed afresh

In the model a `Table` object is its XML (column runs, row runs) **plus** the two position
maps it keeps (`_cmap`, `_tmap`); a `Row` object reached through the table is its XML plus a
freshly computed `_rmap`.  "Parsed afresh" is `parse` (maps recomputed by `make_cache_map`).
The theorems say: after every operation of every history the kept maps are exactly the
recomputed ones, so the live object *is* the freshly parsed one and every read agrees.

PARTIAL (stated in DESIGN.md): the per-object caches of wrapper objects (`_indexes`, and the
`_rmap` of a `Row` object cached by an earlier read) are not part of the model; for them the
property is decided by the correspondence run only (live object vs `Element.from_tag` of its
own serialisation vs an independent lxml expansion, after every step).
-/
namespace Odf.C02
open Odf.Rle Odf.Table Odf.Grid

/-- a coherent live table equals the fresh parse of its own XML -/
theorem reparse_id (t : Tbl) (h : Inv t) : parse t.cols.runs t.rows.runs = t := by
  obtain ⟨cols, rows⟩ := t
  obtain ⟨cr, cm⟩ := cols
  obtain ⟨rr, rm⟩ := rows
  have h1 := h.cols.1
  have h2 := h.rows.1
  simp only at h1 h2
  subst h1 h2
  rfl

/-- the three vault edits keep the position map equal to the recomputed one -/
theorem set_keeps_map (v : Vault α) (hok : MapOk v) (pos : Nat) (x : α) (r : Nat)
    (hpos : pos < total v.runs) (hr : 1 ≤ r) :
    ∃ v', setItem v pos x r = some v' ∧ v'.map = makeCacheMap v'.runs := by
  obtain ⟨v', e, m, _⟩ := setItem_ok v hok pos x r hpos hr
  exact ⟨v', e, m.1⟩

theorem insert_keeps_map (v : Vault α) (hok : MapOk v) (pos : Nat) (x : α) (r : Nat)
    (hpos : pos < total v.runs) (hr : 1 ≤ r) :
    ∃ v', insertItem v pos x r = some v' ∧ v'.map = makeCacheMap v'.runs := by
  obtain ⟨v', e, m, _⟩ := insertItem_ok v hok pos x r hpos hr
  exact ⟨v', e, m.1⟩

theorem delete_keeps_map (v : Vault α) (hok : MapOk v) (pos : Nat) (hpos : pos < total v.runs) :
    ∃ v', deleteItem v pos = some v' ∧ v'.map = makeCacheMap v'.runs := by
  obtain ⟨v', e, m, _⟩ := deleteItem_ok v hok pos hpos
  exact ⟨v', e, m.1⟩

/-- `find_odf_idx` on a coherent map returns the run that really covers the position -/
theorem find_covers (runs : Runs α) (pos : Nat) (hpos : pos < total runs) :
    ∃ a b c n, runs = a ++ (c, n) :: b ∧ findOdfIdx (makeCacheMap runs) pos = some a.length ∧
      total a ≤ pos ∧ pos < total a + n := by
  obtain ⟨a, b, c, n, off, hr, ho, hp, hf⟩ := decompose runs pos hpos
  exact ⟨a, b, c, n, hr, hf, by omega, by omega⟩

/-- past the end the lookup fails (the callers then answer with an empty cell / row) -/
theorem find_none_past_end (runs : Runs α) (pos : Nat) (hpos : total runs ≤ pos) :
    findOdfIdx (makeCacheMap runs) pos = none := by
  rw [findOdfIdx_mcm, locate_none_of_ge runs pos hpos]; rfl

/-- **after every step of every history** the live table is the fresh parse of its own XML,
    so every read of the live object equals the read after serialise + parse -/
theorem history_fresh (ops : List Op) (t : Tbl) (h : Inv t) (hfit : GridFit (absT t))
    (hv : ∀ op ∈ ops, op.Valid)
    (hlimbo : ∀ k, k ≤ ops.length → NoLimbo (grun (absT t) (ops.take k))) :
    ∃ t', run t ops = some t' ∧ parse t'.cols.runs t'.rows.runs = t' ∧
      getValues (parse t'.cols.runs t'.rows.runs) = getValues t' ∧
      Table.sizeOf (parse t'.cols.runs t'.rows.runs) = Table.sizeOf t' := by
  obtain ⟨t', e, _, i, _⟩ := history_refines ops t h hfit hv hlimbo
  have := reparse_id t' i
  exact ⟨t', e, this, by rw [this], by rw [this]⟩

/-- the size answered from the maps is the sum of the repeats in the XML -/
theorem size_is_sum (t : Tbl) (h : Inv t) :
    Table.sizeOf t = (total t.cols.runs, total t.rows.runs) := by
  simp [Table.sizeOf, Table.width, Table.height, size_ok _ h.cols, size_ok _ h.rows]

/-! a stale map is observable: the theorem is not vacuous -/
example : getValue { cols := fresh [(0, 2)], rows := { runs := [([(1, 1)], 1), ([(2, 1)], 1)], map := [1] } } 0 1
    ≠ getValue (parse [(0, 2)] [([(1, 1)], 1), ([(2, 1)], 1)]) 0 1 := by decide +kernel
example : Table.sizeOf { cols := fresh [(0, 2)], rows := { runs := [([(1, 1)], 1), ([(2, 1)], 1)], map := [1] } }
    ≠ Table.sizeOf (parse [(0, 2)] [([(1, 1)], 1), ([(2, 1)], 1)]) := by decide +kernel

end Odf.C02
