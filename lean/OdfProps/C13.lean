import OdfProofs.Styles

/-!
# C13 — styles land in the right container, stay unique by family + name, are found again

Model: `OdfModel/Styles.lean` — the six style containers as lists, `insert_style` with its
dispatch (`place`), delete-existing-then-append (`replaceIn`), the generated automatic names, the
search order of `Document.get_style` with the table CONTEXT_MAPPING REGENERATED from styles.py at
every run, `merge_styles_from`.  Statements are for every document state and every style.
-/
namespace Odf.C13
open Odf.Styles

/-- **right container, nothing else touched**: an accepted insertion changes exactly the container
    `place` designates -/
theorem insert_touches_one_container (d d' : Doc) (st : Sty) (a df : Bool) (nm : Option Name)
    (h : d.insert st a df = some (d', nm)) :
    ∃ b, place st.family st.name.isSome a df = some b ∧ ∀ c, c ≠ b → d'.box c = d.box c := by
  unfold Doc.insert at h
  cases hp : place st.family st.name.isSome a df with
  | none => rw [hp] at h; simp at h
  | some b =>
    rw [hp] at h
    simp only [Option.some.injEq, Prod.mk.injEq] at h
    refine ⟨b, rfl, ?_⟩
    intro c hc
    rw [← h.1, box_setBox, if_neg hc]

/-- the container required by family and kind, as the property lists them -/
theorem place_table :
    place "master-page" true false false = some .sMaster ∧
    place "page-layout" true false false = some .sAuto ∧
    place "font-face" true false false = some .cFont ∧ place "font-face" true false true = some .sFont ∧
    (∀ fam ∈ Odf.Gen.familyStd, place fam true false false = some .sStyles ∧ place fam true true false = some .cAuto ∧
      place fam false true false = some .cAuto ∧ place fam true false true = some .sStyles ∧
      place fam true true true = none ∧ place fam false false false = none) := by
  decide +kernel

/-- **the container an insertion goes to is one the lookup searches** — for every family and kind
    the library accepts, against the search table regenerated from the source -/
theorem placed_container_is_searched :
    ∀ fam ∈ Odf.Gen.familyStd ++ Odf.Gen.familyFalse, ∀ named ∈ [true, false], ∀ a ∈ [true, false], ∀ df ∈ [true, false],
      ∀ b, place fam named a df = some b → b ∈ contentContexts fam ++ stylesContexts fam := by
  decide +kernel

/-- a family WITHOUT dedicated search contexts (the data styles: number, currency, date, …; `ruby`) is looked up among the common
    styles of styles.xml first, then among its automatic styles: a common style inserted under the name of an automatic one of
    styles.xml is the one found (re-decided at every run from `CONTEXT_MAPPING.get(family) or (…)` in `Styles._get_style_contexts`) -/
theorem unmapped_family_common_styles_first :
    Odf.Gen.contextFallback = [.sStyles, .sAuto] ∧ stylesContexts "number" = [.sStyles, .sAuto] ∧ stylesContexts "ruby" = [.sStyles, .sAuto] := by
  decide +kernel

/-- **unique by family + name**: replacing in a container without homonyms leaves it without
    homonyms, with the new style there exactly once, and every other style in place -/
theorem insert_keeps_unique (b : Box) (st : Sty) (h : Unique b) :
    Unique (replaceIn b st) ∧ count (replaceIn b st) st.family st.name = 1 ∧
    (replaceIn b st).filter (fun s => !hasKey st.family st.name s) = b.filter (fun s => !hasKey st.family st.name s) :=
  ⟨(unique_replaceIn b st h).1, (unique_replaceIn b st h).2, others_replaceIn b st⟩

/-- **found again in its container** -/
theorem found_in_container (b : Box) (st : Sty) (h : Unique b) : find (replaceIn b st) st.family st.name = some st :=
  find_replaceIn b st h

/-- **found again by the document lookup** (PARTIAL: when no container searched earlier holds a style
    of the same family and name — otherwise that one is returned: known finding C13-F2) -/
theorem found_in_document_partial (d : Doc) (b : Box6) (st : Sty) (hu : Unique (d.box b))
    (hb : b ∈ contentContexts st.family ++ stylesContexts st.family)
    (hearlier : ∀ c ∈ contentContexts st.family ++ stylesContexts st.family, c ≠ b → find (d.box c) st.family st.name = none) :
    (d.setBox b (replaceIn (d.box b) st)).get st.family st.name = some st := by
  unfold Doc.get
  generalize contentContexts st.family ++ stylesContexts st.family = ctxs at hb hearlier
  induction ctxs with
  | nil => simp at hb
  | cons c rest ih =>
    simp only [List.findSome?_cons]
    by_cases hc : c = b
    · subst hc
      rw [box_setBox, if_pos rfl, find_replaceIn _ st hu]
    · rw [box_setBox, if_neg hc, hearlier c (by simp) hc]
      simp only
      apply ih
      · rcases List.mem_cons.1 hb with h | h
        · exact absurd h.symm hc
        · exact h
      · intro c' hc' hne
        exact hearlier c' (by simp [hc']) hne

/-- **generated names never collide** with a style of the family in any container the lookup of that
    family searches (content.xml font faces and automatic styles, then the containers of
    CONTEXT_MAPPING): whatever `get_style(family, name)` could find has another name -/
theorem automatic_name_is_fresh (d : Doc) (family : String) (b : Box6)
    (hb : b ∈ contentContexts family ++ stylesContexts family) (s : Sty) (hs : s ∈ d.box b) (hf : s.family = family) :
    s.name ≠ some (.auto (autoIndex d family + 1)) :=
  autoIndex_fresh d family s (List.mem_flatMap.2 ⟨b, hb, hs⟩) hf

/-- **merge**: a style of the other document ends in the container it comes from, its homonym in
    the receiving part is gone; the other document is a value the function does not return: it
    is left as it was -/
theorem merge_one_lands (d : Doc) (b : Box6) (s : Sty) (hu : Unique (d.box b)) :
    find ((d.mergeOne b s).box b) s.family s.name = some s ∧ Unique ((d.mergeOne b s).box b) ∧
    ∀ c, c ≠ b → (d.mergeOne b s).box c = d.box c := by
  unfold Doc.mergeOne
  refine ⟨by rw [box_setBox, if_pos rfl]; exact find_replaceIn _ s hu,
    by rw [box_setBox, if_pos rfl]; exact (unique_replaceIn _ s hu).1, ?_⟩
  intro c hc
  rw [box_setBox, if_neg hc]

/-! non-vacuity -/
example : Unique [⟨0, "paragraph", some (.other 1), 5⟩, ⟨0, "text", some (.other 1), 6⟩] :=
  unique_of_uniqueB _ (by decide +kernel)
example : replaceIn [⟨0, "paragraph", some (.other 1), 5⟩, ⟨0, "text", some (.other 1), 6⟩] ⟨0, "paragraph", some (.other 1), 9⟩ =
    [⟨0, "text", some (.other 1), 6⟩, ⟨0, "paragraph", some (.other 1), 9⟩] := by decide +kernel
-- a homonym in a container searched earlier shadows the inserted style (known finding C13-F2)
example :
    let d : Doc := { cFont := [], cAuto := [⟨0, "text", some (.other 1), 6⟩], sFont := [], sStyles := [], sAuto := [], sMaster := [] }
    ((d.insert ⟨0, "text", some (.other 1), 9⟩ false false).map (fun r => r.1.get "text" (some (.other 1)))) =
      some (some ⟨0, "text", some (.other 1), 6⟩) := by decide +kernel

end Odf.C13
