import OdfProofs.Package4

/-!
# C04 — every saved file is a valid ODF package whose manifest matches its content

Model: `OdfModel/Package.lean` (Container with lazily loaded parts, Document with its cache of
parsed XML parts, the manifest as a parsed part, `add_file`, `del_part`, `_check_manifest_rdf`,
`save`, `clone`, reopen).  Statements are for every document state reachable by ANY history of
the operations below from a coherent source (templates and samples are checked coherent by the
harness), whatever was parsed lazily and in whatever order.  `u` says which names the manifest
need not list (directory entries, members of META-INF/).
-/
namespace Odf.C04
open Odf.Pkg

/-- the state invariant: well-formed dictionaries, the manifest lists exactly the files held,
    and manifest.rdf is not declared with an empty media type -/
def Inv (u : Nat → Bool) (d : Doc) : Prop :=
  WFd d ∧ Coherent u d ∧ look (manifestOf d) nRdf ≠ some 0

inductive Op where
  | addFile (name : Nat) (data : Blob) (mt : Nat)   -- add_file / image frame / copied picture
  | delPart (name : Nat)
  | edit (n : Nat) (b : Blob)                        -- any edit of content / styles / meta / settings through the API
  | clone
  | saveReopen (rdf : Blob)

def step (d : Doc) : Op → Doc
  | .addFile name data mt => d.addFile name data mt
  | .delPart name => d.delPart name
  | .edit n b => d.edit n b
  | .clone => d.clone
  | .saveReopen rdf => Doc.ofBytes (d.save rdf).2

/-- what the API accepts: a picture gets a file name that is not an XML part, a mandatory part
    cannot be deleted, the manifest is not edited by hand -/
def Valid (u : Nat → Bool) (d : Doc) : Op → Prop
  | .addFile name _ _ => FileName u name ∧ name ≠ nRdf ∧ look d.parsed name = none
  | .delPart name => name ≠ nManifest ∧ look d.parsed name = none
  | .edit n _ => n ≠ nManifest
  | .clone => True
  | .saveReopen _ => True

theorem manifestOf_prepared (d : Doc) (rdf : Blob) : manifestOf (d.prepared rdf) = manifestOf d := by
  have key : ∀ (e : Doc), manifestOf (e.checkRdf rdf) = manifestOf e := by
    intro e
    unfold Doc.checkRdf
    have h2 := manifest_snd e
    cases hg : e.manifest with
    | mk es d1 =>
      rw [hg] at h2
      simp only at h2
      have hv1 : ∀ m, d1.view m = e.view m := by intro m; rw [h2, parse_view]
      have hm1 : manifestOf d1 = manifestOf e := by unfold manifestOf; rw [hv1]
      have hman : ∀ (c' : Cont), (∀ m, m ≠ nRdf → cview c' m = cview d1.c m) →
          manifestOf ({ d1 with c := c' } : Doc) = manifestOf e := by
        intro c' hc'
        rw [← hm1]
        unfold manifestOf
        rw [view_eq, view_eq, hc' nManifest (by decide)]
      simp only
      split
      · split
        · exact hm1
        · exact hman _ (fun m hm => by rw [cview_set]; simp [hm])
      · split
        · exact hman _ (fun m hm => by rw [cview_delete]; simp [hm])
        · exact hm1
  unfold Doc.prepared
  rw [key]
  unfold manifestOf
  rw [parse_view]

/-- the document as `save` prepares it is still coherent -/
theorem prepared_inv (u : Nat → Bool) (hr : FileName u nRdf) (d : Doc) (rdf : Blob) (h : Inv u d) :
    Inv u (d.prepared rdf) := by
  obtain ⟨hw, hc, hne⟩ := h
  have hv : ∀ m, (d.parse nMeta).2.view m = d.view m := fun m => parse_view d nMeta m
  have hc1 : Coherent u (d.parse nMeta).2 := coherent_of_view_eq u d _ hv hc
  have hm1 : manifestOf (d.parse nMeta).2 = manifestOf d := by unfold manifestOf; rw [hv]
  refine ⟨checkRdf_wf _ rdf (parse_wf d nMeta hw), ?_, ?_⟩
  · exact checkRdf_coherent u _ rdf hr (by rw [hm1]; exact hne) hc1
  · rw [manifestOf_prepared]; exact hne

/-- **one operation** keeps the invariant -/
theorem step_inv (u : Nat → Bool) (hu : u nPictures = true) (hr : FileName u nRdf) (d : Doc) (op : Op)
    (h : Inv u d) (hv : Valid u d op) : Inv u (step d op) := by
  obtain ⟨hw, hc, hne⟩ := h
  cases op with
  | addFile name data mt =>
    simp only [step]
    obtain ⟨hf, hnr, hp⟩ := hv
    refine ⟨addFile_wf d name data mt hw, addFile_coherent u d name data mt hu hf hp hc, ?_⟩
    have hvw := addFile_view d name data mt nManifest hf.2.1 hp
    rw [if_pos rfl] at hvw
    rw [manifestOf_of_view _ _ hvw]
    simp only [addPath, look_put]
    have h1 : ¬ nRdf = name := fun e => hnr e.symm
    simp only [h1, if_false]
    split
    · exact hne
    · simp only [look_put]
      have : ¬ nRdf = nPictures := by decide
      simp only [this, if_false]
      exact hne
  | delPart name =>
    simp only [step]
    obtain ⟨hn, hp⟩ := hv
    refine ⟨delPart_wf d name hw, delPart_coherent u d name hn hp hc, ?_⟩
    have hvw := delPart_view d name nManifest hn hp
    rw [if_pos rfl] at hvw
    rw [manifestOf_of_view _ _ hvw, manifestOf_delete d name hn]
    simp only [delPath, look_del _ _ _ hc.1]
    split
    · simp
    · exact hne
  | edit n b =>
    simp only [step]
    refine ⟨edit_wf d n b hw, edit_coherent u d n b hv hc, ?_⟩
    have : manifestOf (d.edit n b) = manifestOf d := by
      unfold manifestOf
      rw [edit_view]
      have : ¬ nManifest = n := fun e => hv e.symm
      simp [this]
    rw [this]; exact hne
  | clone =>
    simp only [step]
    have hvw := fun m => clone_view d hw m
    refine ⟨clone_wf d hw, coherent_of_view_eq u d _ hvw hc, ?_⟩
    have : manifestOf d.clone = manifestOf d := by unfold manifestOf; rw [hvw]
    rw [this]; exact hne
  | saveReopen rdf =>
    simp only [step]
    have hp := prepared_inv u hr d rdf ⟨hw, hc, hne⟩
    have hvw : ∀ m, (Doc.ofBytes (d.save rdf).2).view m = (d.prepared rdf).view m := by
      intro m; rw [ofBytes_view, save_written d rdf hw]
    refine ⟨ofBytes_wf _ (save_written_nodup d rdf hw), coherent_of_view_eq u _ _ hvw hp.2.1, ?_⟩
    have : manifestOf (Doc.ofBytes (d.save rdf).2) = manifestOf (d.prepared rdf) := by unfold manifestOf; rw [hvw]
    rw [this]; exact hp.2.2

/-- a history whose operations are accepted one after the other -/
def ValidRun (u : Nat → Bool) : Doc → List Op → Prop
  | _, [] => True
  | d, op :: rest => Valid u d op ∧ ValidRun u (step d op) rest

/-- **every history** keeps the invariant -/
theorem history_inv (u : Nat → Bool) (hu : u nPictures = true) (hr : FileName u nRdf) (ops : List Op) (d : Doc)
    (h : Inv u d) (hv : ValidRun u d ops) : Inv u (ops.foldl step d) := by
  induction ops generalizing d with
  | nil => exact h
  | cons op rest ih =>
    simp only [List.foldl_cons]
    exact ih _ (step_inv u hu hr d op h hv.1) hv.2

/-- **the saved package**: after any history, what `save` writes has no duplicate entry name, its
    manifest lists no path twice, and a file name is in the package iff the manifest lists it -/
theorem saved_package_matches_manifest (u : Nat → Bool) (hu : u nPictures = true) (hr : FileName u nRdf)
    (ops : List Op) (d : Doc) (h : Inv u d) (hv : ValidRun u d ops) (rdf : Blob) :
    let w := ((ops.foldl step d).save rdf).2
    let listed := match look w nManifest with
      | some b => keys (entries b)
      | none => []
    (keys w).Nodup ∧ listed.Nodup ∧ ∀ n, FileName u n → ((look w n).isSome ↔ n ∈ listed) := by
  have hi := history_inv u hu hr ops d h hv
  have hp := prepared_inv u hr _ rdf hi
  intro w listed
  have hl : listed = keys (manifestOf ((ops.foldl step d).prepared rdf)) := by
    show (match look ((ops.foldl step d).save rdf).2 nManifest with
      | some b => keys (entries b)
      | none => []) = _
    rw [save_written _ rdf hi.1]
    unfold manifestOf
    cases ((ops.foldl step d).prepared rdf).view nManifest <;> rfl
  refine ⟨save_written_nodup _ rdf hi.1, by rw [hl]; exact hp.2.1.1, ?_⟩
  intro n hn
  rw [hl]
  show (look ((ops.foldl step d).save rdf).2 n).isSome ↔ _
  rw [save_written _ rdf hi.1]
  exact hp.2.1.2 n hn

/-- `mimetype` is the first entry of the zip -/
theorem mimetype_first (w : List (Nat × Blob)) (b : Blob) (h : look w nMime = some b) :
    ((zipOrder w).head?).map (·.1) = some nMime := by
  have : ∃ x rest, w.filter (·.1 = nMime) = x :: rest ∧ x.1 = nMime := by
    induction w with
    | nil => simp [look] at h
    | cons p tl ih =>
      obtain ⟨k, v⟩ := p
      by_cases hk : k = nMime
      · exact ⟨(k, v), tl.filter (·.1 = nMime), by simp [List.filter_cons, hk], hk⟩
      · simp only [look, hk, if_false] at h
        obtain ⟨x, r, e1, e2⟩ := ih h
        exact ⟨x, r, by simp [List.filter_cons, hk, e1], e2⟩
  obtain ⟨x, rest, e1, e2⟩ := this
  unfold zipOrder
  rw [e1]
  simp [e2]

/-! non-vacuity: a coherent package, a picture added, content edited; then added, deleted, cloned from a lazily read zip -/
def exFiles : List (Nat × Blob) := [(0, .raw 1), (2, .raw 2), (3, .raw 4), (1, .man [(8, 5), (2, 6), (3, 6)])]
def exU (n : Nat) : Bool := n == 7 || n == 8

example : ((step (step (Doc.ofBytes exFiles) (.addFile 20 (.raw 9) 3)) (.edit 2 (.raw 7))).save (.raw 0)).2 =
    [(0, .raw 1), (2, .raw 7), (3, .raw 4), (1, .man [(8, 5), (2, 6), (3, 6), (7, 0), (20, 3)]), (20, .raw 9)] := by decide +kernel
example : zipOrder ((step (step (step (Doc.ofPath exFiles) (.addFile 20 (.raw 9) 3)) (.delPart 20)) .clone).save (.raw 0)).2 =
    [(0, .raw 1), (2, .raw 2), (3, .raw 4), (1, .man [(8, 5), (2, 6), (3, 6), (7, 0)])] := by decide +kernel
example : (keys (manifestOf (Doc.ofBytes exFiles))).Nodup ∧ look (manifestOf (Doc.ofBytes exFiles)) nRdf ≠ some 0 := by decide +kernel
example : ValidRun exU (Doc.ofBytes exFiles) [.addFile 20 (.raw 9) 3, .edit 2 (.raw 7)] := by
  refine ⟨⟨⟨by decide, by decide, by decide⟩, by decide, by decide +kernel⟩, ?_, trivial⟩
  show (2 : Nat) ≠ nManifest
  decide

end Odf.C04
