import OdfProofs.Package4

/-!
# C15 — reading, searching and exporting a document never changes it (package layer)

PARTIAL, said plainly: a getter modelled as a pure function is read-only by definition, so for most
entry points a Lean statement would be empty and the decision is the harness's exploration.  The
reads that are NOT pure in the code are the ones that fill caches: `Container.get_part` loads a
part lazily from the zip / folder, `Document.get_part` parses an XML part once and keeps the
tree.  For these the model (`OdfModel/Package.lean`) has the caches in its state, and the
theorems say that whatever is cached, the document is the same and the answer is the same.
-/
namespace Odf.C15
open Odf.Pkg

/-- **reading a part never changes the document**: after `Document.get_part` (parse) or
    `Container.get_part` (lazy load) every name holds what it held -/
theorem read_keeps_document (d : Doc) (n m : Nat) :
    (d.parse n).2.view m = d.view m ∧ ({ d with c := (d.c.get n).2 } : Doc).view m = d.view m := by
  constructor
  · exact parse_view d n m
  · simp only [view_eq, get_snd_cview]

/-- the answer of a read is the content of the document under that name -/
theorem read_answers_the_view (d : Doc) (n : Nat) : (d.parse n).1 = d.view n := parse_fst d n

/-- **asking twice gives the same answer** (the second call is served from the cache) -/
theorem read_twice_same (d : Doc) (n : Nat) : ((d.parse n).2.parse n).1 = (d.parse n).1 := by
  rw [parse_fst, parse_fst, parse_view]

theorem container_read_twice_same (c : Cont) (n : Nat) : ((c.get n).2.get n).1 = (c.get n).1 := by
  rw [get_fst, get_fst, get_snd_cview]

/-- the listing of the parts is not changed by reading one -/
theorem read_keeps_names (c : Cont) (n : Nat) : (c.get n).2.names = c.names := by
  obtain ⟨hs, hl⟩ := get_snd_src c n
  unfold Cont.names
  rw [hs, hl]
  cases hlz : c.lazy with
  | true => rfl
  | false =>
    simp only [Bool.false_eq_true, if_false]
    unfold Cont.get
    split
    · rfl
    · rfl
    · simp [hlz]

/-- reading the manifest (every `add_file`, `del_part`, `save` starts with it) keeps the document -/
theorem manifest_read_keeps_document (d : Doc) (m : Nat) : d.manifest.2.view m = d.view m := by
  rw [manifest_snd, parse_view]

/-- any sequence of reads keeps the document -/
theorem reads_keep_document (ns : List Nat) (d : Doc) (m : Nat) :
    (ns.foldl (fun d n => (d.parse n).2) d).view m = d.view m := by
  induction ns generalizing d with
  | nil => rfl
  | cons n rest ih => simp only [List.foldl_cons]; rw [ih, parse_view]

/-! non-vacuity: a lazily opened package, one part read: the cache changed, the document did not -/
example :
    let d := Doc.ofPath [(0, .raw 1), (2, .raw 2), (9, .raw 4)]
    ((d.parse 2).2.parsed ≠ d.parsed) ∧ ((d.parse 2).2.view 2 = d.view 2) := by decide +kernel

end Odf.C15
