import OdfProofs.Package4
import OdfProofs.TableObj

/-!
# C15 — reading, searching and exporting a document never changes it (package layer)

PARTIAL, said plainly: a getter modelled as a pure function is read-only by definition, so for most
entry points a Lean statement would be empty and the decision is the harness's exploration.  The
reads that are NOT pure in the code are the ones that fill caches: `Container.get_part` loads a
part lazily from the zip / folder, `Document.get_part` parses an XML part once and keeps the
tree.  For these the model (`OdfModel/Package.lean`) has the caches in its state, and the
theorems say that whatever is cached, the document is the same and the answer is the same.
-/
namespace Odf.C15
open Odf.Pkg

/-- **reading a part never changes the document**: after `Document.get_part` (parse) or
    `Container.get_part` (lazy load) every name holds what it held -/
theorem read_keeps_document (d : Doc) (n m : Nat) :
    (d.parse n).2.view m = d.view m ∧ ({ d with c := (d.c.get n).2 } : Doc).view m = d.view m := by
  constructor
  · exact parse_view d n m
  · simp only [view_eq, get_snd_cview]

/-- the answer of a read is the content of the document under that name -/
theorem read_answers_the_view (d : Doc) (n : Nat) : (d.parse n).1 = d.view n := parse_fst d n

/-- **asking twice gives the same answer** (the second call is served from the cache) -/
theorem read_twice_same (d : Doc) (n : Nat) : ((d.parse n).2.parse n).1 = (d.parse n).1 := by
  rw [parse_fst, parse_fst, parse_view]

theorem container_read_twice_same (c : Cont) (n : Nat) : ((c.get n).2.get n).1 = (c.get n).1 := by
  rw [get_fst, get_fst, get_snd_cview]

/-- the listing of the parts is not changed by reading one -/
theorem read_keeps_names (c : Cont) (n : Nat) : (c.get n).2.names = c.names := by
  obtain ⟨hs, hl⟩ := get_snd_src c n
  unfold Cont.names
  rw [hs, hl]
  cases hlz : c.lazy with
  | true => rfl
  | false =>
    simp only [Bool.false_eq_true, if_false]
    unfold Cont.get
    split
    · rfl
    · rfl
    · simp [hlz]

/-- reading the manifest (every `add_file`, `del_part`, `save` starts with it) keeps the document -/
theorem manifest_read_keeps_document (d : Doc) (m : Nat) : d.manifest.2.view m = d.view m := by
  rw [manifest_snd, parse_view]

/-- any sequence of reads keeps the document -/
theorem reads_keep_document (ns : List Nat) (d : Doc) (m : Nat) :
    (ns.foldl (fun d n => (d.parse n).2) d).view m = d.view m := by
  induction ns generalizing d with
  | nil => rfl
  | cons n rest ih => simp only [List.foldl_cons]; rw [ih, parse_view]

/-! non-vacuity: a lazily opened package, one part read: the cache changed, the document did not -/
example :
    let d := Doc.ofPath [(0, .raw 1), (2, .raw 2), (9, .raw 4)]
    ((d.parse 2).2.parsed ≠ d.parsed) ∧ ((d.parse 2).2.view 2 = d.view 2) := by decide +kernel

/-! ## the table object layer: reads that fill the caches of wrapper objects

`Table.get_value`, `get_cell`, `get_row`, `get_row_values` are not pure either: they create `Row` / `Cell`
wrappers and keep them (`_indexes["_tmap"]`, `_indexes["_rmap"]`).  In `OdfModel/TableObj.lean` these
caches are part of the state; the theorems say that whatever sequence of such reads is made, the
XML and the position maps of the table are untouched, every answer is the answer of a table that
caches nothing, and asking again gives the same answer. -/
open Odf.Rle Odf.Table Odf.TableObj

theorem frun_reads (ops : List OOp) (h : muts ops = []) (t : Tbl) : ∃ ans, frun t ops = some (t, ans) := by
  induction ops with
  | nil => exact ⟨[], rfl⟩
  | cons op rest ih =>
    cases op with
    | edit m => simp [muts] at h
    | readValue x y =>
      obtain ⟨ans, e⟩ := ih (by simpa [muts] using h)
      exact ⟨[getValue t x y] :: ans, by simp only [frun, fstepAll, Option.bind_some, e, Option.map_some]⟩
    | readRow y =>
      obtain ⟨ans, e⟩ := ih (by simpa [muts] using h)
      exact ⟨rowValuesFresh t y :: ans, by simp only [frun, fstepAll, Option.bind_some, e, Option.map_some]⟩
    | touchRow y =>
      obtain ⟨ans, e⟩ := ih (by simpa [muts] using h)
      exact ⟨[] :: ans, by simp only [frun, fstepAll, Option.bind_some, e, Option.map_some]⟩

/-- **any sequence of table reads** (values, rows, row objects) through the wrapper caches leaves the XML and
    the position maps of the table as they were, and answers what a table that caches nothing answers -/
theorem table_reads_keep_document (ops : List OOp) (hr : muts ops = []) (o : OTbl) (hc : CacheOk o)
    (hi : Inv o.t) (hfit : GridFit (absT o.t)) :
    ∃ o' answers, orun o ops = some (o', answers) ∧ o'.t = o.t ∧ frun o.t ops = some (o.t, answers) ∧ CacheOk o' := by
  obtain ⟨o', ans, e, f, c, _⟩ := cached_history ops o hc hi hfit (by rw [hr]; intro op hop; cases hop) (by
    intro k hk
    rw [hr] at hk ⊢
    simp only [List.length_nil, Nat.le_zero_eq] at hk
    subst hk
    exact inv_noLimbo o.t hi)
  obtain ⟨ans2, f2⟩ := frun_reads ops hr o.t
  rw [f2] at f
  simp only [Option.some.injEq, Prod.mk.injEq] at f
  obtain ⟨ht, ha⟩ := f
  exact ⟨o', ans, e, ht.symm, by rw [f2, ha], c⟩

/-- asking a value twice: the second answer (served from the caches the first call filled) is the first -/
theorem table_value_twice_same (o : OTbl) (hc : CacheOk o) (x y : Int) :
    (oGetValue (oGetValue o x y).2 x y).1 = (oGetValue o x y).1 := by
  obtain ⟨h1, h2, h3⟩ := oGetValue_ok o hc x y
  obtain ⟨h4, _, _⟩ := oGetValue_ok (oGetValue o x y).2 h3 x y
  rw [h4, h2, h1]

theorem table_row_twice_same (o : OTbl) (hc : CacheOk o) (hi : Inv o.t) (y : Int) :
    (oGetRowValues (oGetRowValues o y).2 y).1 = (oGetRowValues o y).1 := by
  obtain ⟨h1, h2, h3⟩ := oGetRowValues_ok o hc hi y
  obtain ⟨h4, _, _⟩ := oGetRowValues_ok (oGetRowValues o y).2 h3 (h2 ▸ hi) y
  rw [h4, h2, h1]

/-! non-vacuity: the reads do change the object (its caches), not the table -/
example :
    let o := parsed (parse [(0, 2)] [([(1, 1), (0, 1)], 2), ([(2, 2)], 1)])
    ((orun o [.readValue 0 1, .readRow 2, .touchRow 0]).map (fun r => (r.1.tcache.length, r.2))) = some (2, [[1], [2, 2], []]) := by
  decide +kernel

end Odf.C15
