import OdfProofs.Coord
import OdfProofs.Addr
import OdfProofs.Codec
import OdfProofs.Ws
import OdfProofs.Ws2
import OdfProofs.Ws3
import OdfProofs.Ws4
