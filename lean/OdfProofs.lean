import OdfProofs.Coord
import OdfProofs.Addr
import OdfProofs.Codec
