import OdfProofs.Coord
