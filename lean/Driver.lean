import OdfModel
/-!
Line-protocol driver: one request per line on stdin, one answer per line on stdout.
First token selects the model. Run with `lake env lean --run Driver.lean`.
-/
open Odf

structure DState where
  tbl : Table.Tbl := Table.parse [] []
  row : Table.RowObj := Table.rowObj []
  sgrid : Span.SGrid := []
  pkg : Drv.Pkg.St := {}
  sty : Drv.Styles.St := {}
  heap : Drv.Heap.St := []
  otb : TableObj.OTbl := TableObj.parsed (Table.parse [] [])

def step (st : DState) (line : String) : DState × String :=
  match (line.trimAscii.toString.splitOn " ").filter (· ≠ "") with
  | "coord" :: rest => (st, Drv.Coord.handle rest)
  | "addr" :: rest => (st, Drv.Addr.handle rest)
  | "codec" :: rest => (st, Drv.Codec.handle rest)
  | "ws" :: rest => (st, Drv.Ws.handle rest)
  | "name" :: rest => (st, Drv.Names.handle rest)
  | "toc" :: rest => (st, Drv.Toc.handle rest)
  | "xp" :: rest => (st, Drv.XPathLit.handle rest)
  | "tv" :: rest => (st, Drv.PyT.handle rest)
  | "mk" :: rest => (st, Drv.Markup.handle rest)
  | "rp" :: rest => (st, Drv.Replace.handle rest)
  | "pp" :: rest => (st, Drv.Pretty.handle rest)
  | "rg" :: rest => (st, Drv.Registry.handle rest)
  | "sy" :: rest => let (p, o) := Drv.Styles.handle st.sty rest; ({ st with sty := p }, o)
  | "hp" :: rest => let (p, o) := Drv.Heap.handle st.heap rest; ({ st with heap := p }, o)
  | "pk" :: rest => let (p, o) := Drv.Pkg.handle st.pkg rest; ({ st with pkg := p }, o)
  | "row" :: "trav" :: rest => (st, Drv.Row.handleTrav st.row rest)
  | "row" :: rest => let (r, o) := Drv.Row.handle st.row rest; ({ st with row := r }, o)
  | "otb" :: rest => let (o, a) := Drv.TableObj.handle st.otb rest; ({ st with otb := o }, a)
  | "tbl" :: "x" :: rest =>
    match Drv.Transform.handleTbl st.tbl rest with
    | some (t, o) => ({ st with tbl := t }, o)
    | none => (st, "bad-op")
  | "span" :: rest => let (g, o) := Drv.Transform.handleSpan st.sgrid rest; ({ st with sgrid := g }, o)
  | "tbl" :: rest => let (t, o) := Drv.Table.handle st.tbl rest; ({ st with tbl := t }, o)
  | _ => (st, "bad-op")

partial def loop (h : IO.FS.Stream) (out : IO.FS.Stream) (st : DState) : IO Unit := do
  let line ← h.getLine
  if line.isEmpty then return ()
  let (st', o) := step st line
  out.putStrLn o
  loop h out st'

def main : IO Unit := do
  let out ← IO.getStdout
  loop (← IO.getStdin) out {}
