import OdfModel.Basic
import OdfModel.Coord
import OdfModel.Addr
import OdfModel.Drv.Util
import OdfModel.Drv.Coord
import OdfModel.Drv.Addr
