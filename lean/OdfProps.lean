import OdfProps.C19
