import OdfProps.C19
import OdfProps.C18
import OdfProps.C05
import OdfProps.C01
import OdfProps.C02
import OdfProps.C07
import OdfProps.C08
import OdfProps.C17
