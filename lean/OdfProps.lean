import OdfProps.C19
import OdfProps.C18
import OdfProps.C05
