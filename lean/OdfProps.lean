import OdfProps.C19
import OdfProps.C18
