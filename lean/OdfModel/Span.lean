import OdfModel.Basic
/-
  Model of Table.set_span / del_span (table.py) at the level of the expanded cells the code
  works on (`get_cell(..., keep_repeated=False)` for every cell of the area, then `set_cells`).
  A cell: payload, the two span attributes, and whether its tag is `covered-table-cell`.
  `merge=False` only.  The area is given by naturals with x ≤ z, y ≤ t.
-/
namespace Odf.Span

structure SCell where
  val : Nat
  spanC : Option Nat
  spanR : Option Nat
  covered : Bool
deriving DecidableEq, Repr

abbrev SGrid := List (List SCell)

def plain (v : Nat) : SCell := ⟨v, none, none, false⟩

/-- `Cell.is_spanned()` -/
def SCell.isSpanned (c : SCell) : Bool := c.covered || c.spanC.isSome || c.spanR.isSome

def inArea (x y z t i j : Nat) : Bool := decide (x ≤ i) && decide (i ≤ z) && decide (y ≤ j) && decide (j ≤ t)

def mapArea (x y z t : Nat) (f : Nat → Nat → SCell → SCell) (g : SGrid) : SGrid :=
  g.mapIdx (fun j r => r.mapIdx (fun i c => if inArea x y z t i j then f i j c else c))

def anyArea (x y z t : Nat) (p : SCell → Bool) (g : SGrid) : Bool :=
  (g.mapIdx (fun j r => (r.mapIdx (fun i c => inArea x y z t i j && p c)).any id)).any id

/-- `set_span((x, y, z, t))`: `none` = returns False (single cell, or overlap with a span) -/
def setSpan (g : SGrid) (x y z t : Nat) : Option SGrid :=
  if x = z ∧ y = t then none
  else if anyArea x y z t SCell.isSpanned g then none
  else some (mapArea x y z t (fun i j c =>
    if i = x ∧ j = y then { c with spanC := some (z - x + 1), spanR := some (t - y + 1) }
    else { c with covered := true }) g)

/-- `del_span((x, y))`: `none` = returns False (the cell carries no span) -/
def delSpan (g : SGrid) (x y : Nat) : Option SGrid :=
  match (g.getD y []).getD x (plain 0) with
  | ⟨_, some nc, some nr, _⟩ =>
    some (mapArea x y (x + nc - 1) (y + nr - 1) (fun i j c =>
      if i = x ∧ j = y then { c with spanC := none, spanR := none }
      else { c with covered := false }) g)
  | _ => none

end Odf.Span
