import OdfModel.Coord
/-
  Model of the named-range address writer / reader of src/odfdo/table.py
    _quote_table_name, _split_cell_range_address,
    NamedRange._make_base_cell_address, NamedRange._make_cell_range_address,
    NamedRange.__init__ (reading branch)
  `plain` stands for Python's `c.isalnum() or c == "_"` (a parameter: the Unicode tables are
  CPython's; the theorems need only that a plain character is none of `. $ '` nor blank).
-/
namespace Odf.Addr
open Odf.Coord

def escapeName (name : List Char) : List Char :=
  name.flatMap (fun c => if c = '\'' then ['\'', '\''] else [c])

def quoteName (plain : Char → Bool) (name : List Char) : List Char :=
  if name.all plain then name else ['\''] ++ escapeName name ++ ['\'']

/-- `$name.$A$1` -/
def baseCellAddress (plain : Char → Bool) (name : List Char) (x y : Nat) : List Char :=
  ['$'] ++ quoteName plain name ++ ['.', '$'] ++ digitToAlphaStr x ++ ['$'] ++ natToStr (y + 1)

/-- `$name.$A$1:.$B$2`, or the base address when start = end -/
def cellRangeAddress (plain : Char → Bool) (name : List Char) (x y z t : Nat) : List Char :=
  if x = z ∧ y = t then baseCellAddress plain name x y
  else baseCellAddress plain name x y ++ [':', '.', '$'] ++ digitToAlphaStr z ++ ['$'] ++ natToStr (t + 1)

/-- the `while pos < len(address)` loop of `_split_cell_range_address` after the opening
    apostrophe; `acc` is the name so far, reversed -/
def scanQuoted : List Char → List Char → List Char × List Char
  | [], acc => (acc.reverse, [])
  | c :: rest, acc =>
    if c = '\'' then
      match rest with
      | '\'' :: rest' => scanQuoted rest' ('\'' :: acc)
      | _ => (acc.reverse, rest)
    else scanQuoted rest (c :: acc)

def clean (cs : List Char) : List Char := cs.filter (fun c => c != '$' && c != '.')

/-- `_split_cell_range_address` after `strip()` and `removeprefix("$")` -/
def splitBody (a : List Char) : List Char × List Char :=
  match a with
  | '\'' :: r =>
    -- crange = address[pos + 1:]  (everything after the closing apostrophe)
    ((scanQuoted r []).1, clean (scanQuoted r []).2)
  | _ =>
    let n := a.takeWhile (· != '.')
    (n, clean (a.drop (n.length + 1)))

def splitAddress (address : List Char) : List Char × List Char :=
  splitBody (match strip address with
    | '$' :: r => r
    | a => a)

/-- what `NamedRange.__init__` stores when reading: table name and the four numbers -/
def readRange (address : List Char) : List Char × Except CoordErr (List (Option Int)) :=
  ((splitAddress address).1,
    match convertCoordinates (splitAddress address).2 with
    | .ok [a, b] => .ok [a, b, a, b]
    | r => r)

end Odf.Addr
