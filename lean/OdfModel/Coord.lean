import OdfModel.Basic
/-
  Model of src/odfdo/utils/coordinates.py  (core Lean only, executable).

  Anchors (function by function):
    alpha_to_digit      coordinates.py:44-54   alphaVal / alphaToDigit
    digit_to_alpha      coordinates.py:57-67   toAlphaAux / digitToAlpha
    increment           coordinates.py:94-99   increment
    convert_coordinates coordinates.py:102-140 convertOne / convertCoordinates
    translate_from_any  coordinates.py:30-41   translateFromAny

  Letters are modelled as digits 0..25 (`Nat`) in the arithmetic core and as `Char`
  at the string boundary (`letterOf` / `letterVal`), exactly the two levels of the code
  (`ord(c) - ord("a") + 1`, `chr(65 + …)`).
  Python `int` is unbounded, so `Nat`/`Int` are the right carriers.
-/
namespace Odf.Coord

/-! ### column letters ⇄ numbers -/

/-- `digit_to_alpha` loop: `digit += 1; while digit: column = chr(65 + (digit-1)%26) + column;
    digit = (digit-1)//26`.  `d` is the loop variable (already incremented). -/
def toAlphaAux : Nat → List Nat → List Nat
  | 0, acc => acc
  | d+1, acc => toAlphaAux (d / 26) ((d % 26) :: acc)
decreasing_by omega

def digitToAlpha (n : Nat) : List Nat := toAlphaAux (n + 1) []

/-- `alpha_to_digit` loop: `column = column*26 + v` with `v = ord(c)-ord('a')+1`. -/
def alphaVal (ls : List Nat) : Nat := ls.foldl (fun c l => c * 26 + (l + 1)) 0
def alphaToDigit (ls : List Nat) : Nat := alphaVal ls - 1

/-- chr(65 + k) -/
def letterOf (k : Nat) : Char := Char.ofNat (65 + k)

def isAsciiAlpha (c : Char) : Bool :=
  (65 ≤ c.toNat && c.toNat ≤ 90) || (97 ≤ c.toNat && c.toNat ≤ 122)

/-- digit (0..25) of an ASCII letter after `.lower()`:  `ord(c.lower()) - ord('a')` -/
def letterDigit (c : Char) : Nat :=
  if 65 ≤ c.toNat ∧ c.toNat ≤ 90 then c.toNat - 65 else c.toNat - 97

def digitToAlphaStr (n : Nat) : List Char := (digitToAlpha n).map letterOf
def alphaToDigitStr (cs : List Char) : Nat := alphaToDigit (cs.map letterDigit)

/-! ### decimal numbers (Python `str(int)` / `int(str)` on non-negative canonical forms) -/

def toDecAux : Nat → List Nat → List Nat
  | 0, acc => acc
  | d+1, acc => toDecAux ((d+1) / 10) (((d+1) % 10) :: acc)
decreasing_by omega

/-- digits of `str(n)` (most significant first); `0 ↦ [0]` -/
def toDec (n : Nat) : List Nat := if n = 0 then [0] else toDecAux n []

def decVal (ds : List Nat) : Nat := ds.foldl (fun c d => c * 10 + d) 0

def digitChar (d : Nat) : Char := Char.ofNat (48 + d)
def isDigit (c : Char) : Bool := 48 ≤ c.toNat && c.toNat ≤ 57
def charDigit (c : Char) : Nat := c.toNat - 48

def natToStr (n : Nat) : List Char := (toDec n).map digitChar

/-- `int(s)` for the strings the scanner hands over: optional sign, then ASCII digits only
    (Python also accepts surrounding blanks and `_`; `convert_coordinates` strips the blanks
    beforehand and the harness never sends `_`). `none` = `ValueError`. -/
def parseInt (cs : List Char) : Option Int :=
  match cs with
  | [] => none
  | '-' :: rest => if rest ≠ [] ∧ rest.all isDigit then some (-(decVal (rest.map charDigit) : Int)) else none
  | '+' :: rest => if rest ≠ [] ∧ rest.all isDigit then some (decVal (rest.map charDigit) : Int) else none
  | _ => if cs.all isDigit then some (decVal (cs.map charDigit) : Int) else none

/-- `str(z)` for a Python int of any size -/
def intToStr (z : Int) : List Char := if z < 0 then '-' :: natToStr z.natAbs else natToStr z.natAbs

def isBlank (c : Char) : Bool := c == ' ' || c == '\t' || c == '\n' || c == '\r'

def strip (cs : List Char) : List Char :=
  ((cs.dropWhile isBlank).reverse.dropWhile isBlank).reverse

/-! ### increment, convert_coordinates -/

/-- `increment(value, step)`: `while value < 0: if step == 0: return 0; value += step`
    transcribed as the loop itself (well-founded on `-value`). -/
def increment (value : Int) (step : Nat) : Int :=
  if value < 0 then
    if step = 0 then 0 else increment (value + step) step
  else value
termination_by (-value).toNat
decreasing_by omega

inductive CoordErr | value | type
deriving Repr, DecidableEq

/-- one half of `"A1:B3"` (already stripped): returns (column?, line?) or the `ValueError`
    raised by `if line and line <= 0`. -/
def convertOne (coord : List Char) : Except CoordErr (Option Nat × Option Int) :=
  let alpha := coord.takeWhile isAsciiAlpha
  let rest := coord.drop alpha.length
  -- alpha_to_digit: `if not alpha.isalpha(): raise ValueError` → column = None  (empty prefix)
  let column : Option Nat := if alpha = [] then none else some (alphaToDigitStr alpha)
  -- Python's `int()` ignores surrounding white space
  let line : Option Int := (parseInt (strip rest)).map (· - 1)
  match line with
  | some l => if l ≠ 0 ∧ l ≤ 0 then .error .value else .ok (column, line)
  | none => .ok (column, line)

/-- split on the first ':' -/
def splitColon (cs : List Char) : List Char × Option (List Char) :=
  let a := cs.takeWhile (· != ':')
  let r := cs.drop a.length
  match r with
  | [] => (a, none)
  | _ :: b => (a, some b)

/-- `convert_coordinates(str)`: list of 2 or 4 optional numbers -/
def convertCoordinates (s : List Char) : Except CoordErr (List (Option Int)) :=
  let (a, b) := splitColon s
  match convertOne (strip a) with
  | .error e => .error e
  | .ok (c1, l1) =>
    match b with
    | none => .ok [c1.map Int.ofNat, l1]
    | some b =>
      match convertOne (strip b) with
      | .error e => .error e
      | .ok (c2, l2) => .ok [c1.map Int.ofNat, l1, c2.map Int.ofNat, l2]

/-- `"A1"`-style rendering of a zero-based (x, y): `digit_to_alpha(x) + str(y + 1)` -/
def formatCell (x y : Nat) : List Char := digitToAlphaStr x ++ natToStr (y + 1)

def formatArea (x y z t : Nat) : List Char := formatCell x y ++ [':'] ++ formatCell z t

/-- `translate_from_any(x, length, idx)` on a string argument -/
def translateFromAnyStr (s : List Char) (length : Nat) (idx : Nat) : Except CoordErr Int :=
  match convertCoordinates s with
  | .error e => .error e
  | .ok l =>
    match l[idx]? with
    | some (some v) => .ok (if v < 0 then increment v length else v)
    | _ => .error .type

def translateFromAnyInt (v : Int) (length : Nat) : Int :=
  if v < 0 then increment v length else v

end Odf.Coord
