import OdfModel.Rle
import OdfModel.Coord
/-
  Model of the table editing API of src/odfdo/table.py and src/odfdo/row.py on top of the
  vault model (OdfModel/Rle.lean).

  A cell payload is a natural number (the harness interns (value, style) pairs; 0 is the
  empty unstyled cell).  A stored row is the run-length list of its cells; a row *object*
  (`Row` wrapper) is a vault over it whose map is computed when the object is created
  (`Row.__init__` → `_compute_row_cache`).  A table holds its column runs and its row runs,
  each with the position map kept in the `Table` object (`_cmap`, `_tmap`).

  NOT modelled here (decided by the correspondence of C02 only): the per-table / per-row
  `_indexes` caches of wrapper objects; a row reached through the table is modelled as a
  fresh wrapper.  Row / column styles and spans are not part of the payloads.
  Coordinates arrive as integers; negative ones are resolved with `Coord.increment`
  against the current width / height exactly where the code does it.
-/
namespace Odf.Table
open Odf.Rle Odf.Coord

abbrev RowD := Runs Nat            -- a stored row: its cells (payload, repeat)
abbrev RowObj := Vault Nat         -- a `Row` wrapper

structure Tbl where
  cols : Vault Nat                 -- column elements (payload = 0), `_cmap`
  rows : Vault RowD                -- row elements, `_tmap`

def emptyCell : Nat := 0

def height (t : Tbl) : Nat := size t.rows
def width (t : Tbl) : Nat := size t.cols

def rowObj (d : RowD) : RowObj := fresh d
def rowWidth (r : RowObj) : Nat := size r

/-- non-negative index from any integer (`translate_from_any` on an int) -/
def tr (v : Int) (len : Nat) : Nat := (translateFromAnyInt v len).toNat

/-! ### Row methods (x already translated) -/

/-- `Row.append_cell(cell, _repeated=r)` -/
def rowAppend (r : RowObj) (c rep : Nat) : RowObj := appendItem r c rep

/-- `Row.set_cell(x, cell)` with `cell.repeated or 1 = rep` -/
def rowSetCell (r : RowObj) (x c rep : Nat) : Option RowObj :=
  let w := rowWidth r
  if x = w then some (rowAppend r c rep)
  else if x > w then some (rowAppend (rowAppend r emptyCell (x - w)) c rep)
  else setItem r x c rep

/-- `Row.insert_cell(x, cell)` -/
def rowInsertCell (r : RowObj) (x c rep : Nat) : Option RowObj :=
  let w := rowWidth r
  if x < w then insertItem r x c rep
  else if x = w then some (rowAppend r c rep)
  else some (rowAppend (rowAppend r emptyCell (x - w)) c rep)

/-- `Row.delete_cell(x)` -/
def rowDeleteCell (r : RowObj) (x : Nat) : Option RowObj :=
  if x ≥ rowWidth r then some r else deleteItem r x

/-- `Row.set_values(values, start)`: every value is an unrepeated cell -/
def rowSetValues (r : RowObj) (vals : List Nat) (start : Nat) : Option RowObj :=
  if start = 0 ∧ vals.length ≥ rowWidth r then
    some (fresh (vals.map (fun v => (v, 1))))           -- clear() + extend_cells
  else
    (vals.foldl (fun (acc : Option (RowObj × Nat)) v =>
      acc.bind (fun (ro, x) => (rowSetCell ro x v 1).map (fun ro' => (ro', x + 1)))) (some (r, start))).map (·.1)

/-- `Row.set_cells(cells, start)` (clone=True): `x += cell.repeated or 1` -/
def rowSetCells (r : RowObj) (cells : List (Nat × Nat)) (start : Nat) : Option RowObj :=
  (cells.foldl (fun (acc : Option (RowObj × Nat)) (c : Nat × Nat) =>
    acc.bind (fun (ro, x) => (rowSetCell ro x c.1 c.2).map (fun ro' => (ro', x + c.2)))) (some (r, start))).map (·.1)

/-! ### Table: columns -/

/-- `Column(repeated=k)`: the attribute is written only for k > 1 -/
def colRep (k : Nat) : Nat := if k > 1 then k else 1

/-- `append_column(column, _repeated)`: `xmlRep` is what the element carries, `mapRep` the
    `_repeated` argument (or the element's own count) -/
def appendColumn (t : Tbl) (xmlRep mapRep : Nat) : Tbl :=
  { t with cols := { runs := t.cols.runs ++ [(0, xmlRep)],
                     map := (insertMapOnce t.cols.map t.cols.map.length mapRep).getD t.cols.map } }

/-- `_update_width(row)` -/
def updateWidth (t : Tbl) (rw : Nat) : Tbl :=
  if rw > width t then appendColumn t (colRep (rw - width t)) (colRep (rw - width t)) else t

/-! ### Table: rows -/

/-- `append_row(row, _repeated=mapRep)`; `xmlRep` = the row element's own repeat -/
def appendRow (t : Tbl) (d : RowD) (xmlRep mapRep : Nat) : Tbl :=
  let t1 := { t with rows := { runs := t.rows.runs ++ [(d, xmlRep)],
                               map := (insertMapOnce t.rows.map t.rows.map.length mapRep).getD t.rows.map } }
  let rw := rowWidth (rowObj d)
  -- `if not self._get_columns()`: insert Column(repeated=row.width), recompute both maps
  let t2 := if t1.cols.runs = [] then
      { cols := fresh [(0, colRep rw)], rows := fresh t1.rows.runs } else t1
  updateWidth t2 rw

/-- `set_row(y, row)` with `row.repeated or 1 = rep` (y already translated) -/
def setRow (t : Tbl) (y : Nat) (d : RowD) (rep : Nat) : Option Tbl :=
  let h := height t
  let rw := rowWidth (rowObj d)
  if y = h then some (updateWidth (appendRow t d rep rep) rw)
  else if y > h then
    let t1 := appendRow t [] (colRep (y - h)) (y - h)     -- Row(repeated=diff), _repeated=diff
    some (updateWidth (appendRow t1 d rep rep) rw)
  else
    (setItem t.rows y d rep).map (fun rows' => updateWidth { t with rows := rows' } rw)

/-- `insert_row(y, row)` -/
def insertRow (t : Tbl) (y : Nat) (d : RowD) (rep : Nat) : Option Tbl :=
  let h := height t
  let rw := rowWidth (rowObj d)
  if y < h then (insertItem t.rows y d rep).map (fun rows' => updateWidth { t with rows := rows' } rw)
  else if y = h then some (updateWidth (appendRow t d rep rep) rw)
  else
    let t1 := appendRow t [] (colRep (y - h)) (y - h)
    some (updateWidth (appendRow t1 d rep rep) rw)

/-- `delete_row(y)` -/
def deleteRow (t : Tbl) (y : Nat) : Option Tbl :=
  if y ≥ height t then some t else (deleteItem t.rows y).map (fun rows' => { t with rows := rows' })

/-- the stored row covering position y and its repeat count, through the map -/
def rowAt (t : Tbl) (y : Nat) : Option (Nat × RowD × Nat) :=
  match findOdfIdx t.rows.map y with
  | none => none
  | some idx => (t.rows.runs[idx]?).map (fun p => (idx, p.1, p.2))

/-- `_get_row2(y, clone=True, create=True)` followed by `row.repeated = None` -/
def getRowCopy (t : Tbl) (y : Nat) : Option RowD :=
  if y ≥ height t then some [] else (rowAt t y).map (·.2.1)

/-- a row method applied to the row at y "as `Table.set_cell` does": on an un-repeated
    copy put back with `set_row` when the stored row is repeated, in place otherwise -/
def editRow (t : Tbl) (y : Nat) (f : RowObj → Option RowObj) : Option Tbl :=
  match rowAt t y with
  | none => none
  | some (idx, d, rep) =>
    match f (rowObj d) with
    | none => none
    | some ro =>
      if rep > 1 then setRow t y ro.runs 1
      else
        -- in place: the row element is edited, the table map is untouched
        some (updateWidth { t with rows := { t.rows with runs := t.rows.runs.set idx (ro.runs, rep) } } (rowWidth ro))

/-- `set_cell((x, y), cell)` -/
def setCell (t : Tbl) (x y : Int) (c rep : Nat) : Option Tbl :=
  let xn := tr x (width t)
  let yn := tr y (height t)
  if yn ≥ height t then
    (rowSetCell (rowObj []) xn c rep).bind (fun ro => setRow t yn ro.runs 1)
  else editRow t yn (fun ro => rowSetCell ro xn c rep)

/-- `delete_cell((x, y))` (repaired: un-repeats a copy like `set_cell`); the in-place branch
    does not call `_update_width` -/
def deleteCell (t : Tbl) (x y : Int) : Option Tbl :=
  let xn := tr x (width t)
  let yn := tr y (height t)
  if yn ≥ height t then some t
  else
    match rowAt t yn with
    | none => none
    | some (idx, d, rep) =>
      match rowDeleteCell (rowObj d) xn with
      | none => none
      | some ro =>
        if rep > 1 then setRow t yn ro.runs 1
        else some { t with rows := { t.rows with runs := t.rows.runs.set idx (ro.runs, rep) } }

/-- `insert_cell((x, y), cell)` -/
def insertCell (t : Tbl) (x y : Int) (c rep : Nat) : Option Tbl :=
  let xn := tr x (width t)
  let yn := tr y (height t)
  (getRowCopy t yn).bind (fun d =>
    (rowInsertCell (rowObj d) xn c rep).bind (fun ro =>
      (setRow t yn ro.runs 1).map (fun t' => updateWidth t' (rowWidth ro))))

/-- `append_cell(y, cell)` (repaired: `row.repeated = None`) -/
def appendCell (t : Tbl) (y : Int) (c rep : Nat) : Option Tbl :=
  let yn := tr y (height t)
  (getRowCopy t yn).bind (fun d =>
    let ro := rowAppend (rowObj d) c rep
    (setRow t yn ro.runs 1).map (fun t' => updateWidth t' (rowWidth ro)))

/-! ### Table: column operations touching the rows -/

def mapRowsM (runs : Runs RowD) (f : RowObj → Option RowObj) : Option (Runs RowD) :=
  runs.mapM (fun (p : RowD × Nat) => (f (rowObj p.1)).map (fun ro => (ro.runs, p.2)))

/-- `insert_column(x, column)` with `column.repeated or 1 = rep` -/
def insertColumn (t : Tbl) (x : Int) (rep : Nat) : Option Tbl :=
  let xn := tr x (width t)
  let w := width t
  let t1 : Option Tbl :=
    if xn < w then (insertItem t.cols xn 0 rep).map (fun cols' => { t with cols := cols' })
    else if xn = w then some (appendColumn t rep rep)
    else some (appendColumn (appendColumn t (colRep (xn - w)) (xn - w)) rep rep)
  t1.bind (fun t1 =>
    (mapRowsM t1.rows.runs (fun ro => if rowWidth ro > xn then rowInsertCell ro xn emptyCell rep else some ro)).map
      (fun runs' => { t1 with rows := { t1.rows with runs := runs' } }))

/-- `append_column(column)` -/
def appendColumnOp (t : Tbl) (rep : Nat) : Tbl := appendColumn t rep rep

/-- `delete_column(x)` (repaired: every row that has a cell at x loses it) -/
def deleteColumn (t : Tbl) (x : Int) : Option Tbl :=
  let xn := tr x (width t)
  if xn ≥ width t then some t
  else
    (deleteItem t.cols xn).bind (fun cols' =>
      (mapRowsM t.rows.runs (fun ro => if rowWidth ro > xn then rowDeleteCell ro xn else some ro)).map
        (fun runs' => { cols := cols', rows := { t.rows with runs := runs' } }))

/-! ### bulk setters -/

/-- one line of `set_values` / `set_cells`: copy of row y, un-repeated, edited, `set_row` -/
def setLine (t : Tbl) (y : Nat) (f : RowObj → Option RowObj) : Option Tbl :=
  (getRowCopy t y).bind (fun d =>
    (f (rowObj d)).bind (fun ro =>
      (setRow t y ro.runs 1).map (fun t' => updateWidth t' (rowWidth ro))))

/-- `set_values(matrix, (x, y))`; empty lines are skipped but still advance y -/
def setValues (t : Tbl) (x y : Int) (m : List (List Nat)) : Option Tbl :=
  let xn := tr x (width t)
  let yn := tr y (height t)
  (m.foldl (fun (acc : Option (Tbl × Nat)) line =>
    acc.bind (fun (t, yy) =>
      if line = [] then some (t, yy + 1)
      else (setLine t yy (fun ro => rowSetValues ro line xn)).map (fun t' => (t', yy + 1))))
    (some (t, yn))).map (·.1)

/-- `set_cells(matrix, (x, y))` -/
def setCells (t : Tbl) (x y : Int) (m : List (List (Nat × Nat))) : Option Tbl :=
  let xn := tr x (width t)
  let yn := tr y (height t)
  (m.foldl (fun (acc : Option (Tbl × Nat)) line =>
    acc.bind (fun (t, yy) =>
      if line = [] then some (t, yy + 1)
      else (setLine t yy (fun ro => rowSetCells ro line xn)).map (fun t' => (t', yy + 1))))
    (some (t, yn))).map (·.1)

/-- `set_row_values(y, values)`: a new row made of unrepeated cells -/
def setRowValues (t : Tbl) (y : Int) (vals : List Nat) : Option Tbl :=
  setRow t (tr y (height t)) (vals.map (fun v => (v, 1))) 1

/-- `set_row_cells(y, cells)`: a new row holding the cells with their repeats -/
def setRowCells (t : Tbl) (y : Int) (cells : List (Nat × Nat)) : Option Tbl :=
  setRow t (tr y (height t)) cells 1

/-- expansion of the stored rows (what `traverse` yields) -/
def expandedRows (t : Tbl) : List RowD := expand t.rows.runs

/-- `set_column_cells(x, cells)`: `none` also for the length mismatch (ValueError) -/
def setColumnValues (t : Tbl) (x : Int) (cells : List Nat) : Option Tbl :=
  if cells.length ≠ height t then none
  else
    let xn := tr x (width t)
    ((expandedRows t).zip cells).foldl (fun (acc : Option (Tbl × Nat)) (p : RowD × Nat) =>
      acc.bind (fun (t', y) =>
        (rowSetCell (rowObj p.1) xn p.2 1).bind (fun ro => (setRow t' y ro.runs 1).map (fun t'' => (t'', y + 1)))))
      (some (t, 0)) |>.map (·.1)

/-! ### reads -/

/-- `get_values()`: every row expanded and completed with empty cells to the table width -/
def getValues (t : Tbl) : List (List Nat) :=
  (expandedRows t).map (fun d => let cells := expand d
    cells ++ List.replicate (width t - cells.length) emptyCell)

def sizeOf (t : Tbl) : Nat × Nat := (width t, height t)

/-- `get_value((x, y))` through both maps; outside → empty -/
def getValue (t : Tbl) (x y : Int) : Nat :=
  let xn := tr x (width t)
  let yn := tr y (height t)
  if yn ≥ height t then emptyCell
  else match rowAt t yn with
    | none => emptyCell
    | some (_, d, _) =>
      let ro := rowObj d
      match findOdfIdx ro.map xn with
      | none => emptyCell
      | some i => (ro.runs[i]?).map (·.1) |>.getD emptyCell

/-- a table parsed from XML -/
def parse (cols : Runs Nat) (rows : Runs RowD) : Tbl := { cols := fresh cols, rows := fresh rows }

end Odf.Table
