import OdfModel.Para.Ws
import OdfModel.Gen.TextContent
/-
  Model of `pretty_indent` (src/odfdo/container.py:191-245) and of what an ODF consumer reads in
  the paragraphs and headings of a tree.

  An XML tree is a first-child / next-sibling forest (a plain inductive type: no nested lists):
    node tag lab text kids tail rest
  `tag` is the qualified name ("text:p"), `lab` identifies the attributes (for `text:s` it is the
  count `text:c`), `text` / `tail` are the character data ([] = None), `kids` the children,
  `rest` the following siblings.  `TEXT_CONTENT` is regenerated from the source on every run.
  `office:binary-data` (base64 re-wrapped by textwrap) is outside the model.  Core Lean only.
-/
namespace Odf.Pretty

inductive Forest where
  | nil
  | node (tag : String) (lab : Nat) (text : List Char) (kids : Forest) (tail : List Char) (rest : Forest)
deriving Repr

def Forest.isNil : Forest → Bool
  | .nil => true
  | _ => false

def textual (tag : String) : Bool := Odf.Gen.textContent.contains tag
def isPH (tag : String) : Bool := tag == "text:p" || tag == "text:h"

/-- `"\n" + n * TAB` -/
def indent (n : Nat) : List Char := '\n' :: List.replicate (Odf.Gen.tabWidth * n) ' '

/-- `pretty_indent` applied to the children at depth `level` of an element at depth `parentLevel`;
    `tp` = the parent is textual, `pph` = the parent is a text:p or text:h -/
def prettyF (level parentLevel : Nat) (tp pph : Bool) : Forest → Forest
  | .nil => .nil
  | .node tag lab text kids tail rest =>
    let ending := if rest.isNil then parentLevel else level
    let follow := level + 1
    if textual tag then
      .node tag lab text (prettyF follow level true (isPH tag) kids) (if tp then tail else indent ending)
        (prettyF level parentLevel tp pph rest)
    else if !tp then
      .node tag lab (if kids.isNil then text else indent follow) (prettyF follow level false (isPH tag) kids)
        (indent ending) (prettyF level parentLevel tp pph rest)
    else
      .node tag lab (if kids.isNil then text else text ++ indent follow) (prettyF follow level false (isPH tag) kids)
        (if tail = [] ∧ rest.isNil ∧ pph then indent ending else tail) (prettyF level parentLevel tp pph rest)

/-- `pretty_indent(root)` -/
def prettyRoot (f : Forest) : Forest := prettyF 0 0 false false f

/-! ### what a consumer reads -/

/-- the content of a textual element as the item list of `Para/Ws.lean`: white-space elements
    give their characters, textual children are transparent, any other child is an opaque
    object (a note, a frame, a mark) -/
def flat : Forest → List Ws.Item
  | .nil => []
  | .node tag lab text kids tail rest =>
    (if tag = "text:s" then [Ws.Item.s lab]
     else if tag = "text:tab" then [Ws.Item.tab]
     else if tag = "text:line-break" then [Ws.Item.lb]
     else if textual tag then Ws.Item.str text :: flat kids
     else [Ws.Item.el 0 []]) ++ Ws.Item.str tail :: flat rest

/-- the ODF §6.1.2 reading of every paragraph and heading of the tree, in document order -/
def readAll : Forest → List (List Char)
  | .nil => []
  | .node tag _ text kids _ rest =>
    (if isPH tag then [Ws.collapse (Ws.Item.str text :: flat kids)] else []) ++ (readAll kids ++ readAll rest)

/-- valid nesting: no paragraph or heading directly inside textual content (`tp` = the parent is
    textual); paragraphs inside notes, frames, annotations are fine -/
def WF (tp : Bool) : Forest → Prop
  | .nil => True
  | .node tag _ _ kids _ rest => (tp = true → isPH tag = false) ∧ WF (textual tag) kids ∧ WF tp rest

def wfB (tp : Bool) : Forest → Bool
  | .nil => true
  | .node tag _ _ kids _ rest => (!tp || !isPH tag) && wfB (textual tag) kids && wfB tp rest

/-- the tree with all character data erased: names, attributes, structure -/
def erase : Forest → Forest
  | .nil => .nil
  | .node tag lab _ kids _ rest => .node tag lab [] (erase kids) [] (erase rest)

end Odf.Pretty
