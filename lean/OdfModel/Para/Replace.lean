import OdfModel.Para.Markup
/-
  Model of Element.replace / text_at of src/odfdo/element.py over the token stream of
  `Para/Markup.lean`.  `re` is a parameter: per text node the spans `finditer` yields.
    replace(pattern)              countMatches     (Σ len(findall(node)))
    replace(pattern, new)         replaceAll       (per node `subn`, text or tail rewritten in place)
    text_at(start, end)           textAt
  The replacement is a literal string (`replaceAll`) or a template of `re.sub` made of literal pieces and references to the
  whole match (`\g<0>`): `replaceAllT`; references to inner groups are outside the model.  Core Lean only.
-/
namespace Odf.Replace
open Odf.Markup

/-- `pattern.subn(new, node)`: the text between the matches is kept, each match becomes `new` -/
def subNode (cs new : List Char) : Nat → List (Nat × Nat) → List Char
  | pos, [] => cs.drop pos
  | pos, (a, b) :: more => (cs.take a).drop pos ++ new ++ subNode cs new b more

def countMatches (spans : List (List (Nat × Nat))) : Nat := (spans.map List.length).sum

def replaceAll (new : List Char) : Toks → List (List (Nat × Nat)) → Toks
  | [], _ => []
  | .txt h s cs :: rest, sp :: sps => .txt h s (subNode cs new 0 sp) :: replaceAll new rest sps
  | .txt h s cs :: rest, [] => .txt h s cs :: replaceAll new rest []
  | t :: rest, sps => t :: replaceAll new rest sps

/-- a replacement template after CPython's `re` has parsed it: literal pieces (escapes already resolved) and references to the
    whole match (`none`) -/
abbrev Template := List (Option (List Char))

/-- what the template stands for at one match -/
def expandT (tpl : Template) (m : List Char) : List Char :=
  tpl.flatMap (fun piece => match piece with | none => m | some l => l)

/-- `pattern.subn(template, node)`: each match becomes the expansion of the template AT THAT MATCH -/
def subNodeT (cs : List Char) (tpl : Template) : Nat → List (Nat × Nat) → List Char
  | pos, [] => cs.drop pos
  | pos, (a, b) :: more => (cs.take a).drop pos ++ expandT tpl ((cs.take b).drop a) ++ subNodeT cs tpl b more

def replaceAllT (tpl : Template) : Toks → List (List (Nat × Nat)) → Toks
  | [], _ => []
  | .txt h s cs :: rest, sp :: sps => .txt h s (subNodeT cs tpl 0 sp) :: replaceAllT tpl rest sps
  | .txt h s cs :: rest, [] => .txt h s cs :: replaceAllT tpl rest []
  | t :: rest, sps => t :: replaceAllT tpl rest sps

/-- `text_at(start, end)`: negative start clamps to 0, an end before the start clamps to it -/
def textAt (own : List Char) (start : Int) (stop : Option Int) : List Char :=
  let s := start.toNat
  match stop with
  | none => own.drop s
  | some e => (own.take (max e.toNat s)).drop s

end Odf.Replace
