import OdfModel.Para.Markup
/-
  Model of Element.replace / text_at of src/odfdo/element.py over the token stream of
  `Para/Markup.lean`.  `re` is a parameter: per text node the spans `finditer` yields.
    replace(pattern)              countMatches     (Σ len(findall(node)))
    replace(pattern, new)         replaceAll       (per node `subn`, text or tail rewritten in place)
    text_at(start, end)           textAt
  The replacement string is taken literally (no group references).  Core Lean only.
-/
namespace Odf.Replace
open Odf.Markup

/-- `pattern.subn(new, node)`: the text between the matches is kept, each match becomes `new` -/
def subNode (cs new : List Char) : Nat → List (Nat × Nat) → List Char
  | pos, [] => cs.drop pos
  | pos, (a, b) :: more => (cs.take a).drop pos ++ new ++ subNode cs new b more

def countMatches (spans : List (List (Nat × Nat))) : Nat := (spans.map List.length).sum

def replaceAll (new : List Char) : Toks → List (List (Nat × Nat)) → Toks
  | [], _ => []
  | .txt h s cs :: rest, sp :: sps => .txt h s (subNode cs new 0 sp) :: replaceAll new rest sps
  | .txt h s cs :: rest, [] => .txt h s cs :: replaceAll new rest []
  | t :: rest, sps => t :: replaceAll new rest sps

/-- `text_at(start, end)`: negative start clamps to 0, an end before the start clamps to it -/
def textAt (own : List Char) (start : Int) (stop : Option Int) : List Char :=
  let s := start.toNat
  match stop with
  | none => own.drop s
  | some e => (own.take (max e.toNat s)).drop s

end Odf.Replace
