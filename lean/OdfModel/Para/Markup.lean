import OdfModel.Para.Ws
/-
  Model of the markup insertion / removal code of src/odfdo/paragraph.py and element.py
    _by_regex_offset (paragraph.py:63-157)      byOffset / byRegex      (set_span, set_link)
    Element._insert_find_text                    findText
    Element._search_positive_position            searchPositive
    Element._search_negative_position            searchNegative
    Element._insert / _insert_at                 insertPos / insertRe
    Element._insert_around                       insertAround            (content=regex)
    Paragraph._insert_start_end                  insertRange             (position=(i, j))
    Element.delete(keep_tail=True)               deleteAt
    Element.strip_tags / strip_elements          stripKind / stripAt     (modulo `_add_text`)

  A paragraph is the token stream of its content in document order (the start and end tag of
  the paragraph itself are left out):
    txt hid skip cs   a text node (the `text` of an element or the `tail` of one); lxml keeps a text
                      node for `""` (it shows in XPath results, not in the serialisation), so the
                      stream carries empty ones exactly where the code assigns a possibly empty `str`
    op kind lab hid   a start tag            cl   an end tag
  `hid`  = the node is inside a note or an annotation (not paragraph text);
  `skip` = the node is inside an annotation (`main_text=True` filters it out).
  kinds 1, 2, 3 are text:s (label = count), text:tab, text:line-break; every other kind is opaque.
  The regular expression engine is a parameter: the matcher hands over, per text node, the
  list of `(start, end)` spans of `finditer`.  Core Lean only, executable.
-/
namespace Odf.Markup

inductive Tok where
  | txt (hid skip : Bool) (cs : List Char)
  | op (kind lab : Nat) (hid : Bool)
  | cl
deriving DecidableEq, Repr

abbrev Toks := List Tok

/-- a text slot: nothing when the string is empty (lxml: `None` / `""`) -/
def txtOpt (h s : Bool) (cs : List Char) : Toks := if cs = [] then [] else [.txt h s cs]

/-- characters of a token that belong to the paragraph text (`hidden = false`) or to the notes /
    annotations inside it (`hidden = true`) -/
def Tok.chars (hidden : Bool) : Tok → List Char
  | .txt h _ cs => if h = hidden then cs else []
  | .op 1 n h => if h = hidden then List.replicate n ' ' else []
  | .op 2 _ h => if h = hidden then ['\t'] else []
  | .op 3 _ h => if h = hidden then ['\n'] else []
  | _ => []

/-- the readable text of the paragraph (raw: no white-space collapsing) -/
def plainMain (ts : Toks) : List Char := ts.flatMap (Tok.chars false)
/-- the text inside its notes and annotations -/
def plainHidden (ts : Toks) : List Char := ts.flatMap (Tok.chars true)

/-- OR the flags of the host text node into an inserted element -/
def Tok.host (h s : Bool) : Tok → Tok
  | .txt h' s' cs => .txt (h || h') (s || s') cs
  | .op k l h' => .op k l (h || h')
  | .cl => .cl

/-! ### the elements `set_span` / `set_link` build -/

/-- tokens of one child `append_plain_text` gives a fresh span -/
def wsTok (h s : Bool) (labTab labLb : Nat) : Ws.Item → Toks
  | .str cs => [.txt h s cs]
  | .s n => [.op 1 n h, .cl]
  | .tab => [.op 2 labTab h, .cl]
  | .lb => [.op 3 labLb h, .cl]
  | .el _ t => [.txt h s t]

/-- the content of `Span(match)`: `append_plain_text` resets the text of the span through the
    odfdo setter (`None` becomes `""`), so the text slot always exists -/
def spanBody (h s : Bool) (labTab labLb : Nat) (items : Ws.Para) : Toks :=
  match items with
  | .str cs :: rest => .txt h s cs :: rest.flatMap (wsTok h s labTab labLb)
  | items => .txt h s [] :: items.flatMap (wsTok h s labTab labLb)

inductive Wrap where
  | span (lab labTab labLb : Nat)   -- `Span(match, style=…)` : the match goes through `append_plain_text`
  | link (lab : Nat)                -- `Link(url, text=match)` : the match is the text of the link
deriving Repr

def Wrap.build (w : Wrap) (h s : Bool) (m : List Char) : Toks :=
  match w with
  | .span lab lt ll => .op 4 lab h :: ((if m = [] then [] else spanBody h s lt ll (Ws.fromText m)) ++ [.cl])
  | .link lab => [.op 5 lab h, .txt h s m, .cl]

/-- before / wrapped match / tail of one text node (`container.text = before`, `result.tail = tail`:
    both are assigned as `str`, empty or not) -/
def wrapSlice (w : Wrap) (h s : Bool) (cs : List Char) (start stop : Nat) : Toks :=
  .txt h s (cs.take start) :: (w.build h s ((cs.take stop).drop start) ++ [.txt h s (cs.drop stop)])

/-! ### `_by_regex_offset`, offset form -/

def byOffset (w : Wrap) (offset length : Nat) : Toks → Nat → Toks
  | [], _ => []
  | .txt h s cs :: rest, counted =>
    if cs.length + counted ≤ offset then .txt h s cs :: byOffset w offset length rest (counted + cs.length)
    else
      let len := if length > 0 then min length cs.length else cs.length
      wrapSlice w h s cs (offset - counted) (offset - counted + len) ++ rest
  | t :: rest, counted => t :: byOffset w offset length rest counted

/-! ### `_by_regex_offset`, regex form -/

/-- the matches of one node, applied from the last to the first on what is left of the node:
    `cur` is `container.text` (or tail) as the loop rewrites it, `acc` what was put after it -/
def wrapRev (w : Wrap) (h s : Bool) : List (Nat × Nat) → List Char → Toks → Toks
  | [], cur, acc => .txt h s cur :: acc
  | (a, b) :: more, cur, acc =>
    wrapRev w h s more (cur.take a) (w.build h s ((cur.take b).drop a) ++ .txt h s (cur.drop b) :: acc)

def wrapNode (w : Wrap) (h s : Bool) (cs : List Char) (spans : List (Nat × Nat)) : Toks :=
  wrapRev w h s spans.reverse cs []

/-- every text node, with the spans the matcher found in it (`spans` lists them node by node) -/
def byRegex (w : Wrap) : Toks → List (List (Nat × Nat)) → Toks
  | [], _ => []
  | .txt h s cs :: rest, sp :: sps => wrapNode w h s cs sp ++ byRegex w rest sps
  | .txt h s cs :: rest, [] => .txt h s cs :: byRegex w rest []
  | t :: rest, sps => t :: byRegex w rest sps

/-! ### `Element._insert` -/

/-- `_insert_at`: put `elem` at offset `pos` of the text node `cs`; the text before is `None` when
    empty (assigned to lxml directly), the tail of the element goes through the odfdo setter and
    is always a `str` -/
def splitInsert (h s : Bool) (cs : List Char) (pos : Nat) (elem : Toks) : Toks :=
  txtOpt h s (cs.take pos) ++ elem.map (Tok.host h s) ++ [.txt h s (cs.drop pos)]

/-- `_insert_find_text` + insertion: the first main text node where the running count reaches
    `position`; `none` = `ValueError("Text not found")` -/
def insertPos (elem : Toks) (position : Nat) : Toks → Nat → Option Toks
  | [], _ => none
  | .txt h s cs :: rest, count =>
    if s then (insertPos elem position rest count).map (.txt h s cs :: ·)
    else if cs.length + count ≥ position then some (splitInsert h s cs (position - count) elem ++ rest)
    else (insertPos elem position rest (count + cs.length)).map (.txt h s cs :: ·)
  | t :: rest, count => (insertPos elem position rest count).map (t :: ·)

/-- where a regex-addressed insertion goes: index of the main text node and the span chosen -/
def searchPositive (position : Nat) : List (List (Nat × Nat)) → Nat → Nat → Option (Nat × (Nat × Nat))
  | [], _, _ => none
  | sp :: sps, idx, count =>
    if sp.length + count ≥ position + 1 then (sp[position - count]?).map (fun m => (idx, m))
    else searchPositive position sps (idx + 1) (count + sp.length)

def searchNegative : List (List (Nat × Nat)) → Nat → Option (Nat × (Nat × Nat)) → Option (Nat × (Nat × Nat))
  | [], _, best => best
  | sp :: sps, idx, best =>
    searchNegative sps (idx + 1) (match sp.getLast? with | some m => some (idx, m) | none => best)

def search (position : Int) (spans : List (List (Nat × Nat))) : Option (Nat × (Nat × Nat)) :=
  if position < 0 then searchNegative spans 0 none else searchPositive position.toNat spans 0 0

/-- rewrite the `idx`-th main text node with `f` -/
def onMainNode (f : Bool → Bool → List Char → Toks) : Toks → Nat → Option Toks
  | [], _ => none
  | .txt h s cs :: rest, idx =>
    if s then (onMainNode f rest idx).map (.txt h s cs :: ·)
    else match idx with
      | 0 => some (f h s cs ++ rest)
      | i + 1 => (onMainNode f rest i).map (.txt h s cs :: ·)
  | t :: rest, idx => (onMainNode f rest idx).map (t :: ·)

/-- `_insert(element, before=regex | after=regex, position=k, main_text=True)` -/
def insertRe (elem : Toks) (before : Bool) (position : Int) (spans : List (List (Nat × Nat))) (ts : Toks) : Option Toks :=
  match search position spans with
  | none => none
  | some (idx, (a, b)) => onMainNode (fun h s cs => splitInsert h s cs (if before then a else b) elem) ts idx

/-- `_insert_around(start, end, content=regex, position=k)` : the end tag at the end of the match,
    then the start tag at its start, in the same text slot -/
def insertAround (st en : Toks) (position : Int) (spans : List (List (Nat × Nat))) (ts : Toks) : Option Toks :=
  match search position spans with
  | none => none
  | some (idx, (a, b)) =>
    onMainNode (fun h s cs =>
      txtOpt h s ((cs.take b).take a) ++ st.map (Tok.host h s) ++ [.txt h s ((cs.take b).drop a)] ++
        en.map (Tok.host h s) ++ [.txt h s (cs.drop b)]) ts idx

/-- `_insert_start_end(start, end, {position: i}, {position: j})`: both or none -/
def insertRange (st en : Toks) (i j : Nat) (ts : Toks) : Option Toks :=
  match insertPos st i ts 0 with
  | none => none
  | some ts1 => insertPos en j ts1 0

/-- `current.append(element)` (`_insert` with a negative position and no regex) -/
def appendElem (elem : Toks) (ts : Toks) : Toks := ts ++ elem

/-! ### removals -/

/-- the tokens of the element that starts at the head of the list (depth counter), and what follows -/
def takeElem : Toks → Nat → Toks × Toks
  | [], _ => ([], [])
  | .op k l h :: rest, d => let (a, b) := takeElem rest (d + 1); (.op k l h :: a, b)
  | .cl :: rest, d =>
    match d with
    | 0 => ([.cl], rest)     -- unbalanced input: stop
    | 1 => ([.cl], rest)
    | d + 2 => let (a, b) := takeElem rest (d + 1); (.cl :: a, b)
  | t :: rest, d => let (a, b) := takeElem rest d; (t :: a, b)

/-- join two token lists, merging the text slots that become adjacent (`prev.tail += tail`) -/
def joinToks : Toks → Toks → Toks
  | [], b => b
  | [.txt h s cs], .txt _ _ ds :: b => .txt h s (cs ++ ds) :: b
  | t :: a, b => t :: joinToks a b

/-- `element.delete()` with `keep_tail=True`, the element starting at token index `i` -/
def deleteAt (ts : Toks) (i : Nat) : Toks :=
  joinToks (ts.take i) (takeElem (ts.drop i) 0).2

/-- merge adjacent text slots -/
def mergeTxt : Toks → Toks
  | .txt h s cs :: rest =>
    match mergeTxt rest with
    | .txt _ _ ds :: r => .txt h s (cs ++ ds) :: r
    | r => .txt h s cs :: r
  | t :: rest => t :: mergeTxt rest
  | [] => []

/-- drop the start and end tags of the elements of kind `k` (stack of "is this one dropped") -/
def dropTags (k : Nat) : Toks → List Bool → Toks
  | [], _ => []
  | .op k' l h :: rest, st => if k' = k then dropTags k rest (true :: st) else .op k' l h :: dropTags k rest (false :: st)
  | .cl :: rest, st =>
    match st with
    | true :: st' => dropTags k rest st'
    | _ :: st' => .cl :: dropTags k rest st'
    | [] => .cl :: dropTags k rest []
  | t :: rest, st => t :: dropTags k rest st

/-- `strip_tags(strip=(tag,))` on a paragraph: the tags go, their content stays (texts that
    become adjacent are joined; odfdo also collapses runs of blanks there, see DESIGN.md) -/
def stripKind (k : Nat) (ts : Toks) : Toks := mergeTxt (dropTags k ts [])

/-- the content of the element whose start tag was just read (depth `d` ≥ 1 open tags), without its
    end tag, and what follows the end tag -/
def takeInner : Toks → Nat → Toks × Toks
  | [], _ => ([], [])
  | .op k l h :: rest, d => let (a, b) := takeInner rest (d + 1); (.op k l h :: a, b)
  | .cl :: rest, d =>
    match d with
    | 0 => ([], rest)
    | 1 => ([], rest)
    | d + 2 => let (a, b) := takeInner rest (d + 1); (.cl :: a, b)
  | t :: rest, d => let (a, b) := takeInner rest d; (t :: a, b)

/-- `strip_elements(e)` : the one element whose start tag is at index `i` -/
def stripAt (ts : Toks) (i : Nat) : Toks :=
  match ts.drop i with
  | .op _ _ _ :: rest => mergeTxt (ts.take i ++ ((takeInner rest 1).1 ++ (takeInner rest 1).2))
  | _ => ts

/-- `strip_tags(strip=(tag₁, tag₂, …))`: `remove_all_reference_marks` strips the point mark, the start and the end tags at once -/
def stripKinds (ks : List Nat) (ts : Toks) : Toks := ks.foldl (fun t k => stripKind k t) ts

/-- `strip_elements([e₁, e₂, …])` (`remove_reference_mark`: the start and the end tag of one range), the elements given by the
    indices of their start tags in DESCENDING order: taking the last one first leaves the earlier indices in place -/
def stripAts (is : List Nat) (ts : Toks) : Toks := is.foldl stripAt ts

/-! ### moving the end tag of a range: `set_reference_mark_end`, `insert_annotation_end` (after fix C09-F6)

The new end tag is inserted first — if the place is not found the call raises and nothing has changed —, only then is the
former end tag of the range deleted (its tail kept).  In the token stream the two tags would be indistinguishable: the new one
carries a provisional label `tmp` until the former one (kind `k`, label `lab`) is gone. -/

/-- index of the first start tag of kind `k` and label `l` -/
def findOp (k l : Nat) : Toks → Nat → Option Nat
  | [], _ => none
  | .op k' l' _ :: rest, i => if k' = k ∧ l' = l then some i else findOp k l rest (i + 1)
  | _ :: rest, i => findOp k l rest (i + 1)

def relabelOp (k l' l : Nat) (ts : Toks) : Toks :=
  ts.map (fun t => match t with
    | .op k2 l2 h => if k2 = k ∧ l2 = l' then .op k l h else t
    | t => t)

/-- `ins` = the insertion of the new end tag `[.op k tmp _, .cl]` (by position, or before / after a regex match) -/
def moveEnd (k lab tmp : Nat) (ins : Toks → Option Toks) (ts : Toks) : Option Toks :=
  (ins ts).map (fun ts' =>
    relabelOp k tmp lab (match findOp k lab ts' 0 with
      | none => ts'
      | some i => deleteAt ts' i))

end Odf.Markup

