import OdfModel.Basic
/-
  Model of the plain-text → ODF white-space encoding of src/odfdo/paragraph.py
    Paragraph._expand_spaces       (paragraph.py:207-226)   expandSpaces
    Paragraph._sub_merge_spaces    (paragraph.py:237-277)   subMergeSpaces  (over `groups`)
    Paragraph._merge_spaces        (paragraph.py:228-235)   mergeSpaces
    Paragraph._sub_replace_tabs_lb (paragraph.py:288-304)   subReplaceTabsLb
    Paragraph.append_plain_text    (paragraph.py:306-322)   appendPlainText
    Element.__append / _add_text   (element.py:1437-1477)   appendItem / collapseSpaces
    Element.inner_text             (element.py:883)         innerText
  and of the ODF 1.2 §6.1.2 white-space processing of a consumer (`collapse`).

  A paragraph is the list of its child nodes in document order: character data (`str`,
  i.e. the `text` of the paragraph or the `tail` of a child), `text:s` with its count,
  `text:tab`, `text:line-break`, and any other inline element (`el`, opaque, with the text
  it contributes).  Core Lean only, executable.
-/
namespace Odf.Ws

inductive Item where
  | str (cs : List Char)
  | s (n : Nat)
  | tab
  | lb
  | el (id : Nat) (txt : List Char)
deriving DecidableEq, Repr

abbrev Para := List Item

def Item.text : Item → List Char
  | .str cs => cs
  | .s n => List.replicate n ' '
  | .tab => ['\t']
  | .lb => ['\n']
  | .el _ t => t

/-- `Element.inner_text`: text + Σ str(child) + tail -/
def innerText (p : Para) : List Char := p.flatMap Item.text

/-! ### `_merge_text` : append to the last item when it is a string -/

/-- the result lists of the Python helpers are kept *reversed* (last item first) -/
def mergeText (acc : List Item) (txt : List Char) : List Item :=
  match acc with
  | .str c :: t => .str (c ++ txt) :: t
  | _ => .str txt :: acc

/-! ### `_expand_spaces` -/

def expandStep (acc : List Item) : Item → List Item
  | .str cs => mergeText acc cs
  | .s n => mergeText acc (List.replicate n ' ')   -- `obj.text` of a Spacer = " " * length
  | it => it :: acc

/-- children and text nodes in order, `text:s` turned back into spaces, adjacent strings
    merged, the added string merged at the end (also when it is empty) -/
def expandSpaces (p : Para) (added : List Char) : List Item :=
  (mergeText (p.foldl expandStep []) added).reverse

/-! ### `_sub_merge_spaces` -/

/-- `[x for x in re.split("( +)", text) if x]`: maximal runs, flagged "is a run of spaces" -/
def groups : List Char → List (Bool × List Char)
  | [] => []
  | c :: cs =>
    match groups cs with
    | (b, g) :: rest => if b = (c == ' ') then (b, c :: g) :: rest else ((c == ' '), [c]) :: (b, g) :: rest
    | [] => [((c == ' '), [c])]

/-- `Spacer(n)` — `text:c` is omitted below 2, and a missing count reads as 1 -/
def spacer (n : Nat) : Item := .s (if n < 2 then 1 else n)

/-- items `content[1:]`: all but the last by the middle rule, the last by the last rule
    (`acc` reversed) -/
def mergeRest : List (Bool × List Char) → List Item → List Item
  | [], acc => acc
  | [(b, g)], acc =>
    if b then spacer g.length :: acc else mergeText acc g
  | (b, g) :: rest, acc =>
    if b ∧ g.length > 1 then mergeRest rest (spacer (g.length - 1) :: mergeText acc [' '])
    else mergeRest rest (mergeText acc g)

def subMergeSpaces (text : List Char) : List Item :=
  match groups text with
  | [] => []
  | (b, g) :: rest =>
    (mergeRest rest [if b then spacer g.length else .str g]).reverse

def mergeSpaces (content : List Item) : List Item :=
  content.flatMap (fun it => match it with
    | .str cs => subMergeSpaces cs
    | it => [it])

/-! ### `_sub_replace_tabs_lb` -/

/-- `re.split("(\n|\t)", text)` with the empty blocs dropped; `cur` is the bloc being read,
    reversed -/
def splitTabs : List Char → List Char → List Item
  | [], cur => if cur = [] then [] else [.str cur.reverse]
  | c :: cs, cur =>
    if c = '\n' then (if cur = [] then [] else [.str cur.reverse]) ++ .lb :: splitTabs cs []
    else if c = '\t' then (if cur = [] then [] else [.str cur.reverse]) ++ .tab :: splitTabs cs []
    else splitTabs cs (c :: cur)

def subReplaceTabsLb (text : List Char) : List Item := splitTabs text []

def replaceTabsLb (content : List Item) : List Item :=
  content.flatMap (fun it => match it with
    | .str cs => subReplaceTabsLb cs
    | it => [it])

/-! ### `Element.__append` -/

/-- `_re_anyspace.sub(" ", …)`: every run of spaces becomes one space -/
def collapseSpaces : List Char → List Char
  | [] => []
  | [c] => [c]
  | c :: d :: cs => if c = ' ' ∧ d = ' ' then collapseSpaces (d :: cs) else c :: collapseSpaces (d :: cs)

/-- append to the (reversed) child list: a string goes to the tail of the last child or to
    the text of the paragraph, through `_add_text`; an empty result leaves no text node -/
def appendItem (acc : List Item) : Item → List Item
  | .str cs =>
    match acc with
    | .str c :: t => .str (collapseSpaces (c ++ cs)) :: t   -- cannot happen in lxml: text after text
    | _ => if collapseSpaces cs = [] then acc else .str (collapseSpaces cs) :: acc
  | it => it :: acc

def rebuild (content : List Item) : Para := (content.foldl appendItem []).reverse

/-- `Paragraph.append_plain_text(text)` on a paragraph with children `p` -/
def appendPlainText (p : Para) (text : List Char) : Para :=
  rebuild (replaceTabsLb (mergeSpaces (expandSpaces p text)))

/-- `Paragraph(text)`, `Span(text)`, `Header(level, text)` with `formatted=True`
    (Span / Header skip the call when the text is empty: same result) -/
def fromText (text : List Char) : Para := appendPlainText [] text

/-! ### the consumer: ODF 1.2 §6.1.2 white-space processing -/

def isWs (c : Char) : Bool := c = ' ' || c = '\t' || c = '\n' || c = '\r'

/-- characters of one text node; `ign` = "the previous character was collapsible white
    space (or we are at the start of the paragraph)"; output reversed -/
def collapseChars : List Char → Bool → List Char → Bool × List Char
  | [], ign, out => (ign, out)
  | c :: cs, ign, out =>
    if isWs c then (if ign then collapseChars cs true out else collapseChars cs true (' ' :: out))
    else collapseChars cs false (c :: out)

def collapseItems : List Item → Bool → List Char → Bool × List Char
  | [], ign, out => (ign, out)
  | .str cs :: rest, ign, out =>
    let (ign', out') := collapseChars cs ign out
    collapseItems rest ign' out'
  | .el _ txt :: rest, ign, out =>
    -- an inline element's own character data is processed in the same state
    let (ign', out') := collapseChars txt ign out
    collapseItems rest ign' out'
  | it :: rest, _, out => collapseItems rest false (it.text.reverse ++ out)

/-- what a consumer reads: leading white space dropped, runs collapsed, a trailing
    collapsible space dropped; `text:s`, `text:tab`, `text:line-break` give their characters -/
def collapse (p : Para) : List Char :=
  let (ign, out) := collapseItems p true []
  (if ign then out.tail else out).reverse

end Odf.Ws
