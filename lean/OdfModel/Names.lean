import OdfModel.Coord
import OdfModel.Gen.NameRules
/-
  Model of the two name checks of src/odfdo/table.py:
    _table_name_check        (strip, non-empty, `_RE_TABLE_NAME.search`)   apiAcceptsTable
    NamedRange.name setter   (strip, non-empty, forbidden characters,
                              the "ABC123" state machine)                    apiAcceptsRange
  The regular expression and the forbidden set are GENERATED from the source on every run
  (OdfModel/Gen/NameRules.lean); `strip()` is modelled on the four ASCII blanks.
  SPEC: the rules of the office applications (`officeAcceptsTable`, `ruleAcceptsRange`).
-/
namespace Odf.Names
open Odf.Coord

/-- `_table_name_check`: the stored (stripped) name when accepted -/
def apiAcceptsTable (name : List Char) : Bool :=
  let s := strip name
  !s.isEmpty &&
  -- `_RE_TABLE_NAME.search(name)` finds nothing:
  !(match s.head? with | some c => Odf.Gen.tableNameNoLead.contains c | none => false) &&
  !(s.any (fun c => Odf.Gen.tableNameForbidden.contains c)) &&
  !(match s.getLast? with | some c => Odf.Gen.tableNameNoTrail.contains c | none => false)

/-- the office applications: non-empty after trimming, none of `[ ] * ? : / \`, and no
    apostrophe as first or last character -/
def officeAcceptsTable (name : List Char) : Bool :=
  let s := strip name
  !s.isEmpty && s.all (fun c => !("[]*?:/\\".toList.contains c)) &&
  s.head? != some '\'' && s.getLast? != some '\''

def isLetter (c : Char) : Bool := isAsciiAlpha c
def isDigitC (c : Char) : Bool := isDigit c

inductive A1State | start | letters | digits | other
deriving DecidableEq, Repr

/-- the loop `for x in name: if x in ascii_letters and step in ("", "A") … else: step = ""; break` -/
def a1Scan : List Char → A1State → A1State
  | [], st => st
  | x :: rest, st =>
    if isLetter x ∧ (st = .start ∨ st = .letters) then a1Scan rest .letters
    else if (st = .letters ∨ st = .digits) ∧ isDigitC x then a1Scan rest .digits
    else .other

/-- `NamedRange.name = name` accepted -/
def apiAcceptsRange (name : List Char) : Bool :=
  let s := strip name
  !s.isEmpty && !(s.any (fun c => Odf.Gen.rangeNameForbidden.contains c)) && a1Scan s .start != .digits

/-- the rule (DESIGN.md C07 'Reading'): only letters, digits and underscore (over the printable
    ASCII alphabet of the check), and not of the cell-reference form letters+digits -/
def isA1Form (s : List Char) : Bool :=
  let l := s.takeWhile isLetter
  let d := s.drop l.length
  !l.isEmpty && !d.isEmpty && d.all isDigitC

def ruleAcceptsRange (name : List Char) : Bool :=
  let s := strip name
  !s.isEmpty && s.all (fun c => isLetter c || isDigitC c || c == '_') && !isA1Form s

end Odf.Names
