import OdfModel.Gen.StyleContexts
/-
  Model of the style insertion and lookup code of src/odfdo/document.py (insert_style and its
  helpers, _set_automatic_name, get_style, merge_styles_from) and styles.py / content.py
  (_get_style_contexts, get_style).

  A style is (kind, family, name, body): kind 0 = a named style element of the family, 1 =
  style:default-style; the name is `auto n` for "odfdo_auto_<n>", `other id` for any other string,
  `none` for a default style; `body` identifies the rest of the element.  A container is the list
  of its styles in document order; a document holds the six containers.  The search order of
  `Styles.get_style` is the table CONTEXT_MAPPING regenerated from styles.py.  Core Lean only.
-/
namespace Odf.Styles

inductive Name where
  | auto (n : Nat)
  | other (id : Nat)
deriving DecidableEq, Repr

structure Sty where
  kind : Nat
  family : String
  name : Option Name
  body : Nat
deriving DecidableEq, Repr

abbrev Box := List Sty

/-- `container.get_style(family, name)`: the first style of that family and name (no name = the
    default style of the family) -/
def find (b : Box) (family : String) (name : Option Name) : Option Sty :=
  b.find? (fun s => s.family = family ∧ s.name = name)

/-- "Insert it!": delete the existing one from the container, append the new one -/
def replaceIn (b : Box) (st : Sty) : Box :=
  (match find b st.family st.name with
   | some e => b.erase e
   | none => b) ++ [st]

/-- the six containers of a document -/
structure Doc where
  cFont : Box
  cAuto : Box
  sFont : Box
  sStyles : Box
  sAuto : Box
  sMaster : Box
deriving Repr

def Doc.box (d : Doc) : Box6 → Box
  | .cFont => d.cFont | .cAuto => d.cAuto | .sFont => d.sFont
  | .sStyles => d.sStyles | .sAuto => d.sAuto | .sMaster => d.sMaster

def Doc.setBox (d : Doc) (b : Box6) (v : Box) : Doc :=
  match b with
  | .cFont => { d with cFont := v } | .cAuto => { d with cAuto := v } | .sFont => { d with sFont := v }
  | .sStyles => { d with sStyles := v } | .sAuto => { d with sAuto := v } | .sMaster => { d with sMaster := v }

/-- `Styles._get_style_contexts(family)` -/
def stylesContexts (family : String) : List Box6 :=
  match Odf.Gen.contextMapping.lookup family with
  | some l => l
  | none => Odf.Gen.contextFallback

/-- `Content._get_style_contexts(family)` -/
def contentContexts (family : String) : List Box6 :=
  if family = "font-face" then [.cFont] else [.cFont, .cAuto]

/-- `Document.get_style(family, name)`: content.xml first, then styles.xml -/
def Doc.get (d : Doc) (family : String) (name : Option Name) : Option Sty :=
  (contentContexts family ++ stylesContexts family).findSome? (fun b => find (d.box b) family name)

/-- the families `insert_style` accepts (FAMILY_MAPPING) -/
def knownFamily (family : String) : Bool :=
  Odf.Gen.familyStd.contains family || Odf.Gen.familyFalse.contains family

/-- where `insert_style` puts a style of this family with these flags (`named` = a name is given or
    carried by the style); none = refused -/
def place (family : String) (named automatic default : Bool) : Option Box6 :=
  if family = "master-page" then some .sMaster
  else if family = "font-face" then (if default then some .sFont else some .cFont)
  else if family = "page-layout" then some .sAuto
  else if knownFamily family then
    (if named && !automatic && !default then some .sStyles
     else if automatic && !default then some .cAuto
     else if !automatic && default then some .sStyles
     else none)
  else none

/-- `_set_automatic_name`: one more than the largest `odfdo_auto_<n>` among the styles of the family
    that `Document.get_styles(family)` lists: the containers the lookup of that family searches -/
def autoIndex (d : Doc) (family : String) : Nat :=
  (((contentContexts family ++ stylesContexts family).flatMap d.box).filter (fun s => s.family = family)).foldl (fun m s =>
    match s.name with
    | some (.auto n) => max m n
    | _ => m) 0

/-- `insert_style(style, automatic=…, default=…)`: the new document and the name returned -/
def Doc.insert (d : Doc) (st : Sty) (automatic default : Bool) : Option (Doc × Option Name) :=
  match place st.family st.name.isSome automatic default with
  | none => none
  | some b =>
    let st' : Sty :=
      if st.family ∈ ["master-page", "font-face", "page-layout"] then st
      else if !st.name.isSome && automatic && !default then { st with name := some (.auto (autoIndex d st.family + 1)) }
      else if default && !automatic then { st with kind := 1, name := none }
      else st
    -- an unnamed automatic style is appended without looking for an existing one
    let newBox := if !st.name.isSome && automatic && !default && st.family ∉ ["master-page", "font-face", "page-layout"]
      then d.box b ++ [st'] else replaceIn (d.box b) st'
    some (d.setBox b newBox, st'.name)

/-- one style of the other document replaces its homonym in the container it comes from -/
def Doc.mergeOne (d : Doc) (b : Box6) (s : Sty) : Doc := d.setBox b (replaceIn (d.box b) s)

/-- `merge_styles_from`: the styles of the other document in the order of `Document.get_styles()` -/
def Doc.merge (d other : Doc) : Doc :=
  [Box6.cFont, .cAuto, .sAuto, .sStyles, .sMaster, .sFont].foldl (fun d b =>
    (other.box b).foldl (fun d s => d.mergeOne b s) d) d

end Odf.Styles
