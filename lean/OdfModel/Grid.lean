import OdfModel.Coord
/-
  SPEC for C01: a table as an uncompressed list of lists.  `rows` are ragged lists of cell
  payloads (0 = empty cell), `ncols` is the number of declared columns.  Every operation is
  plain list surgery: pad, slice, insert, erase.  This is the Lean twin of the reference grid
  of harness/tables.py (`Grid` / `ref_apply`), which is the model-free oracle on the Python
  side; the two are compared with each other on every history as well.
-/
namespace Odf.Grid
open Odf.Coord

structure Grid where
  ncols : Nat
  rows : List (List Nat)
deriving DecidableEq, Repr

def height (g : Grid) : Nat := g.rows.length

/-- non-negative index from any integer: negative ones count from the current end -/
def norm (v : Int) (len : Nat) : Nat := (if v < 0 then increment v len else v).toNat

def padRows (rows : List (List Nat)) (n : Nat) : List (List Nat) :=
  rows ++ List.replicate (n - rows.length) []

def padRow (r : List Nat) (n : Nat) : List Nat := r ++ List.replicate (n - r.length) 0

/-- `l[x : x + rep] = [c] * rep` -/
def setSlice (l : List α) (x rep : Nat) (c : α) : List α := l.take x ++ List.replicate rep c ++ l.drop (x + rep)

/-- `l[x:x] = [c] * rep` -/
def insSlice (l : List α) (x rep : Nat) (c : α) : List α := l.take x ++ List.replicate rep c ++ l.drop x

/-- appending rows at the end of a table without columns declares its columns (at least one) -/
def declare (hBefore : Nat) (g : Grid) : Grid :=
  if g.rows.length > hBefore ∧ g.ncols = 0 then { g with ncols := 1 } else g

def widen (g : Grid) (w : Nat) : Grid := { g with ncols := max g.ncols w }

/-- replace row `y` (which exists) by `f` of it -/
def modifyRow (rows : List (List Nat)) (y : Nat) (f : List Nat → List Nat) : List (List Nat) :=
  rows.take y ++ (match rows[y]? with | some r => [f r] | none => []) ++ rows.drop (y + 1)

/-- replace row `yn` (created empty, with the rows before it, when beyond the end) by `F` of it;
    the columns are widened to the new row -/
def editRowN (g : Grid) (yn : Nat) (F : List Nat → List Nat) : Grid :=
  let rows1 := padRows g.rows (yn + 1)
  let newRow := F (rows1.getD yn [])
  declare (height g) (widen { g with rows := modifyRow rows1 yn (fun _ => newRow) } newRow.length)

def setCellN (g : Grid) (xn yn : Nat) (c rep : Nat) : Grid :=
  editRowN g yn (fun r => setSlice (padRow r xn) xn rep c)

def setCell (g : Grid) (x y : Int) (c rep : Nat) : Grid :=
  setCellN g (norm x g.ncols) (norm y (height g)) c rep

def insertCell (g : Grid) (x y : Int) (c rep : Nat) : Grid :=
  editRowN g (norm y (height g)) (fun r => insSlice (padRow r (norm x g.ncols)) (norm x g.ncols) rep c)

def appendCell (g : Grid) (y : Int) (c rep : Nat) : Grid :=
  editRowN g (norm y (height g)) (fun r => r ++ List.replicate rep c)

def deleteCell (g : Grid) (x y : Int) : Grid :=
  let xn := norm x g.ncols
  let yn := norm y (height g)
  { g with rows := modifyRow g.rows yn (fun r => r.eraseIdx xn) }

/-- `rows[y : y + rep] = [row] * rep` after padding to y -/
def setRow (g : Grid) (y : Nat) (row : List Nat) (rep : Nat) : Grid :=
  declare (height g) (widen { g with rows := setSlice (padRows g.rows y) y rep row } row.length)

def insertRow (g : Grid) (y : Nat) (row : List Nat) (rep : Nat) : Grid :=
  let appended := y ≥ height g
  let g' := widen { g with rows := insSlice (padRows g.rows y) y rep row } row.length
  if appended then declare (height g) g' else g'

def appendRow (g : Grid) (row : List Nat) (rep : Nat) : Grid :=
  declare (height g) (widen { g with rows := g.rows ++ List.replicate rep row } row.length)

def deleteRow (g : Grid) (y : Nat) : Grid := { g with rows := g.rows.eraseIdx y }

def insertColumn (g : Grid) (x : Int) (rep : Nat) : Grid :=
  let xn := norm x g.ncols
  { ncols := max g.ncols xn + rep,
    rows := g.rows.map (fun r => if r.length > xn then insSlice r xn rep 0 else r) }

def appendColumn (g : Grid) (rep : Nat) : Grid := { g with ncols := g.ncols + rep }

def deleteColumn (g : Grid) (x : Int) : Grid :=
  let xn := norm x g.ncols
  if xn < g.ncols then
    { ncols := g.ncols - 1, rows := g.rows.map (fun r => if r.length > xn then r.eraseIdx xn else r) }
  else g

/-! bulk setters: coordinates are resolved once, then cell after cell -/

/-- what a line of cells (value, repeat) does to one row: slice assignments from column `xn` on,
    each cell advancing by its repeat count -/
def lineF (line : List (Nat × Nat)) (xn : Nat) (r : List Nat) : List Nat :=
  (line.foldl (fun (acc : List Nat × Nat) (c : Nat × Nat) => (setSlice (padRow acc.1 acc.2) acc.2 c.2 c.1, acc.2 + c.2)) (r, xn)).1

def setLine (g : Grid) (xn yn : Nat) (line : List (Nat × Nat)) : Grid := editRowN g yn (lineF line xn)

def setCells (g : Grid) (x y : Int) (m : List (List (Nat × Nat))) : Grid :=
  let xn := norm x g.ncols
  let yn := norm y (height g)
  (m.foldl (fun (acc : Grid × Nat) line =>
    (if line = [] then acc.1 else setLine acc.1 xn acc.2 line, acc.2 + 1)) (g, yn)).1

def setValues (g : Grid) (x y : Int) (m : List (List Nat)) : Grid :=
  setCells g x y (m.map (fun l => l.map (fun v => (v, 1))))

def setRowValues (g : Grid) (y : Int) (vals : List Nat) : Grid := setRow g (norm y (height g)) vals 1

def setColumnValues (g : Grid) (x : Int) (cells : List Nat) : Grid :=
  let xn := norm x g.ncols
  (cells.foldl (fun (acc : Grid × Nat) c => (setCellN acc.1 xn acc.2 c 1, acc.2 + 1)) (g, 0)).1

/-- the complete matrix: every row padded with empty cells to the number of columns -/
def values (g : Grid) : List (List Nat) := g.rows.map (fun r => padRow r g.ncols)

def getValue (g : Grid) (x y : Int) : Nat :=
  let xn := norm x g.ncols
  let yn := norm y (height g)
  (g.rows.getD yn []).getD xn 0

def size (g : Grid) : Nat × Nat := (g.ncols, height g)

end Odf.Grid
