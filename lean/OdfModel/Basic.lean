/-! Shared basics for the models (core Lean only). -/

deriving instance DecidableEq for Except

namespace Odf

/-- errors are mapped to a small enum on both sides of the correspondence -/
inductive ErrKind | value | type | index | key | other
deriving Repr, DecidableEq

def ErrKind.toStr : ErrKind → String
  | .value => "value" | .type => "type" | .index => "index" | .key => "key" | .other => "other"

end Odf
