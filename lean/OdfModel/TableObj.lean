import OdfModel.TableStep
/-
  The OBJECT layer of src/odfdo/table.py and src/odfdo/row.py: the caches of wrapper objects
  the table keeps on top of its XML and its two position maps.

    Table._indexes["_tmap"]    odf index of a row element  ↦  the `Row` wrapper created by an
                               earlier read (`_get_row2_base`, table.py)
    Row._rmap                  the wrapper's OWN position map, computed when the wrapper was
                               created (`Row.__init__` → `_compute_row_cache`) and afterwards
                               only updated by edits made THROUGH this wrapper
    Row._indexes["_rmap"]      odf index of a cell element ↦ the `Cell` wrapper created by an
                               earlier read through this row wrapper (`_get_cell2_base`,
                               `Row.traverse`)

  State: the XML-level table `Tbl` of OdfModel/Table.lean (XML + `_tmap` + `_cmap`) plus the
  table's wrapper cache.  A cached row wrapper is keyed by the odf index of the element it
  holds and the model identifies the element by that key: every table edit that moves row
  elements (set / insert / delete of rows inside the table) empties the cache in the same step,
  exactly where the code does (`vault._indexes[map] = {}` in the three vault functions,
  `self._indexes["_tmap"] = {}` in insert_column / delete_column).  That the element held by a
  live cached wrapper IS the element at its key is checked on the real objects after every
  step by the correspondence (harness/c02.py, `cache_walk`).  What the model does NOT assume is
  that a cached wrapper's own map or its cached cells still describe the element: the
  wrapper's map is used as it is for every read and every edit made through the wrapper
  (`wObj`), so a stale map gives stale answers here as it does in the code (see the examples
  at the end of OdfProps/C02.lean).  A cached cell wrapper is represented by the payload of the
  element it holds (cell elements are never edited in place by the table API: `set_value`
  builds a new `Cell`).

  Transcribed: `_get_row2_base`, `_get_row2`, `get_value`, `get_row_values`, `set_cell`,
  `delete_cell`, `insert_cell`, `append_cell`, `set_row`, `insert_row`, `append_row`,
  `delete_row`, `insert_column`, `append_column`, `delete_column`, `set_values`, `set_cells`
  (table.py); `_get_cell2_base`, `traverse`, `set_cell`, `delete_cell`, `width` (row.py).
  NOT modelled: the cache of column wrappers (`_indexes["_cmap"]`; a column wrapper carries
  no map of its own), row / cell wrappers kept by the CALLER (`get_row(clone=False)` results
  used after later edits: property C08 / C10).
-/
namespace Odf.TableObj
open Odf.Rle Odf.Table Odf.Coord

/-- a cached `Row` wrapper: its own `_rmap` and its cache of `Cell` wrappers -/
structure RowW where
  rmap : List Nat
  ccache : List (Nat × Nat)
deriving DecidableEq, Repr

structure OTbl where
  t : Tbl
  tcache : List (Nat × RowW)        -- `_indexes["_tmap"]`

/-- `cache[k] = v` -/
def store {β : Type} (c : List (Nat × β)) (k : Nat) (v : β) : List (Nat × β) :=
  (k, v) :: c.filter (fun p => p.1 != k)

/-- a wrapper seen as a vault: the CURRENT cells of its element, ITS OWN map -/
def wObj (w : RowW) (d : RowD) : RowObj := { runs := d, map := w.rmap }

/-- a wrapper created now (`Row.__init__`: `_compute_row_cache`, empty cell cache) -/
def newW (d : RowD) : RowW := { rmap := makeCacheMap d, ccache := [] }

/-- `_get_row2_base(y)`: the cached wrapper of the run covering `y`, or a new one, cached.
    Returns the state, the odf index, the wrapper, the current cells of its element and the
    element's repeat.  `none` = the code raises (`ValueError("Row not found")`). -/
def getRowBase (o : OTbl) (y : Nat) : Option (OTbl × Nat × RowW × RowD × Nat) :=
  match findOdfIdx o.t.rows.map y with
  | none => none
  | some idx =>
    match o.t.rows.runs[idx]? with
    | none => none
    | some (d, rep) =>
      match o.tcache.lookup idx with
      | some w => some (o, idx, w, d, rep)
      | none => some ({ o with tcache := store o.tcache idx (newW d) }, idx, newW d, d, rep)

/-! ### table-level helpers with the width read from the wrapper -/

/-- `append_row(row, _repeated=mapRep)`: `rw` is `row.width`, read from the wrapper's own map -/
def appendRowW (t : Tbl) (d : RowD) (xmlRep mapRep rw : Nat) : Tbl :=
  let t1 := { t with rows := { runs := t.rows.runs ++ [(d, xmlRep)],
                               map := (insertMapOnce t.rows.map t.rows.map.length mapRep).getD t.rows.map } }
  let t2 := if t1.cols.runs = [] then
      { cols := fresh [(0, colRep rw)], rows := fresh t1.rows.runs } else t1
  updateWidth t2 rw

/-- `set_row(y, row)`: appends keep the wrapper cache (no element moves), the vault edit
    empties it (`vault._indexes["_tmap"] = {}` in `set_item_in_vault`) -/
def setRowW (o : OTbl) (y : Nat) (d : RowD) (rep rw : Nat) : Option OTbl :=
  let h := height o.t
  if y = h then some { o with t := updateWidth (appendRowW o.t d rep rep rw) rw }
  else if y > h then
    let t1 := appendRowW o.t [] (colRep (y - h)) (y - h) 0
    some { o with t := updateWidth (appendRowW t1 d rep rep rw) rw }
  else
    (setItem o.t.rows y d rep).map (fun rows' =>
      { t := updateWidth { o.t with rows := rows' } rw, tcache := [] })

/-- `insert_row(y, row)` -/
def insertRowW (o : OTbl) (y : Nat) (d : RowD) (rep rw : Nat) : Option OTbl :=
  let h := height o.t
  if y < h then
    (insertItem o.t.rows y d rep).map (fun rows' =>
      { t := updateWidth { o.t with rows := rows' } rw, tcache := [] })
  else if y = h then some { o with t := updateWidth (appendRowW o.t d rep rep rw) rw }
  else
    let t1 := appendRowW o.t [] (colRep (y - h)) (y - h) 0
    some { o with t := updateWidth (appendRowW t1 d rep rep rw) rw }

/-- `delete_row(y)` -/
def deleteRowW (o : OTbl) (y : Nat) : Option OTbl :=
  if y ≥ height o.t then some o
  else (deleteItem o.t.rows y).map (fun rows' => { t := { o.t with rows := rows' }, tcache := [] })

/-- `_get_row2(y, clone=True, create=True)`: `Row()` beyond the end, else a clone of the
    (cached) wrapper — `Row.clone` copies the wrapper's `_rmap` -/
def getRowCopyW (o : OTbl) (y : Nat) : Option (OTbl × RowObj) :=
  if y ≥ height o.t then some (o, rowObj [])
  else (getRowBase o y).map (fun r => (r.1, wObj r.2.2.1 r.2.2.2.1))

/-! ### the cell-level operations of the table -/

/-- `set_cell((x, y), cell)` -/
def oSetCell (o : OTbl) (x y : Int) (c rep : Nat) : Option OTbl :=
  let xn := tr x (width o.t)
  let yn := tr y (height o.t)
  if yn ≥ height o.t then
    (rowSetCell (rowObj []) xn c rep).bind (fun ro => setRowW o yn ro.runs 1 (rowWidth ro))
  else
    match getRowBase o yn with
    | none => none
    | some (o1, idx, w, d, rrep) =>
      if rrep > 1 then
        -- `row = row.clone; row.repeated = None; row.set_cell(..); self.set_row(y, row, clone=False)`
        (rowSetCell (wObj w d) xn c rep).bind (fun ro => setRowW o1 yn ro.runs 1 (rowWidth ro))
      else
        -- in place, through the cached wrapper: its element, its map and its cell cache change
        (rowSetCell (wObj w d) xn c rep).map (fun ro =>
          let w' : RowW := { rmap := ro.map, ccache := if xn < rowWidth (wObj w d) then [] else w.ccache }
          { t := updateWidth { o1.t with rows := { o1.t.rows with runs := o1.t.rows.runs.set idx (ro.runs, rrep) } } (rowWidth ro),
            tcache := store o1.tcache idx w' })

/-- `delete_cell((x, y))`; the in-place branch does not call `_update_width` -/
def oDeleteCell (o : OTbl) (x y : Int) : Option OTbl :=
  let xn := tr x (width o.t)
  let yn := tr y (height o.t)
  if yn ≥ height o.t then some o
  else
    match getRowBase o yn with
    | none => none
    | some (o1, idx, w, d, rrep) =>
      if rrep > 1 then
        (rowDeleteCell (wObj w d) xn).bind (fun ro => setRowW o1 yn ro.runs 1 (rowWidth ro))
      else
        (rowDeleteCell (wObj w d) xn).map (fun ro =>
          let w' : RowW := { rmap := ro.map, ccache := if xn < rowWidth (wObj w d) then [] else w.ccache }
          { t := { o1.t with rows := { o1.t.rows with runs := o1.t.rows.runs.set idx (ro.runs, rrep) } },
            tcache := store o1.tcache idx w' })

/-- a row method applied to an un-repeated copy of row y, put back with `set_row`, then
    `_update_width(row)` (insert_cell, append_cell, one line of set_values / set_cells) -/
def oSetLine (o : OTbl) (y : Nat) (f : RowObj → Option RowObj) : Option OTbl :=
  (getRowCopyW o y).bind (fun r =>
    (f r.2).bind (fun ro =>
      (setRowW r.1 y ro.runs 1 (rowWidth ro)).map (fun o2 => { o2 with t := updateWidth o2.t (rowWidth ro) })))

def oInsertCell (o : OTbl) (x y : Int) (c rep : Nat) : Option OTbl :=
  oSetLine o (tr y (height o.t)) (fun ro => rowInsertCell ro (tr x (width o.t)) c rep)

def oAppendCell (o : OTbl) (y : Int) (c rep : Nat) : Option OTbl :=
  oSetLine o (tr y (height o.t)) (fun ro => some (rowAppend ro c rep))

def oSetValues (o : OTbl) (x y : Int) (m : List (List Nat)) : Option OTbl :=
  let xn := tr x (width o.t)
  let yn := tr y (height o.t)
  (m.foldl (fun (acc : Option (OTbl × Nat)) line =>
    acc.bind (fun (o, yy) =>
      if line = [] then some (o, yy + 1)
      else (oSetLine o yy (fun ro => rowSetValues ro line xn)).map (fun o' => (o', yy + 1))))
    (some (o, yn))).map (·.1)

def oSetCells (o : OTbl) (x y : Int) (m : List (List (Nat × Nat))) : Option OTbl :=
  let xn := tr x (width o.t)
  let yn := tr y (height o.t)
  (m.foldl (fun (acc : Option (OTbl × Nat)) line =>
    acc.bind (fun (o, yy) =>
      if line = [] then some (o, yy + 1)
      else (oSetLine o yy (fun ro => rowSetCells ro line xn)).map (fun o' => (o', yy + 1))))
    (some (o, yn))).map (·.1)

/-! ### columns: the rows are edited through FRESH wrappers (`_get_rows()`), so every cached
    wrapper is left with an obsolete map; the code then drops them all -/

def oInsertColumn (o : OTbl) (x : Int) (rep : Nat) : Option OTbl :=
  (insertColumn o.t x rep).map (fun t' => { t := t', tcache := [] })

def oDeleteColumn (o : OTbl) (x : Int) : Option OTbl :=
  if tr x (width o.t) ≥ width o.t then some o           -- returns before touching anything
  else (deleteColumn o.t x).map (fun t' => { t := t', tcache := [] })

/-- the mutators of C01's alphabet on the object layer; a row given by the caller is a
    coherent wrapper (`rw` = the width of its cells) -/
def ostep (o : OTbl) : Op → Option OTbl
  | .setCell x y c rep => oSetCell o x y c rep
  | .insertCell x y c rep => oInsertCell o x y c rep
  | .appendCell y c rep => oAppendCell o y c rep
  | .deleteCell x y => oDeleteCell o x y
  | .setRow y d rep => setRowW o (tr y (height o.t)) d rep (rowWidth (rowObj d))
  | .insertRow y d rep => insertRowW o (tr y (height o.t)) d rep (rowWidth (rowObj d))
  | .appendRow d rep => some { o with t := appendRowW o.t d rep rep (rowWidth (rowObj d)) }
  | .deleteRow y => deleteRowW o (tr y (height o.t))
  | .insertColumn x rep => oInsertColumn o x rep
  | .appendColumn rep => some { o with t := appendColumnOp o.t rep }
  | .deleteColumn x => oDeleteColumn o x
  | .setCells x y m => oSetCells o x y m
  | .setValues x y m => oSetValues o x y m
  -- `rstrip` ends with `self._indexes["_tmap"] = {}`; `transpose` starts with `self.clear()` (no wrapper survives)
  | .rstrip a => some { t := Odf.Transform.tblRstrip (Odf.Transform.empOf a) o.t, tcache := [] }
  | .transpose => some { t := Odf.Transform.tblTranspose o.t, tcache := [] }

/-! ### reads (they fill the caches) -/

/-- `Row._get_cell2_base(x)` through a wrapper: the payload read (`none`: no cell, the callers
    answer `None`) and the wrapper with its cell cache filled -/
def wGetCell (w : RowW) (d : RowD) (x : Nat) : Option Nat × RowW :=
  match findOdfIdx w.rmap x with
  | none => (none, w)
  | some i =>
    match w.ccache.lookup i with
    | some p => (some p, w)
    | none =>
      match d[i]? with
      | some (p, _) => (some p, { w with ccache := store w.ccache i p })
      | none => (none, w)

/-- `get_value((x, y))` -/
def oGetValue (o : OTbl) (x y : Int) : Nat × OTbl :=
  let xn := tr x (width o.t)
  let yn := tr y (height o.t)
  if yn ≥ height o.t then (emptyCell, o)
  else
    match getRowBase o yn with
    | none => (emptyCell, o)
    | some (o1, idx, w, d, _) =>
      let r := wGetCell w d xn
      (r.1.getD emptyCell, { o1 with tcache := store o1.tcache idx r.2 })

/-- one step of the loop of `Row.traverse()`: the cell of odf index `idx` (cached wrapper or
    element, then cached), yielded `juska - before` times -/
def travStep (d : RowD) (acc : List Nat × RowW × Nat × Nat) (juska : Nat) : List Nat × RowW × Nat × Nat :=
  let w := acc.2.1
  let idx := acc.2.2.1
  let before := acc.2.2.2
  let pw : Nat × RowW :=
    match w.ccache.lookup idx with
    | some p => (p, w)
    | none =>
      match d[idx]? with
      | some (p, _) => (p, { w with ccache := store w.ccache idx p })
      | none => (emptyCell, w)
  let repeated := juska - before
  (acc.1 ++ List.replicate (if repeated = 0 then 1 else repeated) pw.1, pw.2, idx + 1, juska)

/-- `Row.traverse()` through a wrapper: expansion by the wrapper's OWN map -/
def wTraverse (w : RowW) (d : RowD) : List Nat × RowW :=
  let r := w.rmap.foldl (travStep d) ([], w, 0, 0)
  (r.1, r.2.1)

/-- `get_row_values(y)`: `get_row(y, clone=False).get_values()` completed to the table width -/
def oGetRowValues (o : OTbl) (y : Int) : List Nat × OTbl :=
  let yn := tr y (height o.t)
  if yn ≥ height o.t then (List.replicate (width o.t) emptyCell, o)
  else
    match getRowBase o yn with
    | none => ([], o)
    | some (o1, idx, w, d, _) =>
      let r := wTraverse w d
      (r.1 ++ List.replicate (width o.t - r.1.length) emptyCell, { o1 with tcache := store o1.tcache idx r.2 })

/-- `get_row(y)` for its effect on the cache -/
def oTouchRow (o : OTbl) (y : Int) : OTbl :=
  let yn := tr y (height o.t)
  if yn ≥ height o.t then o
  else match getRowBase o yn with
    | none => o
    | some r => r.1

/-- `t.get_row(y, clone=False).repeated = n` — the public setter on the table's own row.  The element
    gets the new count; the setter then "walks up to the owner and recomputes its cache", but
    `Element.parent` builds a NEW `Table` wrapper around the parent element, so the map that is
    recomputed belongs to a throw-away object: the caller's table keeps its `_tmap` (and its wrapper
    cache).  Known finding C02-F3; not a member of the proved alphabet. -/
def oLiveRowRepeated (o : OTbl) (y : Int) (n : Nat) : Option OTbl :=
  let yn := tr y (height o.t)
  if yn ≥ height o.t then some o            -- `Row()` beyond the end: a lonely row
  else
    match getRowBase o yn with
    | none => none
    | some (o1, idx, _, d, _) =>
      some { o1 with t := { o1.t with rows := { o1.t.rows with runs := o1.t.rows.runs.set idx (d, if n < 2 then 1 else n) } } }

/-- the same reads on a table parsed afresh (no wrapper yet) -/
def rowValuesFresh (t : Tbl) (y : Int) : List Nat :=
  let yn := tr y (height t)
  if yn ≥ height t then List.replicate (width t) emptyCell
  else match rowAt t yn with
    | none => []
    | some (_, d, _) => expand d ++ List.replicate (width t - (expand d).length) emptyCell

/-! ### histories of mutations interleaved with cache-filling reads -/

inductive OOp where
  | edit (op : Op)
  | readValue (x y : Int)
  | readRow (y : Int)
  | touchRow (y : Int)

/-- one step: the new state and what the caller was answered -/
def ostepAll (o : OTbl) : OOp → Option (OTbl × List Nat)
  | .edit op => (ostep o op).map (fun o' => (o', []))
  | .readValue x y => let r := oGetValue o x y; some (r.2, [r.1])
  | .readRow y => let r := oGetRowValues o y; some (r.2, r.1)
  | .touchRow y => some (oTouchRow o y, [])

/-- the same step on a table with NO wrapper cache: what a fresh parse of the XML answers -/
def fstepAll (t : Tbl) : OOp → Option (Tbl × List Nat)
  | .edit op => (step t op).map (fun t' => (t', []))
  | .readValue x y => some (t, [getValue t x y])
  | .readRow y => some (t, rowValuesFresh t y)
  | .touchRow _ => some (t, [])

def orun (o : OTbl) : List OOp → Option (OTbl × List (List Nat))
  | [] => some (o, [])
  | op :: ops => (ostepAll o op).bind (fun r => (orun r.1 ops).map (fun r' => (r'.1, r.2 :: r'.2)))

def frun (t : Tbl) : List OOp → Option (Tbl × List (List Nat))
  | [] => some (t, [])
  | op :: ops => (fstepAll t op).bind (fun r => (frun r.1 ops).map (fun r' => (r'.1, r.2 :: r'.2)))

/-! ### the same history on the plain grid (the spec of C01) -/

/-- `get_row_values(y)` on the plain grid: the row completed with empty cells to the number of columns -/
def gridRowValues (g : Odf.Grid.Grid) (y : Int) : List Nat :=
  let yn := Odf.Grid.norm y (Odf.Grid.height g)
  if yn ≥ Odf.Grid.height g then List.replicate g.ncols emptyCell
  else Odf.Grid.padRow (g.rows.getD yn []) g.ncols

def gstepAll (g : Odf.Grid.Grid) : OOp → Odf.Grid.Grid × List Nat
  | .edit op => (gstep g op, [])
  | .readValue x y => (g, [Odf.Grid.getValue g x y])
  | .readRow y => (g, gridRowValues g y)
  | .touchRow _ => (g, [])

def grunAll (g : Odf.Grid.Grid) : List OOp → List (List Nat)
  | [] => []
  | op :: ops => (gstepAll g op).2 :: grunAll (gstepAll g op).1 ops

/-- a table object right after parsing: no wrapper yet -/
def parsed (t : Tbl) : OTbl := { t := t, tcache := [] }

end Odf.TableObj
