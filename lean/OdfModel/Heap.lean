/-!
# Ownership model of the mutable objects behind an original and its clones (C10)

What `clone` promises "for life" is a statement about aliasing: every mutable object (an lxml
tree, a cache list, a dict of parts, the attribute dict of a wrapper) reachable from a twin belongs
to that twin alone, and an operation applied to a twin changes or creates only objects of that twin.
The model is the heap seen that way: a list of cells in allocation order, each tagged with the twin
that owns it; an operation on twin `o` is a sequence of `alloc o` / `write o` steps.  There is no
step that writes a cell of another twin: an implementation whose trace needs one (a cache list
copied by reference, a part shared between two containers) is not a trace of the model, which is
what the correspondence of C10 checks on the live Python objects (harness/heapwalk.py).

`V` is the content of a cell (the harness interns a fingerprint of the Python object to a natural).
-/
namespace Odf.Heap

structure Cell (V : Type) where
  owner : Nat
  val : V

abbrev World (V : Type) := List (Cell V)

inductive Op (V : Type) where
  /-- the operation on twin `o` creates new mutable objects (a cache is filled, a part is parsed,
  the twin itself is born) -/
  | alloc (o : Nat) (vs : List V)
  /-- the operation on twin `o` changes its `i`-th mutable object -/
  | write (o : Nat) (i : Nat) (v : V)

def Op.target {V : Type} : Op V → Nat
  | .alloc o _ => o
  | .write o _ _ => o

/-- the contents of the mutable objects of twin `o`, in allocation order: everything an observation
of `o` can depend on -/
def cellsOf {V : Type} (w : World V) (o : Nat) : List V :=
  (w.filter (fun c => c.owner == o)).map (·.val)

/-- replace the content of the `i`-th cell owned by `o` -/
def writeNth {V : Type} : World V → Nat → Nat → V → Option (World V)
  | [], _, _, _ => none
  | c :: w, o, i, v =>
    if c.owner == o then
      match i with
      | 0 => some ({ c with val := v } :: w)
      | i + 1 => (writeNth w o i v).map (c :: ·)
    else (writeNth w o i v).map (c :: ·)

def step {V : Type} (w : World V) : Op V → Option (World V)
  | .alloc o vs => some (w ++ vs.map (fun v => ⟨o, v⟩))
  | .write o i v => writeNth w o i v

def run {V : Type} (w : World V) : List (Op V) → Option (World V)
  | [] => some w
  | op :: ops => (step w op).bind (fun w' => run w' ops)

/-- the sub-history of the operations applied to twin `o` -/
def own {V : Type} (o : Nat) (ops : List (Op V)) : List (Op V) :=
  ops.filter (fun op => op.target == o)

end Odf.Heap
