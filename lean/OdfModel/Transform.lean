import OdfModel.Abs
/-
  Model of the whole-table transformations of src/odfdo/table.py / row.py (C17):
    Row.rstrip, Table.rstrip            rowRstrip / tblRstrip   (run-length level)
    Table.transpose() (no coordinates)  transposeG              (grid level: the code works on
                                                                 the expanded cells of `traverse`)
  and their grid-level specs.  A payload is "empty" per `Cell.is_empty(aggressive)`: the
  harness interns payloads so that 0 is the empty unstyled cell and odd numbers below
  `2 * nValues` … are styled; the model takes the emptiness test as a parameter `emp`.
-/
namespace Odf.Transform
open Odf.Rle Odf.Table Odf.Grid

/-- `Cell.is_empty(aggressive)` on interned payloads: 0 = empty unstyled, 1 = empty styled (see harness/tables.py) -/
def empOf (aggressive : Bool) (c : Nat) : Bool := if aggressive then c < 2 else c == 0

/-- remove the trailing items satisfying `p` -/
def rstripList {α} (p : α → Bool) (l : List α) : List α := (l.reverse.dropWhile p).reverse

/-- `Row.rstrip`: `for cell in reversed(cells): if not cell.is_empty(): break; delete(cell)` on
    the cell *elements* (runs) -/
def rowRstrip (emp : Nat → Bool) (d : RowD) : RowD := rstripList (fun c => emp c.1) d

/-- trailing columns removed until the declared width is `target` (`diff = width - target`),
    the loop `for column in reversed(columns)` of `rstrip` / `_optimize_width_adapt_columns` -/
def trimColsRev : Runs Nat → Nat → Runs Nat
  | cols, 0 => cols
  | [], _ => []
  | (c, n) :: rest, diff => if n > diff then (c, n - diff) :: rest else trimColsRev rest (diff - n)

def trimCols (cols : Runs Nat) (diff : Nat) : Runs Nat := (trimColsRev cols.reverse diff).reverse

/-- `Table.rstrip(aggressive)` -/
def tblRstrip (emp : Nat → Bool) (t : Tbl) : Tbl :=
  -- trailing row elements that are empty (all their cells empty) are deleted
  let rows1 := rstripList (fun (r : RowD × Nat) => r.1.all (fun c => emp c.1)) t.rows.runs
  -- every row is stripped
  let rows2 := rows1.map (fun r => (rowRstrip emp r.1, r.2))
  let maxW := (rows2.map (fun r => total r.1)).foldl max 0
  let colW := total t.cols.runs
  let cols' := if colW > maxW then trimCols t.cols.runs (colW - maxW) else t.cols.runs
  { cols := fresh cols', rows := fresh rows2 }

/-! ### `Table.optimize_width()` (run-length level only: what it removes depends on the encoding — only a trailing REPEATED
    empty cell element is shortened — so it has no grid-level spec) -/

/-- `_optimize_width_trim_rows`: of the trailing row ELEMENTS that are empty (`is_empty(aggressive=False)`) all but the
    first are deleted, and the one that is kept counts once (`_set_repeated(None)`) -/
def trimRowsOpt (rows : Runs RowD) : Runs RowD :=
  let kept := rstripList (fun (r : RowD × Nat) => r.1.all (fun c => empOf false c.1)) rows
  match rows.drop kept.length with
  | [] => rows
  | (d, _) :: _ => kept ++ [(d, 1)]

/-- `Row.minimized_width()`: the width of the row if its last cell element, when empty (`aggressive=True`), counted once;
    1 for a row without cells -/
def minimizedWidth (d : RowD) : Nat :=
  match d.getLast? with
  | none => 1
  | some (c, n) => if empOf true c then total d - n + 1 else total d

/-- `Row.force_width(width)`: an empty (`aggressive=True`) last cell element that carries a repeat attribute is shortened so
    that the row is `width` wide -/
def forceWidth (w : Nat) (d : RowD) : RowD :=
  match d.getLast? with
  | none => d
  | some (c, n) =>
    if empOf true c ∧ n ≥ 2 ∧ total d > w then d.dropLast ++ [(c, n - (total d - w))] else d

def tblOptimize (t : Tbl) : Tbl :=
  let rows1 := trimRowsOpt t.rows.runs
  let w := (rows1.map (fun r => minimizedWidth r.1)).foldl max 0
  let rows2 := rows1.map (fun r => (forceWidth w r.1, r.2))
  let colW := total t.cols.runs
  let cols' := if colW > w then trimCols t.cols.runs (colW - w) else t.cols.runs
  { cols := fresh cols', rows := fresh rows2 }

/-- grid spec of rstrip: trailing all-empty rows dropped, trailing empty cells of every row
    dropped, columns shrunk to the widest remaining row (never widened) -/
def gridRstrip (emp : Nat → Bool) (g : Grid) : Grid :=
  let rows1 := rstripList (fun r => r.all emp) g.rows
  let rows2 := rows1.map (rstripList emp)
  let maxW := (rows2.map List.length).foldl max 0
  { ncols := min g.ncols maxW, rows := rows2 }

/-- `zip_longest(*data)` with the missing cells replaced by empty cells: row k of the result is
    the k-th cell of every row -/
def transposePad (rows : List (List Nat)) : List (List Nat) :=
  let w := (rows.map List.length).foldl max 0
  (List.range w).map (fun k => rows.map (fun r => r.getD k 0))

/-- `Table.transpose()`: clear, then one appended row per former column; the first appended
    row declares the columns -/
def transposeG (g : Grid) : Grid :=
  let rows' := transposePad g.rows
  { ncols := if rows' = [] then 0 else max 1 g.rows.length, rows := rows' }

end Odf.Transform

namespace Odf.Transform
open Odf.Rle Odf.Table Odf.Grid

/-- `Table.transpose()` on the run-length state: the new rows hold one unrepeated cell
    element per former row, and are appended one by one to the cleared table -/
def tblTranspose (t : Tbl) : Tbl :=
  let g := transposeG (absT t)
  { cols := fresh (if g.ncols = 0 then [] else [(0, g.ncols)]),
    rows := fresh (g.rows.map (fun r => (r.map (fun c => (c, 1)), 1))) }

end Odf.Transform
