import OdfModel.Basic
/-
  Model of the package layer: src/odfdo/container.py (Container: lazy parts, set / del / get, save,
  clone) and src/odfdo/document.py (Document: cache of parsed XML parts, add_file, del_part,
  set_part, _check_manifest_rdf, save, clone), with the manifest of src/odfdo/manifest.py.

  Names of parts are numbers (0 = mimetype, 1 = META-INF/manifest.xml, 2..5 = content, meta,
  settings, styles, 6 = manifest.rdf, 7 = the directory entry "Pictures/", 8 = the root entry "/";
  the harness numbers the others).  The bytes of a part are abstracted to the value they parse to:
  `raw id` for anything opaque (two parts are equal iff their ids are), `man entries` for a
  manifest.  Parsing and serialising are the identity on these values.  Core Lean only.
-/
namespace Odf.Pkg

/-! ### association lists (Python dicts: first match wins, update in place, new keys appended) -/

def look {α : Type} : List (Nat × α) → Nat → Option α
  | [], _ => none
  | (k, v) :: rest, n => if k = n then some v else look rest n

def put {α : Type} : List (Nat × α) → Nat → α → List (Nat × α)
  | [], n, v => [(n, v)]
  | (k, w) :: rest, n, v => if k = n then (k, v) :: rest else (k, w) :: put rest n v

def del {α : Type} : List (Nat × α) → Nat → List (Nat × α)
  | [], _ => []
  | (k, w) :: rest, n => if k = n then rest else (k, w) :: del rest n

/-! ### values -/

inductive Blob where
  | raw (id : Nat)
  | man (entries : List (Nat × Nat))     -- manifest: (full path, media type) in document order
deriving DecidableEq, Repr

def nMime : Nat := 0
def nManifest : Nat := 1
def nMeta : Nat := 3
def nRdf : Nat := 6
def nPictures : Nat := 7
def nRoot : Nat := 8
/-- names that have a part class (`_get_part_class`): content, meta, settings, styles, manifest;
    `mandatory` also covers the XML parts of embedded objects, flagged by the harness -/
def isXmlTop (n : Nat) : Bool := 1 ≤ n && n ≤ 5

/-! ### Container -/

structure Cont where
  src : List (Nat × Blob)                -- the zip / folder on disk, [] for a container held in memory
  lazy : Bool                            -- parts are read on demand from `src` (opened by path)
  parts : List (Nat × Option Blob)       -- `__parts`: some = loaded or set, none = deleted
deriving Repr

/-- `Container.get_part`: the bytes (none = `ValueError` deleted / not found), with the cache updated -/
def Cont.get (c : Cont) (n : Nat) : Option Blob × Cont :=
  match look c.parts n with
  | some (some b) => (some b, c)
  | some none => (none, c)
  | none =>
    if c.lazy then
      match look c.src n with
      | some b => (some b, { c with parts := put c.parts n (some b) })
      | none => (none, c)
    else (none, c)

def Cont.set (c : Cont) (n : Nat) (b : Blob) : Cont := { c with parts := put c.parts n (some b) }
def Cont.delete (c : Cont) (n : Nat) : Cont := { c with parts := put c.parts n none }

/-- `Container.parts`: the names on disk for a path-backed container, the keys of `__parts`
    (deleted ones included) otherwise -/
def Cont.names (c : Cont) : List Nat := if c.lazy then c.src.map (·.1) else c.parts.map (·.1)

/-- load every name of `names` that `__parts` does not hold yet -/
def Cont.loadAll (c : Cont) : Cont :=
  c.names.foldl (fun c n => match look c.parts n with
    | some _ => c
    | none => (c.get n).2) c

/-- what `_save_zip` writes: every part that is not deleted (`mimetype` first: see `zipOrder`) -/
def Cont.written (c : Cont) : List (Nat × Blob) :=
  c.loadAll.parts.filterMap (fun p => p.2.map (fun b => (p.1, b)))

/-- the entry order of `_save_zip`: mimetype, the four XML parts, the rest, the manifest last -/
def zipOrder (w : List (Nat × Blob)) : List (Nat × Blob) :=
  w.filter (·.1 = nMime) ++ [2, 3, 4, 5].flatMap (fun k => w.filter (·.1 = k)) ++
    w.filter (fun p => p.1 ≠ nMime ∧ p.1 ≠ nManifest ∧ ¬ (2 ≤ p.1 ∧ p.1 ≤ 5)) ++ w.filter (·.1 = nManifest)

/-- `Container.clone`: everything in memory, no path -/
def Cont.clone (c : Cont) : Cont := { src := [], lazy := false, parts := c.loadAll.parts }

/-- a container opened from a zip given as bytes (`io.BytesIO`): everything is read at once -/
def Cont.ofBytes (files : List (Nat × Blob)) : Cont :=
  { src := [], lazy := false, parts := files.map (fun p => (p.1, some p.2)) }

/-- a container opened by path: only `mimetype` is read -/
def Cont.ofPath (files : List (Nat × Blob)) : Cont :=
  { src := files, lazy := true, parts := match look files nMime with
      | some b => [(nMime, some b)]
      | none => [] }

/-! ### Document -/

structure Doc where
  c : Cont
  parsed : List (Nat × Blob)             -- `__xmlparts`: the parsed (and possibly edited) XML parts
deriving Repr

/-- `Document.get_part` for an XML part: parse it once -/
def Doc.parse (d : Doc) (n : Nat) : Option Blob × Doc :=
  match look d.parsed n with
  | some b => (some b, d)
  | none =>
    match d.c.get n with
    | (some b, c') => (some b, { c := c', parsed := put d.parsed n b })
    | (none, c') => (none, { d with c := c' })

/-- an edit through the API of a parsed part: its value becomes `b` -/
def Doc.edit (d : Doc) (n : Nat) (b : Blob) : Doc :=
  let d1 := (d.parse n).2
  match look d1.parsed n with
  | some _ => { d1 with parsed := put d1.parsed n b }
  | none => d1

def entries : Blob → List (Nat × Nat)
  | .man es => es
  | .raw _ => []

/-- `Manifest.add_full_path`: the media type of an existing entry is replaced, a new entry is appended -/
def addPath (es : List (Nat × Nat)) (p mt : Nat) : List (Nat × Nat) := put es p mt

/-- `Manifest.del_full_path` (the `KeyError` of a missing path is suppressed by the callers) -/
def delPath (es : List (Nat × Nat)) (p : Nat) : List (Nat × Nat) := del es p

def Doc.manifest (d : Doc) : List (Nat × Nat) × Doc :=
  match d.parse nManifest with
  | (some b, d') => (entries b, d')
  | (none, d') => ([], d')

def Doc.setManifest (d : Doc) (es : List (Nat × Nat)) : Doc := { d with parsed := put d.parsed nManifest (.man es) }

/-- `Document.add_file` / `_add_binary_part`: "Pictures/" is declared once, the blob is stored, its
    path is declared -/
def Doc.addFile (d : Doc) (name : Nat) (data : Blob) (mt : Nat) : Doc :=
  let (es, d1) := d.manifest
  let es1 := match look es nPictures with
    | some _ => es
    | none => addPath es nPictures 0
  let d2 := { d1 with c := d1.c.set name data }
  d2.setManifest (addPath es1 name mt)

/-- `Document.del_part` of an optional part (mandatory ones are refused before anything happens) -/
def Doc.delPart (d : Doc) (name : Nat) : Doc :=
  let d1 := { d with c := d.c.delete name }
  let (es, d2) := d1.manifest
  d2.setManifest (delPath es name)

/-- `Document.set_part`: the parsed form of an XML part is forgotten -/
def Doc.setPart (d : Doc) (name : Nat) (data : Blob) : Doc :=
  { c := d.c.set name data, parsed := if isXmlTop name then del d.parsed name else d.parsed }

/-- `_check_manifest_rdf` (`if manifest.get_media_type(rdf):` — an entry with an empty media type
    counts as not declared; media type 0 is the empty string) -/
def declaredRdf (es : List (Nat × Nat)) : Bool :=
  match look es nRdf with
  | some mt => mt != 0
  | none => false

def Doc.checkRdf (d : Doc) (defaultRdf : Blob) : Doc :=
  let (es, d1) := d.manifest
  if declaredRdf es then (if d1.c.names.contains nRdf then d1 else { d1 with c := d1.c.set nRdf defaultRdf })
  else (if d1.c.names.contains nRdf then { d1 with c := d1.c.delete nRdf } else d1)

/-- `Document.save` (zip, not pretty): the generator stamp parses `meta.xml`, the manifest.rdf is
    reconciled, every parsed part is serialised into the container, the container is written.
    Returns the state afterwards and what was written. -/
def Doc.save (d : Doc) (defaultRdf : Blob) : Doc × List (Nat × Blob) :=
  let d1 := (d.parse nMeta).2
  let d2 := d1.checkRdf defaultRdf
  let c3 := d2.parsed.foldl (fun c p => c.set p.1 p.2) d2.c
  let c4 := c3.loadAll
  ({ c := c4, parsed := d2.parsed }, c4.parts.filterMap (fun p => p.2.map (fun b => (p.1, b))))

/-- the four standard parts a pretty save loads when they are not parsed yet: content, meta, settings, styles -/
def stdParts : List Nat := [2, 3, 4, 5]

/-- one turn of the second loop of the pretty branch: a standard part that is not parsed yet is taken from the container,
    stays parsed and is written pretty; a part the package does not have is skipped (fix C11-F4) -/
def prettyStd (pp : Blob → Blob) (acc : Doc) (n : Nat) : Doc :=
  match look acc.parsed n with
  | some _ => acc
  | none =>
    match acc.c.get n with
    | (some b, c') => { c := c'.set n (pp b), parsed := put acc.parsed n b }
    | (none, c') => { acc with c := c' }

/-- `Document.save(pretty=True)` (zip or folder): as `save`, but every parsed part is written through the pretty serialiser
    `pp` (a parameter: `XmlPart.pretty_serialize`, whose tree transformation is the model of C11's `pretty_indent`), and the
    standard parts not parsed yet are parsed and written pretty too -/
def Doc.savePretty (pp : Blob → Blob) (d : Doc) (defaultRdf : Blob) : Doc × List (Nat × Blob) :=
  let d1 := (d.parse nMeta).2
  let d2 := d1.checkRdf defaultRdf
  let c3 := d2.parsed.foldl (fun c p => c.set p.1 (pp p.2)) d2.c
  let d4 := stdParts.foldl (prettyStd pp) { c := c3, parsed := d2.parsed }
  let c5 := d4.c.loadAll
  ({ c := c5, parsed := d4.parsed }, c5.parts.filterMap (fun p => p.2.map (fun b => (p.1, b))))

/-- `Document.clone`: a clone of the container that receives the parsed parts; nothing is parsed yet -/
def Doc.clone (d : Doc) : Doc :=
  { c := d.parsed.foldl (fun c p => c.set p.1 p.2) d.c.clone, parsed := [] }

def Doc.ofBytes (files : List (Nat × Blob)) : Doc := { c := Cont.ofBytes files, parsed := [] }
def Doc.ofPath (files : List (Nat × Blob)) : Doc := { c := Cont.ofPath files, parsed := [] }

/-- the content of the document: per name, the parsed value when the part is parsed, else what the
    container holds, else what is on disk -/
def Doc.view (d : Doc) (n : Nat) : Option Blob :=
  match look d.parsed n with
  | some b => some b
  | none =>
    match look d.c.parts n with
    | some v => v
    | none => if d.c.lazy then look d.c.src n else none

end Odf.Pkg
