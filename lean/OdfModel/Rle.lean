import OdfModel.Basic
/-
  Model of src/odfdo/element_cached.py — the run-length "vault" shared by rows (cells in a
  row), tables (rows in a table) and column lists:
    make_cache_map        element_cached.py  makeCacheMap   (= cum)
    insert_map_once                          insertMapOnce
    _erase_map_once                          eraseMapOnce
    find_odf_idx          (bisect_left)      findOdfIdx
    set_item_in_vault                        setItem   (XML edit `setRuns` + map arithmetic `setMap`)
    insert_item_in_vault                     insertItem
    delete_item_in_vault                     deleteItem

  A vault is the list of its scheme elements in document order, each with its payload and
  its effective repeat count (`repeated or 1`, `max(int, 1)`), plus the position map kept in
  the Python object.  REPRESENTATION NOTE: the code stores, per element, the *last position*
  it covers (cumulative count − 1, with `-1` for "before the first"); the model stores the
  cumulative count itself (so "before the first" is 0).  All arithmetic is transcribed under
  that shift: `bisect_left(map, pos)` (first `map[i] >= pos`) becomes first `cum[i] > pos`.
  Non-scheme children of the vault (the column elements among a table's rows) are not part
  of the model: after the repair of `set_item_in_vault` every lookup is by ODF index.
-/
namespace Odf.Rle

abbrev Runs (α : Type) := List (α × Nat)

def expand : Runs α → List α
  | [] => []
  | (c, n) :: rest => List.replicate n c ++ expand rest

def total : Runs α → Nat
  | [] => 0
  | (_, n) :: rest => n + total rest

/-- cumulative counts starting from `base` -/
def cumFrom (base : Nat) : Runs α → List Nat
  | [] => []
  | (_, n) :: rest => (base + n) :: cumFrom (base + n) rest

/-- `make_cache_map(elements_repeated_sequence(...))` -/
def makeCacheMap (v : Runs α) : List Nat := cumFrom 0 v

/-- `before = orig_map[odf_idx - 1] if odf_idx > 0 else -1`  (shifted: 0) -/
def beforeOf (m : List Nat) (idx : Nat) : Nat := if idx = 0 then 0 else m.getD (idx - 1) 0

/-- `insert_map_once(orig_map, odf_idx, repeated)`; `none` = IndexError -/
def insertMapOnce (m : List Nat) (idx rep : Nat) : Option (List Nat) :=
  let rep := if rep = 0 then 1 else rep          -- `repeated = repeated or 1`
  if idx > m.length then none
  else
    let juska := beforeOf m idx + rep
    -- idx == len: `insort` into a sorted map whose last entry is <= juska is an append
    some (m.take idx ++ [juska] ++ (m.drop idx).map (· + rep))

/-- `_erase_map_once(orig_map, odf_idx)`; `none` = IndexError -/
def eraseMapOnce (m : List Nat) (idx : Nat) : Option (List Nat) :=
  if idx ≥ m.length then none
  else
    let repeated := m.getD idx 0 - beforeOf m idx
    some (m.take idx ++ (m.drop (idx + 1)).map (· - repeated))

/-- `find_odf_idx(cache_map, position)`: `bisect_left`, `None` past the end -/
def findOdfIdx (m : List Nat) (pos : Nat) : Option Nat :=
  let i := (m.takeWhile (· ≤ pos)).length
  if i < m.length then some i else none

structure Vault (α : Type) where
  runs : Runs α
  map : List Nat

/-- drop `k` logical items from the front of a run list: the repaired overlap loop
    (`is_repeated += deleting; if is_repeated >= 1: _set_repeated else delete`) -/
def trimFront : Nat → Runs α → Runs α
  | _, [] => []
  | k, (c, n) :: rest =>
      if k = 0 then (c, n) :: rest
      else if k < n then (c, n - k) :: rest else trimFront (k - n) rest

/-- the same loop on the map (`while overlap > 0 and idx < len(emap)`), with fuel = len -/
def trimMap : Nat → List Nat → Nat → Nat → List Nat
  | 0, m, _, _ => m
  | fuel+1, m, idx, overlap =>
    if overlap > 0 ∧ idx < m.length then
      let isRep := m.getD idx 0 - m.getD (idx - 1) 0
      if isRep ≤ overlap then
        match eraseMapOnce m idx with
        | some m' => trimMap fuel m' idx (overlap - isRep)
        | none => m
      else m.take idx ++ (m.drop idx).map (· - overlap)
    else m

/-- `set_item_in_vault(position, item, vault, …)`: the item has payload `x` and repeat `r`
    (`item.repeated or 1`). `none` = ValueError (position not covered by the map). -/
def setItem (v : Vault α) (pos : Nat) (x : α) (r : Nat) : Option (Vault α) :=
  match findOdfIdx v.map pos with
  | none => none
  | some idx =>
    match v.runs[idx]? with
    | none => none                                 -- map longer than the XML: `current_item` is None
    | some (c, _) =>
      let beforeCache := beforeOf v.map idx
      let currentRepeated := v.map.getD idx 0 - beforeCache
      let repeatedBefore := pos - beforeCache
      -- repeated_after = current_repeated - repeated_before - repeated   (may be negative)
      let used := repeatedBefore + r
      let afterPos := currentRepeated - used        -- ≥ 1 branch
      let overlap := used - currentRepeated          -- < 0 branch, as a natural
      -- XML
      let pre := v.runs.take idx ++ (if repeatedBefore ≥ 1 then [(c, repeatedBefore)] else [])
      let post :=
        if afterPos ≥ 1 then (c, afterPos) :: v.runs.drop (idx + 1)
        else trimFront overlap (v.runs.drop (idx + 1))
      let runs' := pre ++ [(x, r)] ++ post
      -- map
      let m1 := eraseMapOnce v.map idx
      let step (m : Option (List Nat)) (i rep : Nat) : Option (List Nat) := m.bind (insertMapOnce · i rep)
      let (m2, i2) := if repeatedBefore ≥ 1 then (step m1 idx repeatedBefore, idx + 1) else (m1, idx)
      let m3 := step m2 i2 r
      let m4 :=
        if afterPos ≥ 1 then step m3 (i2 + 1) afterPos
        else if overlap > 0 then m3.map (fun m => trimMap m.length m (i2 + 1) overlap)
        else m3
      m4.map (fun m => { runs := runs', map := m })

/-- `insert_item_in_vault(position, item, vault, …)` -/
def insertItem (v : Vault α) (pos : Nat) (x : α) (r : Nat) : Option (Vault α) :=
  match findOdfIdx v.map pos with
  | none => none
  | some idx =>
    match v.runs[idx]? with
    | none => none
    | some (c, _) =>
      let beforeCache := beforeOf v.map idx
      let currentRepeated := v.map.getD idx 0 - beforeCache
      let repeatedBefore := pos - beforeCache
      let repeatedAfter := currentRepeated - repeatedBefore
      if repeatedBefore ≥ 1 then
        let runs' := v.runs.take idx ++ [(c, repeatedBefore), (x, r), (c, repeatedAfter)] ++ v.runs.drop (idx + 1)
        let m := (eraseMapOnce v.map idx).bind (insertMapOnce · idx repeatedBefore)
          |>.bind (insertMapOnce · (idx + 1) r) |>.bind (insertMapOnce · (idx + 2) repeatedAfter)
        m.map (fun m => { runs := runs', map := m })
      else
        let runs' := v.runs.take idx ++ [(x, r)] ++ v.runs.drop idx
        (insertMapOnce v.map idx r).map (fun m => { runs := runs', map := m })

/-- `delete_item_in_vault(position, vault, …)` -/
def deleteItem (v : Vault α) (pos : Nat) : Option (Vault α) :=
  match findOdfIdx v.map pos with
  | none => none
  | some idx =>
    match v.runs[idx]? with
    | none => none
    | some (c, _) =>
      let currentRepeated := v.map.getD idx 0 - beforeOf v.map idx
      let newRepeated := currentRepeated - 1
      if newRepeated ≥ 1 then
        some { runs := v.runs.take idx ++ [(c, newRepeated)] ++ v.runs.drop (idx + 1),
               map := v.map.take idx ++ (v.map.drop idx).map (· - 1) }
      else
        some { runs := v.runs.take idx ++ v.runs.drop (idx + 1),
               map := v.map.take idx ++ (v.map.drop (idx + 1)).map (· - 1) }

/-- appending at the end (`_append` + `insert_map_once(map, len(map), repeated)`) -/
def appendItem (v : Vault α) (x : α) (r : Nat) : Vault α :=
  { runs := v.runs ++ [(x, r)], map := (insertMapOnce v.map v.map.length r).getD v.map }

/-- a vault read afresh from XML (`_compute_*_cache`) -/
def fresh (runs : Runs α) : Vault α := { runs := runs, map := makeCacheMap runs }

/-- `map[-1] + 1`, 0 when the map is empty (`height`, `width`, `Row.width`) -/
def size (v : Vault α) : Nat := v.map.getLastD 0

end Odf.Rle
