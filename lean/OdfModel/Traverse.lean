import OdfModel.Table
/-
  Model of the expanding getters (C08):
    Row.traverse(start, end)           row.py:241-322    rowTraverseAll / rowTraverseRange
    Table._yield_odf_rows / traverse   table.py          tableTraverse
  A yielded item is (position, payload, repeat attribute left on the copy).
  `attrOf n` is what the XML element of a run of `n` carries (absent below 2).
-/
namespace Odf.Table
open Odf.Rle

def attrOf (n : Nat) : Option Nat := if n < 2 then none else some n

/-- the `for _i in range(repeated or 1)` loop of the un-ranged branch -/
def goAll : List Nat → Runs Nat → Nat → Nat → List (Nat × Nat × Option Nat)
  | juska :: m, (c, n) :: rs, before, x =>
    let rep := juska - before
    let k := if rep = 0 then 1 else rep
    (List.range k).map (fun i => (x + i, c, if rep > 1 then none else attrOf n)) ++ goAll m rs juska (x + k)
  | _, _, _, _ => []

/-- `Row.traverse()` -/
def rowTraverseAll (r : RowObj) : List (Nat × Nat × Option Nat) := goAll r.map r.runs 0 0

/-- the ranged branch: positions above `e` are skipped (and `x` stops advancing) -/
def goRange (start e : Nat) : List Nat → Runs Nat → Nat → Nat → List (Nat × Nat × Option Nat)
  | juska :: m, (c, n) :: rs, before, x =>
    let rep := juska - before
    let k := if rep = 0 then 1 else rep
    let ys := ((List.range k).map (x + ·)).filter (· ≤ e)
    ys.map (fun p => (p, c, if rep > 1 ∨ (p = start ∧ start > 0) then none else attrOf n)) ++
      goRange start e m rs juska (x + ys.length)
  | _, _, _, _ => []

/-- `Row.traverse(start, end)` with at least one bound given; `end = None` → last position -/
def rowTraverseRange (r : RowObj) (start : Nat) (end_ : Option Nat) : List (Nat × Nat × Option Nat) :=
  if r.map = [] then []
  else
    let e := end_.getD (size r - 1)
    match findOdfIdx r.map start with
    | none => []
    | some sm => goRange start e (r.map.drop sm) (r.runs.drop sm) start start

/-- `Table._yield_odf_rows`: the number of copies comes from the row element's own attribute
    (`row.repeated is None` → the row once), every copy has its repeat removed -/
def yieldOdfRows (runs : Runs RowD) : List RowD :=
  runs.flatMap (fun p => match attrOf p.2 with
    | none => [p.1]
    | some k => List.replicate k p.1)

/-- `Table.traverse(start, end)`: the `y` counter and the two bounds -/
def tableTraverse (t : Tbl) (start : Nat) (end_ : Option Nat) : List (Nat × RowD × Option Nat) :=
  let all := (yieldOdfRows t.rows.runs).zipIdx.map (fun p => (p.2, p.1, (none : Option Nat)))
  all.filter (fun p => decide (start ≤ p.1) && (match end_ with | some e => decide (p.1 ≤ e) | none => true))

end Odf.Table
