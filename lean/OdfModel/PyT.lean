import OdfModel.Basic
/-! The Python types of the values the typed-value writers accept, with `isinstance`. -/
namespace Odf.PyT

inductive PyT | bool | int | float | decimal | str | datetime | date | timedelta
deriving DecidableEq, Repr

/-- `isinstance(v, T)` for a value whose exact type is `t` (bool ⊂ int, datetime ⊂ date) -/
def isinst (t T : PyT) : Bool :=
  t == T || (t == .bool && T == .int) || (t == .datetime && T == .date)

def all : List PyT := [.bool, .int, .float, .decimal, .str, .datetime, .date, .timedelta]

/-- the first branch of an if/elif isinstance chain that a value of exact type `t` enters -/
def branchOf (chain : List (List PyT × String)) (t : PyT) : Option String :=
  (chain.find? (fun b => b.1.any (fun T => isinst t T))).map (·.2)

/-- the ODF value type that corresponds to a Python type -/
def odfType : PyT → String
  | .bool => "boolean"
  | .int | .float | .decimal => "float"
  | .str => "string"
  | .datetime | .date => "date"
  | .timedelta => "time"

end Odf.PyT
