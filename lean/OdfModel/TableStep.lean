import OdfModel.Abs
import OdfModel.Transform
/-!
The operation alphabet of C01 as a datatype, with the step functions of the code-level model
(`step`, partial: `none` = the call raises) and of the spec grid (`gstep`).
-/
namespace Odf.Table
open Odf.Rle

inductive Op where
  | setCell (x y : Int) (c rep : Nat)          -- set_cell / set_value (rep = 1)
  | insertCell (x y : Int) (c rep : Nat)
  | appendCell (y : Int) (c rep : Nat)
  | deleteCell (x y : Int)
  | setRow (y : Int) (d : RowD) (rep : Nat)      -- set_row / set_row_values / set_row_cells
  | insertRow (y : Int) (d : RowD) (rep : Nat)
  | appendRow (d : RowD) (rep : Nat)
  | deleteRow (y : Int)
  | insertColumn (x : Int) (rep : Nat)
  | appendColumn (rep : Nat)
  | deleteColumn (x : Int)
  | setCells (x y : Int) (m : List (List (Nat × Nat)))   -- set_cells(matrix, coord): cells with their repeats
  | setValues (x y : Int) (m : List (List Nat))          -- set_values(matrix, coord)
  | rstrip (aggressive : Bool)                           -- rstrip(aggressive)
  | transpose                                            -- transpose() of the whole table

/-- arguments the API can receive: repeat counts are `repeated or 1`, cells of a row too -/
def Op.Valid : Op → Prop
  | .setCell _ _ _ rep => 1 ≤ rep
  | .insertCell _ _ _ rep => 1 ≤ rep
  | .appendCell _ _ rep => 1 ≤ rep
  | .deleteCell _ _ => True
  | .setRow _ d rep => 1 ≤ rep ∧ ∀ p ∈ d, 1 ≤ p.2
  | .insertRow _ d rep => 1 ≤ rep ∧ ∀ p ∈ d, 1 ≤ p.2
  | .appendRow d rep => 1 ≤ rep ∧ ∀ p ∈ d, 1 ≤ p.2
  | .deleteRow _ => True
  | .insertColumn _ rep => 1 ≤ rep
  | .appendColumn rep => 1 ≤ rep
  | .deleteColumn _ => True
  | .setCells _ _ m => ∀ line ∈ m, ∀ c ∈ line, 1 ≤ c.2
  | .setValues _ _ _ => True
  | .rstrip _ => True
  | .transpose => True

def step (t : Tbl) : Op → Option Tbl
  | .setCell x y c rep => setCell t x y c rep
  | .insertCell x y c rep => insertCell t x y c rep
  | .appendCell y c rep => appendCell t y c rep
  | .deleteCell x y => deleteCell t x y
  | .setRow y d rep => setRow t (tr y (height t)) d rep
  | .insertRow y d rep => insertRow t (tr y (height t)) d rep
  | .appendRow d rep => some (appendRow t d rep rep)
  | .deleteRow y => deleteRow t (tr y (height t))
  | .insertColumn x rep => insertColumn t x rep
  | .appendColumn rep => some (appendColumnOp t rep)
  | .deleteColumn x => deleteColumn t x
  | .setCells x y m => setCells t x y m
  | .setValues x y m => setValues t x y m
  | .rstrip a => some (Odf.Transform.tblRstrip (Odf.Transform.empOf a) t)
  | .transpose => some (Odf.Transform.tblTranspose t)

open Odf.Grid in
def gstep (g : Grid) : Op → Grid
  | .setCell x y c rep => Grid.setCell g x y c rep
  | .insertCell x y c rep => Grid.insertCell g x y c rep
  | .appendCell y c rep => Grid.appendCell g y c rep
  | .deleteCell x y => Grid.deleteCell g x y
  | .setRow y d rep => Grid.setRow g (Grid.norm y (Grid.height g)) (expand d) rep
  | .insertRow y d rep => Grid.insertRow g (Grid.norm y (Grid.height g)) (expand d) rep
  | .appendRow d rep => Grid.appendRow g (expand d) rep
  | .deleteRow y => Grid.deleteRow g (Grid.norm y (Grid.height g))
  | .insertColumn x rep => Grid.insertColumn g x rep
  | .appendColumn rep => Grid.appendColumn g rep
  | .deleteColumn x => Grid.deleteColumn g x
  | .setCells x y m => Grid.setCells g x y m
  | .setValues x y m => Grid.setValues g x y m
  | .rstrip a => Odf.Transform.gridRstrip (Odf.Transform.empOf a) g
  | .transpose => Odf.Transform.transposeG g

/-- run a history; `none` as soon as a call raises -/
def run (t : Tbl) : List Op → Option Tbl
  | [] => some t
  | op :: ops => (step t op).bind (fun t' => run t' ops)

def grun (g : Odf.Grid.Grid) : List Op → Odf.Grid.Grid
  | [] => g
  | op :: ops => grun (gstep g op) ops

end Odf.Table
