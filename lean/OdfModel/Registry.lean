import OdfModel.Gen.Registry
/-
  Model of the class dispatch (`Element.from_tag`: `_class_registry.get(elem.tag, cls)`) over the
  table dumped from the live registry, and of the generic attribute properties of PropDef
  (`_generic_attrib_getter` / `_generic_attrib_setter`, element.py:344-380).  Core Lean only.
-/
namespace Odf.Registry

/-- the class (number) `Element.from_tag` instantiates for a tag (number); 0 = the base class -/
def classOf (tag : Nat) : Nat :=
  match Odf.Gen.registry.find? (fun r => r.1 = tag) with
  | some r => r.2.1
  | none => 0

def tagId (tag : String) : Nat :=
  match Odf.Gen.tagNames.idxOf? tag with
  | some i => i + 1
  | none => 0

def className (c : Nat) : String := if c = 0 then "Element" else Odf.Gen.classNames.getD (c - 1) "?"

/-- by name, for the driver -/
def classOfTag (tag : String) : String := className (classOf (tagId tag))

/-- a Python value handed to a generic property setter / returned by the getter -/
inductive PV where
  | none
  | bool (b : Bool)
  | str (s : List Char)          -- `str(value)` of anything that is neither None nor a bool
deriving DecidableEq, Repr

/-- the setter: `None` deletes the attribute, a bool is written as "true" / "false", anything else as `str(value)` -/
def setAttr : PV → Option (List Char)
  | .none => none
  | .bool true => some "true".toList
  | .bool false => some "false".toList
  | .str s => some s

/-- the getter: a missing attribute is `None`, "true" / "false" come back as booleans, anything else as a string -/
def getAttr : Option (List Char) → PV
  | none => .none
  | some s => if s = "true".toList then .bool true else if s = "false".toList then .bool false else .str s

/-- what a value reads back as -/
def norm : PV → PV
  | .str s => if s = "true".toList then .bool true else if s = "false".toList then .bool false else .str s
  | v => v

end Odf.Registry
