import OdfModel.Basic
/-! The six style containers of a document (content.xml: font-face-decls, automatic-styles;
    styles.xml: font-face-decls, styles, automatic-styles, master-styles). -/
namespace Odf.Styles

inductive Box6 where
  | cFont | cAuto | sFont | sStyles | sAuto | sMaster
deriving DecidableEq, Repr

end Odf.Styles
