import OdfModel.Coord
/-
  Model of src/odfdo/datatype.py (Boolean, Date, DateTime, Duration) and
  src/odfdo/utils/color.py (hex2rgb, rgb2hex).  Core Lean only, executable.

  * a `timedelta` is its total number of microseconds (`Int`) — Python normalises to
    (days, seconds, microseconds) with `days = floor(total / 86400e6)`, so `days < 0 ↔ total < 0`;
  * `Duration.encode` uses integer `divmod` (since fix 5831ab8); the model divides in ℕ
    (exactly Python's arbitrary-precision arithmetic, no bound);
  * `Duration.decode` is the regular expression `_RE_DURATION` transcribed as a deterministic
    scanner (`optNum` = `(?:([0-9]+)X)?`);
  * `date.isoformat` / `datetime.isoformat` / `datetime.fromisoformat` are CPython; they are
    modelled for the forms `isoformat` itself produces (fixed-width fields), which is what
    `Date.encode`, `DateTime.encode` and their `decode`s exchange.
-/
namespace Odf.Codec
open Odf.Coord

/-! ### digits helpers -/

/-- `"%02d" % n` for n ≥ 0 -/
def pad2 (n : Nat) : List Nat := if n < 10 then [0, n] else toDec n

/-- fixed-width decimal field (`%04d`, `%02d`, `%06d`), least significant digit last -/
def fixedDigits : Nat → Nat → List Nat
  | 0, _ => []
  | w+1, n => fixedDigits w (n / 10) ++ [n % 10]

def digitsStr (ds : List Nat) : List Char := ds.map digitChar

/-- longest prefix of ASCII digits and the rest -/
def spanDigits (cs : List Char) : List Char × List Char :=
  (cs.takeWhile isDigit, cs.drop (cs.takeWhile isDigit).length)

def numVal (cs : List Char) : Nat := decVal (cs.map charDigit)

/-! ### Duration -/

/-- `str.rstrip("0")` on a digit list -/
def rstripZeros (ds : List Nat) : List Nat := (ds.reverse.dropWhile (· == 0)).reverse

/-- `Duration.encode`: integer `divmod`s; the microseconds that remain are written as a
    fraction of the seconds field, `f"{us:06d}".rstrip("0")`, only when non zero -/
def encodeDur (total : Int) : List Char :=
  let us := total.natAbs
  let hours := us / 3600000000
  let us1 := us % 3600000000
  let minutes := us1 / 60000000
  let us2 := us1 % 60000000
  let seconds := us2 / 1000000
  let frac := us2 % 1000000
  (if total < 0 then ['-'] else []) ++ ['P', 'T'] ++ digitsStr (pad2 hours) ++ ['H'] ++
    digitsStr (pad2 minutes) ++ ['M'] ++ digitsStr (pad2 seconds) ++
    (if frac = 0 then [] else '.' :: digitsStr (rstripZeros (fixedDigits 6 frac))) ++ ['S']

/-- `(?:([0-9]+)X)?` at the head of `cs` -/
def optNum (x : Char) (cs : List Char) : Option Nat × List Char :=
  let (ds, rest) := spanDigits cs
  match ds, rest with
  | _ :: _, c :: rest' => if c = x then (some (numVal ds), rest') else (none, cs)
  | _, _ => (none, cs)

/-- `(?:([0-9]+)(?:\.([0-9]+))?S)?` : seconds and the fraction digits -/
def optSec (cs : List Char) : Option (Nat × List Char) × List Char :=
  let (ds, rest) := spanDigits cs
  match ds, rest with
  | _ :: _, 'S' :: rest' => (some (numVal ds, []), rest')
  | _ :: _, '.' :: rest' =>
    let (fs, rest2) := spanDigits rest'
    match fs, rest2 with
    | _ :: _, 'S' :: rest3 => (some (numVal ds, fs), rest3)
    | _, _ => (none, cs)
  | _, _ => (none, cs)

/-- `int((frac + "000000")[:6])` -/
def fracMicros (fs : List Char) : Nat := numVal ((fs ++ List.replicate 6 '0').take 6)

/-- the part of `_RE_DURATION` after the optional sign: total microseconds (unsigned) -/
def decodeDurBody (s1 : List Char) : Option Nat :=
  match s1 with
  | 'P' :: s2 =>
    let (d, s3) := optNum 'D' s2
    let finish (d h m : Option Nat) (sec : Option (Nat × List Char)) : Option Nat :=
      -- `all(group is None for group in match.groups()[1:])`
      if d.isNone ∧ h.isNone ∧ m.isNone ∧ sec.isNone then none
      else
        let secs := ((d.getD 0 * 24 + h.getD 0) * 60 + m.getD 0) * 60 + (sec.map (·.1)).getD 0
        some (secs * 1000000 + (sec.map (fun p => fracMicros p.2)).getD 0)
    match s3 with
    | [] => finish d none none none
    | 'T' :: s4 =>
      -- `T(?=[0-9])`
      match s4 with
      | c :: _ =>
        if isDigit c then
          let (h, s5) := optNum 'H' s4
          let (m, s6) := optNum 'M' s5
          let (sec, s7) := optSec s6
          if s7 = [] then finish d h m sec else none
        else none
      | [] => none
    | _ => none
  | _ => none

/-- `Duration.decode`: total microseconds (`sign * timedelta(...)`), or `none` for `ValueError` -/
def decodeDur (s : List Char) : Option Int :=
  match s with
  | '-' :: r => (decodeDurBody r).map (fun us => -(us : Int))
  | _ => (decodeDurBody s).map (fun us => (us : Int))

/-! ### Boolean -/

def encodeBool (b : Bool) : List Char := if b then "true".toList else "false".toList
def decodeBool (s : List Char) : Option Bool :=
  if s = "true".toList then some true else if s = "false".toList then some false else none

/-! ### colours -/

def hexDigitChar (d : Nat) : Char := if d < 10 then Char.ofNat (48 + d) else Char.ofNat (55 + d)  -- 'A' = 65

/-- `int(c, 16)` for one character; `none` when it is not a hexadecimal digit -/
def hexVal (c : Char) : Option Nat :=
  let n := c.toNat
  if 48 ≤ n ∧ n ≤ 57 then some (n - 48)
  else if 65 ≤ n ∧ n ≤ 70 then some (n - 55)
  else if 97 ≤ n ∧ n ≤ 102 then some (n - 87)
  else none

/-- `f"{v:02X}"` for 0 ≤ v ≤ 255 -/
def hex2 (v : Nat) : List Char := [hexDigitChar (v / 16), hexDigitChar (v % 16)]

def rgb2hex (r g b : Nat) : Option (List Char) :=
  if r ≤ 255 ∧ g ≤ 255 ∧ b ≤ 255 then some (['#'] ++ hex2 r ++ hex2 g ++ hex2 b) else none

def hexPair (a b : Char) : Option Nat :=
  match hexVal a, hexVal b with
  | some x, some y => some (x * 16 + y)
  | _, _ => none

/-- `hex2rgb`; the guard of the code is `len == 7 and color[0] == '#' and code.isalnum()`,
    then `int(.., 16)` raises `ValueError` on a non-hex pair: both map to `none`. -/
def hex2rgb (s : List Char) : Option (Nat × Nat × Nat) :=
  match s with
  | ['#', a, b, c, d, e, f] =>
    match hexPair a b, hexPair c d, hexPair e f with
    | some r, some g, some bl => some (r, g, bl)
    | _, _, _ => none
  | _ => none

def isHexColour (s : List Char) : Bool :=
  match s with
  | ['#', a, b, c, d, e, f] => [a, b, c, d, e, f].all (fun x => (hexVal x).isSome)
  | _ => false

/-! ### dates and datetimes (the `isoformat` forms) -/

structure Date where
  y : Nat
  m : Nat
  d : Nat
deriving DecidableEq, Repr

/-- UTC offset of an aware datetime: sign, hours, minutes (whole minutes, |offset| < 24 h) -/
structure Tz where
  neg : Bool
  hh : Nat
  mm : Nat
deriving DecidableEq, Repr

structure DateTime where
  date : Date
  h : Nat
  mi : Nat
  s : Nat
  us : Nat
  tz : Option Tz
deriving DecidableEq, Repr

def Date.valid (d : Date) : Prop := 1 ≤ d.y ∧ d.y ≤ 9999 ∧ 1 ≤ d.m ∧ d.m ≤ 12 ∧ 1 ≤ d.d ∧ d.d ≤ 31
/-- `timezone(timedelta(..))` normal form: `-00:00` does not exist -/
def Tz.valid (t : Tz) : Prop := t.hh < 24 ∧ t.mm < 60 ∧ (t.neg = true → t.hh ≠ 0 ∨ t.mm ≠ 0)
def DateTime.valid (t : DateTime) : Prop :=
  t.date.valid ∧ t.h < 24 ∧ t.mi < 60 ∧ t.s < 60 ∧ t.us < 1000000 ∧ (∀ z, t.tz = some z → z.valid)

/-- `date.isoformat()` = `"%04d-%02d-%02d"` -/
def isoDate (d : Date) : List Char :=
  digitsStr (fixedDigits 4 d.y) ++ ['-'] ++ digitsStr (fixedDigits 2 d.m) ++ ['-'] ++ digitsStr (fixedDigits 2 d.d)

def isoTz (t : Tz) : List Char :=
  [if t.neg then '-' else '+'] ++ digitsStr (fixedDigits 2 t.hh) ++ [':'] ++ digitsStr (fixedDigits 2 t.mm)

def usStr (us : Nat) : List Char := if us = 0 then [] else ['.'] ++ digitsStr (fixedDigits 6 us)
def tzStr : Option Tz → List Char
  | none => []
  | some z => isoTz z

/-- `datetime.isoformat()`: microseconds only when non-zero, offset only when aware -/
def isoDateTime (t : DateTime) : List Char :=
  isoDate t.date ++ ['T'] ++ digitsStr (fixedDigits 2 t.h) ++ [':'] ++ digitsStr (fixedDigits 2 t.mi) ++ [':'] ++
    digitsStr (fixedDigits 2 t.s) ++ usStr t.us ++ tzStr t.tz

/-- `Date.encode` -/
def encodeDate (d : Date) : List Char := isoDate d
/-- `Date.encode` of a datetime: `value.date().isoformat()` -/
def encodeDateOfDateTime (t : DateTime) : List Char := isoDate t.date

/-- `DateTime.encode`: `"+00:00"` suffix → `"Z"` -/
def encodeDateTime (t : DateTime) : List Char :=
  let text := isoDateTime t
  let n := text.length
  if text.drop (n - 6) = "+00:00".toList then text.take (n - 6) ++ ['Z'] else text

/-- n fixed digits then the rest -/
def takeNum (w : Nat) (cs : List Char) : Option (Nat × List Char) :=
  let ds := cs.take w
  if ds.length = w ∧ ds.all isDigit then some (numVal ds, cs.drop w) else none

def expect (c : Char) (cs : List Char) : Option (List Char) :=
  match cs with
  | x :: r => if x = c then some r else none
  | [] => none

def parseDate (cs : List Char) : Option (Date × List Char) := do
  let (y, r) ← takeNum 4 cs
  let r ← expect '-' r
  let (m, r) ← takeNum 2 r
  let r ← expect '-' r
  let (d, r) ← takeNum 2 r
  if 1 ≤ y ∧ 1 ≤ m ∧ m ≤ 12 ∧ 1 ≤ d ∧ d ≤ 31 then some (⟨y, m, d⟩, r) else none

def parseTz (cs : List Char) : Option (Option Tz) :=
  match cs with
  | [] => some none
  | ['Z'] => some (some ⟨false, 0, 0⟩)
  | sg :: r =>
    if sg = '+' ∨ sg = '-' then do
      let (hh, r) ← takeNum 2 r
      let r ← expect ':' r
      let (mm, r) ← takeNum 2 r
      if r = [] ∧ hh < 24 ∧ mm < 60 then
        -- `-00:00` is read as UTC
        some (some ⟨sg = '-' ∧ (hh ≠ 0 ∨ mm ≠ 0), hh, mm⟩)
      else none
    else none

def parseFrac (r : List Char) : Option (Nat × List Char) :=
  match r with
  | '.' :: r' => takeNum 6 r'
  | _ => some (0, r)

def parseTimePart (r : List Char) : Option (Nat × Nat × Nat × Nat × Option Tz) := do
  let r ← expect 'T' r
  let (h, r) ← takeNum 2 r
  let r ← expect ':' r
  let (mi, r) ← takeNum 2 r
  let r ← expect ':' r
  let (s, r) ← takeNum 2 r
  let (us, r) ← parseFrac r
  let tz ← parseTz r
  if h < 24 ∧ mi < 60 ∧ s < 60 then some (h, mi, s, us, tz) else none

/-- `datetime.fromisoformat` on `YYYY-MM-DD[THH:MM:SS[.ffffff]][Z|±HH:MM]` -/
def decodeDateTime (cs : List Char) : Option DateTime :=
  match parseDate cs with
  | none => none
  | some (d, []) => some ⟨d, 0, 0, 0, 0, none⟩
  | some (d, r) =>
    match parseTimePart r with
    | some (h, mi, s, us, tz) => some ⟨d, h, mi, s, us, tz⟩
    | none => none

/-- `Date.decode` is `datetime.fromisoformat` too: a date comes back as a datetime at 00:00 -/
def decodeDate (cs : List Char) : Option DateTime := decodeDateTime cs

end Odf.Codec
