import OdfModel.Basic
/-
  Model of src/odfdo/utils/xpath_query.py: `xpath_literal` (the string literal pasted into every
  lookup by name) and of the XPath 1.0 evaluation of such an expression (`Literal` and
  `concat(Literal, …)`), which lxml/libxml2 performs.
-/
namespace Odf.XPathLit

/-- `value.split('"')` -/
def splitQ : List Char → List (List Char)
  | [] => [[]]
  | c :: cs =>
    match splitQ cs with
    | p :: ps => if c = '"' then [] :: p :: ps else (c :: p) :: ps
    | [] => [[c]]   -- unreachable: splitQ never returns []

/-- `", '\"', ".join(f'"{part}"' for part in parts)` -/
def joinParts : List (List Char) → List Char
  | [] => []
  | [p] => ['"'] ++ p ++ ['"']
  | p :: ps => ['"'] ++ p ++ ['"'] ++ ", '\"', ".toList ++ joinParts ps

/-- `xpath_literal(value)` -/
def xpathLiteral (v : List Char) : List Char :=
  if '"' ∉ v then ['"'] ++ v ++ ['"']
  else if '\'' ∉ v then ['\''] ++ v ++ ['\'']
  else "concat(".toList ++ joinParts (splitQ v) ++ [')']

/-- `[@attr=<literal>]` as `make_xpath_query` builds it -/
def mkPredicate (attr v : List Char) : List Char := "[@".toList ++ attr ++ ['='] ++ xpathLiteral v ++ [']']

/-! ### evaluation of `Literal | concat(Literal, Literal, …)` (XPath 1.0 §3.7, §4.2) -/

/-- a `Literal` at the head: its value and what follows -/
def parseLiteral (cs : List Char) : Option (List Char × List Char) :=
  match cs with
  | q :: rest =>
    if q = '"' ∨ q = '\'' then
      let body := rest.takeWhile (· != q)
      match rest.drop body.length with
      | _ :: after => some (body, after)
      | [] => none                      -- unterminated literal: XPathSyntaxError
    else none
  | [] => none

/-- arguments of `concat(` up to the closing parenthesis -/
def parseArgs : Nat → List Char → Option (List Char)
  | 0, _ => none
  | fuel+1, cs =>
    match parseLiteral cs with
    | none => none
    | some (v, after) =>
      match after with
      | [')'] => some v
      | ',' :: ' ' :: more => (parseArgs fuel more).map (v ++ ·)
      | _ => none

def evalExpr (cs : List Char) : Option (List Char) :=
  if "concat(".toList.isPrefixOf cs then parseArgs cs.length (cs.drop 7)
  else match parseLiteral cs with
    | some (v, []) => some v
    | _ => none

end Odf.XPathLit

namespace Odf.XPathLit

/-- index of the first element of `names` equal to `w`, counted from `i` -/
def firstIdx (w : List Char) : List (List Char) → Nat → Option Nat
  | [], _ => none
  | n :: ns, i => if n = w then some i else firstIdx w ns (i + 1)

/-- outcome of a lookup by name among elements carrying the identifiers `names` (document order): the predicate
    `[@attr=<xpath_literal v>]` is evaluated on each, the first match is returned.  `error` = the query is not an XPath expression. -/
inductive Found where
  | error
  | nothing
  | at (i : Nat)
deriving DecidableEq, Repr

def selectByName (names : List (List Char)) (v : List Char) : Found :=
  match evalExpr (xpathLiteral v) with
  | none => .error
  | some w => match firstIdx w names 0 with
    | none => .nothing
    | some i => .at i

end Odf.XPathLit
