import OdfModel.Table
import OdfModel.Grid
/-! The abstraction function of C01: the plain grid a run-length table denotes. -/
namespace Odf.Table
open Odf.Rle

def absT (t : Tbl) : Odf.Grid.Grid :=
  { ncols := total t.cols.runs, rows := (expand t.rows.runs).map expand }

end Odf.Table
