import OdfModel.Codec
import OdfModel.Drv.Util
namespace Odf.Drv.Codec
open Odf.Coord Odf.Codec Odf.Drv

def encTz : Option Tz → String
  | none => "N"
  | some z => (if z.neg then "-" else "+") ++ toString z.hh ++ ":" ++ toString z.mm

def decTz (t : String) : Option (Option Tz) :=
  if t == "N" then some none
  else
    let neg := t.startsWith "-"
    match ((t.drop 1).toString.splitOn ":").map String.toNat? with
    | [some h, some m] => some (some ⟨neg, h, m⟩)
    | _ => none

def encDT (t : DateTime) : String :=
  s!"{t.date.y} {t.date.m} {t.date.d} {t.h} {t.mi} {t.s} {t.us} {encTz t.tz}"

def handle : List String → String
  | ["durenc", v] => match v.toInt? with
      | some t => "ok " ++ encStr (encodeDur t)
      | none => "bad-op"
  | ["durdec", s] => match decStr s with
      | some cs => match decodeDur cs with
          | some v => "ok " ++ toString v
          | none => "err value"
      | none => "bad-op"
  | ["booldec", s] => match decStr s with
      | some cs => match decodeBool cs with
          | some b => "ok " ++ (if b then "1" else "0")
          | none => "err value"
      | none => "bad-op"
  | ["boolenc", b] => "ok " ++ encStr (encodeBool (b == "1"))
  | ["r2h", r, g, b] => match r.toNat?, g.toNat?, b.toNat? with
      | some r, some g, some b => match rgb2hex r g b with
          | some s => "ok " ++ encStr s
          | none => "err value"
      | _, _, _ => "bad-op"
  | ["h2r", s] => match decStr s with
      | some cs => match hex2rgb cs with
          | some (r, g, b) => s!"ok {r} {g} {b}"
          | none => "err value"
      | none => "bad-op"
  | ["dateenc", y, m, d] => match y.toNat?, m.toNat?, d.toNat? with
      | some y, some m, some d => "ok " ++ encStr (encodeDate ⟨y, m, d⟩)
      | _, _, _ => "bad-op"
  | ["dtenc", y, m, d, h, mi, s, us, tz] =>
    match y.toNat?, m.toNat?, d.toNat?, h.toNat?, mi.toNat?, s.toNat?, us.toNat?, decTz tz with
    | some y, some m, some d, some h, some mi, some s, some us, some tz =>
      "ok " ++ encStr (encodeDateTime ⟨⟨y, m, d⟩, h, mi, s, us, tz⟩)
    | _, _, _, _, _, _, _, _ => "bad-op"
  | ["dtdec", s] => match decStr s with
      | some cs => match decodeDateTime cs with
          | some t => "ok " ++ encDT t
          | none => "err value"
      | none => "bad-op"
  | _ => "bad-op"

end Odf.Drv.Codec
