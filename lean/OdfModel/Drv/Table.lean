import OdfModel.Abs
import OdfModel.Traverse
import OdfModel.Transform
import OdfModel.Span
import OdfModel.Drv.Util
namespace Odf.Drv.Table
open Odf.Rle Odf.Table Odf.Drv
open Odf.Grid (Grid)

/-- `pay*rep,pay*rep` (or `e` for none) -/
def decCells (s : String) : Option (List (Nat × Nat)) :=
  if s == "e" then some []
  else (s.splitOn ",").mapM (fun t => match t.splitOn "*" with
    | [p, r] => match p.toNat?, r.toNat? with
      | some p, some r => some (p, r)
      | _, _ => none
    | _ => none)

def encCells (cs : List (Nat × Nat)) : String :=
  if cs.isEmpty then "e" else ",".intercalate (cs.map (fun c => s!"{c.1}*{c.2}"))

/-- rows: `rrep:cells/rrep:cells` or `-` -/
def decRows (s : String) : Option (Runs RowD) :=
  if s == "-" then some []
  else (s.splitOn "/").mapM (fun t => match t.splitOn ":" with
    | [r, cs] => match r.toNat?, decCells cs with
      | some r, some cs => some (cs, r)
      | _, _ => none
    | _ => none)

def encRows (rs : Runs RowD) : String :=
  if rs.isEmpty then "-" else "/".intercalate (rs.map (fun r => s!"{r.2}:{encCells r.1}"))

def decCols (s : String) : Option (Runs Nat) :=
  if s == "-" then some [] else (s.splitOn ",").mapM (fun t => t.toNat?.map (fun r => (0, r)))

def encCols (cs : Runs Nat) : String :=
  if cs.isEmpty then "-" else ",".intercalate (cs.map (fun c => toString c.2))

def encNats (l : List Nat) : String := if l.isEmpty then "-" else ",".intercalate (l.map toString)

def decNats (s : String) : Option (List Nat) :=
  if s == "e" then some [] else (s.splitOn ",").mapM String.toNat?

/-- matrix of cells: lines separated by `/`, each `pay*rep,...` or `e` -/
def decMatrix (s : String) : Option (List (List (Nat × Nat))) := (s.splitOn "/").mapM decCells

def encState (t : Tbl) : String :=
  s!"ok {width t} {height t} cols={encCols t.cols.runs} rows={encRows t.rows.runs} cmap={encNats t.cols.map} tmap={encNats t.rows.map}"

def encValues (t : Tbl) : String :=
  let m := getValues t
  "ok " ++ (if m.isEmpty then "-" else "/".intercalate (m.map (fun l => if l.isEmpty then "e" else ",".intercalate (l.map toString))))

def expandCells (cs : List (Nat × Nat)) : List Nat := cs.flatMap (fun c => List.replicate c.2 c.1)

def applyOp (t : Tbl) : List String → Option (Option Tbl)
  | ["set_cell", x, y, c, r] => do
      let x ← x.toInt?; let y ← y.toInt?; let c ← c.toNat?; let r ← r.toNat?
      pure (setCell t x y c r)
  | ["insert_cell", x, y, c, r] => do
      let x ← x.toInt?; let y ← y.toInt?; let c ← c.toNat?; let r ← r.toNat?
      pure (insertCell t x y c r)
  | ["append_cell", y, c, r] => do
      let y ← y.toInt?; let c ← c.toNat?; let r ← r.toNat?
      pure (appendCell t y c r)
  | ["delete_cell", x, y] => do
      let x ← x.toInt?; let y ← y.toInt?
      pure (deleteCell t x y)
  | ["set_row", y, cells, r] => do
      let y ← y.toInt?; let cells ← decCells cells; let r ← r.toNat?
      pure (setRow t (tr y (height t)) cells r)
  | ["insert_row", y, cells, r] => do
      let y ← y.toInt?; let cells ← decCells cells; let r ← r.toNat?
      pure (insertRow t (tr y (height t)) cells r)
  | ["append_row", cells, r] => do
      let cells ← decCells cells; let r ← r.toNat?
      pure (some (appendRow t cells r r))
  | ["delete_row", y] => do
      let y ← y.toInt?
      pure (deleteRow t (tr y (height t)))
  | ["insert_column", x, r] => do
      let x ← x.toInt?; let r ← r.toNat?
      pure (insertColumn t x r)
  | ["append_column", r] => do
      let r ← r.toNat?
      pure (some (appendColumnOp t r))
  | ["delete_column", x] => do
      let x ← x.toInt?
      pure (deleteColumn t x)
  | ["set_values", x, y, m] => do
      let x ← x.toInt?; let y ← y.toInt?; let m ← decMatrix m
      pure (setValues t x y (m.map expandCells))
  | ["set_cells", x, y, m] => do
      let x ← x.toInt?; let y ← y.toInt?; let m ← decMatrix m
      pure (setCells t x y m)
  | ["set_row_values", y, line] => do
      let y ← y.toInt?; let line ← decCells line
      pure (setRowValues t y (expandCells line))
  | ["set_row_cells", y, line] => do
      let y ← y.toInt?; let line ← decCells line
      pure (setRowCells t y line)
  | ["set_column_values", x, cells] => do
      let x ← x.toInt?; let cells ← decNats cells
      pure (setColumnValues t x cells)
  | _ => none

def applySpec (g : Grid) : List String → Option Grid
  | ["set_cell", x, y, c, r] => do
      let x ← x.toInt?; let y ← y.toInt?; let c ← c.toNat?; let r ← r.toNat?
      pure (Grid.setCell g x y c r)
  | ["insert_cell", x, y, c, r] => do
      let x ← x.toInt?; let y ← y.toInt?; let c ← c.toNat?; let r ← r.toNat?
      pure (Grid.insertCell g x y c r)
  | ["append_cell", y, c, r] => do
      let y ← y.toInt?; let c ← c.toNat?; let r ← r.toNat?
      pure (Grid.appendCell g y c r)
  | ["delete_cell", x, y] => do
      let x ← x.toInt?; let y ← y.toInt?
      pure (Grid.deleteCell g x y)
  | ["set_row", y, cells, r] => do
      let y ← y.toInt?; let cells ← decCells cells; let r ← r.toNat?
      pure (Grid.setRow g (Grid.norm y (Grid.height g)) (expandCells cells) r)
  | ["insert_row", y, cells, r] => do
      let y ← y.toInt?; let cells ← decCells cells; let r ← r.toNat?
      pure (Grid.insertRow g (Grid.norm y (Grid.height g)) (expandCells cells) r)
  | ["append_row", cells, r] => do
      let cells ← decCells cells; let r ← r.toNat?
      pure (Grid.appendRow g (expandCells cells) r)
  | ["delete_row", y] => do
      let y ← y.toInt?
      pure (Grid.deleteRow g (Grid.norm y (Grid.height g)))
  | ["insert_column", x, r] => do
      let x ← x.toInt?; let r ← r.toNat?
      pure (Grid.insertColumn g x r)
  | ["append_column", r] => do
      let r ← r.toNat?
      pure (Grid.appendColumn g r)
  | ["delete_column", x] => do
      let x ← x.toInt?
      pure (Grid.deleteColumn g x)
  | ["set_values", x, y, m] => do
      let x ← x.toInt?; let y ← y.toInt?; let m ← decMatrix m
      pure (Grid.setValues g x y (m.map expandCells))
  | ["set_cells", x, y, m] => do
      let x ← x.toInt?; let y ← y.toInt?; let m ← decMatrix m
      pure (Grid.setCells g x y m)
  | ["set_row_values", y, line] => do
      let y ← y.toInt?; let line ← decCells line
      pure (Grid.setRowValues g y (expandCells line))
  | ["set_row_cells", y, line] => do
      let y ← y.toInt?; let line ← decCells line
      pure (Grid.setRowValues g y (expandCells line))
  | ["set_column_values", x, cells] => do
      let x ← x.toInt?; let cells ← decNats cells
      pure (Grid.setColumnValues g x cells)
  | _ => none

/-- the handler carries the current table; every op is also run on the spec grid of the
    state before it, and the answer says whether the model still denotes the spec result -/
def handle (t : Tbl) : List String → Tbl × String
  | ["init", cols, rows] =>
    match decCols cols, decRows rows with
    | some c, some r => let t' := parse c r; (t', encState t')
    | _, _ => (t, "bad-op")
  | ["state"] => (t, encState t)
  | ["values"] => (t, encValues t)
  | ["getv", x, y] =>
    match x.toInt?, y.toInt? with
    | some x, some y => (t, s!"ok {getValue t x y} {Grid.getValue (absT t) x y}")
    | _, _ => (t, "bad-op")
  | ["travrows", s, e] =>
    -- Table.traverse(start, end): `y=cells` of every yielded row (its repeat removed), in order
    match s.toNat?, (if e == "N" then some none else e.toNat?.map some) with
    | some s, some e =>
      let l := tableTraverse t s e
      (t, "ok " ++ (if l.isEmpty then "-" else ";".intercalate (l.map (fun p => s!"{p.1}={encCells p.2.1}:{match p.2.2 with | none => "N" | some k => toString k}"))))
    | _, _ => (t, "bad-op")
  | "op" :: rest =>
    match applyOp t rest with
    | none => (t, "bad-op")
    | some none => (t, "err value")
    | some (some t') =>
      let spec := applySpec (absT t) rest
      let agree := match spec with
        | some g => if g = absT t' ∧ Grid.values g = getValues t' ∧ Grid.size g = Odf.Table.sizeOf t' then "spec=ok" else "spec=DIFF"
        | none => "spec=none"
      (t', encState t' ++ " " ++ agree)
  | _ => (t, "bad-op")

end Odf.Drv.Table

namespace Odf.Drv.Row
open Odf.Rle Odf.Table Odf.Drv Odf.Drv.Table

def encRow (r : RowObj) : String := s!"ok {rowWidth r} cells={encCells r.runs} rmap={encNats r.map}"

/-- Row-level API on a `Row` object (x resolved against the row's own width) -/
def applyRowOp (r : RowObj) : List String → Option (Option RowObj)
  | ["set_cell", x, c, rep] => do
      let x ← x.toInt?; let c ← c.toNat?; let rep ← rep.toNat?
      pure (rowSetCell r (tr x (rowWidth r)) c rep)
  | ["insert_cell", x, c, rep] => do
      let x ← x.toInt?; let c ← c.toNat?; let rep ← rep.toNat?
      pure (rowInsertCell r (tr x (rowWidth r)) c rep)
  | ["append_cell", c, rep] => do
      let c ← c.toNat?; let rep ← rep.toNat?
      pure (some (rowAppend r c rep))
  | ["delete_cell", x] => do
      let x ← x.toInt?
      pure (rowDeleteCell r (tr x (rowWidth r)))
  | ["set_values", start, vals] => do
      let start ← start.toInt?; let vals ← decNats vals
      pure (rowSetValues r vals (tr start (rowWidth r)))
  | ["set_cells", start, cells] => do
      let start ← start.toInt?; let cells ← decCells cells
      pure (rowSetCells r cells (tr start (rowWidth r)))
  | _ => none

def handle (r : RowObj) : List String → RowObj × String
  | ["init", cells] =>
    match decCells cells with
    | some cs => let r' := rowObj cs; (r', encRow r')
    | none => (r, "bad-op")
  | "op" :: rest =>
    match applyRowOp r rest with
    | none => (r, "bad-op")
    | some none => (r, "err value")
    | some (some r') => (r', encRow r')
  | _ => (r, "bad-op")

end Odf.Drv.Row

namespace Odf.Drv.Row
open Odf.Rle Odf.Table Odf.Drv

def encTrav (l : List (Nat × Nat × Option Nat)) : String :=
  if l.isEmpty then "ok -" else "ok " ++ " ".intercalate (l.map (fun p => s!"{p.1}:{p.2.1}:{match p.2.2 with | none => "N" | some k => toString k}"))

/-- `row trav <start|N> <end|N>` on the current row object -/
def handleTrav (r : RowObj) : List String → String
  | [s, e] =>
    match decOptNat s, decOptNat e with
    | some none, some none => encTrav (rowTraverseAll r)
    | some so, some eo => encTrav (rowTraverseRange r (so.getD 0) eo)
    | _, _ => "bad-op"
  | _ => "bad-op"

end Odf.Drv.Row

namespace Odf.Drv.Transform
open Odf.Rle Odf.Table Odf.Drv Odf.Drv.Table Odf.Transform Odf.Span


def handleTbl (t : Tbl) : List String → Option (Tbl × String)
  | ["rstrip", a] =>
    let emp := empOf (a == "1")
    let t' := tblRstrip emp t
    let spec := gridRstrip emp (absT t)
    some (t', encState t' ++ (if absT t' = spec then " spec=ok" else " spec=DIFF"))
  | ["transpose"] =>
    let t' := tblTranspose t
    some (t', encState t')
  | ["optimize"] =>
    let t' := tblOptimize t
    some (t', encState t')
  | _ => none

def decSCell (s : String) : Option SCell :=
  match s.splitOn "." with
  | [v, c, r, k] =>
    match v.toNat?, c.toNat?, r.toNat?, k.toNat? with
    | some v, some c, some r, some k => some ⟨v, if c = 0 then none else some c, if r = 0 then none else some r, k != 0⟩
    | _, _, _, _ => none
  | _ => none

def encSCell (c : SCell) : String := s!"{c.val}.{c.spanC.getD 0}.{c.spanR.getD 0}.{if c.covered then 1 else 0}"

def decSGrid (s : String) : Option SGrid :=
  if s == "-" then some [] else (s.splitOn "/").mapM (fun r => if r == "e" then some [] else (r.splitOn ",").mapM decSCell)

def encSGrid (g : SGrid) : String :=
  if g.isEmpty then "-" else "/".intercalate (g.map (fun r => if r.isEmpty then "e" else ",".intercalate (r.map encSCell)))

def handleSpan (g : SGrid) : List String → SGrid × String
  | ["init", s] => match decSGrid s with
      | some g' => (g', "ok " ++ encSGrid g')
      | none => (g, "bad-op")
  | ["set", x, y, z, t] =>
    match x.toNat?, y.toNat?, z.toNat?, t.toNat? with
    | some x, some y, some z, some t =>
      match setSpan g x y z t with
      | some g' => (g', "ok 1 " ++ encSGrid g')
      | none => (g, "ok 0 " ++ encSGrid g)
    | _, _, _, _ => (g, "bad-op")
  | ["del", x, y] =>
    match x.toNat?, y.toNat? with
    | some x, some y =>
      match delSpan g x y with
      | some g' => (g', "ok 1 " ++ encSGrid g')
      | none => (g, "ok 0 " ++ encSGrid g)
    | _, _ => (g, "bad-op")
  | _ => (g, "bad-op")

end Odf.Drv.Transform
