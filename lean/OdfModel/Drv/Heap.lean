import OdfModel.Heap
import OdfModel.Drv.Util
/-! `hp` requests: the ownership heap of C10, replaying the allocations and changes the harness
observes on the live Python objects of an original and its clones. -/
namespace Odf.Drv.Heap
open Odf.Heap Odf.Drv

abbrev St := World Nat

def decNats (tok : String) : Option (List Nat) :=
  if tok == "e" then some [] else (tok.splitOn ",").mapM (·.toNat?)

def encNats (xs : List Nat) : String :=
  if xs.isEmpty then "e" else ",".intercalate (xs.map toString)

/-- `target` is the twin the operation was applied to, `owner` the twin whose object was seen to
    appear / change: the model has a step only when they are the same -/
def handle (w : St) : List String → St × String
  | ["new"] => ([], "ok")
  | ["alloc", t, o, vs] =>
    match t.toNat?, o.toNat?, decNats vs with
    | some t, some o, some vs =>
      if t != o then (w, "foreign")
      else match step w (.alloc o vs) with
        | some w' => (w', s!"ok {(cellsOf w' o).length}")
        | none => (w, "refused")
    | _, _, _ => (w, "bad-op")
  | ["write", t, o, i, v] =>
    match t.toNat?, o.toNat?, i.toNat?, v.toNat? with
    | some t, some o, some i, some v =>
      if t != o then (w, "foreign")
      else match step w (.write o i v) with
        | some w' => (w', "ok")
        | none => (w, "no-such-object")
    | _, _, _, _ => (w, "bad-op")
  | ["cells", o] =>
    match o.toNat? with
    | some o => (w, "ok " ++ encNats (cellsOf w o))
    | none => (w, "bad-op")
  | _ => (w, "bad-op")

end Odf.Drv.Heap
