import OdfModel.Package
import OdfModel.Drv.Util
namespace Odf.Drv.Pkg
open Odf.Pkg Odf.Drv

/-- blob: `r<id>` or `m` followed by `path-mt` pairs separated by `,` (`m` alone = no entry) -/
def decEntry (e : String) : Option (Nat × Nat) :=
  match e.splitOn "-" with
  | [a, b] => match a.toNat?, b.toNat? with
    | some a, some b => some (a, b)
    | _, _ => none
  | _ => none

def decBlob (w : String) : Option Blob :=
  if w.startsWith "r" then (w.drop 1).toString.toNat?.map .raw
  else if w == "m" then some (.man [])
  else if w.startsWith "m" then (((w.drop 1).toString.splitOn ",").mapM decEntry).map .man
  else none

def encBlob : Blob → String
  | .raw id => "r" ++ toString id
  | .man es => "m" ++ ",".intercalate (es.map (fun e => toString e.1 ++ "-" ++ toString e.2))

def decFile (w : String) : Option (Nat × Blob) :=
  match w.splitOn ":" with
  | [n, b] => match n.toNat?, decBlob b with
    | some n, some b => some (n, b)
    | _, _ => none
  | _ => none

def encFiles (fs : List (Nat × Blob)) : String :=
  " ".intercalate (fs.map (fun f => toString f.1 ++ ":" ++ encBlob f.2))

structure St where
  docs : List (Nat × Doc) := []
  last : List (Nat × Blob) := []

def handle (st : St) : List String → St × String
  | "new" :: slot :: mode :: files =>
    match slot.toNat?, files.mapM decFile with
    | some slot, some fs =>
      let d := if mode == "path" then Doc.ofPath fs else Doc.ofBytes fs
      ({ st with docs := put st.docs slot d }, "ok")
    | _, _ => (st, "bad-op")
  | slot :: op :: args =>
    match slot.toNat? with
    | none => (st, "bad-op")
    | some slot =>
      match look st.docs slot with
      | none => (st, "no-doc")
      | some d =>
        let upd (d' : Doc) (out : String) : St × String := ({ st with docs := put st.docs slot d' }, out)
        match op, args with
        | "parse", [n] => match n.toNat? with
          | some n => let (r, d') := d.parse n; upd d' (match r with | some b => "ok " ++ encBlob b | none => "none")
          | none => (st, "bad-op")
        | "edit", [n, b] => match n.toNat?, decBlob b with
          | some n, some b => upd (d.edit n b) "ok"
          | _, _ => (st, "bad-op")
        | "addfile", [n, b, mt] => match n.toNat?, decBlob b, mt.toNat? with
          | some n, some b, some mt => upd (d.addFile n b mt) "ok"
          | _, _, _ => (st, "bad-op")
        | "addpath", [n, mt] => match n.toNat?, mt.toNat? with
          | some n, some mt => let (es, d1) := d.manifest; upd (d1.setManifest (addPath es n mt)) "ok"
          | _, _ => (st, "bad-op")
        | "del", [n] => match n.toNat? with
          | some n => upd (d.delPart n) "ok"
          | none => (st, "bad-op")
        | "set", [n, b] => match n.toNat?, decBlob b with
          | some n, some b => upd (d.setPart n b) "ok"
          | _, _ => (st, "bad-op")
        | "get", [n] => match n.toNat? with
          | some n => let (r, c') := d.c.get n; upd { d with c := c' } (match r with | some b => "ok " ++ encBlob b | none => "none")
          | none => (st, "bad-op")
        | "names", [] => (st, "ok " ++ " ".intercalate (d.c.names.map toString))
        | "view", [n] => match n.toNat? with
          | some n => (st, match d.view n with | some b => "ok " ++ encBlob b | none => "none")
          | none => (st, "bad-op")
        | "clone", [slot2] => match slot2.toNat? with
          | some s2 => ({ st with docs := put st.docs s2 d.clone }, "ok")
          | none => (st, "bad-op")
        | "save", [rdf] => match decBlob rdf with
          | some rdf =>
            let (d', w) := d.save rdf
            ({ docs := put st.docs slot d', last := w }, "ok " ++ encFiles (zipOrder w))
          | none => (st, "bad-op")
        | "savep", [rdf] => match decBlob rdf with
          -- pretty save; the pretty serialisation of blob k is written k + 1000000 (the harness checks that it is blob k up to layout)
          | some rdf =>
            let (d', w) := d.savePretty (fun b => match b with | .raw k => .raw (k + 1000000) | b => b) rdf
            ({ docs := put st.docs slot d', last := w }, "ok " ++ encFiles (zipOrder w))
          | none => (st, "bad-op")
        | "reopen", [slot2] => match slot2.toNat? with
          | some s2 => ({ st with docs := put st.docs s2 (Doc.ofBytes st.last) }, "ok")
          | none => (st, "bad-op")
        | _, _ => (st, "bad-op")
  | _ => (st, "bad-op")

end Odf.Drv.Pkg
