import OdfModel.Para.Markup
import OdfModel.Drv.Util
namespace Odf.Drv.Markup
open Odf.Markup Odf.Drv

def encTok : Tok → String
  | .txt h s cs => "T" ++ (if h then "1" else "0") ++ (if s then "1" else "0") ++ ":" ++ encStr cs
  | .op k l h => "O" ++ (if h then "1" else "0") ++ ":" ++ toString k ++ ":" ++ toString l
  | .cl => "C"

def decTok (w : String) : Option Tok :=
  if w == "C" then some .cl
  else match w.splitOn ":" with
    | [f, a] =>
      if f == "T00" then (decStr a).map (.txt false false)
      else if f == "T01" then (decStr a).map (.txt false true)
      else if f == "T10" then (decStr a).map (.txt true false)
      else if f == "T11" then (decStr a).map (.txt true true)
      else none
    | [f, k, l] =>
      match k.toNat?, l.toNat? with
      | some k, some l => if f == "O0" then some (.op k l false) else if f == "O1" then some (.op k l true) else none
      | _, _ => none
    | _ => none

def encToks (ts : Toks) : String := if ts.isEmpty then "ok" else "ok " ++ " ".intercalate (ts.map encTok)

def decSpan (w : String) : Option (Nat × Nat) :=
  match w.splitOn "-" with
  | [a, b] => match a.toNat?, b.toNat? with
    | some a, some b => some (a, b)
    | _, _ => none
  | _ => none

/-- `_` = no node; nodes separated by `;`, a node is `-` (no match) or `a-b,a-b,…` -/
def decSpans (w : String) : Option (List (List (Nat × Nat))) :=
  if w == "_" then some []
  else (w.splitOn ";").mapM (fun n => if n == "-" then some [] else (n.splitOn ",").mapM decSpan)

/-- split the words of a request at the `|` separators -/
def sections (ws : List String) : List (List String) :=
  ws.foldr (fun w acc => if w == "|" then [] :: acc else match acc with
    | cur :: more => (w :: cur) :: more
    | [] => [[w]]) [[]]

def out (r : Option Toks) : String :=
  match r with
  | some ts => encToks ts
  | none => "none"

def handle (ws : List String) : String :=
  match sections ws with
  | [hd, tks] =>
    match tks.mapM decTok with
    | none => "bad-tokens"
    | some ts =>
      match hd with
      | ["span_off", off, len, lab, lt, ll] =>
        match off.toNat?, len.toNat?, lab.toNat?, lt.toNat?, ll.toNat? with
        | some off, some len, some lab, some lt, some ll => encToks (byOffset (.span lab lt ll) off len ts 0)
        | _, _, _, _, _ => "bad-op"
      | ["link_off", off, len, lab] =>
        match off.toNat?, len.toNat?, lab.toNat? with
        | some off, some len, some lab => encToks (byOffset (.link lab) off len ts 0)
        | _, _, _ => "bad-op"
      | ["span_re", lab, lt, ll, sp] =>
        match lab.toNat?, lt.toNat?, ll.toNat?, decSpans sp with
        | some lab, some lt, some ll, some sp => encToks (byRegex (.span lab lt ll) ts sp)
        | _, _, _, _ => "bad-op"
      | ["link_re", lab, sp] =>
        match lab.toNat?, decSpans sp with
        | some lab, some sp => encToks (byRegex (.link lab) ts sp)
        | _, _ => "bad-op"
      | ["delete", i] => match i.toNat? with
        | some i => encToks (deleteAt ts i)
        | none => "bad-op"
      | ["strip", k] => match k.toNat? with
        | some k => encToks (stripKind k ts)
        | none => "bad-op"
      | ["strip1", i] => match i.toNat? with
        | some i => encToks (stripAt ts i)
        | none => "bad-op"
      | ["strips", ks] => match (ks.splitOn ",").mapM String.toNat? with
        | some ks => encToks (stripKinds ks ts)
        | none => "bad-op"
      | ["strip1s", is] => match (is.splitOn ",").mapM String.toNat? with
        | some is => encToks (stripAts is ts)
        | none => "bad-op"
      | _ => "bad-op"
  | [hd, tks, el] =>
    match tks.mapM decTok, el.mapM decTok with
    | some ts, some el =>
      match hd with
      | ["ins", mode, pos, sp] =>
        match pos.toInt?, decSpans sp with
        | some pos, some sp => out (insertRe el (mode == "b") pos sp ts)
        | _, _ => "bad-op"
      -- `moveend <p|b|a> <position> <spans|->`: `el` = the end tag `[op k lab, cl]`; it is inserted under a provisional label,
      -- then the former end tag of that kind and label is deleted (set_reference_mark_end / insert_annotation_end)
      | ["moveend", mode, pos, sp] =>
        match el with
        | [.op k lab h, .cl] =>
          let tmp := 999999
          let elTmp : Toks := [.op k tmp h, .cl]
          if mode == "p" then
            match pos.toNat? with
            | some pos => out (moveEnd k lab tmp (fun t => insertPos elTmp pos t 0) ts)
            | none => "bad-op"
          else
            match pos.toInt?, decSpans sp with
            | some pos, some sp => out (moveEnd k lab tmp (fun t => insertRe elTmp (mode == "b") pos sp t) ts)
            | _, _ => "bad-op"
        | _ => "bad-op"
      | ["inspos", pos] =>
        match pos.toInt? with
        | some pos => if pos < 0 then encToks (appendElem el ts) else out (insertPos el pos.toNat ts 0)
        | none => "bad-op"
      | _ => "bad-op"
    | _, _ => "bad-tokens"
  | [hd, tks, st, en] =>
    match tks.mapM decTok, st.mapM decTok, en.mapM decTok with
    | some ts, some st, some en =>
      match hd with
      | ["around", pos, sp] =>
        match pos.toInt?, decSpans sp with
        | some pos, some sp => out (insertAround st en pos sp ts)
        | _, _ => "bad-op"
      | ["range", i, j] =>
        match i.toNat?, j.toNat? with
        | some i, some j => out (insertRange st en i j ts)
        | _, _ => "bad-op"
      | _ => "bad-op"
    | _, _, _ => "bad-tokens"
  | _ => "bad-op"

end Odf.Drv.Markup
