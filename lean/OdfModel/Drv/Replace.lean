import OdfModel.Para.Replace
import OdfModel.Drv.Markup
namespace Odf.Drv.Replace
open Odf.Replace Odf.Markup Odf.Drv Odf.Drv.Markup

def handle (ws : List String) : String :=
  match sections ws with
  | [["count", sp]] => match decSpans sp with
    | some sp => "ok " ++ toString (countMatches sp)
    | none => "bad-op"
  | [["textat", s, e, own]] =>
    match s.toInt?, decStr own with
    | some s, some own =>
      if e == "N" then "ok " ++ encStr (textAt own s none)
      else match e.toInt? with
        | some e => "ok " ++ encStr (textAt own s (some e))
        | none => "bad-op"
    | _, _ => "bad-op"
  | [["replace", new, sp], tks] =>
    match decStr new, decSpans sp, tks.mapM decTok with
    | some new, some sp, some ts => encToks (replaceAll new ts sp)
    | _, _, _ => "bad-op"
  | [["replacet", tpl, sp], tks] =>
    -- template pieces separated by ',' : `G` = the whole match, otherwise an encoded literal
    match (tpl.splitOn ",").mapM (fun w => if w == "G" then some none else (decStr w).map some), decSpans sp, tks.mapM decTok with
    | some tpl, some sp, some ts => encToks (replaceAllT tpl ts sp)
    | _, _, _ => "bad-op"
  | _ => "bad-op"

end Odf.Drv.Replace
