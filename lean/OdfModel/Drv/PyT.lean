import OdfModel.Gen.Dispatch
import OdfModel.Drv.Util
import OdfModel.Coord
namespace Odf.Drv.PyT
open Odf.PyT

def decT : String → Option PyT
  | "bool" => some .bool | "int" => some .int | "float" => some .float | "decimal" => some .decimal
  | "str" => some .str | "datetime" => some .datetime | "date" => some .date | "timedelta" => some .timedelta
  | _ => none

def handle : List String → String
  | ["branch", "none"] => "ok none"
  | ["branch", t] => match decT t with
      | some t => "ok " ++ ((branchOf Odf.Gen.setValueAndTypeChain t).getD "none")
      | none => "bad-op"
  | ["int", z] => match z.toInt? with
    | some z => "ok " ++ Odf.Drv.encStr (Odf.Coord.intToStr z) ++ " " ++ (match Odf.Coord.parseInt (Odf.Coord.intToStr z) with
        | some r => toString r
        | none => "none")
    | none => "bad-op"
  | _ => "bad-op"

end Odf.Drv.PyT
