import OdfModel.Addr
import OdfModel.Drv.Util
namespace Odf.Drv.Addr
open Odf.Coord Odf.Addr Odf.Drv

/-- `c.isalnum() or c == "_"`: ASCII by rule, non-ASCII from the list the harness took from
    CPython's own Unicode tables -/
def plainOf (extra : List Char) (c : Char) : Bool :=
  c.isAlphanum || c == '_' || extra.contains c

def handle : List String → String
  | ["base", name, extra, x, y] =>
    match decStr name, decStr extra, x.toNat?, y.toNat? with
    | some n, some e, some x, some y => "ok " ++ encStr (baseCellAddress (plainOf e) n x y)
    | _, _, _, _ => "bad-op"
  | ["range", name, extra, x, y, z, t] =>
    match decStr name, decStr extra, x.toNat?, y.toNat?, z.toNat?, t.toNat? with
    | some n, some e, some x, some y, some z, some t =>
      "ok " ++ encStr (cellRangeAddress (plainOf e) n x y z t)
    | _, _, _, _, _, _ => "bad-op"
  | ["read", addr] =>
    match decStr addr with
    | some a =>
      match readRange a with
      | (n, .ok l) => "ok " ++ encStr n ++ " " ++ " ".intercalate (l.map encOptInt)
      | (_, .error _) => "err value"
    | none => "bad-op"
  | _ => "bad-op"

end Odf.Drv.Addr
