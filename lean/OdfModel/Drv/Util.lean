import OdfModel.Basic
/-! Line-protocol helpers shared by the driver handlers. -/
namespace Odf.Drv

/-- strings travel as comma-separated code points; the empty string is `e` -/
def decStr (tok : String) : Option (List Char) :=
  if tok == "e" then some []
  else (tok.splitOn ",").mapM (fun t => t.toNat?.map Char.ofNat)

def encStr (cs : List Char) : String :=
  if cs.isEmpty then "e" else ",".intercalate (cs.map (fun c => toString c.toNat))

def decInt (tok : String) : Option Int := tok.toInt?

def encOptInt : Option Int → String
  | none => "N"
  | some v => toString v

def decOptNat (tok : String) : Option (Option Nat) :=
  if tok == "N" then some none else tok.toNat?.map some

def encOptNat : Option Nat → String
  | none => "N"
  | some v => toString v

end Odf.Drv
