import OdfModel.Coord
import OdfModel.Drv.Util
namespace Odf.Drv.Coord
open Odf.Coord Odf.Drv

def errStr : CoordErr → String
  | .value => "err value"
  | .type => "err type"

def handle : List String → String
  | ["d2a", n] => match n.toNat? with
      | some k => "ok " ++ encStr (digitToAlphaStr k)
      | none => "bad-op"
  | ["a2d", s] => match decStr s with
      | some cs => if cs ≠ [] ∧ cs.all isAsciiAlpha then "ok " ++ toString (alphaToDigitStr cs) else "err value"
      | none => "bad-op"
  | ["conv", s] => match decStr s with
      | some cs => match convertCoordinates cs with
          | .ok l => "ok " ++ " ".intercalate (l.map encOptInt)
          | .error e => errStr e
      | none => "bad-op"
  | ["inc", v, st] => match v.toInt?, st.toNat? with
      | some v, some st => "ok " ++ toString (increment v st)
      | _, _ => "bad-op"
  | ["tfa", s, len, idx] => match decStr s, len.toNat?, idx.toNat? with
      | some cs, some len, some idx => match translateFromAnyStr cs len idx with
          | .ok v => "ok " ++ toString v
          | .error e => errStr e
      | _, _, _ => "bad-op"
  | ["fmt", x, y] => match x.toNat?, y.toNat? with
      | some x, some y => "ok " ++ encStr (formatCell x y)
      | _, _ => "bad-op"
  | _ => "bad-op"

end Odf.Drv.Coord
