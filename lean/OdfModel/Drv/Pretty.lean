import OdfModel.Para.Pretty
import OdfModel.Drv.Util
namespace Odf.Drv.Pretty
open Odf.Pretty Odf.Drv

inductive PTok where
  | o (tag : String) (lab : Nat)
  | t (cs : List Char)
  | c

def decTok (w : String) : Option PTok :=
  if w == "C" then some .c
  else if w.startsWith "T:" then (decStr (w.drop 2).toString).map .t
  else match w.splitOn "|" with
    | ["O", tag, lab] => lab.toNat?.map (.o tag)
    | _ => none

def takeText : List PTok → List Char × List PTok
  | .t cs :: rest => (cs, rest)
  | toks => ([], toks)

def parseF : Nat → List PTok → Forest × List PTok
  | fuel + 1, .o tag lab :: rest =>
    let (text, r1) := takeText rest
    let (kids, r2) := parseF fuel r1
    let r3 := match r2 with
      | .c :: r => r
      | r => r
    let (tail, r4) := takeText r3
    let (sibs, r5) := parseF fuel r4
    (.node tag lab text kids tail sibs, r5)
  | _, toks => (.nil, toks)

def encF : Forest → List String
  | .nil => []
  | .node tag lab text kids tail rest =>
    ("O|" ++ tag ++ "|" ++ toString lab) :: ((if text.isEmpty then [] else ["T:" ++ encStr text]) ++ encF kids ++
      ("C" :: ((if tail.isEmpty then [] else ["T:" ++ encStr tail]) ++ encF rest)))

def handle : List String → String
  | op :: "|" :: ws =>
    match ws.mapM decTok with
    | none => "bad-tokens"
    | some toks =>
      let f := (parseF (toks.length + 1) toks).1
      if op == "pretty" then "ok " ++ " ".intercalate (encF (prettyRoot f))
      else if op == "read" then "ok " ++ ";".intercalate ((readAll f).map encStr)
      else if op == "readpretty" then "ok " ++ ";".intercalate ((readAll (prettyRoot f)).map encStr)
      else if op == "wf" then "ok " ++ toString (wfB false f)
      else "bad-op"
  | _ => "bad-op"

end Odf.Drv.Pretty
