import OdfModel.Registry
import OdfModel.Drv.Util
namespace Odf.Drv.Registry
open Odf.Registry Odf.Drv

def encPV : PV → String
  | .none => "N"
  | .bool true => "B1"
  | .bool false => "B0"
  | .str s => "S" ++ encStr s

def handle : List String → String
  | ["class", t] => match decStr t with
    | some cs => "ok " ++ classOfTag (String.ofList cs)
    | none => "bad-op"
  | ["get", a] =>
    if a == "N" then "ok " ++ encPV (getAttr none)
    else if a.startsWith "S" then match decStr (a.drop 1).toString with
      | some cs => "ok " ++ encPV (getAttr (some cs))
      | none => "bad-op"
    else "bad-op"
  | _ => "bad-op"

end Odf.Drv.Registry
