import OdfModel.Toc
import OdfModel.Drv.Util
namespace Odf.Drv.Toc
open Odf.Toc Odf.Drv

def encEntries (l : List (Nat × List Nat)) : String :=
  if l.isEmpty then "-" else ";".intercalate (l.map (fun e => s!"{e.1}:" ++ ".".intercalate (e.2.map toString)))

def toolRun (depth : Nat) : Dict → List Nat → List (Nat × List Nat)
  | _, [] => []
  | d, l :: rest => if l > depth then toolRun depth d rest else
      let (d', ns) := headerNumberingTool d l; (l, ns) :: toolRun depth d' rest

def handle : List String → String
  | ["fill", ol, levels] =>
    match ol.toNat?, (if levels == "e" then some [] else (levels.splitOn ",").mapM String.toNat?) with
    | some ol, some ls =>
      let m := fillEntries ol ls
      let s := specRun (if ol = 0 then 10 else ol) [] ls
      "ok " ++ encEntries m ++ (if m = s then " spec=ok" else " spec=DIFF")
    | _, _ => "bad-op"
  | ["tool", depth, levels] =>
    match depth.toNat?, (if levels == "e" then some [] else (levels.splitOn ",").mapM String.toNat?) with
    | some dp, some ls => "ok " ++ encEntries (toolRun dp [] ls)
    | _, _ => "bad-op"
  | _ => "bad-op"

end Odf.Drv.Toc
