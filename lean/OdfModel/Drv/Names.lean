import OdfModel.Names
import OdfModel.Drv.Util
namespace Odf.Drv.Names
open Odf.Names Odf.Drv

def handle : List String → String
  | ["table", s] => match decStr s with
      | some cs => "ok " ++ (if apiAcceptsTable cs then "1" else "0")
      | none => "bad-op"
  | ["range", s] => match decStr s with
      | some cs => "ok " ++ (if apiAcceptsRange cs then "1" else "0")
      | none => "bad-op"
  | _ => "bad-op"

end Odf.Drv.Names
