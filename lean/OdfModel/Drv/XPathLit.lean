import OdfModel.XPathLit
import OdfModel.Drv.Util
namespace Odf.Drv.XPathLit
open Odf.XPathLit Odf.Drv

def handle : List String → String
  | ["lit", s] => match decStr s with
      | some cs => "ok " ++ encStr (xpathLiteral cs) ++ " " ++
          (match evalExpr (xpathLiteral cs) with | some v => encStr v | none => "NONE")
      | none => "bad-op"
  | ["eval", s] => match decStr s with
      | some cs => (match evalExpr cs with | some v => "ok " ++ encStr v | none => "err syntax")
      | none => "bad-op"
  | "select" :: v :: names => match decStr v, names.mapM decStr with
      | some v, some ns => (match selectByName ns v with
          | .error => "err syntax"
          | .nothing => "ok NONE"
          | .at i => s!"ok {i}")
      | _, _ => "bad-op"
  | _ => "bad-op"

end Odf.Drv.XPathLit
