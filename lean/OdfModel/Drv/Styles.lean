import OdfModel.Styles
import OdfModel.Drv.Util
namespace Odf.Drv.Styles
open Odf.Styles Odf.Drv

/-- a style: `kind;family;name;body` with name `-` (none), `a<n>` (odfdo_auto_n) or `o<id>` -/
def decName (w : String) : Option (Option Name) :=
  if w == "-" then some none
  else if w.startsWith "a" then (w.drop 1).toString.toNat?.map (fun n => some (.auto n))
  else if w.startsWith "o" then (w.drop 1).toString.toNat?.map (fun n => some (.other n))
  else none

def encName : Option Name → String
  | none => "-"
  | some (.auto n) => "a" ++ toString n
  | some (.other n) => "o" ++ toString n

def decSty (w : String) : Option Sty :=
  match w.splitOn ";" with
  | [k, f, n, b] => match k.toNat?, decName n, b.toNat? with
    | some k, some n, some b => some { kind := k, family := f, name := n, body := b }
    | _, _, _ => none
  | _ => none

def encSty (s : Sty) : String := toString s.kind ++ ";" ++ s.family ++ ";" ++ encName s.name ++ ";" ++ toString s.body

/-- six containers separated by `|` -/
def decDoc (ws : List String) : Option Doc :=
  let secs := ws.foldr (fun w acc => if w == "|" then [] :: acc else match acc with
    | cur :: more => (w :: cur) :: more
    | [] => [[w]]) [[]]
  match secs.mapM (fun sec => sec.mapM decSty) with
  | some [a, b, c, d, e, f] => some { cFont := a, cAuto := b, sFont := c, sStyles := d, sAuto := e, sMaster := f }
  | _ => none

def encDoc (d : Doc) : String :=
  " | ".intercalate ([d.cFont, d.cAuto, d.sFont, d.sStyles, d.sAuto, d.sMaster].map (fun b => " ".intercalate (b.map encSty)))

structure St where
  doc : Doc := { cFont := [], cAuto := [], sFont := [], sStyles := [], sAuto := [], sMaster := [] }
  other : Doc := { cFont := [], cAuto := [], sFont := [], sStyles := [], sAuto := [], sMaster := [] }

def handle (st : St) : List String → St × String
  | "init" :: ws => match decDoc ws with
    | some d => ({ st with doc := d }, "ok")
    | none => (st, "bad-op")
  | "other" :: ws => match decDoc ws with
    | some d => ({ st with other := d }, "ok")
    | none => (st, "bad-op")
  | ["insert", s, a, df] => match decSty s with
    | some s => match st.doc.insert s (a == "1") (df == "1") with
      | some (d, n) => ({ st with doc := d }, "ok " ++ encName n ++ " # " ++ encDoc d)
      | none => (st, "refused")
    | none => (st, "bad-op")
  | ["get", f, n] => match decName n with
    | some n => (st, match st.doc.get f n with | some s => "ok " ++ encSty s | none => "none")
    | none => (st, "bad-op")
  | ["merge"] => let d := st.doc.merge st.other; ({ st with doc := d }, "ok # " ++ encDoc d)
  | _ => (st, "bad-op")

end Odf.Drv.Styles
