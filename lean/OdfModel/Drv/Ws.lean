import OdfModel.Para.Ws
import OdfModel.Drv.Util
namespace Odf.Drv.Ws
open Odf.Ws Odf.Drv

def encItem : Item → String
  | .str cs => "T" ++ encStr cs
  | .s n => "S" ++ toString n
  | .tab => "TAB"
  | .lb => "LB"
  | .el id t => "E" ++ toString id ++ ":" ++ encStr t

/-- ops: `A<codepoints>` = append_plain_text, `E<id>:<codepoints>` = append an inline element -/
def applyOp (p : Para) (op : String) : Option Para :=
  if op.startsWith "A" then (decStr (op.drop 1).toString).map (appendPlainText p)
  else if op.startsWith "E" then
    match (op.drop 1).toString.splitOn ":" with
    | [id, t] => match id.toNat?, decStr t with
        | some id, some t => some (p ++ [.el id t])
        | _, _ => none
    | _ => none
  else none

/-- the notation of `encItem`, read back -/
def decItem (tok : String) : Option Item :=
  if tok == "TAB" then some .tab
  else if tok == "LB" then some .lb
  else if tok.startsWith "T" then (decStr (tok.drop 1).toString).map .str
  else if tok.startsWith "S" then (tok.drop 1).toString.toNat?.map .s
  else if tok.startsWith "E" then
    match (tok.drop 1).toString.splitOn ":" with
    | [id, t] => match id.toNat?, decStr t with
        | some id, some t => some (.el id t)
        | _, _ => none
    | _ => none
  else none

def handle : List String → String
  | "seq" :: ops =>
    match ops.foldlM applyOp ([] : Para) with
    | some p => "ok " ++ " ".intercalate (p.map encItem) ++ " | " ++ encStr (innerText p) ++ " | " ++ encStr (collapse p)
    | none => "bad-op"
  -- `rebuild <items…>`: an existing container (its text nodes possibly holding raw blanks / tabs / newlines, e.g. after a
  -- replacement) re-encoded by `append_plain_text("")`, as `Element.replace(..., formatted=True)` does
  | "rebuild" :: items =>
    match items.mapM decItem with
    | some p =>
      let q := appendPlainText p []
      "ok " ++ " ".intercalate (q.map encItem) ++ " | " ++ encStr (innerText q) ++ " | " ++ encStr (innerText p)
    | none => "bad-op"
  | _ => "bad-op"

end Odf.Drv.Ws
