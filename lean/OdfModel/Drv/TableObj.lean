import OdfModel.TableObj
import OdfModel.Drv.Table
namespace Odf.Drv.TableObj
open Odf.Rle Odf.Table Odf.TableObj Odf.Drv Odf.Drv.Table

/-- the same operation syntax as `tbl op …`, decoded to the alphabet datatype -/
def decOp : List String → Option Op
  | ["set_cell", x, y, c, r] => do
      let x ← x.toInt?; let y ← y.toInt?; let c ← c.toNat?; let r ← r.toNat?
      pure (.setCell x y c r)
  | ["insert_cell", x, y, c, r] => do
      let x ← x.toInt?; let y ← y.toInt?; let c ← c.toNat?; let r ← r.toNat?
      pure (.insertCell x y c r)
  | ["append_cell", y, c, r] => do
      let y ← y.toInt?; let c ← c.toNat?; let r ← r.toNat?
      pure (.appendCell y c r)
  | ["delete_cell", x, y] => do
      let x ← x.toInt?; let y ← y.toInt?
      pure (.deleteCell x y)
  | ["set_row", y, cells, r] => do
      let y ← y.toInt?; let cells ← decCells cells; let r ← r.toNat?
      pure (.setRow y cells r)
  | ["insert_row", y, cells, r] => do
      let y ← y.toInt?; let cells ← decCells cells; let r ← r.toNat?
      pure (.insertRow y cells r)
  | ["append_row", cells, r] => do
      let cells ← decCells cells; let r ← r.toNat?
      pure (.appendRow cells r)
  | ["delete_row", y] => do
      let y ← y.toInt?
      pure (.deleteRow y)
  | ["insert_column", x, r] => do
      let x ← x.toInt?; let r ← r.toNat?
      pure (.insertColumn x r)
  | ["append_column", r] => do
      let r ← r.toNat?
      pure (.appendColumn r)
  | ["delete_column", x] => do
      let x ← x.toInt?
      pure (.deleteColumn x)
  | ["set_values", x, y, m] => do
      let x ← x.toInt?; let y ← y.toInt?; let m ← decMatrix m
      pure (.setValues x y (m.map expandCells))
  | ["set_cells", x, y, m] => do
      let x ← x.toInt?; let y ← y.toInt?; let m ← decMatrix m
      pure (.setCells x y m)
  | ["rstrip", a] => some (.rstrip (a == "1"))
  | ["transpose"] => some .transpose
  | ["set_row_values", y, line] => do
      let y ← y.toInt?; let line ← decCells line
      pure (.setRow y ((expandCells line).map (fun v => (v, 1))) 1)
  | ["set_row_cells", y, line] => do
      let y ← y.toInt?; let line ← decCells line
      pure (.setRow y line 1)
  | _ => none

/-- insertion sort by key (the cache is a dict: canonical order for the answer) -/
def sortByKey {β : Type} (l : List (Nat × β)) : List (Nat × β) :=
  l.foldl (fun acc p => (acc.takeWhile (fun q => q.1 ≤ p.1)) ++ [p] ++ (acc.dropWhile (fun q => q.1 ≤ p.1))) []

def encCC (cc : List (Nat × Nat)) : String :=
  if cc.isEmpty then "-" else ",".intercalate ((sortByKey cc).map (fun p => s!"{p.1}={p.2}"))

/-- `idx:rmap:cellcache;…` — rmap entries joined by `.` -/
def encCache (c : List (Nat × RowW)) : String :=
  if c.isEmpty then "-" else ";".intercalate ((sortByKey c).map (fun p =>
    s!"{p.1}:{if p.2.rmap.isEmpty then "-" else ".".intercalate (p.2.rmap.map toString)}:{encCC p.2.ccache}"))

def encO (o : OTbl) : String := encState o.t ++ " cache=" ++ encCache o.tcache

def handle (o : OTbl) : List String → OTbl × String
  | ["init", cols, rows] =>
    match decCols cols, decRows rows with
    | some c, some r => let o' := parsed (parse c r); (o', encO o')
    | _, _ => (o, "bad-op")
  | "op" :: rest =>
    match decOp rest with
    | none => (o, "bad-op")
    | some op =>
      match ostep o op with
      | none => (o, "err value")
      | some o' =>
        -- the refinement, evaluated: the XML-level model reaches the same table
        let agree := match step o.t op with
          | some t' => if t'.cols.runs = o'.t.cols.runs ∧ t'.rows.runs = o'.t.rows.runs ∧ t'.cols.map = o'.t.cols.map ∧ t'.rows.map = o'.t.rows.map then "xml=ok" else "xml=DIFF"
          | none => "xml=none"
        (o', encO o' ++ " " ++ agree)
  -- `optimize_width()`: not in the alphabet of the history theorems (no grid-level spec), but its run-length model
  -- predicts the XML; `_optimize_width_trim_rows` empties the wrapper cache
  | ["xop", "optimize"] =>
    let o' : OTbl := { t := Odf.Transform.tblOptimize o.t, tcache := [] }
    (o', encO o' ++ " xml=ok")
  | ["getv", x, y] =>
    match x.toInt?, y.toInt? with
    | some x, some y =>
      let r := oGetValue o x y
      (r.2, encO r.2 ++ s!" ans={r.1} fresh={getValue o.t x y}")
    | _, _ => (o, "bad-op")
  | ["rowv", y] =>
    match y.toInt? with
    | some y =>
      let r := oGetRowValues o y
      (r.2, encO r.2 ++ s!" ans={encNats r.1} fresh={encNats (rowValuesFresh o.t y)}")
    | none => (o, "bad-op")
  | ["touch", y] =>
    match y.toInt? with
    | some y => let o' := oTouchRow o y; (o', encO o')
    | none => (o, "bad-op")
  | _ => (o, "bad-op")

end Odf.Drv.TableObj
