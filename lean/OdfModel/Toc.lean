import OdfModel.Basic
/-
  Model of the outline numbering of src/odfdo/toc.py (`TOC._header_numbering`, `TOC.fill`) and
  of its twin in src/odfdo/scripts/headers.py (`header_numbering`).
  The `dict[int, int]` of per-level counters is an association list; `look` is `dict.get`.
  SPEC: the counters of levels 1..k as a plain list (`specStep`).
-/
namespace Odf.Toc

abbrev Dict := List (Nat × Nat)

def look (d : Dict) (k : Nat) : Option Nat := (d.find? (fun p => p.1 == k)).map (·.2)
def dset (d : Dict) (k v : Nat) : Dict :=
  if d.any (fun p => p.1 == k) then d.map (fun p => if p.1 == k then (k, v) else p) else d ++ [(k, v)]
def ddel (d : Dict) (k : Nat) : Dict := d.filter (fun p => p.1 != k)

/-- `for idx in range(1, level): numbers.append(level_indexes.setdefault(idx, 1))` -/
def setDefaults : Dict → Nat → Nat → Dict × List Nat
  | d, _, 0 => (d, [])
  | d, idx, n+1 =>
    match look d idx with
    | some v => let (d', ns) := setDefaults d (idx + 1) n; (d', v :: ns)
    | none => let (d', ns) := setDefaults (dset d idx 1) (idx + 1) n; (d', 1 :: ns)

def maxKey (d : Dict) : Nat := (d.map (·.1)).foldl max 0

/-- `while idx in level_indexes: del level_indexes[idx]; idx += 1` (fuel: no key exceeds `maxKey`) -/
def delFrom : Dict → Nat → Nat → Dict
  | d, _, 0 => d
  | d, idx, fuel+1 => if (look d idx).isSome then delFrom (ddel d idx) (idx + 1) fuel else d

/-- `TOC._header_numbering(level_indexes, level)`: new dict and the list of numbers -/
def headerNumbering (d : Dict) (level : Nat) : Dict × List Nat :=
  let (d1, before) := setDefaults d 1 (level - 1)
  let index := (look d1 level).getD 0 + 1
  let d2 := dset d1 level index
  (delFrom d2 (level + 1) (maxKey d2 + 2), before ++ [index])

/-- `scripts/headers.py: header_numbering` — the same statements, transcribed separately -/
def headerNumberingTool (d : Dict) (level : Nat) : Dict × List Nat :=
  let (d1, before) := setDefaults d 1 (level - 1)
  let index := (look d1 level).getD 0 + 1
  let d2 := dset d1 level index
  (delFrom d2 (level + 1) (maxKey d2 + 2), before ++ [index])

/-- `fill`: the headings (level, text id) whose level does not exceed the outline level, each
    with its numbers; `outline_level or 10` -/
def fillEntries (outline : Nat) (levels : List Nat) : List (Nat × List Nat) :=
  let ol := if outline = 0 then 10 else outline
  let rec go (d : Dict) : List Nat → List (Nat × List Nat)
    | [] => []
    | l :: rest =>
      if l > ol then go d rest
      else let (d', ns) := headerNumbering d l; (l, ns) :: go d' rest
  go [] levels

/-! ### spec -/

/-- counters of levels 1..k; a heading of level L keeps the counters above it (missing ones
    start at 1), increments its own, and drops the deeper ones -/
def specStep (c : List Nat) (L : Nat) : List Nat :=
  let up := c.take (L - 1)
  up ++ List.replicate (L - 1 - up.length) 1 ++ [c.getD (L - 1) 0 + 1]

def specRun (ol : Nat) : List Nat → List Nat → List (Nat × List Nat)
  | _, [] => []
  | c, l :: rest => if l > ol then specRun ol c rest else (l, specStep c l) :: specRun ol (specStep c l) rest

end Odf.Toc
