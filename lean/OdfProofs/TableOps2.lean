import OdfProofs.TableOps

/-! Table-level refinement: set_row / insert_row / delete_row. -/
namespace Odf.Table
open Odf.Rle Odf.Grid

/-! ### grid lemmas -/

theorem padRows_le (rows : List (List Nat)) (n : Nat) (h : n ≤ rows.length) : padRows rows n = rows := by
  simp [padRows, Nat.sub_eq_zero_of_le h]

theorem padRows_length (rows : List (List Nat)) (n : Nat) (h : rows.length ≤ n) : (padRows rows n).length = n := by
  simp [padRows]; omega

theorem widen_noop (g : Grid) (w : Nat) (h : w ≤ g.ncols) : widen g w = g := by
  cases g with
  | mk nc rows => simp only [widen]; congr 1; simp at h; omega

theorem widen_widen (g : Grid) (w : Nat) : widen (widen g w) w = widen g w := by
  apply widen_noop; simp [widen]; omega

theorem appendRow_ncols (g : Grid) (row : List Nat) (r : Nat) (hr : 1 ≤ r) :
    (Grid.appendRow g row r).ncols = if max g.ncols row.length = 0 then 1 else max g.ncols row.length := by
  unfold Grid.appendRow
  by_cases h0 : max g.ncols row.length = 0
  · rw [declare_fire _ _ (by simp [widen, Grid.height]; omega) (by simpa [widen] using h0), if_pos h0]
  · rw [declare_noop _ _ (by simpa [widen] using h0), if_neg h0]
    rfl

theorem appendRow_ncols_ge (g : Grid) (row : List Nat) (r : Nat) (hr : 1 ≤ r) :
    row.length ≤ (Grid.appendRow g row r).ncols := by
  rw [appendRow_ncols g row r hr]; split <;> omega

theorem appendRow_ncols_pos (g : Grid) (row : List Nat) (r : Nat) (hr : 1 ≤ r) : 1 ≤ (Grid.appendRow g row r).ncols := by
  rw [appendRow_ncols g row r hr]; split <;> omega

theorem appendRow_rows (g : Grid) (row : List Nat) (r : Nat) :
    (Grid.appendRow g row r).rows = g.rows ++ List.replicate r row := by
  unfold Grid.appendRow declare
  split <;> simp [widen]

theorem grid_ext (a b : Grid) (h1 : a.ncols = b.ncols) (h2 : a.rows = b.rows) : a = b := by
  cases a; cases b; simp at h1 h2; simp [h1, h2]

theorem setRow_at_end (g : Grid) (row : List Nat) (r : Nat) :
    Grid.setRow g (Grid.height g) row r = Grid.appendRow g row r := by
  unfold Grid.setRow Grid.appendRow
  rw [padRows_le _ _ (by simp [Grid.height]), setSlice_at_end g.rows (Grid.height g) r row rfl]

theorem setRow_beyond (g : Grid) (y : Nat) (row : List Nat) (r : Nat) (hy : y > Grid.height g) (hr : 1 ≤ r) :
    Grid.setRow g y row r = Grid.appendRow (Grid.appendRow g [] (y - Grid.height g)) row r := by
  have hk : 1 ≤ y - Grid.height g := by omega
  have hp1 := appendRow_ncols_pos g [] (y - Grid.height g) hk
  have hr1 := appendRow_rows g [] (y - Grid.height g)
  apply grid_ext
  · -- columns
    rw [appendRow_ncols _ row r hr, appendRow_ncols g [] _ hk]
    unfold Grid.setRow
    have hlen : (padRows g.rows y).length = y := padRows_length _ _ (by simp [Grid.height] at hy; omega)
    rw [setSlice_at_end _ _ _ _ hlen]
    by_cases h0 : max g.ncols row.length = 0
    · rw [declare_fire _ _ (by simp [widen, Grid.height, hlen] at hy ⊢; omega) (by simpa [widen] using h0)]
      simp only [List.length_nil]
      split <;> split <;> omega
    · rw [declare_noop _ _ (by simpa [widen] using h0)]
      simp only [widen, List.length_nil]
      split <;> split <;> omega
  · unfold Grid.setRow
    have hlen : (padRows g.rows y).length = y := padRows_length _ _ (by simp [Grid.height] at hy; omega)
    rw [setSlice_at_end _ _ _ _ hlen, appendRow_rows, appendRow_rows]
    have : (declare (Grid.height g) (widen { g with rows := padRows g.rows y ++ List.replicate r row } row.length)).rows
        = padRows g.rows y ++ List.replicate r row := by
      unfold declare; split <;> simp [widen]
    rw [this]
    simp [padRows, Grid.height]

/-! ### payload membership through expansion -/

theorem mem_expand_of_mem {α} (v : Runs α) (hp : Pos v) (p : α × Nat) (h : p ∈ v) : p.1 ∈ expand v := by
  induction v with
  | nil => simp at h
  | cons hd tl ih =>
    obtain ⟨c, n⟩ := hd
    simp only [List.mem_cons] at h
    rcases h with rfl | h
    · have := hp (c, n) (by simp)
      simp only [expand_cons, List.mem_append, List.mem_replicate]
      simp only at this
      left; exact ⟨by omega, trivial⟩
    · simp only [expand_cons, List.mem_append]
      right; exact ih (fun q hq => hp q (by simp [hq])) h

theorem mem_of_mem_expand {α} (v : Runs α) (x : α) (h : x ∈ expand v) : ∃ q ∈ v, q.1 = x := by
  induction v with
  | nil => simp at h
  | cons hd tl ih =>
    obtain ⟨c, n⟩ := hd
    simp only [expand_cons, List.mem_append, List.mem_replicate] at h
    rcases h with ⟨_, rfl⟩ | h
    · exact ⟨(x, n), by simp, rfl⟩
    · obtain ⟨q, hq, e⟩ := ih h
      exact ⟨q, by simp [hq], e⟩

/-- payloads after an edit whose expansion is made of old items and copies of `x` -/
theorem cells_after {v v' : Runs RowD} (hv' : Pos v') (x : RowD) (hx : Pos x)
    (hcells : ∀ p ∈ v, Pos p.1)
    (hsub : ∀ d ∈ expand v', d = x ∨ d ∈ expand v) : ∀ p ∈ v', Pos p.1 := by
  intro p hp
  have := mem_expand_of_mem v' hv' p hp
  rcases hsub _ this with e | e
  · rw [e]; exact hx
  · obtain ⟨q, hq, e2⟩ := mem_of_mem_expand v _ e
    rw [← e2]; exact hcells q hq

end Odf.Table
