import OdfProofs.TableRow

/-! Table-level refinement: rows. -/
namespace Odf.Table
open Odf.Rle Odf.Grid

/-- coherence invariant of the model state: both position maps are what a fresh parse would
    compute, every repeat is at least one, and a table that has rows has columns -/
structure Inv (t : Tbl) : Prop where
  cols : MapOk t.cols
  rows : MapOk t.rows
  cells : ∀ p ∈ t.rows.runs, Pos p.1
  declared : t.rows.runs ≠ [] → t.cols.runs ≠ []

theorem width_ok (t : Tbl) (h : Inv t) : width t = (absT t).ncols := by
  simp [width, size_ok _ h.cols, absT]

theorem height_ok (t : Tbl) (h : Inv t) : height t = Grid.height (absT t) := by
  simp [height, size_ok _ h.rows, absT, Grid.height, expand_length]

theorem colRep_pos (k : Nat) (h : 1 ≤ k) : colRep k = k := by
  unfold colRep; split <;> omega

theorem total_pos_of_ne_nil {α} (v : Runs α) (hp : Pos v) (hne : v ≠ []) : 1 ≤ total v := by
  cases v with
  | nil => exact absurd rfl hne
  | cons hd tl =>
    obtain ⟨c, n⟩ := hd
    have := hp (c, n) (by simp)
    simp at this ⊢
    omega

theorem total_zero_iff {α} (v : Runs α) (hp : Pos v) : total v = 0 ↔ v = [] := by
  constructor
  · intro h
    cases v with
    | nil => rfl
    | cons hd tl =>
      have := total_pos_of_ne_nil (hd :: tl) hp (by simp)
      omega
  · intro h; subst h; rfl

theorem declare_noop (hB : Nat) (g : Grid) (h : g.ncols ≠ 0) : declare hB g = g := by
  unfold declare
  rw [if_neg (fun hh => h hh.2)]

theorem declare_fire (hB : Nat) (g : Grid) (h1 : g.rows.length > hB) (h2 : g.ncols = 0) :
    declare hB g = { g with ncols := 1 } := by
  unfold declare
  rw [if_pos ⟨h1, h2⟩]

/-- `append_column` -/
theorem appendColumn_ok (t : Tbl) (h : Inv t) (k : Nat) (hk : 1 ≤ k) :
    Inv (appendColumn t k k) ∧ absT (appendColumn t k k) = { absT t with ncols := (absT t).ncols + k } := by
  have := appendItem_ok t.cols h.cols 0 k hk
  have hc : (appendColumn t k k).cols = appendItem t.cols 0 k := rfl
  refine ⟨⟨by rw [hc]; exact this.1, h.rows, h.cells, ?_⟩, ?_⟩
  · intro _
    show t.cols.runs ++ [(0, k)] ≠ []
    simp
  · simp [absT, appendColumn, total_append]

/-- `_update_width(row)` widens the column list to the row -/
theorem updateWidth_ok (t : Tbl) (h : Inv t) (rw : Nat) :
    Inv (updateWidth t rw) ∧ absT (updateWidth t rw) = widen (absT t) rw := by
  unfold updateWidth
  have hw := width_ok t h
  split
  · rename_i hgt
    rw [colRep_pos _ (by omega)]
    obtain ⟨i, e⟩ := appendColumn_ok t h (rw - width t) (by omega)
    refine ⟨i, ?_⟩
    rw [e]
    simp only [widen]
    congr 1
    omega
  · rename_i hle
    refine ⟨h, ?_⟩
    simp only [widen]
    have : max (absT t).ncols rw = (absT t).ncols := by omega
    rw [this]

theorem expand_rows_append (runs : Runs RowD) (d : RowD) (r : Nat) :
    (expand (runs ++ [(d, r)])).map expand = (expand runs).map expand ++ List.replicate r (expand d) := by
  simp [expand_append]

/-- `append_row(row)` -/
theorem appendRow_ok (t : Tbl) (h : Inv t) (d : RowD) (r : Nat) (hd : Pos d) (hr : 1 ≤ r) :
    Inv (appendRow t d r r) ∧ absT (appendRow t d r r) = Grid.appendRow (absT t) (expand d) r := by
  have happ := appendItem_ok t.rows h.rows d r hr
  have hrw : rowWidth (rowObj d) = (expand d).length := rowWidth_ok _ (rowObj_ok d hd)
  have hcells : ∀ p ∈ t.rows.runs ++ [(d, r)], Pos p.1 := by
    intro p hp
    rcases List.mem_append.1 hp with hp | hp
    · exact h.cells p hp
    · simp at hp; subst hp; exact hd
  have hrowsPos : Pos (t.rows.runs ++ [(d, r)]) :=
    Pos.append h.rows.2 (by intro p hp; simp at hp; subst hp; simpa using hr)
  have hlen : (expand t.rows.runs).length < (expand t.rows.runs).length + r := by omega
  have key : appendRow t d r r =
      updateWidth (if t.cols.runs = [] then
          { cols := fresh [(0, colRep (rowWidth (rowObj d)))], rows := fresh (t.rows.runs ++ [(d, r)]) }
        else { t with rows := appendItem t.rows d r }) (rowWidth (rowObj d)) := rfl
  rw [key]
  by_cases hc : t.cols.runs = []
  · -- first row of a table without columns: the columns are declared
    have hr0 : t.rows.runs = [] := by
      cases hrr : t.rows.runs with
      | nil => rfl
      | cons hd tl => exact absurd hc (h.declared (by rw [hrr]; simp))
    rw [if_pos hc]
    have hcr : 1 ≤ colRep (rowWidth (rowObj d)) := by unfold colRep; split <;> omega
    have hcr2 : rowWidth (rowObj d) ≤ colRep (rowWidth (rowObj d)) := by unfold colRep; split <;> omega
    have hinv : Inv { cols := fresh [(0, colRep (rowWidth (rowObj d)))], rows := fresh (t.rows.runs ++ [(d, r)]) } :=
      ⟨MapOk.fresh _ (by intro p hp; simp at hp; subst hp; simpa using hcr), MapOk.fresh _ hrowsPos, hcells,
        by intro _; simp [fresh]⟩
    have hwid : width { cols := fresh [(0, colRep (rowWidth (rowObj d)))], rows := fresh (t.rows.runs ++ [(d, r)]) }
        = colRep (rowWidth (rowObj d)) := by
      rw [width_ok _ hinv]; simp [absT, fresh]
    have hno : updateWidth { cols := fresh [(0, colRep (rowWidth (rowObj d)))], rows := fresh (t.rows.runs ++ [(d, r)]) }
        (rowWidth (rowObj d)) = { cols := fresh [(0, colRep (rowWidth (rowObj d)))], rows := fresh (t.rows.runs ++ [(d, r)]) } := by
      unfold updateWidth
      rw [if_neg (by rw [hwid]; omega)]
    rw [hno]
    refine ⟨hinv, ?_⟩
    unfold Grid.appendRow
    by_cases hz : (expand d).length = 0
    · rw [declare_fire _ _ (by simp [absT, widen, Grid.height, hr0]; omega) (by simp [absT, widen, hc, hz])]
      simp [absT, widen, fresh, hr0, hrw, hz, colRep, expand_append]
    · rw [declare_noop _ _ (by simp only [absT, widen]; omega)]
      have : colRep (expand d).length = (expand d).length := colRep_pos _ (by omega)
      simp [absT, widen, fresh, hr0, hc, hrw, this, expand_append]
  · rw [if_neg hc]
    have hinv1 : Inv { t with rows := appendItem t.rows d r } :=
      ⟨h.cols, happ.1, hcells, fun _ => hc⟩
    obtain ⟨i, e⟩ := updateWidth_ok _ hinv1 (rowWidth (rowObj d))
    refine ⟨i, ?_⟩
    rw [e]
    have hn : 1 ≤ total t.cols.runs := total_pos_of_ne_nil _ h.cols.2 hc
    unfold Grid.appendRow
    rw [declare_noop _ _ (by simp only [widen, absT]; omega)]
    simp [absT, widen, appendItem, expand_append, hrw]

end Odf.Table
