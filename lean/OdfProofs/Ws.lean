import OdfModel.Para.Ws

/-!
Helper lemmas for C05.  The central device: a paragraph's *atoms* — its characters and
white-space / inline elements in document order, forgetting where one text node ends and the
next begins.  `innerText` and the consumer `collapse` are functions of the atoms only, and
each stage of `append_plain_text` has a simple description on atoms.
-/
namespace Odf.Ws

inductive Atom where
  | c (ch : Char)
  | sp (n : Nat)
  | tab
  | lb
  | el (id : Nat) (txt : List Char)
deriving DecidableEq, Repr

def Item.atoms : Item → List Atom
  | .str cs => cs.map .c
  | .s n => [.sp n]
  | .tab => [.tab]
  | .lb => [.lb]
  | .el i t => [.el i t]

def atoms (l : List Item) : List Atom := l.flatMap Item.atoms

def Atom.text : Atom → List Char
  | .c ch => [ch]
  | .sp n => List.replicate n ' '
  | .tab => ['\t']
  | .lb => ['\n']
  | .el _ t => t

def atomsText (a : List Atom) : List Char := a.flatMap Atom.text

@[simp] theorem atoms_nil : atoms [] = [] := rfl
@[simp] theorem atoms_cons (i : Item) (l : List Item) : atoms (i :: l) = i.atoms ++ atoms l := by
  simp [atoms]
@[simp] theorem atoms_append (a b : List Item) : atoms (a ++ b) = atoms a ++ atoms b := by
  simp [atoms]
@[simp] theorem atomsText_nil : atomsText [] = [] := rfl
@[simp] theorem atomsText_cons (a : Atom) (l : List Atom) : atomsText (a :: l) = a.text ++ atomsText l := by
  simp [atomsText]
@[simp] theorem atomsText_append (a b : List Atom) : atomsText (a ++ b) = atomsText a ++ atomsText b := by
  simp [atomsText]

theorem atomsText_map_c (cs : List Char) : atomsText (cs.map .c) = cs := by
  induction cs with
  | nil => rfl
  | cons a t ih => simp [Atom.text, ih]

theorem item_text_atoms (i : Item) : atomsText i.atoms = i.text := by
  cases i <;> simp [Item.atoms, Item.text, Atom.text, atomsText_map_c]

theorem innerText_eq (l : List Item) : innerText l = atomsText (atoms l) := by
  induction l with
  | nil => rfl
  | cons i t ih =>
    simp only [innerText, List.flatMap_cons] at ih ⊢
    rw [ih, atoms_cons, atomsText_append, item_text_atoms]

/-! ### the consumer on atoms -/

def consume : List Atom → Bool → List Char → Bool × List Char
  | [], ign, out => (ign, out)
  | .c ch :: r, ign, out =>
    if isWs ch then (if ign then consume r true out else consume r true (' ' :: out))
    else consume r false (ch :: out)
  | .el _ t :: r, ign, out =>
    let (i', o') := collapseChars t ign out
    consume r i' o'
  | a :: r, _, out => consume r false (a.text.reverse ++ out)

theorem consume_chars (cs : List Char) (r : List Atom) (ign : Bool) (out : List Char) :
    consume (cs.map .c ++ r) ign out =
      consume r (collapseChars cs ign out).1 (collapseChars cs ign out).2 := by
  induction cs generalizing ign out with
  | nil => simp [collapseChars]
  | cons a t ih =>
    simp only [List.map_cons, List.cons_append, consume, collapseChars]
    split
    · split <;> exact ih _ _
    · exact ih _ _

theorem collapseItems_eq (l : List Item) (ign : Bool) (out : List Char) :
    collapseItems l ign out = consume (atoms l) ign out := by
  induction l generalizing ign out with
  | nil => rfl
  | cons i t ih =>
    cases i with
    | str cs =>
      simp only [collapseItems, atoms_cons, Item.atoms]
      rw [consume_chars, ih]
    | s n => simp only [collapseItems, atoms_cons, Item.atoms, List.singleton_append, consume, Item.text, Atom.text]; exact ih _ _
    | tab => simp only [collapseItems, atoms_cons, Item.atoms, List.singleton_append, consume, Item.text, Atom.text]; exact ih _ _
    | lb => simp only [collapseItems, atoms_cons, Item.atoms, List.singleton_append, consume, Item.text, Atom.text]; exact ih _ _
    | el id txt =>
      simp only [collapseItems, atoms_cons, Item.atoms, List.singleton_append, consume]
      exact ih _ _

/-! ### stage 1: `_expand_spaces` -/

def atomsR (acc : List Item) : List Atom := atoms acc.reverse

theorem atomsR_cons (i : Item) (acc : List Item) : atomsR (i :: acc) = atomsR acc ++ i.atoms := by
  simp [atomsR]

theorem atomsR_mergeText (acc : List Item) (txt : List Char) :
    atomsR (mergeText acc txt) = atomsR acc ++ txt.map .c := by
  unfold mergeText
  split
  · rename_i c t
    simp [atomsR_cons, Item.atoms]
  · simp [atomsR_cons, Item.atoms]

/-- `text:s` turned back into plain spaces -/
def unspace : Atom → List Atom
  | .sp n => List.replicate n (.c ' ')
  | a => [a]

theorem flatMap_unspace_c (cs : List Char) : (cs.map Atom.c).flatMap unspace = cs.map .c := by
  induction cs with
  | nil => rfl
  | cons a t ih =>
    simp only [List.map_cons, List.flatMap_cons, ih]
    rfl

theorem atomsR_expandStep (acc : List Item) (i : Item) :
    atomsR (expandStep acc i) = atomsR acc ++ i.atoms.flatMap unspace := by
  cases i with
  | str cs =>
    simp only [expandStep, atomsR_mergeText, Item.atoms, flatMap_unspace_c]
  | s n => simp [expandStep, atomsR_mergeText, Item.atoms, unspace]
  | tab => simp [expandStep, atomsR_cons, Item.atoms, unspace]
  | lb => simp [expandStep, atomsR_cons, Item.atoms, unspace]
  | el id t => simp [expandStep, atomsR_cons, Item.atoms, unspace]

theorem atomsR_foldl_expand (p : List Item) (acc : List Item) :
    atomsR (p.foldl expandStep acc) = atomsR acc ++ (atoms p).flatMap unspace := by
  induction p generalizing acc with
  | nil => simp
  | cons i t ih =>
    simp only [List.foldl_cons, ih, atomsR_expandStep, atoms_cons, List.flatMap_append, List.append_assoc]

theorem atoms_expandSpaces (p : List Item) (added : List Char) :
    atoms (expandSpaces p added) = (atoms p).flatMap unspace ++ added.map .c := by
  unfold expandSpaces
  have := atomsR_mergeText (p.foldl expandStep []) added
  unfold atomsR at this
  rw [this]
  have h2 := atomsR_foldl_expand p []
  unfold atomsR at h2
  rw [h2]
  simp

theorem unspace_text (a : List Atom) : atomsText (a.flatMap unspace) = atomsText a := by
  induction a with
  | nil => rfl
  | cons x t ih =>
    simp only [List.flatMap_cons, atomsText_append, ih, atomsText_cons]
    congr 1
    cases x <;> simp [unspace, Atom.text]
    rename_i n
    induction n with
    | zero => rfl
    | succ k ih2 => simp [List.replicate_succ, Atom.text, ih2]

/-! ### stage 2: `_sub_merge_spaces` -/

def spA (n : Nat) : Atom := .sp (if n < 2 then 1 else n)

/-- atoms produced by `content[1:]` -/
def restAtoms : List (Bool × List Char) → List Atom
  | [] => []
  | [(b, g)] => if b then [spA g.length] else g.map .c
  | (b, g) :: rest =>
    if b ∧ g.length > 1 then .c ' ' :: spA (g.length - 1) :: restAtoms rest
    else g.map .c ++ restAtoms rest

def groupAtoms : List (Bool × List Char) → List Atom
  | [] => []
  | (b, g) :: rest => (if b then [spA g.length] else g.map .c) ++ restAtoms rest

theorem atomsR_mergeRest (rest : List (Bool × List Char)) (acc : List Item) :
    atomsR (mergeRest rest acc) = atomsR acc ++ restAtoms rest := by
  induction rest generalizing acc with
  | nil => simp [mergeRest, restAtoms]
  | cons hd tl ih =>
    obtain ⟨b, g⟩ := hd
    cases tl with
    | nil =>
      simp only [mergeRest, restAtoms]
      split
      · simp [atomsR_cons, spacer, spA, Item.atoms]
      · exact atomsR_mergeText acc g
    | cons hd2 tl2 =>
      simp only [mergeRest, restAtoms]
      split
      · rw [ih, atomsR_cons, atomsR_mergeText]
        simp [spacer, spA, Item.atoms]
      · rw [ih, atomsR_mergeText]
        simp

theorem atoms_subMergeSpaces (text : List Char) :
    atoms (subMergeSpaces text) = groupAtoms (groups text) := by
  unfold subMergeSpaces
  split
  · rename_i h; rw [h]; rfl
  · rename_i b g rest h
    rw [h]
    have := atomsR_mergeRest rest [if b then spacer g.length else .str g]
    unfold atomsR at this
    rw [this]
    simp only [groupAtoms, List.reverse_cons, List.reverse_nil, List.nil_append, atoms_cons, atoms_nil,
      List.append_nil]
    congr 1
    split <;> simp [Item.atoms, spacer, spA]

/-! ### stage 3: `_sub_replace_tabs_lb` -/

def tabifyC (ch : Char) : Atom := if ch = '\n' then .lb else if ch = '\t' then .tab else .c ch

def tabifyA : Atom → Atom
  | .c ch => tabifyC ch
  | a => a

theorem atoms_splitTabs (cs cur : List Char) (hcur : ∀ c ∈ cur, c ≠ '\n' ∧ c ≠ '\t') :
    atoms (splitTabs cs cur) = (cur.reverse ++ cs).map tabifyC := by
  have hcurmap : ∀ (l : List Char), (∀ c ∈ l, c ≠ '\n' ∧ c ≠ '\t') → l.map Atom.c = l.map tabifyC := by
    intro l hl
    apply List.map_congr_left
    intro c hc
    simp [tabifyC, (hl c hc).1, (hl c hc).2]
  have hrev : ∀ c ∈ cur.reverse, c ≠ '\n' ∧ c ≠ '\t' := by
    intro c hc; exact hcur c (by simpa using hc)
  induction cs generalizing cur with
  | nil =>
    simp only [splitTabs, List.append_nil]
    split
    · subst_vars; rfl
    · simp [Item.atoms, hcurmap _ hrev]
  | cons a t ih =>
    simp only [splitTabs]
    split
    · subst_vars
      have := ih [] (by simp)
      simp only [List.reverse_nil, List.nil_append] at this
      split
      · subst_vars; simp [Item.atoms, this, tabifyC]
      · simp [Item.atoms, this, tabifyC, hcurmap _ hrev]
    · split
      · subst_vars
        have := ih [] (by simp)
        simp only [List.reverse_nil, List.nil_append] at this
        split
        · subst_vars; simp [Item.atoms, this, tabifyC]
        · simp [Item.atoms, this, tabifyC, hcurmap _ hrev]
      · rename_i h1 h2
        rw [ih (a :: cur) (by
          intro c hc
          simp only [List.mem_cons] at hc
          rcases hc with rfl | hc
          · exact ⟨h1, h2⟩
          · exact hcur c hc) (by
          intro c hc
          simp only [List.reverse_cons, List.mem_append, List.mem_reverse, List.mem_singleton] at hc
          rcases hc with hc | rfl
          · exact hcur c hc
          · exact ⟨h1, h2⟩)]
        simp

theorem atoms_replaceTabsLb (l : List Item) : atoms (replaceTabsLb l) = (atoms l).map tabifyA := by
  induction l with
  | nil => rfl
  | cons i t ih =>
    simp only [replaceTabsLb, List.flatMap_cons] at ih ⊢
    rw [atoms_append, ih, atoms_cons, List.map_append]
    congr 1
    cases i with
    | str cs =>
      simp only [subReplaceTabsLb, Item.atoms]
      rw [atoms_splitTabs cs [] (by simp)]
      simp [tabifyA, Function.comp_def]
    | s n => simp [Item.atoms, tabifyA]
    | tab => simp [Item.atoms, tabifyA]
    | lb => simp [Item.atoms, tabifyA]
    | el id tx => simp [Item.atoms, tabifyA]

theorem tabifyA_text (a : Atom) : (tabifyA a).text = a.text := by
  cases a with
  | c ch =>
    simp only [tabifyA, tabifyC]
    split
    · subst_vars; rfl
    · split
      · subst_vars; rfl
      · rfl
  | _ => rfl

theorem atomsText_map_tabifyA (a : List Atom) : atomsText (a.map tabifyA) = atomsText a := by
  induction a with
  | nil => rfl
  | cons x t ih => simp [ih, tabifyA_text]

end Odf.Ws
