import OdfProofs.Markup2

/-! Moving the end tag of a range keeps every character (C09, after fix C09-F6). -/
namespace Odf.Markup

theorem raw_host (h s : Bool) (t : Tok) : (t.host h s).raw = t.raw := by
  cases t with
  | txt h' s' cs => rfl
  | op k l h' =>
    simp only [Tok.host]
    unfold Tok.raw
    split <;> simp_all
  | cl => rfl

theorem rawAll_map_host (h s : Bool) (el : Toks) : rawAll (el.map (Tok.host h s)) = rawAll el := by
  induction el with
  | nil => rfl
  | cons t rest ih => simp [raw_host, ih]

theorem rawAll_txtOpt (h s : Bool) (cs : List Char) : rawAll (txtOpt h s cs) = cs := by
  unfold txtOpt
  split
  · rename_i hc; subst hc; rfl
  · simp [Tok.raw]

theorem rawAll_splitInsert (h s : Bool) (cs : List Char) (pos : Nat) (el : Toks) (he : rawAll el = []) :
    rawAll (splitInsert h s cs pos el) = cs := by
  unfold splitInsert
  rw [rawAll_append, rawAll_append, rawAll_txtOpt, rawAll_map_host, he]
  simp [Tok.raw]

/-- an insertion by position adds no character and loses none -/
theorem rawAll_insertPos (el : Toks) (he : rawAll el = []) (p : Nat) (ts : Toks) (count : Nat) (ts' : Toks)
    (h : insertPos el p ts count = some ts') : rawAll ts' = rawAll ts := by
  induction ts generalizing count ts' with
  | nil => simp [insertPos] at h
  | cons t rest ih =>
    cases t with
    | txt hh s cs =>
      simp only [insertPos] at h
      split at h
      · cases hr : insertPos el p rest count with
        | none => simp [hr] at h
        | some r =>
          simp only [hr, Option.map_some, Option.some.injEq] at h
          subst h
          simp [ih count r hr]
      · split at h
        · cases h
          rw [rawAll_append, rawAll_splitInsert _ _ _ _ _ he]
          simp [Tok.raw]
        · cases hr : insertPos el p rest (count + cs.length) with
          | none => simp [hr] at h
          | some r =>
            simp only [hr, Option.map_some, Option.some.injEq] at h
            subst h
            simp [ih _ r hr]
    | op k l hh =>
      simp only [insertPos] at h
      cases hr : insertPos el p rest count with
      | none => simp [hr] at h
      | some r =>
        simp only [hr, Option.map_some, Option.some.injEq] at h
        subst h
        simp [ih count r hr]
    | cl =>
      simp only [insertPos] at h
      cases hr : insertPos el p rest count with
      | none => simp [hr] at h
      | some r =>
        simp only [hr, Option.map_some, Option.some.injEq] at h
        subst h
        simp [ih count r hr]

/-- rewriting one main text node by a function that keeps its characters keeps every character -/
theorem rawAll_onMainNode (f : Bool → Bool → List Char → Toks) (hf : ∀ h s cs, rawAll (f h s cs) = cs) (ts : Toks) (idx : Nat) (ts' : Toks)
    (h : onMainNode f ts idx = some ts') : rawAll ts' = rawAll ts := by
  induction ts generalizing idx ts' with
  | nil => simp [onMainNode] at h
  | cons t rest ih =>
    cases t with
    | txt hh s cs =>
      simp only [onMainNode] at h
      split at h
      · cases hr : onMainNode f rest idx with
        | none => simp [hr] at h
        | some r =>
          simp only [hr, Option.map_some, Option.some.injEq] at h
          subst h
          simp [ih idx r hr]
      · cases idx with
        | zero =>
          simp only at h
          cases h
          rw [rawAll_append, hf]
          simp [Tok.raw]
        | succ i =>
          simp only at h
          cases hr : onMainNode f rest i with
          | none => simp [hr] at h
          | some r =>
            simp only [hr, Option.map_some, Option.some.injEq] at h
            subst h
            simp [ih i r hr]
    | op k l hh =>
      simp only [onMainNode] at h
      cases hr : onMainNode f rest idx with
      | none => simp [hr] at h
      | some r =>
        simp only [hr, Option.map_some, Option.some.injEq] at h
        subst h
        simp [ih idx r hr]
    | cl =>
      simp only [onMainNode] at h
      cases hr : onMainNode f rest idx with
      | none => simp [hr] at h
      | some r =>
        simp only [hr, Option.map_some, Option.some.injEq] at h
        subst h
        simp [ih idx r hr]

/-- an insertion before / after a match — of ANY matcher — adds no character and loses none -/
theorem rawAll_insertRe (el : Toks) (he : rawAll el = []) (before : Bool) (position : Int) (spans : List (List (Nat × Nat)))
    (ts ts' : Toks) (h : insertRe el before position spans ts = some ts') : rawAll ts' = rawAll ts := by
  unfold insertRe at h
  cases hs : search position spans with
  | none => simp [hs] at h
  | some r =>
    obtain ⟨idx, a, b⟩ := r
    simp only [hs] at h
    exact rawAll_onMainNode _ (fun hh s cs => rawAll_splitInsert hh s cs _ el he) ts idx ts' h

theorem rawAll_relabelOp (k l' l : Nat) (hk : k ≠ 1 ∧ k ≠ 2 ∧ k ≠ 3) (ts : Toks) : rawAll (relabelOp k l' l ts) = rawAll ts := by
  unfold relabelOp
  induction ts with
  | nil => rfl
  | cons t rest ih =>
    simp only [List.map_cons, rawAll_cons, ih]
    congr 1
    cases t with
    | txt h s cs => rfl
    | cl => rfl
    | op k2 l2 h =>
      simp only
      split
      · rename_i hc
        obtain ⟨rfl, rfl⟩ := hc
        obtain ⟨h1, h2, h3⟩ := hk
        unfold Tok.raw
        split <;> simp_all
      · rfl

/-- deleting an element that holds no character (an end tag) keeps every character -/
theorem rawAll_deleteAt_empty (ts : Toks) (i : Nat) (he : rawAll (takeElem (ts.drop i) 0).1 = []) :
    rawAll (deleteAt ts i) = rawAll ts := by
  have h1 : rawAll (deleteAt ts i) = rawAll (ts.take i) ++ rawAll (takeElem (ts.drop i) 0).2 := by
    unfold deleteAt; rw [rawAll_joinToks]
  have h2 : rawAll ts = rawAll (ts.take i) ++ (rawAll (takeElem (ts.drop i) 0).1 ++ rawAll (takeElem (ts.drop i) 0).2) := by
    rw [rawAll_takeElem, ← rawAll_append, List.take_append_drop]
  rw [h1, h2, he]
  simp

/-- the element found by `findOp` starts with that start tag -/
theorem findOp_spec (k l : Nat) (ts : Toks) (base i : Nat) (h : findOp k l ts base = some i) :
    base ≤ i ∧ ∃ hh, ts[i - base]? = some (.op k l hh) := by
  induction ts generalizing base with
  | nil => simp [findOp] at h
  | cons t rest ih =>
    cases t with
    | op k' l' hh =>
      simp only [findOp] at h
      split at h
      · rename_i hc
        obtain ⟨rfl, rfl⟩ := hc
        cases h
        exact ⟨Nat.le_refl _, hh, by simp⟩
      · obtain ⟨hb, h2, e⟩ := ih (base + 1) h
        refine ⟨by omega, h2, ?_⟩
        have : i - base = (i - (base + 1)) + 1 := by omega
        rw [this, List.getElem?_cons_succ]
        exact e
    | txt a b c =>
      simp only [findOp] at h
      obtain ⟨hb, h2, e⟩ := ih (base + 1) h
      refine ⟨by omega, h2, ?_⟩
      have : i - base = (i - (base + 1)) + 1 := by omega
      rw [this, List.getElem?_cons_succ]
      exact e
    | cl =>
      simp only [findOp] at h
      obtain ⟨hb, h2, e⟩ := ih (base + 1) h
      refine ⟨by omega, h2, ?_⟩
      have : i - base = (i - (base + 1)) + 1 := by omega
      rw [this, List.getElem?_cons_succ]
      exact e

/-- **moving the end tag keeps every character**, for every way `ins` of inserting the new tag that keeps every character,
    provided the former end tag is an empty element (which an end tag is) -/
theorem rawAll_moveEnd (k lab tmp : Nat) (hk : k ≠ 1 ∧ k ≠ 2 ∧ k ≠ 3) (ins : Toks → Option Toks) (ts ts2 : Toks)
    (hins : ∀ r, ins ts = some r → rawAll r = rawAll ts)
    (hempty : ∀ r i, ins ts = some r → findOp k lab r 0 = some i → rawAll (takeElem (r.drop i) 0).1 = [])
    (h : moveEnd k lab tmp ins ts = some ts2) : rawAll ts2 = rawAll ts := by
  unfold moveEnd at h
  cases hr : ins ts with
  | none => simp [hr] at h
  | some r =>
    simp only [hr, Option.map_some, Option.some.injEq] at h
    subst h
    rw [rawAll_relabelOp k tmp lab hk]
    cases hf : findOp k lab r 0 with
    | none => exact hins r hr
    | some i =>
      simp only
      rw [rawAll_deleteAt_empty r i (hempty r i hr hf)]
      exact hins r hr

end Odf.Markup
