import OdfProofs.TableOps6

/-! Bulk setters (`set_cells`, `set_values`): the row methods `Row.set_cells` / `Row.set_values`
    refine `lineF`, and the line-by-line loop of the table refines the loop of the grid. -/
namespace Odf.Table
open Odf.Rle Odf.Grid

/-- one step of `lineF` -/
def lineStep (acc : List Nat × Nat) (c : Nat × Nat) : List Nat × Nat :=
  (setSlice (padRow acc.1 acc.2) acc.2 c.2 c.1, acc.2 + c.2)

theorem lineF_eq (line : List (Nat × Nat)) (xn : Nat) (r : List Nat) : lineF line xn r = (line.foldl lineStep (r, xn)).1 := rfl

/-- the loop of `Row.set_cells`, with the running column -/
def cellsLoop (cells : List (Nat × Nat)) (acc : Option (RowObj × Nat)) : Option (RowObj × Nat) :=
  cells.foldl (fun (acc : Option (RowObj × Nat)) (c : Nat × Nat) =>
    acc.bind (fun (ro, x) => (rowSetCell ro x c.1 c.2).map (fun ro' => (ro', x + c.2)))) acc

theorem cellsLoop_ok (cells : List (Nat × Nat)) (hpos : ∀ c ∈ cells, 1 ≤ c.2) (ro : RowObj) (h : MapOk ro) (x : Nat) :
    ∃ ro', cellsLoop cells (some (ro, x)) = some (ro', (cells.foldl lineStep (expand ro.runs, x)).2) ∧ MapOk ro' ∧
      expand ro'.runs = (cells.foldl lineStep (expand ro.runs, x)).1 := by
  induction cells generalizing ro x with
  | nil => exact ⟨ro, rfl, h, rfl⟩
  | cons c rest ih =>
    obtain ⟨r1, e1, m1, ex1⟩ := rowSetCell_ok ro h x c.1 c.2 (hpos c (by simp))
    obtain ⟨r2, e2, m2, ex2⟩ := ih (fun d hd => hpos d (by simp [hd])) r1 m1 (x + c.2)
    refine ⟨r2, ?_, m2, ?_⟩
    · simp only [cellsLoop, List.foldl_cons, Option.bind_some, e1, Option.map_some]
      simp only [cellsLoop] at e2
      rw [e2]
      simp only [lineStep, ex1]
    · rw [ex2]
      simp only [List.foldl_cons, lineStep, ex1]

/-- **`Row.set_cells(cells, start)`** refines the slice assignments of `lineF` -/
theorem rowSetCells_spec (line : List (Nat × Nat)) (xn : Nat) (hpos : ∀ c ∈ line, 1 ≤ c.2) :
    RowSpec (fun ro => rowSetCells ro line xn) (lineF line xn) := by
  intro ro h
  obtain ⟨ro', e, m, ex⟩ := cellsLoop_ok line hpos ro h xn
  refine ⟨ro', ?_, m, ex⟩
  show (cellsLoop line (some (ro, xn))).map (·.1) = some ro'
  rw [e]; rfl

/-- the loop of `Row.set_values` is the loop of `Row.set_cells` on unit cells -/
theorem valuesLoop_eq (vals : List Nat) (acc : Option (RowObj × Nat)) :
    vals.foldl (fun (acc : Option (RowObj × Nat)) v =>
      acc.bind (fun (ro, x) => (rowSetCell ro x v 1).map (fun ro' => (ro', x + 1)))) acc =
    cellsLoop (vals.map (fun v => (v, 1))) acc := by
  induction vals generalizing acc with
  | nil => rfl
  | cons v rest ih => simp only [List.foldl_cons, List.map_cons, cellsLoop]; exact ih _

/-- writing unit cells from column 0 over a row that is not longer than the values gives the values -/
theorem lineStep_cover (vals : List Nat) (done : List Nat) (r : List Nat) (h : r.length ≤ done.length + vals.length) :
    ((vals.map (fun v => (v, 1))).foldl lineStep (done ++ r.drop done.length, done.length)).1 = done ++ vals ∨
    r.length > done.length + vals.length := by
  left
  induction vals generalizing done with
  | nil =>
    simp only [List.map_nil, List.foldl_nil, List.append_nil]
    rw [List.drop_of_length_le (by simpa using h)]
    simp
  | cons v rest ih =>
    simp only [List.map_cons, List.foldl_cons, lineStep]
    have hcur : setSlice (padRow (done ++ r.drop done.length) done.length) done.length 1 v =
        (done ++ [v]) ++ r.drop (done ++ [v]).length := by
      have hp : padRow (done ++ r.drop done.length) done.length = done ++ r.drop done.length := by
        apply padRow_le; simp
      rw [hp]
      unfold setSlice
      have hd : List.drop (done.length + 1) (done ++ List.drop done.length r) = List.drop (done.length + 1) r := by
        rw [List.drop_append, List.drop_of_length_le (by omega), List.nil_append, List.drop_drop]
        congr 1
        omega
      have ht : List.take done.length (done ++ List.drop done.length r) = done := by
        rw [List.take_append_of_le_length (by omega), List.take_of_length_le (by omega)]
      rw [ht, hd]
      simp
    rw [hcur]
    have hlen : (done ++ [v]).length = done.length + 1 := by simp
    have := ih (done ++ [v]) (by rw [hlen]; simp only [List.length_cons] at h; omega)
    rw [hlen] at this ⊢
    rw [this]
    simp

theorem lineF_cover (vals : List Nat) (r : List Nat) (h : r.length ≤ vals.length) :
    lineF (vals.map (fun v => (v, 1))) 0 r = vals := by
  have := lineStep_cover vals [] r (by simpa using h)
  rcases this with h1 | h1
  · simpa [lineF_eq] using h1
  · simp at h1; omega

theorem expand_units (vals : List Nat) : expand (vals.map (fun v => (v, 1))) = vals := by
  induction vals with
  | nil => rfl
  | cons v rest ih => simp [expand, ih]

/-- **`Row.set_values(values, start)`**: also through its fast path (`clear()` + `extend_cells`) -/
theorem rowSetValues_spec (vals : List Nat) (xn : Nat) :
    RowSpec (fun ro => rowSetValues ro vals xn) (lineF (vals.map (fun v => (v, 1))) xn) := by
  intro ro h
  show ∃ ro', rowSetValues ro vals xn = some ro' ∧ MapOk ro' ∧
    expand ro'.runs = lineF (vals.map (fun v => (v, 1))) xn (expand ro.runs)
  unfold rowSetValues
  by_cases hfast : xn = 0 ∧ vals.length ≥ rowWidth ro
  · rw [if_pos hfast]
    obtain ⟨hx, hl⟩ := hfast
    subst hx
    have hpos : Pos (vals.map (fun v => (v, 1))) := by
      intro p hp
      obtain ⟨v, _, rfl⟩ := List.mem_map.1 hp
      exact Nat.le_refl 1
    refine ⟨_, rfl, MapOk.fresh _ hpos, ?_⟩
    show expand (vals.map (fun v => (v, 1))) = _
    rw [expand_units, lineF_cover vals _ (by rw [← rowWidth_ok ro h]; exact hl)]
  · rw [if_neg hfast, valuesLoop_eq]
    have hpos : ∀ c ∈ vals.map (fun v => (v, 1)), 1 ≤ c.2 := by
      intro c hc
      obtain ⟨v, _, rfl⟩ := List.mem_map.1 hc
      exact Nat.le_refl 1
    obtain ⟨ro', e, m, ex⟩ := cellsLoop_ok _ hpos ro h xn
    exact ⟨ro', by rw [e]; rfl, m, ex⟩

end Odf.Table

namespace Odf.Table
open Odf.Rle Odf.Grid

/-- the line-by-line loop of `set_cells` / `set_values` against the loop of the grid -/
theorem linesLoop_ok {L : Type} (skip : L → Prop) [DecidablePred skip] (f : L → RowObj → Option RowObj)
    (F : L → List Nat → List Nat) (lines : List L) (hf : ∀ l ∈ lines, ¬ skip l → RowSpec (f l) (F l))
    (t : Tbl) (h : Inv t) (yn : Nat) :
    ∃ t', lines.foldl (fun (acc : Option (Tbl × Nat)) line =>
        acc.bind (fun (t, yy) =>
          if skip line then some (t, yy + 1)
          else (setLine t yy (f line)).map (fun t' => (t', yy + 1)))) (some (t, yn)) = some (t', yn + lines.length) ∧
      Inv t' ∧
      absT t' = (lines.foldl (fun (acc : Grid × Nat) line =>
        (if skip line then acc.1 else editRowN acc.1 acc.2 (F line), acc.2 + 1)) (absT t, yn)).1 := by
  induction lines generalizing t yn with
  | nil => exact ⟨t, rfl, h, rfl⟩
  | cons l rest ih =>
    simp only [List.foldl_cons, Option.bind_some, List.length_cons]
    by_cases hs : skip l
    · simp only [hs, if_true]
      obtain ⟨t', e, i, a⟩ := ih (fun x hx => hf x (by simp [hx])) t h (yn + 1)
      exact ⟨t', by rw [e]; congr 2; omega, i, a⟩
    · simp only [hs, if_false]
      obtain ⟨t1, e1, i1, a1⟩ := copyEdit_ok t h yn (f l) (F l) (hf l (by simp) hs)
      have hsl : setLine t yn (f l) = some t1 := e1
      rw [hsl]
      simp only [Option.map_some]
      obtain ⟨t', e, i, a⟩ := ih (fun x hx => hf x (by simp [hx])) t1 i1 (yn + 1)
      refine ⟨t', by rw [e]; congr 2; omega, i, ?_⟩
      rw [a, a1]

/-- **set_cells(matrix, (x, y))** -/
theorem setCells_ok (t : Tbl) (h : Inv t) (x y : Int) (m : List (List (Nat × Nat)))
    (hpos : ∀ line ∈ m, ∀ c ∈ line, 1 ≤ c.2) :
    ∃ t', setCells t x y m = some t' ∧ Inv t' ∧ absT t' = Grid.setCells (absT t) x y m := by
  obtain ⟨t', e, i, a⟩ := linesLoop_ok (fun (line : List (Nat × Nat)) => line = [])
    (fun line ro => rowSetCells ro line (tr x (width t))) (fun line => lineF line (tr x (width t))) m
    (fun l hl _ => rowSetCells_spec l _ (hpos l hl)) t h (tr y (height t))
  refine ⟨t', ?_, i, ?_⟩
  · unfold setCells
    simp only
    rw [e]; rfl
  · rw [a]
    unfold Grid.setCells Grid.setLine
    simp only
    rw [tr_eq_norm, tr_eq_norm, width_ok t h, height_ok t h]

/-- **set_values(matrix, (x, y))** -/
theorem setValues_ok (t : Tbl) (h : Inv t) (x y : Int) (m : List (List Nat)) :
    ∃ t', setValues t x y m = some t' ∧ Inv t' ∧ absT t' = Grid.setValues (absT t) x y m := by
  obtain ⟨t', e, i, a⟩ := linesLoop_ok (fun (line : List Nat) => line = [])
    (fun line ro => rowSetValues ro line (tr x (width t))) (fun line => lineF (line.map (fun v => (v, 1))) (tr x (width t))) m
    (fun l _ _ => rowSetValues_spec l _) t h (tr y (height t))
  refine ⟨t', ?_, i, ?_⟩
  · unfold setValues
    simp only
    rw [e]; rfl
  · rw [a]
    unfold Grid.setValues Grid.setCells Grid.setLine
    simp only
    rw [tr_eq_norm, tr_eq_norm, width_ok t h, height_ok t h, List.foldl_map]
    congr 2
    funext acc line
    by_cases hl : line = []
    · simp [hl]
    · have : line.map (fun v => (v, 1)) ≠ [] := by simpa using hl
      simp [hl, this]

end Odf.Table

namespace Odf.Table
open Odf.Rle Odf.Grid

theorem setRow_inside (g : Grid) (y : Nat) (row : List Nat) (hy : y < Grid.height g) (hnc : 1 ≤ g.ncols) :
    Grid.setRow g y row 1 = widen { g with rows := setSlice g.rows y 1 row } row.length := by
  unfold Grid.setRow
  rw [padRows_le _ _ (by simp only [Grid.height] at hy; omega)]
  exact declare_noop _ _ (by simp only [widen]; omega)

/-- the row-by-row loop of `set_column_cells` against the loop of the grid -/
theorem colLoop_ok (xn : Nat) (rs : List RowD) (cs : List Nat) (hlen : rs.length = cs.length) (hpos : ∀ d ∈ rs, Pos d)
    (t : Tbl) (h : Inv t) (y : Nat) (hrows : (absT t).rows.drop y = rs.map expand) :
    ∃ t', (rs.zip cs).foldl (fun (acc : Option (Tbl × Nat)) (p : RowD × Nat) =>
        acc.bind (fun (t', y) =>
          (rowSetCell (rowObj p.1) xn p.2 1).bind (fun ro => (setRow t' y ro.runs 1).map (fun t'' => (t'', y + 1)))))
        (some (t, y)) = some (t', y + rs.length) ∧ Inv t' ∧
      absT t' = (cs.foldl (fun (acc : Grid × Nat) c => (setCellN acc.1 xn acc.2 c 1, acc.2 + 1)) (absT t, y)).1 := by
  induction rs generalizing cs t y with
  | nil =>
    cases cs with
    | nil => exact ⟨t, rfl, h, rfl⟩
    | cons c cs' => simp at hlen
  | cons d rest ih =>
    cases cs with
    | nil => simp at hlen
    | cons c cs' =>
      simp only [List.zip_cons_cons, List.foldl_cons, Option.bind_some, List.length_cons]
      have hd : Pos d := hpos d (by simp)
      obtain ⟨ro, ef, mro, ex⟩ := rowSetCell_ok (rowObj d) (rowObj_ok d hd) xn c 1 (Nat.le_refl 1)
      have hex : expand ro.runs = setSlice (padRow (expand d) xn) xn 1 c := ex
      rw [ef]
      simp only [Option.bind_some]
      -- row y exists and is `expand d`
      have hlenr : y < (absT t).rows.length := by
        by_cases hh : y < (absT t).rows.length
        · exact hh
        · rw [List.drop_of_length_le (by omega)] at hrows; simp at hrows
      have hgd : (absT t).rows.getD y [] = expand d := by
        have := congrArg List.head? hrows
        simp only [List.map_cons, List.head?_cons, List.head?_drop] at this
        rw [List.getD_eq_getElem?_getD, this]; rfl
      have hht : y < Grid.height (absT t) := hlenr
      have hnc : 1 ≤ (absT t).ncols := ncols_pos_of_rows t h (by rw [height_ok t h]; omega)
      obtain ⟨t1, e1, i1, a1⟩ := setRow_ok t h y ro.runs 1 mro.2 (Nat.le_refl 1)
      rw [e1]
      simp only [Option.map_some]
      have hstep : absT t1 = setCellN (absT t) xn y c 1 := by
        rw [a1, hex]
        unfold setCellN
        rw [editRowN_inside _ _ _ hht hnc, hgd, setRow_inside _ _ _ hht hnc]
      have hrows1 : (absT t1).rows.drop (y + 1) = rest.map expand := by
        rw [a1, setRow_inside _ _ _ hht hnc]
        simp only [widen, setSlice]
        rw [List.drop_append, List.drop_of_length_le (by simp; omega)]
        simp only [List.length_append, List.length_take, List.length_replicate, List.nil_append]
        have hmin : min y (absT t).rows.length = y := by omega
        rw [hmin, Nat.sub_self, List.drop_zero]
        have := congrArg List.tail hrows
        simp only [List.map_cons, List.tail_cons, List.tail_drop] at this
        exact this
      obtain ⟨t', e, i, a⟩ := ih cs' (by simpa using hlen) (fun q hq => hpos q (by simp [hq])) t1 i1 (y + 1) hrows1
      refine ⟨t', by rw [e]; congr 2; omega, i, ?_⟩
      rw [a, hstep]

/-- **set_column_cells / set_column_values(x, cells)** — for a list as long as the table is high
    (otherwise the call raises `ValueError`, `none` in the model) -/
theorem setColumnValues_ok (t : Tbl) (h : Inv t) (x : Int) (cells : List Nat) (hl : cells.length = height t) :
    ∃ t', setColumnValues t x cells = some t' ∧ Inv t' ∧ absT t' = Grid.setColumnValues (absT t) x cells := by
  have hrl : (expandedRows t).length = cells.length := by
    rw [hl, height_ok t h]; simp [expandedRows, absT, Grid.height]
  obtain ⟨t', e, i, a⟩ := colLoop_ok (tr x (width t)) (expandedRows t) cells hrl
    (fun d hd => by
      obtain ⟨p, hp, rfl⟩ := mem_of_mem_expand _ d hd
      exact h.cells p hp) t h 0 (by simp [absT, expandedRows])
  refine ⟨t', ?_, i, ?_⟩
  · unfold setColumnValues
    rw [if_neg (by omega)]
    simp only
    rw [e]; rfl
  · rw [a]
    unfold Grid.setColumnValues
    simp only
    rw [tr_eq_norm, width_ok t h]

theorem setColumnValues_wrong_length (t : Tbl) (x : Int) (cells : List Nat) (hl : cells.length ≠ height t) :
    setColumnValues t x cells = none := by
  unfold setColumnValues; rw [if_pos hl]

end Odf.Table
