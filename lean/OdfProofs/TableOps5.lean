import OdfProofs.TableOps4

/-! Cell operations: generic "edit row y" refinement, then set / insert / append / delete cell. -/
namespace Odf.Table
open Odf.Rle Odf.Grid

/-- a row method with its list-level meaning -/
def RowSpec (f : RowObj → Option RowObj) (F : List Nat → List Nat) : Prop :=
  ∀ ro, MapOk ro → ∃ ro', f ro = some ro' ∧ MapOk ro' ∧ expand ro'.runs = F (expand ro.runs)

theorem tr_eq_norm (v : Int) (len : Nat) : tr v len = Grid.norm v len := rfl

/-! ### the grid side of "edit row y" -/

theorem editRowN_inside (g : Grid) (yn : Nat) (F : List Nat → List Nat) (hy : yn < Grid.height g)
    (hnc : 1 ≤ g.ncols) :
    editRowN g yn F =
      widen { g with rows := setSlice g.rows yn 1 (F (g.rows.getD yn [])) } (F (g.rows.getD yn [])).length := by
  unfold editRowN
  simp only
  rw [padRows_le _ _ (by simp only [Grid.height] at hy; omega)]
  rw [declare_noop _ _ (by simp only [widen]; omega)]
  rw [modifyRow_const _ _ _ (by simpa [Grid.height] using hy)]

theorem take_padRows (rows : List (List Nat)) (yn : Nat) (h : rows.length ≤ yn) :
    (padRows rows (yn + 1)).take yn = padRows rows yn := by
  unfold padRows
  rw [List.take_append, List.take_of_length_le (by omega), List.take_replicate]
  congr 2
  omega

theorem getD_padRows_beyond (rows : List (List Nat)) (yn : Nat) (h : rows.length ≤ yn) :
    (padRows rows (yn + 1)).getD yn [] = [] := by
  unfold padRows
  rw [List.getD_eq_getElem?_getD, List.getElem?_append_right h, List.getElem?_replicate]
  split <;> rfl

theorem editRowN_beyond (g : Grid) (yn : Nat) (F : List Nat → List Nat) (hy : Grid.height g ≤ yn) :
    editRowN g yn F = Grid.setRow g yn (F []) 1 := by
  have hy' : g.rows.length ≤ yn := by simpa [Grid.height] using hy
  unfold editRowN Grid.setRow
  simp only
  rw [getD_padRows_beyond _ _ hy']
  have hlen1 : (padRows g.rows (yn + 1)).length = yn + 1 := padRows_length _ _ (by omega)
  have hlen : (padRows g.rows yn).length = yn := padRows_length _ _ hy'
  rw [modifyRow_const _ _ _ (by omega), setSlice_at_end _ _ _ _ hlen]
  congr 3
  unfold setSlice
  rw [take_padRows _ _ hy', List.drop_of_length_le (by omega)]
  simp

theorem setRow_ncols_ge (g : Grid) (y : Nat) (row : List Nat) (r : Nat) : row.length ≤ (Grid.setRow g y row r).ncols := by
  unfold Grid.setRow declare
  split
  · rename_i hh
    simp only [widen] at hh ⊢
    omega
  · simp only [widen]; omega

theorem rows_getD (t : Tbl) (y : Nat) : (absT t).rows.getD y [] = expand ((expand t.rows.runs).getD y []) := by
  simp only [absT, List.getD_eq_getElem?_getD, List.getElem?_map]
  cases (expand t.rows.runs)[y]? <;> rfl

/-! ### the model side -/

/-- `Table.set_cell`-style edit of an existing row: through `set_row` on an un-repeated copy,
    or in place when the stored row is not repeated -/
theorem editRow_ok (t : Tbl) (h : Inv t) (yn : Nat) (hy : yn < height t)
    (f : RowObj → Option RowObj) (F : List Nat → List Nat) (hf : RowSpec f F) :
    ∃ t', editRow t yn f = some t' ∧ Inv t' ∧ absT t' = editRowN (absT t) yn F := by
  obtain ⟨a, b, d, rep, hruns, hrow, hlo, hhi⟩ := rowAt_spec t h yn hy
  have hdpos : Pos d := h.cells (d, rep) (by rw [hruns]; simp)
  have hrep : 1 ≤ rep := h.rows.2 (d, rep) (by rw [hruns]; simp)
  obtain ⟨ro, ef, mro, ex⟩ := hf (rowObj d) (rowObj_ok d hdpos)
  have hgd : (absT t).rows.getD yn [] = expand d := by
    rw [rows_getD, hruns, expand_getD_of_decomp a b d rep yn [] hlo hhi]
  have hnc : 1 ≤ (absT t).ncols := ncols_pos_of_rows t h (by omega)
  have hG := editRowN_inside (absT t) yn F (by rw [← height_ok t h]; exact hy) hnc
  rw [hgd] at hG
  have hexp : expand ro.runs = F (expand d) := ex
  unfold editRow
  rw [hrow]
  simp only [ef]
  by_cases hr1 : rep > 1
  · rw [if_pos hr1]
    obtain ⟨t', e, i, ab⟩ := putBack_setRow t h yn hy ro.runs mro.2
    exact ⟨t', e, i, by rw [ab, hG, hexp]⟩
  · rw [if_neg hr1]
    have hrep1 : rep = 1 := by omega
    subst hrep1
    obtain ⟨i, ab⟩ := putBack_inplace t h yn a b d hruns (by omega) ro mro
    exact ⟨_, rfl, i, by rw [ab, hG, hexp]⟩

/-- `insert_cell` / `append_cell` / `set_values` pattern: copy of row y (empty when beyond the
    end), un-repeated, edited, `set_row`, `_update_width` -/
theorem copyEdit_ok (t : Tbl) (h : Inv t) (yn : Nat)
    (f : RowObj → Option RowObj) (F : List Nat → List Nat) (hf : RowSpec f F) :
    ∃ t', ((getRowCopy t yn).bind (fun d => (f (rowObj d)).bind (fun ro =>
        (setRow t yn ro.runs 1).map (fun t' => updateWidth t' (rowWidth ro))))) = some t' ∧
      Inv t' ∧ absT t' = editRowN (absT t) yn F := by
  by_cases hy : yn ≥ height t
  · have hgc : getRowCopy t yn = some [] := by unfold getRowCopy; rw [if_pos hy]
    obtain ⟨ro, ef, mro, ex⟩ := hf (rowObj []) (rowObj_ok [] (by intro p hp; simp at hp))
    obtain ⟨t', e, i, ab⟩ := setRow_ok t h yn ro.runs 1 mro.2 (by omega)
    obtain ⟨i2, e2⟩ := updateWidth_ok t' i (rowWidth ro)
    refine ⟨_, ?_, i2, ?_⟩
    · rw [hgc]; simp only [Option.bind_some, ef, e, Option.map_some]
    · have hex : expand ro.runs = F [] := ex
      rw [e2, ab, rowWidth_ok ro mro, widen_noop _ _ (setRow_ncols_ge _ _ _ _),
        editRowN_beyond _ _ _ (by rw [← height_ok t h]; exact hy), hex]
  · have hy' : yn < height t := by omega
    obtain ⟨a, b, d, rep, hruns, hrow, hlo, hhi⟩ := rowAt_spec t h yn hy'
    have hdpos : Pos d := h.cells (d, rep) (by rw [hruns]; simp)
    have hgc : getRowCopy t yn = some d := by unfold getRowCopy; rw [if_neg hy, hrow]; rfl
    obtain ⟨ro, ef, mro, ex⟩ := hf (rowObj d) (rowObj_ok d hdpos)
    have hgd : (absT t).rows.getD yn [] = expand d := by
      rw [rows_getD, hruns, expand_getD_of_decomp a b d rep yn [] hlo hhi]
    have hnc : 1 ≤ (absT t).ncols := ncols_pos_of_rows t h (by omega)
    have hG := editRowN_inside (absT t) yn F (by rw [← height_ok t h]; exact hy') hnc
    rw [hgd] at hG
    have hexp : expand ro.runs = F (expand d) := ex
    obtain ⟨t', e, i, ab⟩ := putBack_setRow t h yn hy' ro.runs mro.2
    obtain ⟨i2, e2⟩ := updateWidth_ok t' i (rowWidth ro)
    refine ⟨_, ?_, i2, ?_⟩
    · rw [hgc]; simp only [Option.bind_some, ef, e, Option.map_some]
    · rw [e2, ab, rowWidth_ok ro mro, widen_widen, hG, hexp]

/-! ### the four cell operations -/

theorem rowSetCell_spec (x c rep : Nat) (hrep : 1 ≤ rep) :
    RowSpec (fun ro => rowSetCell ro x c rep) (fun r => setSlice (padRow r x) x rep c) :=
  fun ro h => rowSetCell_ok ro h x c rep hrep

theorem rowInsertCell_spec (x c rep : Nat) (hrep : 1 ≤ rep) :
    RowSpec (fun ro => rowInsertCell ro x c rep) (fun r => insSlice (padRow r x) x rep c) :=
  fun ro h => rowInsertCell_ok ro h x c rep hrep

theorem rowAppend_spec (c rep : Nat) (hrep : 1 ≤ rep) :
    RowSpec (fun ro => some (rowAppend ro c rep)) (fun r => r ++ List.replicate rep c) :=
  fun ro h => ⟨_, rfl, (rowAppend_ok ro h c rep hrep).1, (rowAppend_ok ro h c rep hrep).2⟩

/-- **set_cell / set_value** -/
theorem setCell_ok (t : Tbl) (h : Inv t) (x y : Int) (c rep : Nat) (hrep : 1 ≤ rep) :
    ∃ t', setCell t x y c rep = some t' ∧ Inv t' ∧ absT t' = Grid.setCell (absT t) x y c rep := by
  unfold setCell Grid.setCell Grid.setCellN
  simp only
  rw [tr_eq_norm, tr_eq_norm, width_ok t h, height_ok t h]
  by_cases hy : Grid.norm y (Grid.height (absT t)) ≥ Grid.height (absT t)
  · rw [if_pos hy]
    obtain ⟨ro, ef, mro, ex⟩ := rowSetCell_ok (rowObj []) (rowObj_ok [] (by intro p hp; simp at hp))
      (Grid.norm x (absT t).ncols) c rep hrep
    rw [ef]
    simp only [Option.bind_some]
    obtain ⟨t', e, i, ab⟩ := setRow_ok t h _ ro.runs 1 mro.2 (by omega)
    refine ⟨t', e, i, ?_⟩
    have hex : expand ro.runs = setSlice (padRow [] (Grid.norm x (absT t).ncols)) (Grid.norm x (absT t).ncols) rep c := ex
    rw [ab, editRowN_beyond _ _ _ hy, hex]
  · rw [if_neg hy]
    exact editRow_ok t h _ (by rw [height_ok t h]; omega) _ _ (rowSetCell_spec _ c rep hrep)

/-- **insert_cell** -/
theorem insertCell_ok (t : Tbl) (h : Inv t) (x y : Int) (c rep : Nat) (hrep : 1 ≤ rep) :
    ∃ t', insertCell t x y c rep = some t' ∧ Inv t' ∧ absT t' = Grid.insertCell (absT t) x y c rep := by
  unfold insertCell Grid.insertCell
  simp only
  rw [tr_eq_norm, tr_eq_norm, width_ok t h, height_ok t h]
  exact copyEdit_ok t h _ _ _ (rowInsertCell_spec _ c rep hrep)

/-- **append_cell** -/
theorem appendCell_ok (t : Tbl) (h : Inv t) (y : Int) (c rep : Nat) (hrep : 1 ≤ rep) :
    ∃ t', appendCell t y c rep = some t' ∧ Inv t' ∧ absT t' = Grid.appendCell (absT t) y c rep := by
  unfold appendCell Grid.appendCell
  simp only
  rw [tr_eq_norm, height_ok t h]
  have := copyEdit_ok t h (Grid.norm y (Grid.height (absT t))) _ _ (rowAppend_spec c rep hrep)
  simpa using this

end Odf.Table
