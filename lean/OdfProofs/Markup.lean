import OdfModel.Para.Markup
import OdfProps.C05
import Mathlib.Data.List.Induction

/-! Helper lemmas for C09: the text projections of the token-stream operations. -/
namespace Odf.Markup
open Odf.Ws

/-- characters of a token stream in channel `x` (`false` = paragraph text, `true` = notes) -/
def plain (x : Bool) (ts : Toks) : List Char := ts.flatMap (Tok.chars x)

theorem plainMain_eq (ts : Toks) : plainMain ts = plain false ts := rfl
theorem plainHidden_eq (ts : Toks) : plainHidden ts = plain true ts := rfl

@[simp] theorem plain_nil (x : Bool) : plain x [] = [] := rfl
@[simp] theorem plain_cons (x : Bool) (t : Tok) (ts : Toks) : plain x (t :: ts) = t.chars x ++ plain x ts := by
  simp [plain]
@[simp] theorem plain_append (x : Bool) (a b : Toks) : plain x (a ++ b) = plain x a ++ plain x b := by
  simp [plain]

@[simp] theorem chars_txt (x h s : Bool) (cs : List Char) : (Tok.txt h s cs).chars x = if h = x then cs else [] := rfl
@[simp] theorem chars_cl (x : Bool) : Tok.cl.chars x = [] := rfl

theorem plain_txtOpt (x h s : Bool) (cs : List Char) : plain x (txtOpt h s cs) = if h = x then cs else [] := by
  unfold txtOpt
  by_cases hc : cs = []
  · subst hc; simp
  · simp [hc]

/-- Python slicing: `t[:a] + t[a:b] + t[b:] == t` whenever `a ≤ b` -/
theorem slice3 (cs : List Char) (a b : Nat) (h : a ≤ b) :
    cs.take a ++ ((cs.take b).drop a ++ cs.drop b) = cs := by
  have h1 : cs.take a = (cs.take b).take a := by rw [List.take_take, Nat.min_eq_left h]
  rw [h1, ← List.append_assoc, List.take_append_drop, List.take_append_drop]

/-! ### what the built elements contain -/

theorem plain_wsTok (x h s : Bool) (lt ll : Nat) (it : Item) :
    plain x (wsTok h s lt ll it) = if h = x then it.text else [] := by
  cases it <;> simp [wsTok, Item.text, Tok.chars] <;> rfl

theorem plain_flatMap_wsTok (x h s : Bool) (lt ll : Nat) (items : List Item) :
    plain x (items.flatMap (wsTok h s lt ll)) = if h = x then innerText items else [] := by
  induction items with
  | nil => simp [innerText]
  | cons it rest ih =>
    rw [List.flatMap_cons, plain_append, plain_wsTok, ih]
    by_cases hx : h = x <;> simp [hx, innerText]

theorem plain_spanBody (x h s : Bool) (lt ll : Nat) (items : List Item) :
    plain x (spanBody h s lt ll items) = if h = x then innerText items else [] := by
  unfold spanBody
  split
  · rename_i cs rest
    rw [plain_cons, plain_flatMap_wsTok]
    by_cases hx : h = x <;> simp [hx, innerText, Item.text]
  · rw [plain_cons, plain_flatMap_wsTok]
    by_cases hx : h = x <;> simp [hx]

/-- **the wrapped text is the match**: a span or a link built around `m` contains exactly `m`
    (for a span through `append_plain_text`: C05's round-trip theorem) -/
theorem plain_build (w : Wrap) (x h s : Bool) (m : List Char) :
    plain x (w.build h s m) = if h = x then m else [] := by
  cases w with
  | span lab lt ll =>
    simp only [Wrap.build, plain_cons, plain_append]
    by_cases hm : m = []
    · subst hm; simp [Tok.chars]
    · rw [if_neg hm, plain_spanBody, C05.text_roundtrip]
      by_cases hx : h = x <;> simp [hx, Tok.chars]
  | link lab =>
    simp only [Wrap.build, plain_cons, plain_nil, chars_txt, chars_cl]
    by_cases hx : h = x <;> simp [hx, Tok.chars]

theorem plain_wrapSlice (w : Wrap) (x h s : Bool) (cs : List Char) (a b : Nat) (hab : a ≤ b) :
    plain x (wrapSlice w h s cs a b) = if h = x then cs else [] := by
  unfold wrapSlice
  rw [plain_cons, plain_append, plain_build, plain_cons, plain_nil, chars_txt, chars_txt]
  by_cases hx : h = x
  · simp only [hx, if_true, List.append_nil]
    exact slice3 cs a b hab
  · simp [hx]

/-! ### offset form -/

theorem plain_byOffset (w : Wrap) (x : Bool) (off len : Nat) (ts : Toks) (counted : Nat) :
    plain x (byOffset w off len ts counted) = plain x ts := by
  induction ts generalizing counted with
  | nil => rfl
  | cons t rest ih =>
    cases t with
    | txt h s cs =>
      simp only [byOffset]
      split
      · rw [plain_cons, plain_cons, ih]
      · rw [plain_append, plain_wrapSlice _ _ _ _ _ _ _ (by omega), plain_cons, chars_txt]
    | op k l h => simp only [byOffset, plain_cons, ih]
    | cl => simp only [byOffset, plain_cons, ih]

/-- total length of the text nodes -/
def nodeLen : Toks → Nat
  | [] => 0
  | .txt _ _ cs :: rest => cs.length + nodeLen rest
  | _ :: rest => nodeLen rest

theorem nodeLen_append (a b : Toks) : nodeLen (a ++ b) = nodeLen a + nodeLen b := by
  induction a with
  | nil => simp [nodeLen]
  | cons t rest ih => cases t <;> simp [nodeLen, ih] <;> omega

/-- the offset falls beyond the last text node: nothing happens -/
theorem byOffset_beyond (w : Wrap) (off len : Nat) (ts : Toks) (counted : Nat)
    (h : nodeLen ts + counted ≤ off) : byOffset w off len ts counted = ts := by
  induction ts generalizing counted with
  | nil => rfl
  | cons t rest ih =>
    cases t with
    | txt hh s cs =>
      simp only [nodeLen] at h
      simp only [byOffset]
      rw [if_pos (by omega), ih _ (by omega)]
    | op k l hh => simp only [nodeLen] at h; simp only [byOffset]; rw [ih _ h]
    | cl => simp only [nodeLen] at h; simp only [byOffset]; rw [ih _ h]

/-- the offset falls into the text node `cs`: that node, and only it, is rewritten -/
theorem byOffset_at (w : Wrap) (off len : Nat) (pre post : Toks) (hh s : Bool) (cs : List Char) (counted : Nat)
    (h1 : nodeLen pre + counted ≤ off) (h2 : off < nodeLen pre + counted + cs.length) :
    byOffset w off len (pre ++ .txt hh s cs :: post) counted =
      pre ++ wrapSlice w hh s cs (off - counted - nodeLen pre)
        (off - counted - nodeLen pre + (if len > 0 then min len cs.length else cs.length)) ++ post := by
  induction pre generalizing counted with
  | nil =>
    simp only [List.nil_append, nodeLen, Nat.zero_add, Nat.sub_zero] at *
    simp only [byOffset]
    rw [if_neg (by omega)]
  | cons t rest ih =>
    cases t with
    | txt h' s' ds =>
      simp only [nodeLen] at h1 h2
      simp only [List.cons_append, byOffset]
      rw [if_pos (by omega), ih (counted + ds.length) (by omega) (by omega)]
      simp only [nodeLen]
      have : off - (counted + ds.length) - nodeLen rest = off - counted - (ds.length + nodeLen rest) := by omega
      rw [this]
    | op k l h' =>
      simp only [nodeLen] at h1 h2
      simp only [List.cons_append, byOffset, nodeLen]
      rw [ih counted h1 h2]
    | cl =>
      simp only [nodeLen] at h1 h2
      simp only [List.cons_append, byOffset, nodeLen]
      rw [ih counted h1 h2]

/-! ### regex form -/

theorem plain_wrapRev (w : Wrap) (x h s : Bool) (spans : List (Nat × Nat)) (cur : List Char) (acc : Toks)
    (hle : ∀ p ∈ spans, p.1 ≤ p.2) :
    plain x (wrapRev w h s spans cur acc) = (if h = x then cur else []) ++ plain x acc := by
  induction spans generalizing cur acc with
  | nil => simp [wrapRev]
  | cons p more ih =>
    obtain ⟨a, b⟩ := p
    simp only [wrapRev]
    rw [ih _ _ (fun q hq => hle q (by simp [hq])), plain_append, plain_build, plain_cons, chars_txt]
    have hab : a ≤ b := hle (a, b) (by simp)
    by_cases hx : h = x
    · simp only [hx, if_true]
      rw [← List.append_assoc, ← List.append_assoc]
      congr 1
      rw [List.append_assoc]
      exact slice3 cur a b hab
    · simp [hx]

theorem plain_wrapNode (w : Wrap) (x h s : Bool) (cs : List Char) (spans : List (Nat × Nat))
    (hle : ∀ p ∈ spans, p.1 ≤ p.2) :
    plain x (wrapNode w h s cs spans) = if h = x then cs else [] := by
  unfold wrapNode
  rw [plain_wrapRev _ _ _ _ _ _ _ (by intro p hp; exact hle p (by simpa using hp))]
  simp

theorem plain_byRegex (w : Wrap) (x : Bool) (ts : Toks) (sps : List (List (Nat × Nat)))
    (hle : ∀ sp ∈ sps, ∀ p ∈ sp, p.1 ≤ p.2) :
    plain x (byRegex w ts sps) = plain x ts := by
  induction ts generalizing sps with
  | nil => cases sps <;> rfl
  | cons t rest ih =>
    cases t with
    | txt h s cs =>
      cases sps with
      | nil => simp only [byRegex, plain_cons]; rw [ih [] (by simp)]
      | cons sp more =>
        simp only [byRegex]
        rw [plain_append, plain_wrapNode _ _ _ _ _ _ (hle sp (by simp)), ih more (fun q hq => hle q (by simp [hq])),
          plain_cons, chars_txt]
    | op k l h => simp only [byRegex, plain_cons]; rw [ih sps hle]
    | cl => simp only [byRegex, plain_cons]; rw [ih sps hle]

/-- no text node has a match: the paragraph is untouched -/
theorem byRegex_nomatch (w : Wrap) (ts : Toks) (sps : List (List (Nat × Nat))) (h : ∀ sp ∈ sps, sp = []) :
    byRegex w ts sps = ts := by
  induction ts generalizing sps with
  | nil => cases sps <;> rfl
  | cons t rest ih =>
    cases t with
    | txt hh s cs =>
      cases sps with
      | nil => simp only [byRegex]; rw [ih [] (by simp)]
      | cons sp more =>
        have : sp = [] := h sp (by simp)
        subst this
        simp only [byRegex, wrapNode, List.reverse_nil, wrapRev, List.singleton_append]
        rw [ih more (fun q hq => h q (by simp [hq]))]
    | op k l hh => simp only [byRegex]; rw [ih sps h]
    | cl => simp only [byRegex]; rw [ih sps h]

/-- the layout `finditer` order gives: text before the first match, then each match wrapped and
    followed by the text up to the next one -/
def wrapFwd (w : Wrap) (h s : Bool) (cs : List Char) (n : Nat) : Nat → List (Nat × Nat) → Toks
  | pos, [] => [.txt h s ((cs.take n).drop pos)]
  | pos, (a, b) :: more => .txt h s ((cs.take a).drop pos) :: (w.build h s ((cs.take b).drop a) ++ wrapFwd w h s cs n b more)

/-- spans in increasing order without overlap, all inside the first `n` characters -/
def Sorted (n : Nat) : Nat → List (Nat × Nat) → Prop
  | _, [] => True
  | pos, (a, b) :: more => pos ≤ a ∧ a ≤ b ∧ b ≤ n ∧ Sorted n b more

theorem sorted_snoc (n pos : Nat) (init : List (Nat × Nat)) (a b : Nat) (h : Sorted n pos (init ++ [(a, b)])) :
    Sorted a pos init ∧ a ≤ b ∧ b ≤ n ∧ pos ≤ a := by
  induction init generalizing pos with
  | nil => simp [Sorted] at h ⊢; omega
  | cons p rest ih =>
    obtain ⟨a', b'⟩ := p
    simp only [List.cons_append, Sorted] at h ⊢
    obtain ⟨h1, h2, h3, h4⟩ := h
    obtain ⟨i1, i2, i3, i4⟩ := ih b' h4
    exact ⟨⟨h1, h2, by omega, i1⟩, i2, i3, by omega⟩

theorem wrapFwd_snoc (w : Wrap) (h s : Bool) (cs : List Char) (n pos : Nat) (init : List (Nat × Nat)) (a b : Nat)
    (hs : Sorted a pos init) (hb : b ≤ n) (hab : a ≤ b) :
    wrapFwd w h s cs n pos (init ++ [(a, b)]) =
      wrapFwd w h s cs a pos init ++ (w.build h s ((cs.take b).drop a) ++ [.txt h s ((cs.take n).drop b)]) := by
  induction init generalizing pos with
  | nil =>
    simp only [List.nil_append, wrapFwd, List.cons_append]
  | cons p rest ih =>
    obtain ⟨a', b'⟩ := p
    simp only [Sorted] at hs
    obtain ⟨h1, h2, h3, h4⟩ := hs
    simp only [List.cons_append, wrapFwd]
    rw [ih b' h4]
    simp

theorem wrapRev_sorted (w : Wrap) (h s : Bool) (cs : List Char) (n : Nat) (spans : List (Nat × Nat)) (acc : Toks)
    (hs : Sorted n 0 spans) :
    wrapRev w h s spans.reverse (cs.take n) acc = wrapFwd w h s cs n 0 spans ++ acc := by
  induction spans using List.reverseRecOn generalizing n acc with
  | nil => simp [wrapRev, wrapFwd]
  | append_singleton init p ih =>
    obtain ⟨a, b⟩ := p
    obtain ⟨h1, h2, h3, h4⟩ := sorted_snoc n 0 init a b hs
    rw [List.reverse_append, List.reverse_singleton, List.singleton_append]
    simp only [wrapRev]
    have e1 : (cs.take n).take a = cs.take a := by rw [List.take_take, Nat.min_eq_left (by omega)]
    have e2 : (cs.take n).take b = cs.take b := by rw [List.take_take, Nat.min_eq_left (by omega)]
    rw [e1, e2, ih a _ h1, wrapFwd_snoc w h s cs n 0 init a b h1 h3 h2]
    simp
