import OdfProofs.TableOps5

/-! delete_cell, column operations, reads. -/
namespace Odf.Table
open Odf.Rle Odf.Grid

/-- no row is wider than the declared columns (C07) -/
def GridFit (g : Grid) : Prop := ∀ row ∈ g.rows, row.length ≤ g.ncols

theorem modifyRow_beyond (rows : List (List Nat)) (y : Nat) (f : List Nat → List Nat) (hy : rows.length ≤ y) :
    modifyRow rows y f = rows := by
  unfold modifyRow
  rw [List.getElem?_eq_none hy, List.take_of_length_le hy, List.drop_of_length_le (by omega)]
  simp

theorem modifyRow_inside (rows : List (List Nat)) (y : Nat) (f : List Nat → List Nat) (hy : y < rows.length) :
    modifyRow rows y f = setSlice rows y 1 (f (rows.getD y [])) := by
  unfold modifyRow setSlice
  rw [List.getElem?_eq_getElem hy, List.getD_eq_getElem?_getD, List.getElem?_eq_getElem hy]
  rfl

theorem putBack_inplace0 (t : Tbl) (h : Inv t) (y : Nat) (a b : Runs RowD) (d : RowD)
    (hruns : t.rows.runs = a ++ (d, 1) :: b) (hy : y = total a) (ro : RowObj) (hro : MapOk ro) :
    Inv { t with rows := { t.rows with runs := t.rows.runs.set a.length (ro.runs, 1) } } ∧
    absT { t with rows := { t.rows with runs := t.rows.runs.set a.length (ro.runs, 1) } }
      = { absT t with rows := setSlice (absT t).rows y 1 (expand ro.runs) } := by
  have hset : t.rows.runs.set a.length (ro.runs, 1) = a ++ (ro.runs, 1) :: b := by
    rw [hruns]; simp
  have hmapsame : makeCacheMap (a ++ (ro.runs, 1) :: b) = makeCacheMap (a ++ (d, 1) :: b) := by
    simp [makeCacheMap, cumFrom_append, cumFrom]
  refine ⟨⟨h.cols, ⟨?_, ?_⟩, ?_, ?_⟩, ?_⟩
  · show t.rows.map = makeCacheMap (t.rows.runs.set a.length (ro.runs, 1))
    rw [hset, hmapsame, ← hruns]; exact h.rows.1
  · show Pos (t.rows.runs.set a.length (ro.runs, 1))
    rw [hset]
    have hp := h.rows.2
    rw [hruns] at hp
    intro p hpm
    simp only [List.mem_append, List.mem_cons] at hpm
    rcases hpm with hpm | rfl | hpm
    · exact hp p (by simp [hpm])
    · simp
    · exact hp p (by simp [hpm])
  · show ∀ p ∈ t.rows.runs.set a.length (ro.runs, 1), Pos p.1
    rw [hset]
    intro p hpm
    simp only [List.mem_append, List.mem_cons] at hpm
    rcases hpm with hpm | rfl | hpm
    · exact h.cells p (by rw [hruns]; simp [hpm])
    · exact hro.2
    · exact h.cells p (by rw [hruns]; simp [hpm])
  · intro _
    exact h.declared (by rw [hruns]; simp)
  · simp only [absT]
    congr 1
    show List.map expand (expand (t.rows.runs.set a.length (ro.runs, 1))) = _
    rw [hset, hruns]
    exact expand_set_run a b d ro.runs y hy

theorem mem_rows_getD (rows : List (List Nat)) (y : Nat) (hy : y < rows.length) : rows.getD y [] ∈ rows := by
  rw [List.getD_eq_getElem?_getD, List.getElem?_eq_getElem hy]
  exact List.getElem_mem hy

/-- **delete_cell** (needs: no row wider than the declared columns) -/
theorem deleteCell_ok (t : Tbl) (h : Inv t) (hfit : GridFit (absT t)) (x y : Int) :
    ∃ t', deleteCell t x y = some t' ∧ Inv t' ∧ absT t' = Grid.deleteCell (absT t) x y := by
  unfold deleteCell Grid.deleteCell
  simp only
  rw [tr_eq_norm, tr_eq_norm, width_ok t h, height_ok t h]
  generalize Grid.norm y (Grid.height (absT t)) = yn
  generalize Grid.norm x (absT t).ncols = xn
  have hht : height t = (absT t).rows.length := by rw [height_ok t h]; rfl
  have hgh : Grid.height (absT t) = (absT t).rows.length := rfl
  by_cases hy : yn ≥ Grid.height (absT t)
  · rw [if_pos hy]
    refine ⟨t, rfl, h, ?_⟩
    rw [modifyRow_beyond _ _ _ (by omega)]
  · rw [if_neg hy]
    have hy' : yn < height t := by omega
    obtain ⟨a, b, d, rep, hruns, hrow, hlo, hhi⟩ := rowAt_spec t h yn hy'
    have hdpos : Pos d := h.cells (d, rep) (by rw [hruns]; simp)
    have hrep : 1 ≤ rep := h.rows.2 (d, rep) (by rw [hruns]; simp)
    obtain ⟨ro, ef, mro, ex⟩ := rowDeleteCell_ok (rowObj d) (rowObj_ok d hdpos) xn
    have hex : expand ro.runs = (expand d).eraseIdx xn := ex
    have hgd : (absT t).rows.getD yn [] = expand d := by
      rw [rows_getD, hruns, expand_getD_of_decomp a b d rep _ [] hlo hhi]
    have hylen : yn < (absT t).rows.length := by omega
    have hG := modifyRow_inside (absT t).rows yn (fun r => r.eraseIdx xn) hylen
    rw [hgd] at hG
    rw [hrow]
    simp only [ef]
    by_cases hr1 : rep > 1
    · rw [if_pos hr1]
      obtain ⟨t', e, i, ab⟩ := putBack_setRow t h yn hy' ro.runs mro.2
      refine ⟨t', e, i, ?_⟩
      rw [ab, hG, hex]
      apply widen_noop
      have hdfit : (expand d).length ≤ (absT t).ncols := by
        rw [← hgd]; exact hfit _ (mem_rows_getD _ _ hylen)
      have := List.length_eraseIdx_le (expand d) xn
      show _ ≤ (absT t).ncols
      omega
    · rw [if_neg hr1]
      have hrep1 : rep = 1 := by omega
      subst hrep1
      obtain ⟨i, ab⟩ := putBack_inplace0 t h yn a b d hruns (by omega) ro mro
      exact ⟨_, rfl, i, by rw [ab, hG, hex]⟩

/-! ### every stored row edited by the same row method -/

theorem mapRowsM_ok (runs : Runs RowD) (hcells : ∀ p ∈ runs, Pos p.1)
    (f : RowObj → Option RowObj) (F : List Nat → List Nat) (hf : RowSpec f F) :
    ∃ runs', mapRowsM runs f = some runs' ∧ makeCacheMap runs' = makeCacheMap runs ∧
      (Pos runs → Pos runs') ∧ (∀ p ∈ runs', Pos p.1) ∧ (runs' = [] ↔ runs = []) ∧
      (expand runs').map expand = ((expand runs).map expand).map F := by
  induction runs with
  | nil => exact ⟨[], rfl, rfl, fun h => h, by simp, by simp, rfl⟩
  | cons hd tl ih =>
    obtain ⟨d, n⟩ := hd
    obtain ⟨tl', e, m, p1, p2, p3, ex⟩ := ih (fun p hp => hcells p (by simp [hp]))
    obtain ⟨ro, ef, mro, exr⟩ := hf (rowObj d) (rowObj_ok d (hcells (d, n) (by simp)))
    have hexr : expand ro.runs = F (expand d) := exr
    refine ⟨(ro.runs, n) :: tl', ?_, ?_, ?_, ?_, by simp, ?_⟩
    · unfold mapRowsM at e ⊢
      simp only [List.mapM_cons, ef, Option.map_some, Option.bind_eq_bind, Option.bind_some, e]
      rfl
    · have h1 : makeCacheMap ((ro.runs, n) :: tl') = n :: cumFrom n tl' := by simp [makeCacheMap, cumFrom]
      have h2 : makeCacheMap ((d, n) :: tl) = n :: cumFrom n tl := by simp [makeCacheMap, cumFrom]
      have h3 : cumFrom n tl' = cumFrom n tl := by
        have a1 := cumFrom_shift 0 n tl'
        have a2 := cumFrom_shift 0 n tl
        simp only [Nat.zero_add] at a1 a2
        rw [← a1, ← a2]
        unfold makeCacheMap at m
        rw [m]
      rw [h1, h2, h3]
    · intro hp q hq
      simp only [List.mem_cons] at hq
      rcases hq with rfl | hq
      · exact hp (d, n) (by simp)
      · exact p1 (fun q hq => hp q (by simp [hq])) q hq
    · intro q hq
      simp only [List.mem_cons] at hq
      rcases hq with rfl | hq
      · exact mro.2
      · exact p2 q hq
    · simp only [expand_cons, List.map_append, List.map_replicate, ex, hexr]

theorem total_eq_of_mcm {α β} (v : Runs α) (w : Runs β) (h : makeCacheMap v = makeCacheMap w) : total v = total w := by
  have a := cumFrom_getLastD 0 v
  have b := cumFrom_getLastD 0 w
  unfold makeCacheMap at h
  rw [h] at a
  omega

/-- **insert_column** -/
theorem insertColumn_ok (t : Tbl) (h : Inv t) (x : Int) (rep : Nat) (hrep : 1 ≤ rep) :
    ∃ t', insertColumn t x rep = some t' ∧ Inv t' ∧ absT t' = Grid.insertColumn (absT t) x rep := by
  have hw := width_ok t h
  -- the column part
  have hcol : ∃ t1, (if tr x (width t) < width t then
          (insertItem t.cols (tr x (width t)) 0 rep).map (fun cols' => { t with cols := cols' })
        else if tr x (width t) = width t then some (appendColumn t rep rep)
        else some (appendColumn (appendColumn t (colRep (tr x (width t) - width t)) (tr x (width t) - width t)) rep rep))
        = some t1 ∧ Inv t1 ∧ t1.rows = t.rows ∧ total t1.cols.runs = max (absT t).ncols (tr x (width t)) + rep := by
    by_cases h1 : tr x (width t) < width t
    · rw [if_pos h1]
      have hwt : width t = total t.cols.runs := by rw [width_ok t h]; rfl
      have hx : tr x (width t) < total t.cols.runs := by rw [← hwt]; exact h1
      obtain ⟨cols', e, m, ex⟩ := insertItem_ok t.cols h.cols _ 0 rep hx hrep
      rw [e]
      refine ⟨_, rfl, ⟨m, h.rows, h.cells, ?_⟩, rfl, ?_⟩
      · intro _
        intro hc
        have : total cols'.runs = 0 := by rw [hc]; rfl
        rw [← expand_length, ex] at this
        simp at this
        omega
      · show total cols'.runs = _
        rw [← expand_length, ex]
        simp only [List.length_append, List.length_take, List.length_replicate, List.length_drop, expand_length]
        simp only [absT] at hw ⊢
        omega
    · rw [if_neg h1]
      by_cases h2 : tr x (width t) = width t
      · rw [if_pos h2]
        obtain ⟨i, e⟩ := appendColumn_ok t h rep hrep
        refine ⟨_, rfl, i, rfl, ?_⟩
        have := congrArg Grid.ncols e
        simp only [absT] at this hw ⊢
        rw [this]; omega
      · rw [if_neg h2]
        rw [colRep_pos _ (by omega)]
        obtain ⟨i0, e0⟩ := appendColumn_ok t h (tr x (width t) - width t) (by omega)
        obtain ⟨i1, e1⟩ := appendColumn_ok _ i0 rep hrep
        refine ⟨_, rfl, i1, rfl, ?_⟩
        have a1 := congrArg Grid.ncols e1
        have a0 := congrArg Grid.ncols e0
        simp only [absT] at a1 a0 hw ⊢
        rw [a1, a0]; omega
  obtain ⟨t1, e1, i1, hr1, hc1⟩ := hcol
  have hspec : RowSpec (fun ro => if rowWidth ro > tr x (width t) then rowInsertCell ro (tr x (width t)) emptyCell rep else some ro)
      (fun r => if r.length > tr x (width t) then insSlice r (tr x (width t)) rep 0 else r) := by
    intro ro mro
    have hwr := rowWidth_ok ro mro
    by_cases hgt : rowWidth ro > tr x (width t)
    · obtain ⟨ro', e, m, ex⟩ := rowInsertCell_ok ro mro (tr x (width t)) emptyCell rep hrep
      refine ⟨ro', by simp only [hgt, if_true, e], m, ?_⟩
      show expand ro'.runs = if (expand ro.runs).length > tr x (width t) then _ else _
      rw [if_pos (by omega), ex, padRow_le _ _ (by omega)]
      rfl
    · refine ⟨ro, by simp only [hgt, if_false], mro, ?_⟩
      show expand ro.runs = if (expand ro.runs).length > tr x (width t) then _ else _
      rw [if_neg (by omega)]
  obtain ⟨runs', em, hm, hp, hcells', hnil, hex⟩ := mapRowsM_ok t1.rows.runs i1.cells _ _ hspec
  refine ⟨{ t1 with rows := { t1.rows with runs := runs' } }, ?_, ⟨i1.cols, ⟨?_, hp i1.rows.2⟩, hcells', ?_⟩, ?_⟩
  · unfold insertColumn
    simp only
    rw [e1]
    simp only [Option.bind_some, em, Option.map_some]
  · show t1.rows.map = makeCacheMap runs'
    rw [hm]; exact i1.rows.1
  · intro hne
    exact i1.declared (fun hh => hne (hnil.2 hh))
  · unfold Grid.insertColumn
    simp only [absT]
    rw [hc1, tr_eq_norm, hw] at *
    congr 1
    show List.map expand (expand runs') = _
    rw [hex, hr1]
    rfl

/-- **append_column** -/
theorem appendColumnOp_ok (t : Tbl) (h : Inv t) (rep : Nat) (hrep : 1 ≤ rep) :
    Inv (appendColumnOp t rep) ∧ absT (appendColumnOp t rep) = Grid.appendColumn (absT t) rep :=
  appendColumn_ok t h rep hrep

/-- **delete_column**: the grid loses that column in every row that has it. The declared-
    columns clause of the invariant survives unless the last column of a table with rows was
    deleted. -/
theorem deleteColumn_ok (t : Tbl) (h : Inv t) (x : Int) :
    ∃ t', deleteColumn t x = some t' ∧ MapOk t'.cols ∧ MapOk t'.rows ∧ (∀ p ∈ t'.rows.runs, Pos p.1) ∧
      absT t' = Grid.deleteColumn (absT t) x ∧
      (((absT t').ncols ≠ 0 ∨ (absT t').rows = []) → Inv t') := by
  have hw := width_ok t h
  unfold deleteColumn Grid.deleteColumn
  simp only
  rw [tr_eq_norm, hw]
  have hnc : (absT t).ncols = total t.cols.runs := rfl
  by_cases h1 : Grid.norm x (absT t).ncols ≥ (absT t).ncols
  · rw [if_pos h1, if_neg (by omega)]
    exact ⟨t, rfl, h.cols, h.rows, h.cells, rfl, fun _ => h⟩
  · rw [if_neg h1, if_pos (by omega)]
    have hx : Grid.norm x (absT t).ncols < total t.cols.runs := by omega
    obtain ⟨cols', e, m, ex⟩ := deleteItem_ok t.cols h.cols _ hx
    rw [e]
    simp only [Option.bind_some]
    have hspec : RowSpec (fun ro => if rowWidth ro > Grid.norm x (absT t).ncols then rowDeleteCell ro (Grid.norm x (absT t).ncols) else some ro)
        (fun r => if r.length > Grid.norm x (absT t).ncols then r.eraseIdx (Grid.norm x (absT t).ncols) else r) := by
      intro ro mro
      have hwr := rowWidth_ok ro mro
      by_cases hgt : rowWidth ro > Grid.norm x (absT t).ncols
      · obtain ⟨ro', e, m, ex⟩ := rowDeleteCell_ok ro mro (Grid.norm x (absT t).ncols)
        refine ⟨ro', by simp only [hgt, if_true, e], m, ?_⟩
        show expand ro'.runs = if (expand ro.runs).length > Grid.norm x (absT t).ncols then _ else _
        rw [if_pos (by omega), ex]
      · refine ⟨ro, by simp only [hgt, if_false], mro, ?_⟩
        show expand ro.runs = if (expand ro.runs).length > Grid.norm x (absT t).ncols then _ else _
        rw [if_neg (by omega)]
    obtain ⟨runs', em, hm, hp, hcells', hnil, hex⟩ := mapRowsM_ok t.rows.runs h.cells _ _ hspec
    rw [em]
    simp only [Option.map_some]
    have hrowsok : MapOk ({ t.rows with runs := runs' } : Vault RowD) :=
      ⟨by show t.rows.map = makeCacheMap runs'; rw [hm]; exact h.rows.1, hp h.rows.2⟩
    have hcolst : total cols'.runs = (absT t).ncols - 1 := by
      rw [← expand_length, ex, List.length_eraseIdx, expand_length, if_pos hx, hnc]
    have habs : absT { cols := cols', rows := { t.rows with runs := runs' } } =
        { ncols := (absT t).ncols - 1,
          rows := (absT t).rows.map (fun r => if r.length > Grid.norm x (absT t).ncols then r.eraseIdx (Grid.norm x (absT t).ncols) else r) } := by
      simp only [absT]
      rw [hcolst]
      congr 1
    refine ⟨_, rfl, m, hrowsok, hcells', habs, ?_⟩
    intro hdec
    refine ⟨m, hrowsok, hcells', ?_⟩
    intro hne hcn
    rw [habs] at hdec
    simp only at hdec
    rcases hdec with hd | hd
    · apply hd
      have : total cols'.runs = 0 := by rw [hcn]; rfl
      rw [← hcolst]; exact this
    · apply hne
      have : (expand runs').map expand = [] := by
        rw [hex]; exact hd
      have h0 : total runs' = 0 := by
        have := congrArg List.length this
        simpa [expand_length] using this
      exact (total_zero_iff runs' hrowsok.2).1 h0

/-! ### reads -/

theorem sizeOf_ok (t : Tbl) (h : Inv t) : sizeOf t = Grid.size (absT t) := by
  simp [sizeOf, Grid.size, width_ok t h, height_ok t h]

theorem getValues_ok (t : Tbl) (h : Inv t) : getValues t = Grid.values (absT t) := by
  simp only [getValues, Grid.values, expandedRows, absT, List.map_map, width_ok t h]
  rfl

end Odf.Table
