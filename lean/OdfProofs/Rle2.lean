import OdfProofs.Rle

namespace Odf.Rle

variable {α : Type}

/-! ### list surgery helpers -/

theorem take_len_append {β : Type} (a l : List β) : (a ++ l).take a.length = a := by
  induction a with
  | nil => simp
  | cons x t ih => simp [ih]

theorem drop_len_append {β : Type} (a l : List β) : (a ++ l).drop a.length = l := by
  induction a with
  | nil => simp
  | cons x t ih => simp [ih]

theorem drop_len_succ_append {β : Type} (a : List β) (x : β) (l : List β) :
    (a ++ x :: l).drop (a.length + 1) = l := by
  induction a with
  | nil => simp
  | cons y t ih => simp [ih]

theorem getElem?_len_append {β : Type} (a : List β) (x : β) (l : List β) :
    (a ++ x :: l)[a.length]? = some x := by
  induction a with
  | nil => simp
  | cons y t ih => simpa using ih

/-! ### map arithmetic = cumulative map of the edited run list -/

theorem mcm_append (a b : Runs α) :
    makeCacheMap (a ++ b) = makeCacheMap a ++ cumFrom (total a) b := by
  simp [makeCacheMap, cumFrom_append]

theorem mcm_length (v : Runs α) : (makeCacheMap v).length = v.length := cumFrom_length 0 v

theorem eraseMapOnce_mcm (a b : Runs α) (c : α) (n : Nat) :
    eraseMapOnce (makeCacheMap (a ++ (c, n) :: b)) a.length = some (makeCacheMap (a ++ b)) := by
  have hlen : a.length < (makeCacheMap (a ++ (c, n) :: b)).length := by simp [mcm_length]
  unfold eraseMapOnce
  rw [if_neg (by omega)]
  have hb := beforeOf_mcm (a ++ (c, n) :: b) a.length (by simp)
  rw [take_len_append] at hb
  have hg : (makeCacheMap (a ++ (c, n) :: b)).getD a.length 0 = total a + n := by
    unfold makeCacheMap
    rw [cumFrom_getD 0 _ a.length (by simp)]
    have : (a ++ (c, n) :: b).take (a.length + 1) = a ++ [(c, n)] := by
      have := take_len_append (a ++ [(c, n)]) b
      simpa using this
    rw [this, total_append]; simp
  simp only [hb, hg]
  have e : total a + n - total a = n := by omega
  rw [e, mcm_append, mcm_append]
  have hl : (makeCacheMap a).length = a.length := mcm_length a
  have ht : (makeCacheMap a ++ cumFrom (total a) ((c, n) :: b)).take a.length = makeCacheMap a := by
    rw [← hl]; exact take_len_append _ _
  have hd : (makeCacheMap a ++ cumFrom (total a) ((c, n) :: b)).drop (a.length + 1)
      = cumFrom (total a + n) b := by
    rw [← hl]
    simp only [cumFrom]
    exact drop_len_succ_append _ _ _
  rw [ht, hd, cumFrom_shift_sub _ _ _ (by omega)]
  have e3 : total a + n - n = total a := by omega
  rw [e3]

theorem insertMapOnce_mcm (a b : Runs α) (x : α) (rep : Nat) (hrep : 1 ≤ rep) :
    insertMapOnce (makeCacheMap (a ++ b)) a.length rep = some (makeCacheMap (a ++ (x, rep) :: b)) := by
  unfold insertMapOnce
  have h0 : ¬ rep = 0 := by omega
  simp only [h0, if_false]
  rw [if_neg (by simp [mcm_length])]
  have hb := beforeOf_mcm (a ++ b) a.length (by simp)
  rw [take_len_append] at hb
  rw [hb, mcm_append, mcm_append]
  have hl : (makeCacheMap a).length = a.length := mcm_length a
  have ht : (makeCacheMap a ++ cumFrom (total a) b).take a.length = makeCacheMap a := by
    rw [← hl]; exact take_len_append _ _
  have hd : (makeCacheMap a ++ cumFrom (total a) b).drop a.length = cumFrom (total a) b := by
    rw [← hl]; exact drop_len_append _ _
  rw [ht, hd, cumFrom_shift]
  simp [cumFrom]

theorem trimMap_mcm (fuel : Nat) (pre rest : Runs α) (k : Nat) (hpre : pre ≠ []) (hfuel : rest.length ≤ fuel) :
    trimMap fuel (makeCacheMap (pre ++ rest)) pre.length k = makeCacheMap (pre ++ trimFront k rest) := by
  induction fuel generalizing rest k with
  | zero =>
    have : rest = [] := List.length_eq_zero_iff.1 (by omega)
    subst this
    simp [trimMap, trimFront]
  | succ f ih =>
    cases rest with
    | nil =>
      simp only [trimMap, trimFront, List.append_nil]
      rw [if_neg (by simp [mcm_length])]
    | cons hd tl =>
      obtain ⟨c, n⟩ := hd
      simp only [trimMap]
      by_cases hk : k > 0
      · have hidx : pre.length < (makeCacheMap (pre ++ (c, n) :: tl)).length := by simp [mcm_length]
        rw [if_pos ⟨hk, hidx⟩]
        have hg : (makeCacheMap (pre ++ (c, n) :: tl)).getD pre.length 0 = total pre + n := by
          unfold makeCacheMap
          rw [cumFrom_getD 0 _ pre.length (by simp)]
          have : (pre ++ (c, n) :: tl).take (pre.length + 1) = pre ++ [(c, n)] := by
            have := take_len_append (pre ++ [(c, n)]) tl
            simpa using this
          rw [this, total_append]; simp
        have hplen : 1 ≤ pre.length := by
          cases pre with
          | nil => exact absurd rfl hpre
          | cons _ _ => simp
        have hg1 : (makeCacheMap (pre ++ (c, n) :: tl)).getD (pre.length - 1) 0 = total pre := by
          unfold makeCacheMap
          rw [cumFrom_getD 0 _ (pre.length - 1) (by simp; omega)]
          have e : pre.length - 1 + 1 = pre.length := by omega
          rw [e, take_len_append]; simp
        simp only [hg, hg1]
        have e : total pre + n - total pre = n := by omega
        rw [e]
        by_cases hn : n ≤ k
        · rw [if_pos hn, eraseMapOnce_mcm]
          simp only
          rw [ih tl (k - n) (by simpa using hfuel)]
          simp only [trimFront]
          rw [if_neg (by omega), if_neg (by omega)]
        · rw [if_neg hn]
          simp only [trimFront]
          rw [if_neg (by omega), if_pos (by omega)]
          rw [mcm_append, mcm_append]
          have hl : (makeCacheMap pre).length = pre.length := mcm_length pre
          have ht : (makeCacheMap pre ++ cumFrom (total pre) ((c, n) :: tl)).take pre.length = makeCacheMap pre := by
            rw [← hl]; exact take_len_append _ _
          have hd : (makeCacheMap pre ++ cumFrom (total pre) ((c, n) :: tl)).drop pre.length
              = cumFrom (total pre) ((c, n) :: tl) := by
            rw [← hl]; exact drop_len_append _ _
          rw [ht, hd]
          simp only [cumFrom, List.map_cons]
          rw [cumFrom_shift_sub _ _ _ (by omega)]
          have e2 : total pre + n - k = total pre + (n - k) := by omega
          rw [e2]
      · have hk0 : k = 0 := by omega
        subst hk0
        rw [if_neg (by simp)]
        simp [trimFront]

end Odf.Rle
