import OdfProofs.Markup

/-! Helper lemmas for C09, second part: `_insert`, the searches, the removals. -/
namespace Odf.Markup

/-! ### hosted elements -/

/-- every character a token stands for, whatever its channel -/
def Tok.raw : Tok → List Char
  | .txt _ _ cs => cs
  | .op 1 n _ => List.replicate n ' '
  | .op 2 _ _ => ['\t']
  | .op 3 _ _ => ['\n']
  | _ => []

def rawAll (ts : Toks) : List Char := ts.flatMap Tok.raw

@[simp] theorem rawAll_nil : rawAll [] = [] := rfl
@[simp] theorem rawAll_cons (t : Tok) (ts : Toks) : rawAll (t :: ts) = t.raw ++ rawAll ts := by simp [rawAll]
@[simp] theorem rawAll_append (a b : Toks) : rawAll (a ++ b) = rawAll a ++ rawAll b := by simp [rawAll]

theorem chars_host_false (x s : Bool) (t : Tok) : (t.host false s).chars x = t.chars x := by
  cases t with
  | txt h' s' cs => simp [Tok.host, Tok.chars]
  | op k l h' => simp [Tok.host]
  | cl => rfl

theorem chars_host_true_main (s : Bool) (t : Tok) : (t.host true s).chars false = [] := by
  cases t with
  | txt h' s' cs => simp [Tok.host, Tok.chars]
  | op k l h' =>
    simp only [Tok.host, Bool.true_or]
    unfold Tok.chars
    split <;> simp_all
  | cl => rfl

theorem plain_host_main (h s : Bool) (elem : Toks) (he : plain false elem = []) :
    plain false (elem.map (Tok.host h s)) = [] := by
  cases h with
  | true =>
    induction elem with
    | nil => rfl
    | cons t rest ih =>
      simp only [List.map_cons, plain_cons, chars_host_true_main, List.nil_append]
      apply ih
      simp only [plain_cons, List.append_eq_nil_iff] at he
      exact he.2
  | false =>
    have : elem.map (Tok.host false s) = elem.map (Tok.host false s) := rfl
    induction elem with
    | nil => rfl
    | cons t rest ih =>
      simp only [plain_cons, List.append_eq_nil_iff] at he
      simp only [List.map_cons, plain_cons, chars_host_false, he.1, List.nil_append]
      exact ih he.2 rfl

/-- **an inserted mark, note or annotation does not change the paragraph text of the node it
    splits** (`elem` carries no paragraph text of its own) -/
theorem plain_splitInsert_main (h s : Bool) (cs : List Char) (pos : Nat) (elem : Toks) (he : plain false elem = []) :
    plain false (splitInsert h s cs pos elem) = plain false [.txt h s cs] := by
  unfold splitInsert
  rw [plain_append, plain_append, plain_txtOpt, plain_host_main h s elem he]
  simp only [plain_cons, plain_nil, chars_txt, List.append_nil, List.nil_append]
  by_cases hx : h = false <;> simp [hx]

/-! ### `_insert_find_text` -/

/-- characters of the main text nodes (`skip = false`) -/
def mainLen : Toks → Nat
  | [] => 0
  | .txt _ false cs :: rest => cs.length + mainLen rest
  | _ :: rest => mainLen rest

/-- number of main text nodes -/
def mainCount : Toks → Nat
  | [] => 0
  | .txt _ false _ :: rest => 1 + mainCount rest
  | _ :: rest => mainCount rest

/-- **position form**: when `_insert_find_text` finds a place, the element is put inside ONE main
    text node, `position` characters after the start of the main text (text-node coordinate),
    and the rest of the stream is untouched -/
theorem insertPos_spec (elem : Toks) (p : Nat) (ts ts' : Toks) (c : Nat) (hc : c ≤ p)
    (h : insertPos elem p ts c = some ts') :
    ∃ pre hh cs post, ts = pre ++ .txt hh false cs :: post ∧
      ts' = pre ++ splitInsert hh false cs (p - c - mainLen pre) elem ++ post ∧
      mainLen pre + c ≤ p ∧ p ≤ mainLen pre + c + cs.length := by
  induction ts generalizing c ts' with
  | nil => simp [insertPos] at h
  | cons t rest ih =>
    cases t with
    | txt hh s cs =>
      simp only [insertPos] at h
      cases s with
      | true =>
        simp only [if_true, Option.map_eq_some_iff] at h
        obtain ⟨r, hr, rfl⟩ := h
        obtain ⟨pre, h2, cs2, post, e1, e2, e3, e4⟩ := ih r c hc hr
        exact ⟨.txt hh true cs :: pre, h2, cs2, post, by simp [e1], by simp [e2, mainLen], by simpa [mainLen] using e3,
          by simpa [mainLen] using e4⟩
      | false =>
        simp only [Bool.false_eq_true, if_false] at h
        by_cases hge : cs.length + c ≥ p
        · rw [if_pos hge] at h
          simp only [Option.some.injEq] at h
          exact ⟨[], hh, cs, rest, rfl, by simp [← h, mainLen], by simp [mainLen]; omega, by simp [mainLen]; omega⟩
        · rw [if_neg hge] at h
          simp only [Option.map_eq_some_iff] at h
          obtain ⟨r, hr, rfl⟩ := h
          obtain ⟨pre, h2, cs2, post, e1, e2, e3, e4⟩ := ih r (c + cs.length) (by omega) hr
          refine ⟨.txt hh false cs :: pre, h2, cs2, post, by simp [e1], ?_, by simp [mainLen]; omega, by simp [mainLen]; omega⟩
          simp only [e2, List.cons_append, mainLen]
          have : p - (c + cs.length) - mainLen pre = p - c - (cs.length + mainLen pre) := by omega
          rw [this]
    | op k l hh =>
      simp only [insertPos, Option.map_eq_some_iff] at h
      obtain ⟨r, hr, rfl⟩ := h
      obtain ⟨pre, h2, cs2, post, e1, e2, e3, e4⟩ := ih r c hc hr
      exact ⟨.op k l hh :: pre, h2, cs2, post, by simp [e1], by simp [e2, mainLen], by simpa [mainLen] using e3,
        by simpa [mainLen] using e4⟩
    | cl =>
      simp only [insertPos, Option.map_eq_some_iff] at h
      obtain ⟨r, hr, rfl⟩ := h
      obtain ⟨pre, h2, cs2, post, e1, e2, e3, e4⟩ := ih r c hc hr
      exact ⟨.cl :: pre, h2, cs2, post, by simp [e1], by simp [e2, mainLen], by simpa [mainLen] using e3,
        by simpa [mainLen] using e4⟩

/-- position beyond the main text: `ValueError`, nothing inserted -/
theorem insertPos_none (elem : Toks) (p : Nat) (ts : Toks) (c : Nat) (h : mainLen ts + c < p) :
    insertPos elem p ts c = none := by
  induction ts generalizing c with
  | nil => rfl
  | cons t rest ih =>
    cases t with
    | txt hh s cs =>
      cases s with
      | true => simp only [mainLen] at h; simp [insertPos, ih c h]
      | false =>
        simp only [mainLen] at h
        simp only [insertPos, Bool.false_eq_true, if_false]
        rw [if_neg (by omega), ih (c + cs.length) (by omega)]
        rfl
    | op k l hh => simp only [mainLen] at h; simp [insertPos, ih c h]
    | cl => simp only [mainLen] at h; simp [insertPos, ih c h]

theorem plain_insertPos_main (elem : Toks) (p : Nat) (ts ts' : Toks) (he : plain false elem = [])
    (h : insertPos elem p ts 0 = some ts') : plain false ts' = plain false ts := by
  obtain ⟨pre, hh, cs, post, e1, e2, _, _⟩ := insertPos_spec elem p ts ts' 0 (Nat.zero_le _) h
  rw [e1, e2, plain_append, plain_append, plain_splitInsert_main _ _ _ _ _ he]
  simp

/-! ### regex-addressed `_insert` -/

theorem onMainNode_spec (f : Bool → Bool → List Char → Toks) (ts ts' : Toks) (idx : Nat)
    (h : onMainNode f ts idx = some ts') :
    ∃ pre hh cs post, ts = pre ++ .txt hh false cs :: post ∧ ts' = pre ++ f hh false cs ++ post ∧
      mainCount pre = idx := by
  induction ts generalizing idx ts' with
  | nil => simp [onMainNode] at h
  | cons t rest ih =>
    cases t with
    | txt hh s cs =>
      simp only [onMainNode] at h
      cases s with
      | true =>
        simp only [if_true, Option.map_eq_some_iff] at h
        obtain ⟨r, hr, rfl⟩ := h
        obtain ⟨pre, h2, cs2, post, e1, e2, e3⟩ := ih r idx hr
        exact ⟨.txt hh true cs :: pre, h2, cs2, post, by simp [e1], by simp [e2], by simpa [mainCount] using e3⟩
      | false =>
        simp only [Bool.false_eq_true, if_false] at h
        cases idx with
        | zero =>
          simp only [Option.some.injEq] at h
          exact ⟨[], hh, cs, rest, rfl, by simp [← h], rfl⟩
        | succ i =>
          simp only [Option.map_eq_some_iff] at h
          obtain ⟨r, hr, rfl⟩ := h
          obtain ⟨pre, h2, cs2, post, e1, e2, e3⟩ := ih r i hr
          exact ⟨.txt hh false cs :: pre, h2, cs2, post, by simp [e1], by simp [e2], by simp [mainCount, e3]; omega⟩
    | op k l hh =>
      simp only [onMainNode, Option.map_eq_some_iff] at h
      obtain ⟨r, hr, rfl⟩ := h
      obtain ⟨pre, h2, cs2, post, e1, e2, e3⟩ := ih r idx hr
      exact ⟨.op k l hh :: pre, h2, cs2, post, by simp [e1], by simp [e2], by simpa [mainCount] using e3⟩
    | cl =>
      simp only [onMainNode, Option.map_eq_some_iff] at h
      obtain ⟨r, hr, rfl⟩ := h
      obtain ⟨pre, h2, cs2, post, e1, e2, e3⟩ := ih r idx hr
      exact ⟨.cl :: pre, h2, cs2, post, by simp [e1], by simp [e2], by simpa [mainCount] using e3⟩

/-- the matches in document order, each with the index of its main text node -/
def indexed : List (List (Nat × Nat)) → Nat → List (Nat × (Nat × Nat))
  | [], _ => []
  | sp :: sps, i => sp.map (fun m => (i, m)) ++ indexed sps (i + 1)

/-- **`_search_positive_position` picks the `position`-th match in document order** -/
theorem searchPositive_spec (p : Nat) (spans : List (List (Nat × Nat))) (i c : Nat) (hc : c ≤ p) :
    searchPositive p spans i c = (indexed spans i)[p - c]? := by
  induction spans generalizing i c with
  | nil => simp [searchPositive, indexed]
  | cons sp sps ih =>
    simp only [searchPositive, indexed]
    by_cases hge : sp.length + c ≥ p + 1
    · rw [if_pos hge, List.getElem?_append_left (by simp; omega), List.getElem?_map]
    · rw [if_neg hge, ih (i + 1) (c + sp.length) (by omega), List.getElem?_append_right (by simp; omega)]
      congr 1
      simp
      omega

theorem searchNegative_spec (spans : List (List (Nat × Nat))) (i : Nat) (best : Option (Nat × (Nat × Nat))) :
    searchNegative spans i best = match (indexed spans i).getLast? with
      | some m => some m
      | none => best := by
  induction spans generalizing i best with
  | nil => simp [searchNegative, indexed]
  | cons sp sps ih =>
    simp only [searchNegative, indexed]
    rw [ih, List.getLast?_append, List.getLast?_map]
    cases (indexed sps (i + 1)).getLast? <;> cases sp.getLast? <;> rfl

/-- **`_search_negative_position` picks the last match in document order** -/
theorem search_negative_last (spans : List (List (Nat × Nat))) :
    searchNegative spans 0 none = (indexed spans 0).getLast? := by
  rw [searchNegative_spec]
  cases (indexed spans 0).getLast? <;> rfl

/-! ### removals -/

theorem raw_cl : Tok.cl.raw = [] := rfl

theorem rawAll_takeElem (l : Toks) (d : Nat) : rawAll (takeElem l d).1 ++ rawAll (takeElem l d).2 = rawAll l := by
  induction l generalizing d with
  | nil => simp [takeElem]
  | cons t rest ih =>
    cases t with
    | txt h s cs => simp only [takeElem, rawAll_cons, List.append_assoc]; rw [ih d]
    | op k l h => simp only [takeElem, rawAll_cons, List.append_assoc]; rw [ih (d + 1)]
    | cl =>
      match d with
      | 0 => simp [takeElem]
      | 1 => simp [takeElem]
      | d + 2 => simp only [takeElem, rawAll_cons, List.append_assoc]; rw [ih (d + 1)]

theorem rawAll_takeInner (l : Toks) (d : Nat) : rawAll (takeInner l d).1 ++ rawAll (takeInner l d).2 = rawAll l := by
  induction l generalizing d with
  | nil => simp [takeInner]
  | cons t rest ih =>
    cases t with
    | txt h s cs => simp only [takeInner, rawAll_cons, List.append_assoc]; rw [ih d]
    | op k l h => simp only [takeInner, rawAll_cons, List.append_assoc]; rw [ih (d + 1)]
    | cl =>
      match d with
      | 0 => simp [takeInner, raw_cl]
      | 1 => simp [takeInner, raw_cl]
      | d + 2 => simp only [takeInner, rawAll_cons, List.append_assoc]; rw [ih (d + 1)]

theorem rawAll_joinToks (a b : Toks) : rawAll (joinToks a b) = rawAll a ++ rawAll b := by
  induction a with
  | nil => simp [joinToks]
  | cons t rest ih =>
    cases rest with
    | nil =>
      cases t with
      | txt h s cs =>
        cases b with
        | nil => simp [joinToks]
        | cons u b' =>
          cases u with
          | txt h' s' ds => simp [joinToks, Tok.raw]
          | op k l h' => simp [joinToks]
          | cl => simp [joinToks]
      | op k l h => simp [joinToks]
      | cl => simp [joinToks]
    | cons u rest' =>
      have : joinToks (t :: u :: rest') b = t :: joinToks (u :: rest') b := by
        cases t <;> simp [joinToks]
      rw [this, rawAll_cons, ih, rawAll_cons, rawAll_cons]
      simp

theorem rawAll_mergeTxt (ts : Toks) : rawAll (mergeTxt ts) = rawAll ts := by
  induction ts with
  | nil => rfl
  | cons t rest ih =>
    cases t with
    | txt h s cs =>
      simp only [mergeTxt]
      split
      · rename_i h' s' ds r heq
        rw [rawAll_cons, rawAll_cons, ← ih, heq, rawAll_cons]
        simp [Tok.raw]
      · rw [rawAll_cons, rawAll_cons, ih]
    | op k l h => simp only [mergeTxt, rawAll_cons, ih]
    | cl => simp only [mergeTxt, rawAll_cons, ih]

theorem rawAll_dropTags (k : Nat) (hk : k ≠ 1 ∧ k ≠ 2 ∧ k ≠ 3) (ts : Toks) (st : List Bool) :
    rawAll (dropTags k ts st) = rawAll ts := by
  induction ts generalizing st with
  | nil => rfl
  | cons t rest ih =>
    cases t with
    | txt h s cs => simp only [dropTags, rawAll_cons, ih]
    | op k' l h =>
      simp only [dropTags]
      by_cases hkk : k' = k
      · rw [if_pos hkk, ih, rawAll_cons]
        subst hkk
        have : (Tok.op k' l h).raw = [] := by
          unfold Tok.raw
          split <;> simp_all
        rw [this]; rfl
      · rw [if_neg hkk, rawAll_cons, rawAll_cons, ih]
    | cl =>
      simp only [dropTags]
      split <;> simp [rawAll_cons, ih, raw_cl]

end Odf.Markup
