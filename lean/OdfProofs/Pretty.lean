import OdfModel.Para.Pretty

/-! Helper lemmas for C11: the consumer's reading under `pretty_indent`. -/
namespace Odf.Pretty
open Odf.Ws

theorem collapseItems_append (a b : List Item) (ign : Bool) (out : List Char) :
    collapseItems (a ++ b) ign out = collapseItems b (collapseItems a ign out).1 (collapseItems a ign out).2 := by
  induction a generalizing ign out with
  | nil => rfl
  | cons it rest ih =>
    cases it with
    | str cs => simp only [List.cons_append, collapseItems]; exact ih _ _
    | el id txt => simp only [List.cons_append, collapseItems]; exact ih _ _
    | s n => simp only [List.cons_append, collapseItems]; exact ih _ _
    | tab => simp only [List.cons_append, collapseItems]; exact ih _ _
    | lb => simp only [List.cons_append, collapseItems]; exact ih _ _

/-- the state of the consumer after one or more collapsible white-space characters -/
def bump (b : Bool) (r : Bool × List Char) : Bool × List Char :=
  if b then (if r.1 then r else (true, ' ' :: r.2)) else r

theorem collapseChars_ws (ws : List Char) (h : ∀ c ∈ ws, isWs c = true) (ign : Bool) (out : List Char) :
    collapseChars ws ign out = if ws = [] then (ign, out) else bump true (ign, out) := by
  induction ws generalizing ign out with
  | nil => rfl
  | cons c rest ih =>
    have hc : isWs c = true := h c (by simp)
    have hr : ∀ d ∈ rest, isWs d = true := fun d hd => h d (by simp [hd])
    simp only [collapseChars, hc, if_true]
    cases ign with
    | true =>
      simp only [if_true]
      rw [ih hr]
      by_cases hn : rest = [] <;> simp [hn, bump]
    | false =>
      simp only [Bool.false_eq_true, if_false]
      rw [ih hr]
      by_cases hn : rest = [] <;> simp [hn, bump]

theorem indent_ws (n : Nat) : ∀ c ∈ indent n, isWs c = true := by
  intro c hc
  simp only [indent, List.mem_cons, List.mem_replicate] at hc
  rcases hc with rfl | ⟨_, rfl⟩ <;> decide

theorem indent_ne_nil (n : Nat) : indent n ≠ [] := by simp [indent]

theorem collapse_str_indent (n : Nat) (ign : Bool) (out : List Char) :
    collapseItems [Item.str (indent n)] ign out = bump true (ign, out) := by
  simp only [collapseItems]
  rw [collapseChars_ws _ (indent_ws n), if_neg (indent_ne_nil n)]

theorem collapse_str_nil (ign : Bool) (out : List Char) : collapseItems [Item.str []] ign out = (ign, out) := rfl

/-- what the consumer hands over at the end of the paragraph -/
def finish (r : Bool × List Char) : List Char := (if r.1 then r.2.tail else r.2).reverse

theorem collapse_eq_finish (p : Para) : collapse p = finish (collapseItems p true []) := rfl

theorem finish_bump (b : Bool) (r : Bool × List Char) : finish (bump b r) = finish r := by
  obtain ⟨i, o⟩ := r
  cases b <;> cases i <;> simp [bump, finish]

/-- is white space added after the last child: it is not textual, has no tail, and the parent
    is a paragraph or a heading -/
def lastBump (pph : Bool) : Forest → Bool
  | .nil => false
  | .node tag _ _ _ tail rest => if rest.isNil then (!textual tag && tail.isEmpty && pph) else lastBump pph rest

theorem lastBump_false (f : Forest) : lastBump false f = false := by
  induction f with
  | nil => rfl
  | node tag lab text kids tail rest _ ih => simp only [lastBump]; split <;> simp [ih]

theorem isNil_prettyF (l p : Nat) (tp pph : Bool) (f : Forest) : (prettyF l p tp pph f).isNil = f.isNil := by
  cases f with
  | nil => rfl
  | node tag lab text kids tail rest =>
    simp only [prettyF]
    split
    · rfl
    · split <;> rfl

/-- the item a non-textual child stands for -/
def headOf (tag : String) (lab : Nat) : List Item :=
  if tag = "text:s" then [Item.s lab] else if tag = "text:tab" then [Item.tab]
  else if tag = "text:line-break" then [Item.lb] else [Item.el 0 []]

theorem flat_nontextual (tag : String) (lab : Nat) (text : List Char) (kids : Forest) (tail : List Char) (rest : Forest)
    (ht : textual tag = false) :
    flat (.node tag lab text kids tail rest) = headOf tag lab ++ Item.str tail :: flat rest := by
  simp only [flat, headOf, ht, Bool.false_eq_true, if_false]

/-- **inside textual content** the only thing `pretty_indent` does to what a consumer reads is
    to add collapsible white space after the last child of a paragraph / heading -/
theorem flat_pretty (f : Forest) (hwf : WF true f) (lvl pl : Nat) (pph : Bool) (ign : Bool) (out : List Char) :
    collapseItems (flat (prettyF lvl pl true pph f)) ign out = bump (lastBump pph f) (collapseItems (flat f) ign out) := by
  induction f generalizing lvl pl pph ign out with
  | nil => rfl
  | node tag lab text kids tail rest ihk ihr =>
    obtain ⟨hph, hwk, hwr⟩ := hwf
    have hph' : isPH tag = false := hph rfl
    simp only [prettyF]
    by_cases ht : textual tag = true
    · -- a textual child: transparent, its tail is untouched
      rw [if_pos ht]
      simp only [flat, if_true]
      have hs : tag ≠ "text:s" := by intro h; subst h; revert ht; decide
      have htab : tag ≠ "text:tab" := by intro h; subst h; revert ht; decide
      have hlb : tag ≠ "text:line-break" := by intro h; subst h; revert ht; decide
      simp only [hs, htab, hlb, if_false, ht, if_true, List.cons_append]
      simp only [collapseItems]
      rw [collapseItems_append, collapseItems_append (flat kids)]
      rw [ihk (by rw [ht] at hwk; exact hwk) (lvl + 1) lvl (isPH tag), hph', lastBump_false]
      simp only [bump, Bool.false_eq_true, if_false, collapseItems]
      rw [ihr hwr lvl pl pph]
      cases rest with
      | nil => simp [lastBump, Forest.isNil, ht, bump]
      | node _ _ _ _ _ _ => rfl
    · -- a white-space element or an opaque object
      have ht' : textual tag = false := by simpa using ht
      rw [if_neg ht]
      simp only [Bool.not_true, Bool.false_eq_true, if_false]
      rw [flat_nontextual _ _ _ _ _ _ ht', flat_nontextual _ _ _ _ _ _ ht']
      rw [collapseItems_append, collapseItems_append (headOf tag lab)]
      generalize collapseItems (headOf tag lab) ign out = st
      obtain ⟨i1, o1⟩ := st
      cases rest with
      | nil =>
        simp only [prettyF, flat, Forest.isNil, lastBump, ht', Bool.not_false, Bool.true_and, if_true]
        by_cases hc : tail = [] ∧ pph = true
        · obtain ⟨h1, h2⟩ := hc
          subst h1; subst h2
          simp only [and_self, if_true, List.isEmpty_nil, Bool.and_self]
          rw [collapse_str_indent]
          rfl
        · have hb : (tail.isEmpty && pph) = false := by
            cases tail <;> cases pph <;> simp_all
          rw [if_neg (by simpa using hc), hb]
          rfl
      | node t2 l2 x2 k2 tl2 r2 =>
        simp only [Forest.isNil, Bool.false_eq_true, and_false, false_and, if_false, lastBump]
        simp only [collapseItems]
        exact ihr hwr lvl pl pph _ _

/-- **every paragraph and heading reads the same** -/
theorem readAll_pretty (f : Forest) (tp : Bool) (hwf : WF tp f) (lvl pl : Nat) (pph : Bool) :
    readAll (prettyF lvl pl tp pph f) = readAll f := by
  induction f generalizing tp lvl pl pph with
  | nil => rfl
  | node tag lab text kids tail rest ihk ihr =>
    obtain ⟨hph, hwk, hwr⟩ := hwf
    simp only [prettyF]
    by_cases ht : textual tag = true
    · rw [if_pos ht]
      simp only [readAll]
      rw [ihk true (by rw [ht] at hwk; exact hwk), ihr tp hwr]
      congr 1
      by_cases hp : isPH tag = true
      · simp only [hp, if_true]
        congr 1
        rw [collapse_eq_finish, collapse_eq_finish]
        simp only [collapseItems]
        rw [flat_pretty kids (by rw [ht] at hwk; exact hwk), finish_bump]
      · simp [hp]
    · rw [if_neg ht]
      have hp : isPH tag = false := by
        cases hp : isPH tag with
        | false => rfl
        | true =>
          exfalso; apply ht
          simp only [isPH, Bool.or_eq_true, beq_iff_eq] at hp
          rcases hp with rfl | rfl <;> decide
      have ht' : textual tag = false := by simpa using ht
      by_cases htp : tp = true
      · subst htp
        simp only [Bool.not_true, Bool.false_eq_true, if_false, readAll, hp]
        rw [ihk false (by rw [ht'] at hwk; exact hwk), ihr true hwr]
      · have : tp = false := by simpa using htp
        subst this
        simp only [Bool.not_false, if_true, readAll, hp, Bool.false_eq_true, if_false]
        rw [ihk false (by rw [ht'] at hwk; exact hwk), ihr false hwr]

theorem erase_pretty (f : Forest) (lvl pl : Nat) (tp pph : Bool) : erase (prettyF lvl pl tp pph f) = erase f := by
  induction f generalizing lvl pl tp pph with
  | nil => rfl
  | node tag lab text kids tail rest ihk ihr =>
    simp only [prettyF]
    split
    · simp only [erase, ihk, ihr]
    · split <;> simp only [erase, ihk, ihr]

theorem wfB_iff (tp : Bool) (f : Forest) : wfB tp f = true ↔ WF tp f := by
  induction f generalizing tp with
  | nil => simp [wfB, WF]
  | node tag lab text kids tail rest ihk ihr =>
    simp only [wfB, WF, Bool.and_eq_true, ihk, ihr]
    constructor
    · rintro ⟨⟨h1, h2⟩, h3⟩
      refine ⟨?_, h2, h3⟩
      intro htp; subst htp; simpa using h1
    · rintro ⟨h1, h2, h3⟩
      refine ⟨⟨?_, h2⟩, h3⟩
      cases tp with
      | false => rfl
      | true => simp [h1 rfl]

end Odf.Pretty
