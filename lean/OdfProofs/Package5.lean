import OdfProofs.Package4

/-! Pretty saves (`Doc.savePretty`): what is written is what the plain save writes, the XML parts that are parsed (or standard)
    passed through the pretty serialiser. -/
namespace Odf.Pkg

theorem look_map_pp (pp : Blob → Blob) (ps : List (Nat × Blob)) (m : Nat) :
    look (ps.map (fun p => (p.1, pp p.2))) m = (look ps m).map pp := by
  induction ps with
  | nil => rfl
  | cons p rest ih =>
    simp only [List.map_cons, look]
    by_cases h : p.1 = m
    · simp [h]
    · simp [h, ih]

theorem keys_map_pp (pp : Blob → Blob) (ps : List (Nat × Blob)) : keys (ps.map (fun p => (p.1, pp p.2))) = keys ps := by
  simp [keys, List.map_map, Function.comp_def]

theorem foldl_set_pp (pp : Blob → Blob) (ps : List (Nat × Blob)) (c : Cont) :
    ps.foldl (fun c p => c.set p.1 (pp p.2)) c = (ps.map (fun p => (p.1, pp p.2))).foldl (fun c p => c.set p.1 p.2) c := by
  induction ps generalizing c with
  | nil => rfl
  | cons p rest ih => simp only [List.foldl_cons, List.map_cons]; exact ih _

theorem prettyStd_wf (pp : Blob → Blob) (acc : Doc) (n : Nat) (h : WFd acc) : WFd (prettyStd pp acc n) := by
  unfold prettyStd
  cases hl : look acc.parsed n with
  | some b => exact h
  | none =>
    simp only
    have hg := get_snd_wf acc.c n h.1
    cases hf : (acc.c.get n) with
    | mk o c' =>
      rw [hf] at hg
      cases o with
      | none => exact ⟨hg, h.2⟩
      | some b => exact ⟨wf_set _ _ _ hg, nodup_put _ _ _ h.2⟩

theorem prettyStd_cview (pp : Blob → Blob) (acc : Doc) (n m : Nat) :
    cview (prettyStd pp acc n).c m =
      if m = n ∧ look acc.parsed n = none then (cview acc.c m).map pp else cview acc.c m := by
  unfold prettyStd
  cases hl : look acc.parsed n with
  | some b => simp
  | none =>
    simp only
    have h1 := get_fst acc.c n
    have h2 := get_snd_cview acc.c n m
    cases hf : (acc.c.get n) with
    | mk o c' =>
      rw [hf] at h1 h2
      simp only at h1 h2
      cases o with
      | none =>
        simp only [h2]
        by_cases hm : m = n
        · subst hm; simp [← h1]
        · simp [hm]
      | some b =>
        simp only [cview_set]
        by_cases hm : m = n
        · subst hm; simp [← h1]
        · simp [hm, h2]

theorem prettyStd_parsed_other (pp : Blob → Blob) (acc : Doc) (n m : Nat) (hm : m ≠ n) :
    look (prettyStd pp acc n).parsed m = look acc.parsed m := by
  unfold prettyStd
  cases hl : look acc.parsed n with
  | some b => rfl
  | none =>
    simp only
    cases hf : (acc.c.get n) with
    | mk o c' =>
      cases o with
      | none => rfl
      | some b => simp only [look_put]; simp [hm]

theorem foldl_prettyStd_wf (pp : Blob → Blob) (ns : List Nat) (acc : Doc) (h : WFd acc) : WFd (ns.foldl (prettyStd pp) acc) := by
  induction ns generalizing acc with
  | nil => exact h
  | cons n rest ih => exact ih _ (prettyStd_wf pp acc n h)

/-- the second loop as a whole, over any list of distinct names -/
theorem foldl_prettyStd_cview (pp : Blob → Blob) (ns : List Nat) (acc : Doc) (m : Nat) (hn : ns.Nodup) :
    cview (ns.foldl (prettyStd pp) acc).c m =
      if m ∈ ns ∧ look acc.parsed m = none then (cview acc.c m).map pp else cview acc.c m := by
  induction ns generalizing acc with
  | nil => simp
  | cons n rest ih =>
    have hr : rest.Nodup := (List.nodup_cons.mp hn).2
    have hnr : n ∉ rest := (List.nodup_cons.mp hn).1
    simp only [List.foldl_cons]
    rw [ih _ hr, prettyStd_cview]
    by_cases hm : m = n
    · subst hm
      simp only [hnr, false_and, if_false, true_and, List.mem_cons, true_or]
    · have hp := prettyStd_parsed_other pp acc n m hm
      rw [hp]
      simp only [hm, false_and, if_false, List.mem_cons, false_or]

/-- **what a pretty save writes**: under every name, what the prepared document holds — passed through the pretty
    serialiser when the part is parsed or is one of the four standard parts, as it is otherwise -/
theorem savePretty_written (pp : Blob → Blob) (d : Doc) (rdf : Blob) (h : WFd d) (m : Nat) :
    look (d.savePretty pp rdf).2 m =
      if (look (d.prepared rdf).parsed m).isSome ∨ m ∈ stdParts then ((d.prepared rdf).view m).map pp
      else (d.prepared rdf).view m := by
  have hw : WFd (d.prepared rdf) := checkRdf_wf _ rdf (parse_wf d nMeta h)
  have hw3 : WFd (Doc.mk ((d.prepared rdf).parsed.foldl (fun c p => c.set p.1 (pp p.2)) (d.prepared rdf).c) (d.prepared rdf).parsed) := by
    refine ⟨?_, hw.2⟩
    rw [foldl_set_pp]
    exact foldl_set_wf _ _ hw.1
  have hw4 := foldl_prettyStd_wf pp stdParts _ hw3
  have e : (d.savePretty pp rdf).2 = live ((stdParts.foldl (prettyStd pp)
      (Doc.mk ((d.prepared rdf).parsed.foldl (fun c p => c.set p.1 (pp p.2)) (d.prepared rdf).c) (d.prepared rdf).parsed)).c.loadAll.parts) := rfl
  rw [e, written_look _ hw4.1, foldl_prettyStd_cview pp stdParts _ m (by decide)]
  simp only
  rw [foldl_set_pp, foldl_set_cview _ _ _ (by rw [keys_map_pp]; exact hw.2), look_map_pp, view_eq]
  cases hl : look (d.prepared rdf).parsed m with
  | some b => simp
  | none =>
    simp only [Option.map_none, Option.isSome_none, Bool.false_eq_true, false_or, and_true]

end Odf.Pkg
