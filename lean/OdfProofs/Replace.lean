import OdfModel.Para.Replace
import OdfProofs.Markup2

/-! Helper lemmas for C16. -/
namespace Odf.Replace
open Odf.Markup

/-- the text between the matches: before the first, between two, after the last -/
def gaps (cs : List Char) : Nat → List (Nat × Nat) → List (List Char)
  | pos, [] => [cs.drop pos]
  | pos, (a, b) :: more => (cs.take a).drop pos :: gaps cs b more

/-- `g0 ++ m1 ++ g1 ++ m2 ++ … ++ gk` -/
def weave : List (List Char) → List (List Char) → List Char
  | g :: gs, m :: ms => g ++ m ++ weave gs ms
  | [g], [] => g
  | _, _ => []

theorem subNode_weave (cs new : List Char) (pos : Nat) (spans : List (Nat × Nat)) :
    subNode cs new pos spans = weave (gaps cs pos spans) (spans.map (fun _ => new)) := by
  induction spans generalizing pos with
  | nil => simp [subNode, gaps, weave]
  | cons p more ih =>
    obtain ⟨a, b⟩ := p
    simp only [subNode, gaps, List.map_cons, weave, ih b]

theorem drop_tail_split (cs : List Char) (a b : Nat) (h : a ≤ b) :
    cs.drop a = (cs.take b).drop a ++ cs.drop b := by
  conv => lhs; rw [← List.take_append_drop b cs]
  rw [List.drop_append]
  congr 1
  by_cases hb : b ≤ cs.length
  · have : (cs.take b).length = b := by simp; omega
    rw [this]
    have : a - b = 0 := by omega
    rw [this]; rfl
  · rw [List.drop_of_length_le (by omega : cs.length ≤ b)]
    simp

theorem drop_split (cs : List Char) (pos a b : Nat) (h1 : pos ≤ a) (h2 : a ≤ b) :
    cs.drop pos = (cs.take a).drop pos ++ ((cs.take b).drop a ++ cs.drop b) := by
  rw [← drop_tail_split cs a b h2]
  exact drop_tail_split cs pos a h1

theorem original_weave (cs : List Char) (pos : Nat) (spans : List (Nat × Nat)) (hs : Sorted cs.length pos spans) :
    cs.drop pos = weave (gaps cs pos spans) (spans.map (fun p => (cs.take p.2).drop p.1)) := by
  induction spans generalizing pos with
  | nil => simp [gaps, weave]
  | cons p more ih =>
    obtain ⟨a, b⟩ := p
    simp only [Sorted] at hs
    obtain ⟨h1, h2, h3, h4⟩ := hs
    simp only [gaps, List.map_cons, weave]
    rw [← ih b h4, List.append_assoc]
    exact drop_split cs pos a b h1 h2

theorem subNodeT_weave (cs : List Char) (tpl : Template) (pos : Nat) (spans : List (Nat × Nat)) :
    subNodeT cs tpl pos spans = weave (gaps cs pos spans) (spans.map (fun p => expandT tpl ((cs.take p.2).drop p.1))) := by
  induction spans generalizing pos with
  | nil => simp [subNodeT, gaps, weave]
  | cons p more ih =>
    obtain ⟨a, b⟩ := p
    simp only [subNodeT, gaps, List.map_cons, weave, ih b]

/-- a template without reference to the match is a literal replacement -/
theorem expandT_literal (l m : List Char) : expandT [some l] m = l := by simp [expandT]

theorem expandT_whole (m : List Char) : expandT [none] m = m := by simp [expandT]

theorem subNodeT_literal (cs l : List Char) (pos : Nat) (spans : List (Nat × Nat)) :
    subNodeT cs [some l] pos spans = subNode cs l pos spans := by
  induction spans generalizing pos with
  | nil => rfl
  | cons p more ih =>
    obtain ⟨a, b⟩ := p
    simp only [subNodeT, subNode, ih b, expandT_literal]

/-- a token with its characters erased: what stays in place whatever is replaced -/
def Tok.erase : Tok → Tok
  | .txt h s _ => .txt h s []
  | t => t

theorem replaceAll_shape (new : List Char) (ts : Toks) (sps : List (List (Nat × Nat))) :
    (replaceAll new ts sps).map Tok.erase = ts.map Tok.erase := by
  induction ts generalizing sps with
  | nil => cases sps <;> rfl
  | cons t rest ih =>
    cases t with
    | txt h s cs =>
      cases sps with
      | nil => simp only [replaceAll, List.map_cons, ih]
      | cons sp more => simp only [replaceAll, List.map_cons, ih, Tok.erase]
    | op k l h => simp only [replaceAll, List.map_cons, ih]
    | cl => simp only [replaceAll, List.map_cons, ih]

theorem replaceAll_nomatch (new : List Char) (ts : Toks) (sps : List (List (Nat × Nat))) (h : ∀ sp ∈ sps, sp = []) :
    replaceAll new ts sps = ts := by
  induction ts generalizing sps with
  | nil => cases sps <;> rfl
  | cons t rest ih =>
    cases t with
    | txt hh s cs =>
      cases sps with
      | nil => simp only [replaceAll]; rw [ih [] (by simp)]
      | cons sp more =>
        have : sp = [] := h sp (by simp)
        subst this
        simp only [replaceAll, subNode, List.drop_zero]
        rw [ih more (fun q hq => h q (by simp [hq]))]
    | op k l hh => simp only [replaceAll]; rw [ih sps h]
    | cl => simp only [replaceAll]; rw [ih sps h]

theorem countMatches_indexed (spans : List (List (Nat × Nat))) (i : Nat) :
    countMatches spans = (indexed spans i).length := by
  induction spans generalizing i with
  | nil => rfl
  | cons sp sps ih =>
    simp only [countMatches, List.map_cons, List.sum_cons, indexed, List.length_append, List.length_map]
    rw [← ih (i + 1)]
    rfl

theorem replaceAllT_shape (tpl : Template) (ts : Toks) (sps : List (List (Nat × Nat))) :
    (replaceAllT tpl ts sps).map Tok.erase = ts.map Tok.erase := by
  induction ts generalizing sps with
  | nil => rfl
  | cons t rest ih =>
    cases t with
    | txt h s cs =>
      cases sps with
      | nil => simp [replaceAllT, Tok.erase, ih]
      | cons sp sps => simp [replaceAllT, Tok.erase, ih]
    | op k l h => simp [replaceAllT, Tok.erase, ih]
    | cl => simp [replaceAllT, Tok.erase, ih]

end Odf.Replace
