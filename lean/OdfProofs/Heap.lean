import OdfModel.Heap
/-! Lemmas on the ownership heap (C10). Core Lean only. -/
namespace Odf.Heap

variable {V : Type}

@[simp] theorem cellsOf_nil (o : Nat) : cellsOf ([] : World V) o = [] := rfl

theorem cellsOf_cons (c : Cell V) (w : World V) (o : Nat) :
    cellsOf (c :: w) o = if c.owner == o then c.val :: cellsOf w o else cellsOf w o := by
  unfold cellsOf
  by_cases h : c.owner == o <;> simp [h]

theorem cellsOf_append (w w' : World V) (o : Nat) :
    cellsOf (w ++ w') o = cellsOf w o ++ cellsOf w' o := by
  simp [cellsOf, List.filter_append]

theorem cellsOf_fresh_other (o o' : Nat) (vs : List V) (h : o ≠ o') :
    cellsOf (vs.map (fun v => (⟨o, v⟩ : Cell V))) o' = [] := by
  induction vs with
  | nil => rfl
  | cons v vs ih =>
    simp only [List.map_cons, cellsOf_cons]
    have : ((o == o') = false) := by simpa using h
    simp [this, ih]

theorem cellsOf_fresh_own (o : Nat) (vs : List V) :
    cellsOf (vs.map (fun v => (⟨o, v⟩ : Cell V))) o = vs := by
  induction vs with
  | nil => rfl
  | cons v vs ih => simp [cellsOf_cons, ih]

/-- a write through twin `o` is invisible to every other twin -/
theorem writeNth_other (w : World V) (o i : Nat) (v : V) (w' : World V) (o' : Nat)
    (h : writeNth w o i v = some w') (hne : o ≠ o') : cellsOf w' o' = cellsOf w o' := by
  induction w generalizing i w' with
  | nil => simp [writeNth] at h
  | cons c w ih =>
    unfold writeNth at h
    by_cases hc : c.owner == o
    · simp only [hc, if_true] at h
      have hco : (c.owner == o') = false := by
        have : c.owner = o := by simpa using hc
        simpa [this] using hne
      cases i with
      | zero =>
        simp only [Option.some.injEq] at h
        subst h
        simp [cellsOf_cons, hco]
      | succ i =>
        simp only [Option.map_eq_some_iff] at h
        obtain ⟨w1, h1, rfl⟩ := h
        simp [cellsOf_cons, hco, ih i w1 h1]
    · simp only [hc] at h
      simp only [Bool.false_eq_true, if_false, Option.map_eq_some_iff] at h
      obtain ⟨w1, h1, rfl⟩ := h
      simp only [cellsOf_cons]
      rw [ih i w1 h1]

/-- what a write does to its own twin: the `i`-th content is replaced, nothing else -/
theorem writeNth_own (w : World V) (o i : Nat) (v : V) (w' : World V)
    (h : writeNth w o i v = some w') :
    i < (cellsOf w o).length ∧ cellsOf w' o = (cellsOf w o).set i v := by
  induction w generalizing i w' with
  | nil => simp [writeNth] at h
  | cons c w ih =>
    unfold writeNth at h
    by_cases hc : c.owner == o
    · simp only [hc, if_true] at h
      cases i with
      | zero =>
        simp only [Option.some.injEq] at h
        subst h
        simp [cellsOf_cons, hc]
      | succ i =>
        simp only [Option.map_eq_some_iff] at h
        obtain ⟨w1, h1, rfl⟩ := h
        obtain ⟨hl, he⟩ := ih i w1 h1
        simp [cellsOf_cons, hc, he, hl]
    · simp only [hc] at h
      simp only [Bool.false_eq_true, if_false, Option.map_eq_some_iff] at h
      obtain ⟨w1, h1, rfl⟩ := h
      obtain ⟨hl, he⟩ := ih i w1 h1
      simp [cellsOf_cons, hc, he, hl]

/-- a write succeeds exactly when the twin has an `i`-th mutable object -/
theorem writeNth_succeeds (w : World V) (o i : Nat) (v : V) (h : i < (cellsOf w o).length) :
    ∃ w', writeNth w o i v = some w' := by
  induction w generalizing i with
  | nil => simp at h
  | cons c w ih =>
    unfold writeNth
    by_cases hc : c.owner == o
    · simp only [hc, if_true]
      cases i with
      | zero => exact ⟨_, rfl⟩
      | succ i =>
        have : i < (cellsOf w o).length := by
          simp [cellsOf_cons, hc] at h; omega
        obtain ⟨w1, h1⟩ := ih i this
        exact ⟨c :: w1, by simp [h1]⟩
    · have : i < (cellsOf w o).length := by simpa [cellsOf_cons, hc] using h
      obtain ⟨w1, h1⟩ := ih i this
      exact ⟨c :: w1, by simp [hc, h1]⟩

/-- ownership never changes hands -/
theorem writeNth_owners (w : World V) (o i : Nat) (v : V) (w' : World V)
    (h : writeNth w o i v = some w') : w'.map (·.owner) = w.map (·.owner) := by
  induction w generalizing i w' with
  | nil => simp [writeNth] at h
  | cons c w ih =>
    unfold writeNth at h
    by_cases hc : c.owner == o
    · simp only [hc, if_true] at h
      cases i with
      | zero =>
        simp only [Option.some.injEq] at h
        subst h; rfl
      | succ i =>
        simp only [Option.map_eq_some_iff] at h
        obtain ⟨w1, h1, rfl⟩ := h
        simp [ih i w1 h1]
    · simp only [hc] at h
      simp only [Bool.false_eq_true, if_false, Option.map_eq_some_iff] at h
      obtain ⟨w1, h1, rfl⟩ := h
      simp [ih i w1 h1]

theorem step_other (w w' : World V) (op : Op V) (o : Nat)
    (h : step w op = some w') (hne : op.target ≠ o) : cellsOf w' o = cellsOf w o := by
  cases op with
  | alloc t vs =>
    simp only [step, Option.some.injEq] at h
    subst h
    rw [cellsOf_append, cellsOf_fresh_other t o vs hne]; simp
  | write t i v => exact writeNth_other w t i v w' o h hne

/-- an operation on `o` acts on the contents of `o`'s objects only through those contents: two
worlds that agree on `o` still agree after it, and it succeeds in one iff it does in the other -/
theorem step_own (w1 w2 w1' : World V) (op : Op V) (o : Nat) (ht : op.target = o)
    (hs : cellsOf w1 o = cellsOf w2 o) (h : step w1 op = some w1') :
    ∃ w2', step w2 op = some w2' ∧ cellsOf w1' o = cellsOf w2' o := by
  cases op with
  | alloc t vs =>
    simp only [Op.target] at ht
    subst ht
    simp only [step, Option.some.injEq] at h
    subst h
    exact ⟨_, rfl, by simp [cellsOf_append, hs]⟩
  | write t i v =>
    simp only [Op.target] at ht
    subst ht
    obtain ⟨hl, he⟩ := writeNth_own w1 t i v w1' h
    obtain ⟨w2', h2⟩ := writeNth_succeeds w2 t i v (by rw [← hs]; exact hl)
    refine ⟨w2', h2, ?_⟩
    rw [he, (writeNth_own w2 t i v w2' h2).2, hs]

theorem run_sim (ops : List (Op V)) (o : Nat) (w1 w2 w1' : World V)
    (hs : cellsOf w1 o = cellsOf w2 o) (h : run w1 ops = some w1') :
    ∃ w2', run w2 (own o ops) = some w2' ∧ cellsOf w1' o = cellsOf w2' o := by
  induction ops generalizing w1 w2 with
  | nil =>
    simp only [run, Option.some.injEq] at h
    subst h
    exact ⟨w2, rfl, hs⟩
  | cons op ops ih =>
    simp only [run, Option.bind_eq_some_iff] at h
    obtain ⟨w1s, hstep, hrest⟩ := h
    by_cases ht : op.target = o
    · obtain ⟨w2s, h2, hs'⟩ := step_own w1 w2 w1s op o ht hs hstep
      obtain ⟨w2', hr, he⟩ := ih w1s w2s hs' hrest
      refine ⟨w2', ?_, he⟩
      have : own o (op :: ops) = op :: own o ops := by simp [own, ht]
      rw [this]; simp [run, h2, hr]
    · have hs' : cellsOf w1s o = cellsOf w2 o := by
        rw [step_other w1 w1s op o hstep ht]; exact hs
      obtain ⟨w2', hr, he⟩ := ih w1s w2 hs' hrest
      refine ⟨w2', ?_, he⟩
      have : own o (op :: ops) = own o ops := by
        have : (op.target == o) = false := by simpa using ht
        simp [own, this]
      rw [this]; exact hr

end Odf.Heap
