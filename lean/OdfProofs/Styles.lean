import OdfModel.Styles

/-! Helper lemmas for C13. -/
namespace Odf.Styles

def hasKey (f : String) (n : Option Name) (s : Sty) : Bool := decide (s.family = f ∧ s.name = n)

def count (b : Box) (f : String) (n : Option Name) : Nat := (b.filter (hasKey f n)).length

/-- no two styles of the same family and name in the container -/
def Unique (b : Box) : Prop := ∀ f n, count b f n ≤ 1

theorem find_eq (b : Box) (f : String) (n : Option Name) : find b f n = b.find? (hasKey f n) := rfl

theorem find_some_mem (b : Box) (f : String) (n : Option Name) (e : Sty) (h : find b f n = some e) :
    e ∈ b ∧ e.family = f ∧ e.name = n := by
  rw [find_eq] at h
  have h1 := List.mem_of_find?_eq_some h
  have h2 := List.find?_some h
  simp only [hasKey, decide_eq_true_eq] at h2
  exact ⟨h1, h2⟩

theorem find_none_count (b : Box) (f : String) (n : Option Name) (h : find b f n = none) : count b f n = 0 := by
  rw [find_eq, List.find?_eq_none] at h
  unfold count
  rw [List.length_eq_zero_iff, List.filter_eq_nil_iff]
  exact h

theorem count_append (a b : Box) (f : String) (n : Option Name) : count (a ++ b) f n = count a f n + count b f n := by
  simp [count, List.filter_append]

theorem count_erase_of_key (b : Box) (e : Sty) (he : e ∈ b) (f : String) (n : Option Name) :
    count (b.erase e) f n = if hasKey f n e then count b f n - 1 else count b f n := by
  induction b with
  | nil => simp at he
  | cons x rest ih =>
    by_cases hx : x = e
    · subst hx
      simp only [List.erase_cons_head, count, List.filter_cons]
      by_cases hk : hasKey f n x = true <;> simp [hk]
    · have hxe : (x == e) = false := by simpa using hx
      have he' : e ∈ rest := by
        rcases List.mem_cons.1 he with h | h
        · exact absurd h.symm hx
        · exact h
      rw [List.erase_cons_tail (by simpa using hx)]
      have := ih he'
      simp only [count, List.filter_cons] at this ⊢
      by_cases hkx : hasKey f n x = true
      · simp only [hkx, if_true, List.length_cons, this]
        by_cases hke : hasKey f n e = true
        · simp only [hke, if_true]
          have hpos : 0 < (rest.filter (hasKey f n)).length := by
            apply List.length_pos_of_mem (a := e)
            exact List.mem_filter.2 ⟨he', hke⟩
          omega
        · simp [hke]
      · simp only [hkx]
        exact this

theorem count_single (st : Sty) (f : String) (n : Option Name) :
    count [st] f n = if st.family = f ∧ st.name = n then 1 else 0 := by
  simp only [count, List.filter_cons, List.filter_nil, hasKey]
  by_cases h : st.family = f ∧ st.name = n <;> simp [h]

theorem count_replaceIn (b : Box) (st : Sty) (f : String) (n : Option Name) :
    count (replaceIn b st) f n =
      if st.family = f ∧ st.name = n then (if count b f n = 0 then 1 else count b f n) else count b f n := by
  unfold replaceIn
  cases hf : find b st.family st.name with
  | none =>
    simp only [count_append, count_single]
    by_cases hk : st.family = f ∧ st.name = n
    · obtain ⟨rfl, rfl⟩ := hk
      simp [find_none_count b _ _ hf]
    · simp [hk]
  | some e =>
    obtain ⟨hm, hef, hen⟩ := find_some_mem b _ _ e hf
    simp only [count_append, count_single, count_erase_of_key b e hm]
    by_cases hk : st.family = f ∧ st.name = n
    · obtain ⟨rfl, rfl⟩ := hk
      have hke : hasKey st.family st.name e = true := by simp [hasKey, hef, hen]
      have hpos : 0 < count b st.family st.name := by
        unfold count
        apply List.length_pos_of_mem (a := e)
        exact List.mem_filter.2 ⟨hm, hke⟩
      simp only [hke, if_true, and_self]
      rw [if_neg (by omega)]
      omega
    · have hke : hasKey f n e = false := by
        simp only [hasKey, decide_eq_false_iff_not, hef, hen]
        exact hk
      simp [hk, hke]

/-- **delete-then-append keeps the container free of homonyms**, and the new style is there once -/
theorem unique_replaceIn (b : Box) (st : Sty) (h : Unique b) :
    Unique (replaceIn b st) ∧ count (replaceIn b st) st.family st.name = 1 := by
  constructor
  · intro f n
    rw [count_replaceIn]
    have := h f n
    split
    · split <;> omega
    · exact this
  · rw [count_replaceIn]
    have := h st.family st.name
    simp only [and_self, if_true]
    split <;> omega

theorem find_of_count_zero_prefix (a : Box) (st : Sty) (h : count a st.family st.name = 0) :
    find (a ++ [st]) st.family st.name = some st := by
  rw [find_eq, List.find?_append]
  have : a.find? (hasKey st.family st.name) = none := by
    rw [List.find?_eq_none]
    unfold count at h
    rw [List.length_eq_zero_iff, List.filter_eq_nil_iff] at h
    exact h
  rw [this]
  simp [hasKey]

/-- **the inserted style is the one the container's lookup finds** -/
theorem find_replaceIn (b : Box) (st : Sty) (h : Unique b) : find (replaceIn b st) st.family st.name = some st := by
  unfold replaceIn
  cases hf : find b st.family st.name with
  | none => exact find_of_count_zero_prefix b st (find_none_count b _ _ hf)
  | some e =>
    obtain ⟨hm, hef, hen⟩ := find_some_mem b _ _ e hf
    apply find_of_count_zero_prefix
    rw [count_erase_of_key b e hm]
    have hke : hasKey st.family st.name e = true := by simp [hasKey, hef, hen]
    have := h st.family st.name
    simp only [hke, if_true]
    omega

/-- **every other style stays, in order** -/
theorem others_replaceIn (b : Box) (st : Sty) :
    (replaceIn b st).filter (fun s => !hasKey st.family st.name s) = b.filter (fun s => !hasKey st.family st.name s) := by
  unfold replaceIn
  have hst : hasKey st.family st.name st = true := by simp [hasKey]
  cases hf : find b st.family st.name with
  | none => simp [List.filter_append, hst]
  | some e =>
    obtain ⟨hm, hef, hen⟩ := find_some_mem b _ _ e hf
    have hke : hasKey st.family st.name e = true := by simp [hasKey, hef, hen]
    simp only [List.filter_append, List.filter_cons, hst, Bool.not_true, Bool.false_eq_true, if_false, List.filter_nil,
      List.append_nil]
    -- erasing an element the filter drops does not change the filtered list
    clear hf
    induction b with
    | nil => rfl
    | cons x rest ih =>
      by_cases hx : x = e
      · subst hx
        simp [List.erase_cons_head, List.filter_cons, hke]
      · rw [List.erase_cons_tail (by simpa using hx)]
        have he' : e ∈ rest := by
          rcases List.mem_cons.1 hm with h | h
          · exact absurd h.symm hx
          · exact h
        simp only [List.filter_cons, ih he']

/-- a decidable form: it is enough to look at the keys that occur -/
def uniqueB (b : Box) : Bool := b.all (fun s => decide (count b s.family s.name ≤ 1))

theorem unique_of_uniqueB (b : Box) (h : uniqueB b = true) : Unique b := by
  intro f n
  by_cases hz : count b f n = 0
  · omega
  · have hpos : 0 < (b.filter (hasKey f n)).length := by unfold count at hz; omega
    obtain ⟨s, hs⟩ := List.exists_mem_of_length_pos hpos
    obtain ⟨hsb, hk⟩ := List.mem_filter.1 hs
    simp only [hasKey, decide_eq_true_eq] at hk
    obtain ⟨rfl, rfl⟩ := hk
    simp only [uniqueB, List.all_eq_true, decide_eq_true_eq] at h
    exact h s hsb

/-! ### the document -/

theorem box_setBox (d : Doc) (b c : Box6) (v : Box) : (d.setBox b v).box c = if c = b then v else d.box c := by
  cases b <;> cases c <;> simp [Doc.setBox, Doc.box]

/-- the generated index is larger than every `odfdo_auto_<n>` of the family among the automatic styles -/
theorem foldl_max_ge (l : Box) (m0 : Nat) :
    m0 ≤ l.foldl (fun m s => match s.name with | some (.auto n) => max m n | _ => m) m0 ∧
    ∀ s ∈ l, ∀ n, s.name = some (.auto n) → n ≤ l.foldl (fun m s => match s.name with | some (.auto n) => max m n | _ => m) m0 := by
  induction l generalizing m0 with
  | nil => simp
  | cons x rest ih =>
    simp only [List.foldl_cons]
    obtain ⟨h1, h2⟩ := ih (match x.name with | some (.auto n) => max m0 n | _ => m0)
    have hm : m0 ≤ (match x.name with | some (.auto n) => max m0 n | _ => m0) := by
      split <;> omega
    refine ⟨by omega, ?_⟩
    intro s hs n hn
    rcases List.mem_cons.1 hs with rfl | hs'
    · have : n ≤ (match s.name with | some (.auto n) => max m0 n | _ => m0) := by
        rw [hn]; simp only; omega
      omega
    · exact h2 s hs' n hn

theorem autoIndex_fresh (d : Doc) (family : String) (s : Sty)
    (hs : s ∈ (contentContexts family ++ stylesContexts family).flatMap d.box)
    (hf : s.family = family) : s.name ≠ some (.auto (autoIndex d family + 1)) := by
  intro hn
  have hmem : s ∈ ((contentContexts family ++ stylesContexts family).flatMap d.box).filter (fun s => s.family = family) := by
    simp only [List.mem_filter, decide_eq_true_eq]; exact ⟨hs, hf⟩
  have h2 : autoIndex d family + 1 ≤ autoIndex d family := (foldl_max_ge _ 0).2 s hmem _ hn
  omega

end Odf.Styles
