import OdfProofs.Package3

/-! Helper lemmas for C04: the manifest lists exactly the files of the package, as an invariant. -/
namespace Odf.Pkg

/-- `u n` = the name is not a file the manifest has to list (a directory entry such as "Pictures/"
    or "/", a member of META-INF/) -/
def FileName (u : Nat → Bool) (n : Nat) : Prop := n ≠ nMime ∧ n ≠ nManifest ∧ u n = false

/-- the manifest lists no path twice, and a file name is listed iff the document holds that part -/
def Coherent (u : Nat → Bool) (d : Doc) : Prop :=
  (keys (manifestOf d)).Nodup ∧ ∀ n, FileName u n → ((d.view n).isSome ↔ n ∈ keys (manifestOf d))

theorem coherent_of_view_eq (u : Nat → Bool) (d d' : Doc) (h : ∀ m, d'.view m = d.view m) (hc : Coherent u d) : Coherent u d' := by
  have hm : manifestOf d' = manifestOf d := by unfold manifestOf; rw [h]
  unfold Coherent
  rw [hm]
  exact ⟨hc.1, fun n hn => by rw [h]; exact hc.2 n hn⟩

theorem manifestOf_of_view (d : Doc) (es : List (Nat × Nat)) (h : d.view nManifest = some (.man es)) :
    manifestOf d = es := by
  unfold manifestOf; rw [h]; rfl

theorem mem_keys_put {α : Type} (l : List (Nat × α)) (n : Nat) (v : α) (m : Nat) :
    m ∈ keys (put l n v) ↔ (m = n ∨ m ∈ keys l) := by
  rw [keys_put]
  by_cases hn : n ∈ keys l
  · rw [if_pos hn]
    constructor
    · exact Or.inr
    · rintro (rfl | h)
      · exact hn
      · exact h
  · rw [if_neg hn]
    simp only [List.mem_append, List.mem_singleton]
    constructor
    · rintro (h | h)
      · exact Or.inr h
      · exact Or.inl h
    · rintro (h | h)
      · exact Or.inr h
      · exact Or.inl h

theorem addFile_coherent (u : Nat → Bool) (d : Doc) (name : Nat) (data : Blob) (mt : Nat)
    (hu : u nPictures = true) (hn : FileName u name) (hp : look d.parsed name = none) (hc : Coherent u d) :
    Coherent u (d.addFile name data mt) := by
  have hv := fun m => addFile_view d name data mt m hn.2.1 hp
  have hm : manifestOf (d.addFile name data mt) = addPath (match look (manifestOf d) nPictures with
          | some _ => manifestOf d
          | none => addPath (manifestOf d) nPictures 0) name mt := by
    apply manifestOf_of_view
    rw [hv nManifest, if_pos rfl]
    rfl
  generalize hes1 : (match look (manifestOf d) nPictures with
          | some _ => manifestOf d
          | none => addPath (manifestOf d) nPictures 0) = es1 at hm
  have hes1n : (keys es1).Nodup := by
    rw [← hes1]; split
    · exact hc.1
    · exact nodup_put _ _ _ hc.1
  have hes1m : ∀ m, FileName u m → (m ∈ keys es1 ↔ m ∈ keys (manifestOf d)) := by
    intro m hm'
    rw [← hes1]; split
    · exact Iff.rfl
    · simp only [addPath, mem_keys_put]
      constructor
      · rintro (h | h)
        · subst h
          have := hm'.2.2
          rw [hu] at this
          simp at this
        · exact h
      · exact Or.inr
  refine ⟨by rw [hm]; exact nodup_put _ _ _ hes1n, ?_⟩
  intro n hfn
  rw [hm, hv n]
  simp only [addPath, mem_keys_put]
  have h1 : ¬ n = nManifest := hfn.2.1
  simp only [h1, if_false]
  by_cases hnn : n = name
  · subst hnn; simp
  · simp only [hnn, if_false, false_or]
    rw [hes1m n hfn]
    exact hc.2 n hfn

theorem delPart_coherent (u : Nat → Bool) (d : Doc) (name : Nat)
    (hn : name ≠ nManifest) (hp : look d.parsed name = none) (hc : Coherent u d) :
    Coherent u (d.delPart name) := by
  have hv := fun m => delPart_view d name m hn hp
  have hm : manifestOf (d.delPart name) = delPath (manifestOf d) name := by
    rw [← manifestOf_delete d name hn]
    apply manifestOf_of_view
    rw [hv nManifest]
    simp
  obtain ⟨k1, k2⟩ := keys_del (manifestOf d) name hc.1
  refine ⟨by rw [hm]; exact k1, ?_⟩
  intro n hfn
  rw [hm, hv n]
  have h1 : ¬ n = nManifest := hfn.2.1
  simp only [h1, if_false, delPath]
  rw [k2 n]
  by_cases hnn : n = name
  · subst hnn; simp
  · simp only [hnn, if_false, ne_eq, not_false_eq_true, and_true]
    exact hc.2 n hfn

theorem edit_coherent (u : Nat → Bool) (d : Doc) (n : Nat) (b : Blob) (hn : n ≠ nManifest) (hc : Coherent u d) :
    Coherent u (d.edit n b) := by
  have hv := fun m => edit_view d n b m
  have hm : manifestOf (d.edit n b) = manifestOf d := by
    unfold manifestOf
    rw [hv nManifest]
    have : ¬ nManifest = n := fun e => hn e.symm
    simp [this]
  refine ⟨by rw [hm]; exact hc.1, ?_⟩
  intro m hfm
  rw [hm, hv m]
  by_cases hc2 : m = n ∧ (d.view n).isSome = true
  · rw [if_pos hc2]
    obtain ⟨rfl, h2⟩ := hc2
    rw [← hc.2 m hfm]
    simp [h2]
  · rw [if_neg hc2]
    exact hc.2 m hfm

/-- the reconciliation of manifest.rdf keeps (or restores) the coherence, provided the manifest
    does not declare manifest.rdf with an EMPTY media type -/
theorem checkRdf_coherent (u : Nat → Bool) (d : Doc) (rdf : Blob) (hr : FileName u nRdf)
    (hne : look (manifestOf d) nRdf ≠ some 0) (hc : Coherent u d) : Coherent u (d.checkRdf rdf) := by
  unfold Doc.checkRdf
  have h1 := manifest_fst d
  have h2 := manifest_snd d
  cases hg : d.manifest with
  | mk es d1 =>
    rw [hg] at h1 h2
    simp only at h1 h2
    subst h1
    have hv1 : ∀ m, d1.view m = d.view m := by intro m; rw [h2, parse_view]
    have hc1 : Coherent u d1 := coherent_of_view_eq u d d1 hv1 hc
    have hm1 : manifestOf d1 = manifestOf d := by unfold manifestOf; rw [hv1]
    simp only
    by_cases hd : declaredRdf (manifestOf d) = true
    · rw [if_pos hd]
      by_cases hcn : d1.c.names.contains nRdf = true
      · rw [if_pos hcn]; exact hc1
      · rw [if_neg hcn]
        -- the default manifest.rdf is created: the entry was there
        have hin : nRdf ∈ keys (manifestOf d) := by
          unfold declaredRdf at hd
          cases hl : look (manifestOf d) nRdf with
          | none => rw [hl] at hd; simp at hd
          | some mt =>
            by_cases hk : nRdf ∈ keys (manifestOf d)
            · exact hk
            · have := (look_none_iff _ _).2 hk; rw [hl] at this; simp at this
        have hv2 : ∀ m, ({ d1 with c := d1.c.set nRdf rdf } : Doc).view m =
            match look d1.parsed m with
            | some b => some b
            | none => if m = nRdf then some rdf else cview d1.c m := by
          intro m; simp only [view_eq, cview_set]
          cases look d1.parsed m <;> rfl
        have hman : manifestOf ({ d1 with c := d1.c.set nRdf rdf } : Doc) = manifestOf d := by
          rw [← hm1]
          have hvm : ({ d1 with c := d1.c.set nRdf rdf } : Doc).view nManifest = d1.view nManifest := by
            rw [hv2, view_eq]
            have : ¬ nManifest = nRdf := by decide
            simp only [this, if_false]
            cases look d1.parsed nManifest <;> rfl
          unfold manifestOf
          rw [hvm]
        refine ⟨by rw [hman]; exact hc.1, ?_⟩
        intro m hfm
        rw [hman, hv2]
        by_cases hmr : m = nRdf
        · subst hmr
          simp only [if_true]
          constructor
          · intro _; exact hin
          · intro _; cases look d1.parsed nRdf <;> simp
        · simp only [hmr, if_false]
          have := hc1.2 m hfm
          rw [view_eq, hm1] at this
          exact this
    · rw [if_neg hd]
      by_cases hcn : d1.c.names.contains nRdf = true
      · rw [if_pos hcn]
        -- manifest.rdf is dropped: it was not declared
        have hnotin : nRdf ∉ keys (manifestOf d) := by
          intro hk
          unfold declaredRdf at hd
          cases hl : look (manifestOf d) nRdf with
          | none => exact absurd ((look_none_iff _ _).1 hl) (by simpa using hk)
          | some mt =>
            rw [hl] at hd
            have : mt = 0 := by simpa using hd
            subst this
            exact hne hl
        -- the rdf part is not a parsed XML part
        by_cases hpr : look d1.parsed nRdf = none
        · have hv2 : ∀ m, ({ d1 with c := d1.c.delete nRdf } : Doc).view m =
              if m = nRdf then none else d1.view m := by
            intro m
            simp only [view_eq, cview_delete]
            by_cases hmr : m = nRdf
            · subst hmr; simp [hpr]
            · simp [hmr]
          have hman : manifestOf ({ d1 with c := d1.c.delete nRdf } : Doc) = manifestOf d := by
            rw [← hm1]; unfold manifestOf; rw [hv2]
            have : ¬ nManifest = nRdf := by decide
            simp [this]
          refine ⟨by rw [hman]; exact hc.1, ?_⟩
          intro m hfm
          rw [hman, hv2]
          by_cases hmr : m = nRdf
          · subst hmr; simp [hnotin]
          · simp only [hmr, if_false]
            have := hc1.2 m hfm
            rw [hm1] at this
            exact this
        · -- a parsed manifest.rdf wins in the view: nothing changes for the reader
          have hv2 : ∀ m, ({ d1 with c := d1.c.delete nRdf } : Doc).view m = d1.view m := by
            intro m
            simp only [view_eq, cview_delete]
            by_cases hmr : m = nRdf
            · rw [hmr]
              cases hl : look d1.parsed nRdf with
              | none => exact absurd hl hpr
              | some b => rfl
            · simp [hmr]
          exact coherent_of_view_eq u d1 _ hv2 hc1
      · rw [if_neg hcn]; exact hc1

end Odf.Pkg
