import OdfProofs.Rle2

namespace Odf.Rle

variable {α : Type}

/-- the position map is the one a fresh parse of the XML would compute, and every repeat
    count is at least one -/
def MapOk (v : Vault α) : Prop := v.map = makeCacheMap v.runs ∧ Pos v.runs

theorem MapOk.fresh (runs : Runs α) (h : Pos runs) : MapOk (fresh runs) := ⟨rfl, h⟩

theorem size_ok (v : Vault α) (h : MapOk v) : size v = total v.runs := by
  have := size_fresh v.runs
  simpa [size, Rle.fresh, h.1] using this

/-- decomposition of a coherent vault around a covered position -/
theorem decompose (runs : Runs α) (pos : Nat) (hpos : pos < total runs) :
    ∃ a b c n off, runs = a ++ (c, n) :: b ∧ off < n ∧ pos = total a + off ∧
      findOdfIdx (makeCacheMap runs) pos = some a.length := by
  obtain ⟨⟨idx, off⟩, hl⟩ := locate_some_of_lt runs pos hpos
  obtain ⟨c, n, hget, hoff, hp⟩ := locate_spec runs pos idx off hl
  have hsplit := split_at runs idx (c, n) hget
  have hidx : idx < runs.length := by
    rcases Nat.lt_or_ge idx runs.length with h | h
    · exact h
    · simp [List.getElem?_eq_none h] at hget
  refine ⟨runs.take idx, runs.drop (idx + 1), c, n, off, hsplit, hoff, hp, ?_⟩
  rw [findOdfIdx_mcm, hl]
  simp [List.length_take, Nat.min_eq_left (Nat.le_of_lt hidx)]

theorem expand_pre (c : α) (off : Nat) :
    expand (if off ≥ 1 then [(c, off)] else []) = List.replicate off c := by
  split
  · simp
  · have : off = 0 := by omega
    subst this; simp

theorem take_drop_split (A : List α) (c : α) (n off r : Nat) (B : List α) (hoff : off < n) :
    (A ++ (List.replicate n c ++ B)).take (A.length + off) = A ++ List.replicate off c ∧
    (A ++ (List.replicate n c ++ B)).drop (A.length + off + r) =
      if off + r ≤ n then List.replicate (n - off - r) c ++ B else B.drop (off + r - n) := by
  constructor
  · rw [List.take_append, List.take_of_length_le (by omega)]
    have : A.length + off - A.length = off := by omega
    rw [this, List.take_append_of_le_length (by simp; omega), List.take_replicate]
    congr 2
    omega
  · rw [List.drop_append, List.drop_of_length_le (by omega), List.nil_append]
    have : A.length + off + r - A.length = off + r := by omega
    rw [this]
    split
    · rename_i h
      rw [List.drop_append_of_le_length (by simp; omega), List.drop_replicate]
      congr 2
      omega
    · rename_i h
      rw [List.drop_append, List.drop_of_length_le (by simp; omega), List.nil_append]
      simp

/-- **set**: `set_item_in_vault` on a coherent vault replaces exactly the `r` positions from
    `pos` (growing the vault when they run past its end) and leaves a coherent vault. -/
theorem setItem_ok (v : Vault α) (hok : MapOk v) (pos : Nat) (x : α) (r : Nat)
    (hpos : pos < total v.runs) (hr : 1 ≤ r) :
    ∃ v', setItem v pos x r = some v' ∧ MapOk v' ∧
      expand v'.runs = (expand v.runs).take pos ++ List.replicate r x ++ (expand v.runs).drop (pos + r) := by
  obtain ⟨runs, map⟩ := v
  obtain ⟨hmap, hposR⟩ := hok
  simp only at hmap hposR hpos
  subst hmap
  obtain ⟨a, b, c, n, off, hruns, hoff, hp, hfind⟩ := decompose runs pos hpos
  subst hruns
  have hPa : Pos a := hposR.of_append_left
  have hPb : Pos b := fun p hp' => hposR p (by simp [hp'])
  have hbefore : beforeOf (makeCacheMap (a ++ (c, n) :: b)) a.length = total a := by
    rw [beforeOf_mcm _ _ (by simp), take_len_append]
  have hget : (makeCacheMap (a ++ (c, n) :: b)).getD a.length 0 = total a + n := by
    unfold makeCacheMap
    rw [cumFrom_getD 0 _ a.length (by simp)]
    have : (a ++ (c, n) :: b).take (a.length + 1) = a ++ [(c, n)] := by
      have := take_len_append (a ++ [(c, n)]) b
      simpa using this
    rw [this, total_append]; simp
  -- the pieces
  let pre : Runs α := a ++ (if off ≥ 1 then [(c, off)] else [])
  let post : Runs α := if n - (off + r) ≥ 1 then (c, n - (off + r)) :: b else trimFront (off + r - n) b
  have hpre_len : pre.length = if off ≥ 1 then a.length + 1 else a.length := by
    simp only [pre]; split <;> simp
  -- the map after the edit
  have hm1 : eraseMapOnce (makeCacheMap (a ++ (c, n) :: b)) a.length = some (makeCacheMap (a ++ b)) :=
    eraseMapOnce_mcm a b c n
  have hm2 : (if off ≥ 1 then ((eraseMapOnce (makeCacheMap (a ++ (c, n) :: b)) a.length).bind
        (insertMapOnce · a.length off), a.length + 1)
      else (eraseMapOnce (makeCacheMap (a ++ (c, n) :: b)) a.length, a.length))
      = (some (makeCacheMap (pre ++ b)), pre.length) := by
    rw [hm1]
    by_cases ho : off ≥ 1
    · simp only [ho, if_true, Option.bind_some, pre]
      rw [insertMapOnce_mcm a b c off ho]
      simp
    · simp only [ho, if_false, pre]
      simp
  have hm3 : insertMapOnce (makeCacheMap (pre ++ b)) pre.length r = some (makeCacheMap (pre ++ (x, r) :: b)) :=
    insertMapOnce_mcm pre b x r hr
  have hfinal : (if n - (off + r) ≥ 1 then
        (some (makeCacheMap (pre ++ (x, r) :: b))).bind (insertMapOnce · (pre.length + 1) (n - (off + r)))
      else if off + r - n > 0 then
        (some (makeCacheMap (pre ++ (x, r) :: b))).map
          (fun m => trimMap m.length m (pre.length + 1) (off + r - n))
      else some (makeCacheMap (pre ++ (x, r) :: b)))
      = some (makeCacheMap (pre ++ [(x, r)] ++ post)) := by
    by_cases hafter : n - (off + r) ≥ 1
    · simp only [hafter, if_true, Option.bind_some, post]
      have := insertMapOnce_mcm (pre ++ [(x, r)]) b c (n - (off + r)) hafter
      simp only [List.length_append, List.length_cons, List.length_nil, List.append_assoc,
        List.cons_append, List.nil_append] at this ⊢
      exact this
    · simp only [hafter, if_false, post]
      by_cases hov : off + r - n > 0
      · simp only [hov, if_true, Option.map_some]
        have := trimMap_mcm (makeCacheMap (pre ++ (x, r) :: b)).length (pre ++ [(x, r)]) b (off + r - n)
          (by simp) (by simp [mcm_length]; omega)
        simp only [List.length_append, List.length_cons, List.length_nil, List.append_assoc,
          List.cons_append, List.nil_append] at this ⊢
        rw [this]
      · have h0 : off + r - n = 0 := by omega
        simp only [hov, if_false, h0, trimFront]
        cases b with
        | nil => simp [trimFront]
        | cons hd tl => obtain ⟨c2, n2⟩ := hd; simp [trimFront]
  refine ⟨{ runs := pre ++ [(x, r)] ++ post, map := makeCacheMap (pre ++ [(x, r)] ++ post) }, ?_, ?_, ?_⟩
  · -- the computation
    unfold setItem
    simp only [hfind, getElem?_len_append, hbefore, hget, take_len_append, drop_len_succ_append]
    have e1 : total a + n - total a = n := by omega
    have e2 : pos - total a = off := by omega
    simp only [e1, e2]
    rw [hm2]
    simp only [Option.bind_some]
    rw [hm3, hfinal]
    simp [pre, post]
  · -- coherence
    refine ⟨rfl, ?_⟩
    apply Pos.append
    · apply Pos.append
      · apply Pos.append hPa
        intro p hp'
        split at hp'
        · simp at hp'; subst hp'; simpa
        · simp at hp'
      · intro p hp'; simp at hp'; subst hp'; simpa using hr
    · simp only [post]
      split
      · intro p hp'
        simp only [List.mem_cons] at hp'
        rcases hp' with rfl | hp'
        · simpa
        · exact hPb p hp'
      · exact hPb.trimFront _
  · -- the expansion
    simp only [expand_append, expand_cons, expand_nil, List.append_nil, pre]
    rw [expand_pre]
    have hta : (expand a).length = total a := expand_length a
    obtain ⟨ht, hd⟩ := take_drop_split (expand a) c n off r (expand b) hoff
    rw [hta] at ht hd
    rw [hp, List.append_assoc (expand a), ht, hd]
    simp only [post, List.append_assoc]
    congr 2
    by_cases hafter : n - (off + r) ≥ 1
    · rw [if_pos hafter, if_pos (by omega)]
      simp only [expand_cons]
      have e3 : n - (off + r) = n - off - r := by omega
      rw [e3]
    · rw [if_neg hafter, expand_trimFront]
      by_cases hle : off + r ≤ n
      · rw [if_pos hle]
        have h1 : off + r - n = 0 := by omega
        have h2 : n - off - r = 0 := by omega
        simp [h1, h2]
      · rw [if_neg hle]

end Odf.Rle

namespace Odf.Rle

variable {α : Type}

theorem hget_mcm (a b : Runs α) (c : α) (n : Nat) :
    (makeCacheMap (a ++ (c, n) :: b)).getD a.length 0 = total a + n := by
  unfold makeCacheMap
  rw [cumFrom_getD 0 _ a.length (by simp)]
  have : (a ++ (c, n) :: b).take (a.length + 1) = a ++ [(c, n)] := by
    have := take_len_append (a ++ [(c, n)]) b
    simpa using this
  rw [this, total_append]; simp

/-- **insert**: `insert_item_in_vault` inserts `r` copies at `pos`, shifting what follows. -/
theorem insertItem_ok (v : Vault α) (hok : MapOk v) (pos : Nat) (x : α) (r : Nat)
    (hpos : pos < total v.runs) (hr : 1 ≤ r) :
    ∃ v', insertItem v pos x r = some v' ∧ MapOk v' ∧
      expand v'.runs = (expand v.runs).take pos ++ List.replicate r x ++ (expand v.runs).drop pos := by
  obtain ⟨runs, map⟩ := v
  obtain ⟨hmap, hposR⟩ := hok
  simp only at hmap hposR hpos
  subst hmap
  obtain ⟨a, b, c, n, off, hruns, hoff, hp, hfind⟩ := decompose runs pos hpos
  subst hruns
  have hPa : Pos a := hposR.of_append_left
  have hPb : Pos b := fun p hp' => hposR p (by simp [hp'])
  have hn : 1 ≤ n := hposR (c, n) (by simp)
  have hbefore : beforeOf (makeCacheMap (a ++ (c, n) :: b)) a.length = total a := by
    rw [beforeOf_mcm _ _ (by simp), take_len_append]
  have hget := hget_mcm a b c n
  have hta : (expand a).length = total a := expand_length a
  by_cases ho : off ≥ 1
  · refine ⟨{ runs := a ++ [(c, off), (x, r), (c, n - off)] ++ b,
              map := makeCacheMap (a ++ [(c, off), (x, r), (c, n - off)] ++ b) }, ?_, ⟨rfl, ?_⟩, ?_⟩
    · unfold insertItem
      simp only [hfind, getElem?_len_append, hbefore, hget, take_len_append, drop_len_succ_append]
      have e1 : total a + n - total a = n := by omega
      have e2 : pos - total a = off := by omega
      simp only [e1, e2, ho, if_true]
      rw [eraseMapOnce_mcm]
      simp only [Option.bind_some]
      rw [insertMapOnce_mcm a b c off ho]
      simp only [Option.bind_some]
      have h2 := insertMapOnce_mcm (a ++ [(c, off)]) b x r hr
      simp only [List.length_append, List.length_cons, List.length_nil, List.append_assoc,
        List.cons_append, List.nil_append] at h2
      rw [h2]
      simp only [Option.bind_some]
      have h3 := insertMapOnce_mcm (a ++ [(c, off), (x, r)]) b c (n - off) (by omega)
      simp only [List.length_append, List.length_cons, List.length_nil, List.append_assoc,
        List.cons_append, List.nil_append] at h3
      rw [h3]
      simp
    · apply Pos.append _ hPb
      apply Pos.append hPa
      intro p hp'
      simp only [List.mem_cons, List.mem_nil_iff, or_false] at hp'
      rcases hp' with rfl | rfl | rfl <;> simp <;> omega
    · simp only [expand_append, expand_cons, expand_nil, List.append_nil]
      obtain ⟨ht, _⟩ := take_drop_split (expand a) c n off 0 (expand b) hoff
      rw [hta] at ht
      rw [hp, ht]
      have hd : (expand a ++ (List.replicate n c ++ expand b)).drop (total a + off)
          = List.replicate (n - off) c ++ expand b := by
        have := (take_drop_split (expand a) c n off 0 (expand b) hoff).2
        rw [hta] at this
        simpa [show off ≤ n by omega] using this
      rw [hd]
      simp [List.append_assoc]
  · have ho0 : off = 0 := by omega
    subst ho0
    refine ⟨{ runs := a ++ [(x, r)] ++ (c, n) :: b, map := makeCacheMap (a ++ [(x, r)] ++ (c, n) :: b) },
      ?_, ⟨rfl, ?_⟩, ?_⟩
    · unfold insertItem
      simp only [hfind, getElem?_len_append, hbefore, hget, take_len_append]
      have e2 : pos - total a = 0 := by omega
      simp only [e2, ho, if_false]
      rw [drop_len_append]
      have := insertMapOnce_mcm a ((c, n) :: b) x r hr
      rw [this]
      simp
    · apply Pos.append _ (fun p hp' => hposR p (by simp at hp' ⊢; exact Or.inr hp'))
      apply Pos.append hPa
      intro p hp'; simp at hp'; subst hp'; simpa using hr
    · simp only [expand_append, expand_cons, expand_nil, List.append_nil]
      have ht : (expand a ++ (List.replicate n c ++ expand b)).take pos = expand a := by
        rw [hp, Nat.add_zero, ← hta, List.take_left']
        rfl
      have hd : (expand a ++ (List.replicate n c ++ expand b)).drop pos = List.replicate n c ++ expand b := by
        rw [hp, Nat.add_zero, ← hta, List.drop_left']
        rfl
      rw [ht, hd]

/-- **delete**: `delete_item_in_vault` removes exactly the item at `pos`. -/
theorem deleteItem_ok (v : Vault α) (hok : MapOk v) (pos : Nat) (hpos : pos < total v.runs) :
    ∃ v', deleteItem v pos = some v' ∧ MapOk v' ∧ expand v'.runs = (expand v.runs).eraseIdx pos := by
  obtain ⟨runs, map⟩ := v
  obtain ⟨hmap, hposR⟩ := hok
  simp only at hmap hposR hpos
  subst hmap
  obtain ⟨a, b, c, n, off, hruns, hoff, hp, hfind⟩ := decompose runs pos hpos
  subst hruns
  have hPa : Pos a := hposR.of_append_left
  have hPb : Pos b := fun p hp' => hposR p (by simp [hp'])
  have hbefore : beforeOf (makeCacheMap (a ++ (c, n) :: b)) a.length = total a := by
    rw [beforeOf_mcm _ _ (by simp), take_len_append]
  have hget := hget_mcm a b c n
  have hta : (expand a).length = total a := expand_length a
  have hl : (makeCacheMap a).length = a.length := mcm_length a
  have herase : (expand a ++ (List.replicate n c ++ expand b)).eraseIdx pos
      = expand a ++ (List.replicate (n - 1) c ++ expand b) := by
    rw [hp, ← hta, List.eraseIdx_append_of_length_le (by omega)]
    have : (expand a).length + off - (expand a).length = off := by omega
    rw [this, List.eraseIdx_append_of_lt_length (by simp; omega), List.eraseIdx_replicate]
    simp [hoff]
  by_cases hn : n - 1 ≥ 1
  · refine ⟨{ runs := a ++ [(c, n - 1)] ++ b, map := makeCacheMap (a ++ [(c, n - 1)] ++ b) }, ?_, ⟨rfl, ?_⟩, ?_⟩
    · unfold deleteItem
      simp only [hfind, getElem?_len_append, hbefore, hget, take_len_append, drop_len_succ_append]
      have e1 : total a + n - total a = n := by omega
      simp only [e1, hn, if_true]
      congr 2
      rw [mcm_append, List.append_assoc, mcm_append]
      have ht : (makeCacheMap a ++ cumFrom (total a) ((c, n) :: b)).take a.length = makeCacheMap a := by
        rw [← hl]; exact take_len_append _ _
      have hd : (makeCacheMap a ++ cumFrom (total a) ((c, n) :: b)).drop a.length
          = cumFrom (total a) ((c, n) :: b) := by
        rw [← hl]; exact drop_len_append _ _
      rw [ht, hd]
      simp only [cumFrom, List.map_cons, List.singleton_append]
      rw [cumFrom_shift_sub _ _ _ (by omega)]
      have : total a + n - 1 = total a + (n - 1) := by omega
      rw [this]
    · apply Pos.append _ hPb
      apply Pos.append hPa
      intro p hp'; simp at hp'; subst hp'; simpa using hn
    · simp only [expand_append, expand_cons, expand_nil, List.append_nil, List.append_assoc]
      exact herase.symm
  · have hn1 : n = 1 := by
      have := hposR (c, n) (by simp)
      simp at this
      omega
    subst hn1
    refine ⟨{ runs := a ++ b, map := makeCacheMap (a ++ b) }, ?_, ⟨rfl, Pos.append hPa hPb⟩, ?_⟩
    · unfold deleteItem
      simp only [hfind, getElem?_len_append, hbefore, hget, take_len_append, drop_len_succ_append]
      have e1 : total a + 1 - total a = 1 := by omega
      simp only [e1, hn, if_false]
      congr 2
      rw [mcm_append, mcm_append]
      have ht : (makeCacheMap a ++ cumFrom (total a) ((c, 1) :: b)).take a.length = makeCacheMap a := by
        rw [← hl]; exact take_len_append _ _
      have hd : (makeCacheMap a ++ cumFrom (total a) ((c, 1) :: b)).drop (a.length + 1)
          = cumFrom (total a + 1) b := by
        rw [← hl]
        simp only [cumFrom]
        exact drop_len_succ_append _ _ _
      rw [ht, hd, cumFrom_shift_sub _ _ _ (by omega)]
      simp
    · simp only [expand_append, expand_cons]
      rw [herase]
      simp

/-- **append** at the end -/
theorem appendItem_ok (v : Vault α) (hok : MapOk v) (x : α) (r : Nat) (hr : 1 ≤ r) :
    MapOk (appendItem v x r) ∧ expand (appendItem v x r).runs = expand v.runs ++ List.replicate r x := by
  obtain ⟨runs, map⟩ := v
  obtain ⟨hmap, hposR⟩ := hok
  simp only at hmap hposR
  subst hmap
  have := insertMapOnce_mcm runs [] x r hr
  simp only [List.append_nil] at this
  refine ⟨⟨?_, ?_⟩, ?_⟩
  · simp only [appendItem, mcm_length, this, Option.getD_some]
  · exact Pos.append hposR (by intro p hp; simp at hp; subst hp; simpa using hr)
  · simp [appendItem, expand_append]

end Odf.Rle
