import OdfModel.Names

namespace Odf.Names
open Odf.Coord

/-- the generated regex alternatives are the ones the theorems below are about: re-checked
    against the source on every run -/
theorem gen_table_forbidden : Odf.Gen.tableNameForbidden = ['\n', '*', '/', ':', '?', '[', '\\', ']'] := by decide
theorem gen_table_lead : Odf.Gen.tableNameNoLead = ['\''] := by decide
theorem gen_table_trail : Odf.Gen.tableNameNoTrail = ['\''] := by decide

/-- `string.printable` -/
def printable : List Char := (List.range 95).map (fun i => Char.ofNat (32 + i)) ++ ['\t', '\n', '\r', Char.ofNat 11, Char.ofNat 12]

theorem gen_range_forbidden :
    ∀ c ∈ printable, Odf.Gen.rangeNameForbidden.contains c = !(isLetter c || isDigitC c || c == '_') := by
  decide +kernel

theorem letter_not_digit (c : Char) (h : isLetter c = true) : isDigitC c = false := by
  simp only [isLetter, isAsciiAlpha, isDigitC, isDigit, Bool.or_eq_true, Bool.and_eq_true, decide_eq_true_eq,
    Bool.and_eq_false_iff, decide_eq_false_iff_not] at h ⊢
  omega

theorem scan_digits (s : List Char) : a1Scan s .digits = if s.all isDigitC then .digits else .other := by
  induction s with
  | nil => rfl
  | cons x rest ih =>
    by_cases hd : isDigitC x = true
    · simp [a1Scan, hd, ih]
    · have hd' : isDigitC x = false := by simpa using hd
      simp [a1Scan, hd']

theorem scan_letters (s : List Char) :
    (a1Scan s .letters = .digits) ↔
      (!(s.drop (s.takeWhile isLetter).length).isEmpty && (s.drop (s.takeWhile isLetter).length).all isDigitC) = true := by
  induction s with
  | nil => simp [a1Scan]
  | cons x rest ih =>
    by_cases hl : isLetter x = true
    · simp only [a1Scan, hl, true_and, or_true, if_true, List.takeWhile, List.length_cons, List.drop_succ_cons]
      exact ih
    · have hl' : isLetter x = false := by simpa using hl
      by_cases hd : isDigitC x = true
      · simp only [a1Scan, hl', Bool.false_eq_true, false_and, if_false, hd, and_true, true_or, if_true,
          List.takeWhile, List.length_nil, List.drop_zero, List.isEmpty_cons, Bool.not_false, Bool.true_and,
          List.all_cons]
        rw [scan_digits]
        by_cases ha : rest.all isDigitC = true <;> simp [ha]
      · have hd' : isDigitC x = false := by simpa using hd
        simp [a1Scan, hl', hd', List.takeWhile]

theorem scan_start (s : List Char) : (a1Scan s .start = .digits) ↔ isA1Form s = true := by
  cases s with
  | nil => simp [a1Scan, isA1Form]
  | cons x rest =>
    by_cases hl : isLetter x = true
    · simp only [a1Scan, hl, true_and, true_or, if_true, isA1Form, List.takeWhile, List.length_cons,
        List.drop_succ_cons, List.isEmpty_cons, Bool.not_false, Bool.true_and]
      exact scan_letters rest
    · have hl' : isLetter x = false := by simpa using hl
      simp [a1Scan, hl', isA1Form, List.takeWhile]

end Odf.Names
