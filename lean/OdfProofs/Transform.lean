import OdfModel.Transform
import OdfProofs.TableOps6

namespace Odf.Transform
open Odf.Rle Odf.Table Odf.Grid

/-! ### rstripList -/

theorem dropWhile_idem {α} (p : α → Bool) (l : List α) : (l.dropWhile p).dropWhile p = l.dropWhile p := by
  induction l with
  | nil => rfl
  | cons a t ih =>
    by_cases h : p a = true
    · simp [List.dropWhile, h, ih]
    · have h' : p a = false := by simpa using h
      simp [List.dropWhile, h']

theorem rstripList_idem {α} (p : α → Bool) (l : List α) : rstripList p (rstripList p l) = rstripList p l := by
  simp [rstripList, dropWhile_idem]

theorem dropWhile_split {α} (p : α → Bool) (l : List α) :
    ∃ pre, l = pre ++ l.dropWhile p ∧ ∀ a ∈ pre, p a = true := by
  induction l with
  | nil => exact ⟨[], rfl, by simp⟩
  | cons a t ih =>
    by_cases h : p a = true
    · obtain ⟨pre, e, hp⟩ := ih
      refine ⟨a :: pre, ?_, ?_⟩
      · simp only [List.dropWhile, h, List.cons_append]
        rw [← e]
      · intro b hb
        simp only [List.mem_cons] at hb
        rcases hb with rfl | hb
        · exact h
        · exact hp b hb
    · have h' : p a = false := by simpa using h
      exact ⟨[], by simp [List.dropWhile, h'], by simp⟩

/-- only a trailing block of `p`-items is removed -/
theorem rstripList_split {α} (p : α → Bool) (l : List α) :
    ∃ suf, l = rstripList p l ++ suf ∧ ∀ a ∈ suf, p a = true := by
  obtain ⟨pre, e, hp⟩ := dropWhile_split p l.reverse
  refine ⟨pre.reverse, ?_, ?_⟩
  · have := congrArg List.reverse e
    simp only [List.reverse_reverse, List.reverse_append] at this
    exact this
  · intro a ha
    exact hp a (by simpa using ha)

/-- an item that is not `p` keeps its position -/
theorem rstripList_keeps {α} (p : α → Bool) (l : List α) (i : Nat) (a : α)
    (h : l[i]? = some a) (hp : p a = false) : (rstripList p l)[i]? = some a := by
  obtain ⟨suf, e, hs⟩ := rstripList_split p l
  by_cases hi : i < (rstripList p l).length
  · rw [e, List.getElem?_append_left hi] at h
    exact h
  · rw [e, List.getElem?_append_right (by omega)] at h
    have := hs a (List.mem_of_getElem? h)
    rw [hp] at this
    cases this

theorem dropWhile_head_not {α} (p : α → Bool) (l : List α) (b : α) (t : List α)
    (h : l.dropWhile p = b :: t) : p b = false := by
  induction l with
  | nil => simp at h
  | cons a r ih =>
    by_cases ha : p a = true
    · simp only [List.dropWhile, ha] at h
      exact ih h
    · have ha' : p a = false := by simpa using ha
      simp only [List.dropWhile, ha', List.cons.injEq] at h
      rw [← h.1]; exact ha'

theorem rstripList_last {α} (p : α → Bool) (l : List α) (a : α) (h : (rstripList p l).getLast? = some a) :
    p a = false := by
  unfold rstripList at h
  rw [List.getLast?_reverse] at h
  cases hd : l.reverse.dropWhile p with
  | nil => rw [hd] at h; simp at h
  | cons b t =>
    rw [hd] at h
    simp only [List.head?_cons, Option.some.injEq] at h
    subst h
    have hsplit := dropWhile_head_not p l.reverse b t hd
    exact hsplit

theorem rstripList_of_last {α} (p : α → Bool) (l : List α)
    (h : ∀ a, l.getLast? = some a → p a = false) : rstripList p l = l := by
  unfold rstripList
  cases hr : l.reverse with
  | nil =>
    have : l = [] := by simpa using hr
    subst this; rfl
  | cons b t =>
    have hb : p b = false := by
      apply h
      rw [← List.head?_reverse, hr]; rfl
    simp only [List.dropWhile, hb]
    rw [← hr]; simp

theorem all_rstripList {α} (p : α → Bool) (l : List α) : (rstripList p l).all p = l.all p := by
  obtain ⟨suf, e, hs⟩ := rstripList_split p l
  conv => rhs; rw [e]
  rw [List.all_append]
  have : suf.all p = true := by simpa [List.all_eq_true] using hs
  rw [this, Bool.and_true]

/-! ### the grid spec of rstrip -/

/-- **idempotent** -/
theorem gridRstrip_idem (emp : Nat → Bool) (g : Grid) : gridRstrip emp (gridRstrip emp g) = gridRstrip emp g := by
  unfold gridRstrip
  simp only
  -- the rows after one pass
  generalize hr1 : rstripList (fun r => r.all emp) g.rows = rows1
  have hlast : ∀ r, (rows1.map (rstripList emp)).getLast? = some r → r.all emp = false := by
    intro r hr
    rw [List.getLast?_map] at hr
    cases hl : rows1.getLast? with
    | none => rw [hl] at hr; simp at hr
    | some r0 =>
      rw [hl] at hr
      simp only [Option.map_some, Option.some.injEq] at hr
      subst hr
      rw [all_rstripList]
      have := rstripList_last (fun r => r.all emp) g.rows r0 (by rw [hr1]; exact hl)
      exact this
  rw [rstripList_of_last _ _ hlast]
  have hmm : (rows1.map (rstripList emp)).map (rstripList emp) = rows1.map (rstripList emp) := by
    rw [List.map_map]
    apply List.map_congr_left
    intro r _
    exact rstripList_idem emp r
  rw [hmm]
  congr 1
  omega

/-- **keeps every non-empty value at its coordinates** -/
theorem gridRstrip_keeps (emp : Nat → Bool) (g : Grid) (x y : Nat) (row : List Nat) (v : Nat)
    (hrow : g.rows[y]? = some row) (hv : row[x]? = some v) (hne : emp v = false) :
    ∃ row', (gridRstrip emp g).rows[y]? = some row' ∧ row'[x]? = some v := by
  have hrowne : row.all emp = false := by
    rw [List.all_eq_false]
    exact ⟨v, List.mem_of_getElem? hv, by simp [hne]⟩
  have h1 := rstripList_keeps (fun r => r.all emp) g.rows y row hrow hrowne
  refine ⟨rstripList emp row, ?_, rstripList_keeps emp row x v hv hne⟩
  simp only [gridRstrip, List.getElem?_map, h1, Option.map_some]

/-- **only trailing empty rows / cells are removed**: what remains of each row is a prefix
    of it, the removed cells are all empty, and the removed rows are all-empty rows -/
theorem gridRstrip_only_trailing (emp : Nat → Bool) (g : Grid) :
    ∃ removedRows : List (List Nat), g.rows.length = (gridRstrip emp g).rows.length + removedRows.length ∧
      (∀ r ∈ removedRows, r.all emp = true) ∧
      ∀ (y : Nat) (row' : List Nat), (gridRstrip emp g).rows[y]? = some row' →
        ∃ (row suf : List Nat), g.rows[y]? = some row ∧ row = row' ++ suf ∧ ∀ c ∈ suf, emp c = true := by
  obtain ⟨sufR, eR, hR⟩ := rstripList_split (fun r => r.all emp) g.rows
  refine ⟨sufR, ?_, hR, ?_⟩
  · conv => lhs; rw [eR]
    simp [gridRstrip]
  · intro y row' hy
    simp only [gridRstrip, List.getElem?_map] at hy
    cases hr : (rstripList (fun r => r.all emp) g.rows)[y]? with
    | none => rw [hr] at hy; simp at hy
    | some row =>
      rw [hr] at hy
      simp only [Option.map_some, Option.some.injEq] at hy
      subst hy
      obtain ⟨suf, e, hs⟩ := rstripList_split emp row
      refine ⟨row, suf, ?_, e, hs⟩
      have hlt : y < (rstripList (fun r => r.all emp) g.rows).length := by
        rcases Nat.lt_or_ge y (rstripList (fun r => r.all emp) g.rows).length with h | h
        · exact h
        · rw [List.getElem?_eq_none h] at hr; cases hr
      rw [eR, List.getElem?_append_left hlt]
      exact hr

end Odf.Transform

namespace Odf.Transform
open Odf.Rle Odf.Table Odf.Grid

/-! ### transpose -/

def maxLen (rows : List (List Nat)) : Nat := (rows.map List.length).foldl max 0

theorem foldl_max_ge (l : List Nat) (b : Nat) : b ≤ l.foldl max b ∧ ∀ x ∈ l, x ≤ l.foldl max b := by
  induction l generalizing b with
  | nil => simp
  | cons a t ih =>
    simp only [List.foldl_cons, List.mem_cons]
    obtain ⟨h1, h2⟩ := ih (max b a)
    refine ⟨by omega, ?_⟩
    intro x hx
    rcases hx with rfl | hx
    · omega
    · exact h2 x hx

theorem foldl_max_const (n k : Nat) (b : Nat) (hn : 0 < n) (hb : b ≤ k) :
    (List.replicate n k).foldl max b = k := by
  induction n generalizing b with
  | zero => omega
  | succ m ih =>
    simp only [List.replicate_succ, List.foldl_cons]
    cases m with
    | zero => simp; omega
    | succ m' => exact ih (max b k) (by omega) (by omega)

theorem len_le_maxLen (rows : List (List Nat)) (r : List Nat) (h : r ∈ rows) : r.length ≤ maxLen rows :=
  (foldl_max_ge (rows.map List.length) 0).2 _ (List.mem_map.2 ⟨r, h, rfl⟩)

theorem padRow_eq_range (r : List Nat) (w : Nat) (h : r.length ≤ w) :
    padRow r w = (List.range w).map (fun k => r.getD k 0) := by
  apply List.ext_getElem?
  intro i
  simp only [padRow, List.getElem?_map, List.getElem?_range']
  by_cases hi : i < w
  · rw [List.getElem?_range hi]
    simp only [Option.map_some]
    by_cases hir : i < r.length
    · rw [List.getElem?_append_left hir, List.getD_eq_getElem?_getD, List.getElem?_eq_getElem hir]
      rfl
    · rw [List.getElem?_append_right (by omega), List.getElem?_replicate, if_pos (by omega),
        List.getD_eq_getElem?_getD, List.getElem?_eq_none (by omega)]
      rfl
  · rw [List.getElem?_eq_none (by simp; omega), List.getElem?_eq_none (by simp; omega)]
    rfl

/-- **transposing twice gives back the matrix** (every row completed with empty cells to the
    common width), for every table with at least one cell -/
theorem transposePad_involutive (rows : List (List Nat)) (hw : 0 < maxLen rows) :
    transposePad (transposePad rows) = rows.map (fun r => padRow r (maxLen rows)) := by
  have hM : transposePad rows = (List.range (maxLen rows)).map (fun k => rows.map (fun r => r.getD k 0)) := rfl
  have hlenM : (transposePad rows).map List.length = List.replicate (maxLen rows) rows.length := by
    rw [hM, List.map_map]
    rw [List.eq_replicate_iff]
    constructor
    · simp
    · intro b hb
      simp only [List.mem_map, List.mem_range, Function.comp] at hb
      obtain ⟨k, _, rfl⟩ := hb
      simp
  have hw2 : maxLen (transposePad rows) = rows.length := by
    unfold maxLen
    rw [hlenM, foldl_max_const _ _ _ hw (by omega)]
  show (List.range (maxLen (transposePad rows))).map (fun k => (transposePad rows).map (fun r => r.getD k 0)) = _
  rw [hw2]
  apply List.ext_getElem?
  intro i
  simp only [List.getElem?_map]
  by_cases hi : i < rows.length
  · rw [List.getElem?_range hi, List.getElem?_eq_getElem hi]
    simp only [Option.map_some, Option.some.injEq]
    rw [padRow_eq_range _ _ (len_le_maxLen rows _ (List.getElem_mem hi)), hM, List.map_map]
    apply List.map_congr_left
    intro k _
    simp only [Function.comp, List.getD_eq_getElem?_getD, List.getElem?_map, List.getElem?_eq_getElem hi,
      Option.map_some, Option.getD_some]
  · rw [List.getElem?_eq_none (by simp; omega), List.getElem?_eq_none (by omega)]
    rfl

end Odf.Transform
