import OdfModel.Span

namespace Odf.Span

theorem getElem?_mapArea (x y z t : Nat) (f : Nat → Nat → SCell → SCell) (g : SGrid) (j i : Nat) :
    ((mapArea x y z t f g)[j]?.bind (fun r => r[i]?)) =
      (g[j]?.bind (fun r => r[i]?)).map (fun c => if inArea x y z t i j then f i j c else c) := by
  unfold mapArea
  rw [List.getElem?_mapIdx]
  cases g[j]? with
  | none => rfl
  | some r =>
    simp only [Option.map_some, Option.bind_some, List.getElem?_mapIdx]

theorem anyArea_false (x y z t : Nat) (p : SCell → Bool) (g : SGrid) (h : anyArea x y z t p g = false)
    (j i : Nat) (r : List SCell) (c : SCell) (hr : g[j]? = some r) (hc : r[i]? = some c)
    (hin : inArea x y z t i j = true) : p c = false := by
  unfold anyArea at h
  rw [List.any_eq_false] at h
  have hj : j < g.length := by
    rcases Nat.lt_or_ge j g.length with hh | hh
    · exact hh
    · rw [List.getElem?_eq_none hh] at hr; cases hr
  have hmem : ((r.mapIdx (fun i c => inArea x y z t i j && p c)).any id) ∈
      g.mapIdx (fun j r => (r.mapIdx (fun i c => inArea x y z t i j && p c)).any id) := by
    apply List.mem_of_getElem? (i := j)
    rw [List.getElem?_mapIdx, hr]; rfl
  have h1 := h _ hmem
  simp only [id, Bool.not_eq_true] at h1
  rw [List.any_eq_false] at h1
  have hmem2 : (inArea x y z t i j && p c) ∈ r.mapIdx (fun i c => inArea x y z t i j && p c) := by
    apply List.mem_of_getElem? (i := i)
    rw [List.getElem?_mapIdx, hc]; rfl
  have h2 := h1 _ hmem2
  simp only [id, hin, Bool.true_and, Bool.not_eq_true] at h2
  exact h2

/-- rows of a mapped grid: same number of rows, same row lengths -/
theorem mapArea_shape (x y z t : Nat) (f : Nat → Nat → SCell → SCell) (g : SGrid) :
    (mapArea x y z t f g).length = g.length ∧
    ∀ j, ((mapArea x y z t f g).getD j []).length = (g.getD j []).length := by
  unfold mapArea
  constructor
  · simp
  · intro j
    simp only [List.getD_eq_getElem?_getD, List.getElem?_mapIdx]
    cases g[j]? with
    | none => rfl
    | some r => simp

/-- two grids with the same cells at every position are equal -/
theorem sgrid_ext (a b : SGrid) (hl : a.length = b.length)
    (hr : ∀ j, (a.getD j []).length = (b.getD j []).length)
    (h : ∀ (j i : Nat), (a[j]?.bind (fun r => r[i]?)) = (b[j]?.bind (fun r => r[i]?))) : a = b := by
  apply List.ext_getElem hl
  intro j h1 h2
  have ha : a[j]? = some a[j] := List.getElem?_eq_getElem h1
  have hb : b[j]? = some b[j] := List.getElem?_eq_getElem h2
  have hlen := hr j
  simp only [List.getD_eq_getElem?_getD, ha, hb, Option.getD_some] at hlen
  apply List.ext_getElem hlen
  intro i h3 h4
  have := h j i
  rw [ha, hb] at this
  simp only [Option.bind_some, List.getElem?_eq_getElem h3, List.getElem?_eq_getElem h4, Option.some.injEq] at this
  exact this

end Odf.Span
