import OdfProofs.Package

/-! Helper lemmas for C03 / C04 / C10, second part: the document layer. -/
namespace Odf.Pkg

def WFd (d : Doc) : Prop := WFc d.c ∧ (keys d.parsed).Nodup

theorem view_eq (d : Doc) (n : Nat) :
    d.view n = match look d.parsed n with
      | some b => some b
      | none => cview d.c n := by
  unfold Doc.view cview
  cases look d.parsed n <;> rfl

/-! ### parse / edit -/

theorem parse_view (d : Doc) (n m : Nat) : (d.parse n).2.view m = d.view m := by
  unfold Doc.parse
  cases hp : look d.parsed n with
  | some b => rfl
  | none =>
    simp only
    have hf := get_fst d.c n
    cases hg : d.c.get n with
    | mk r c' =>
      rw [hg] at hf
      simp only at hf
      have hc : ∀ k, cview c' k = cview d.c k := by
        intro k; have := get_snd_cview d.c n k; rw [hg] at this; exact this
      cases r with
      | none => simp only [view_eq, hc]
      | some b =>
        simp only [view_eq, look_put, hc]
        by_cases hm : m = n
        · subst hm; simp [hp, ← hf]
        · simp [hm]

theorem parse_fst (d : Doc) (n : Nat) : (d.parse n).1 = d.view n := by
  unfold Doc.parse
  rw [view_eq]
  cases hp : look d.parsed n with
  | some b => rfl
  | none =>
    simp only
    have hf := get_fst d.c n
    cases hg : d.c.get n with
    | mk r c' =>
      rw [hg] at hf; simp only at hf
      cases r <;> simp [← hf]

theorem parse_wf (d : Doc) (n : Nat) (h : WFd d) : WFd (d.parse n).2 := by
  unfold Doc.parse
  cases hp : look d.parsed n with
  | some b => exact h
  | none =>
    simp only
    have hw := get_snd_wf d.c n h.1
    cases hg : d.c.get n with
    | mk r c' =>
      rw [hg] at hw
      cases r with
      | none => exact ⟨hw, h.2⟩
      | some b => exact ⟨hw, nodup_put _ _ _ h.2⟩

/-- after a successful parse the part is in the cache -/
theorem parse_parsed (d : Doc) (n : Nat) : look (d.parse n).2.parsed n = d.view n := by
  unfold Doc.parse
  rw [view_eq]
  cases hp : look d.parsed n with
  | some b => simp [hp]
  | none =>
    simp only
    have hf := get_fst d.c n
    cases hg : d.c.get n with
    | mk r c' =>
      rw [hg] at hf; simp only at hf
      cases r with
      | none => simp [hp, ← hf]
      | some b => simp [look_put, ← hf]

theorem parse_parsed_other (d : Doc) (n m : Nat) (hm : m ≠ n) : look (d.parse n).2.parsed m = look d.parsed m := by
  unfold Doc.parse
  cases hp : look d.parsed n with
  | some b => rfl
  | none =>
    simp only
    cases hg : d.c.get n with
    | mk r c' =>
      cases r with
      | none => rfl
      | some b => simp [look_put, hm]

theorem edit_view (d : Doc) (n : Nat) (b : Blob) (m : Nat) :
    (d.edit n b).view m = if m = n ∧ (d.view n).isSome then some b else d.view m := by
  unfold Doc.edit
  simp only
  have hpp := parse_parsed d n
  cases hl : look (d.parse n).2.parsed n with
  | none =>
    rw [hl] at hpp
    simp only [parse_view]
    by_cases hm : m = n
    · subst hm; simp [← hpp]
    · simp [hm]
  | some v =>
    rw [hl] at hpp
    by_cases hm : m = n
    · subst hm
      rw [← hpp]
      simp [view_eq, look_put]
    · simp only [hm, false_and, if_false]
      have := parse_view d n m
      simp only [view_eq, look_put, hm, if_false] at this ⊢
      exact this

theorem edit_wf (d : Doc) (n : Nat) (b : Blob) (h : WFd d) : WFd (d.edit n b) := by
  unfold Doc.edit
  simp only
  have hw := parse_wf d n h
  split
  · exact ⟨hw.1, nodup_put _ _ _ hw.2⟩
  · exact hw

/-! ### the manifest -/

def manifestOf (d : Doc) : List (Nat × Nat) :=
  match d.view nManifest with
  | some b => entries b
  | none => []

theorem manifest_fst (d : Doc) : d.manifest.1 = manifestOf d := by
  unfold Doc.manifest manifestOf
  have := parse_fst d nManifest
  cases hg : d.parse nManifest with
  | mk r d' =>
    rw [hg] at this; simp only at this
    cases r <;> simp [← this]

theorem manifest_snd (d : Doc) : d.manifest.2 = (d.parse nManifest).2 := by
  unfold Doc.manifest
  cases hg : d.parse nManifest with
  | mk r d' => cases r <;> rfl

theorem setManifest_view (d : Doc) (es : List (Nat × Nat)) (m : Nat) :
    (d.setManifest es).view m = if m = nManifest then some (.man es) else d.view m := by
  simp only [Doc.setManifest, view_eq, look_put]
  by_cases hm : m = nManifest <;> simp [hm]

theorem setManifest_wf (d : Doc) (es : List (Nat × Nat)) (h : WFd d) : WFd (d.setManifest es) :=
  ⟨h.1, nodup_put _ _ _ h.2⟩

theorem addFile_view (d : Doc) (name : Nat) (data : Blob) (mt : Nat) (m : Nat) (hn : name ≠ nManifest)
    (hp : look d.parsed name = none) :
    (d.addFile name data mt).view m =
      if m = nManifest then some (.man (addPath (match look (manifestOf d) nPictures with
          | some _ => manifestOf d
          | none => addPath (manifestOf d) nPictures 0) name mt))
      else if m = name then some data else d.view m := by
  unfold Doc.addFile
  have h1 := manifest_fst d
  have h2 := manifest_snd d
  cases hg : d.manifest with
  | mk es d1 =>
    rw [hg] at h1 h2
    simp only at h1 h2
    subst h1
    simp only [setManifest_view]
    by_cases hm : m = nManifest
    · simp only [hm, if_true]
      rfl
    · simp only [hm, if_false, view_eq, cview_set]
      have hv := parse_view d nManifest m
      rw [← h2, view_eq, view_eq] at hv
      by_cases hmn : m = name
      · subst hmn
        have : look d1.parsed m = none := by
          rw [h2, parse_parsed_other d nManifest m hn]; exact hp
        simp [this]
      · simp only [hmn, if_false]
        exact hv

end Odf.Pkg
