import OdfProofs.TableOps3

/-! Cell operations refine the grid operations. -/
namespace Odf.Table
open Odf.Rle Odf.Grid

/-- the stored row covering `y`, with the decomposition of the run list around it -/
theorem rowAt_spec (t : Tbl) (h : Inv t) (y : Nat) (hy : y < height t) :
    ∃ a b d rep, t.rows.runs = a ++ (d, rep) :: b ∧ rowAt t y = some (a.length, d, rep) ∧
      total a ≤ y ∧ y < total a + rep := by
  have hy' : y < total t.rows.runs := by
    have := size_ok _ h.rows
    simp only [height] at hy
    omega
  obtain ⟨a, b, d, rep, off, hruns, hoff, hp, hfind⟩ := decompose t.rows.runs y hy'
  refine ⟨a, b, d, rep, hruns, ?_, by omega, by omega⟩
  unfold rowAt
  rw [h.rows.1, hfind]
  simp only
  rw [hruns, getElem?_len_append]
  rfl

theorem expand_getD_of_decomp {α} (a b : Runs α) (d : α) (rep y : Nat) (dflt : α)
    (h1 : total a ≤ y) (h2 : y < total a + rep) :
    (expand (a ++ (d, rep) :: b)).getD y dflt = d := by
  rw [expand_append, expand_cons]
  have hl : (expand a).length = total a := expand_length a
  rw [List.getD_eq_getElem?_getD, List.getElem?_append_right (by omega)]
  rw [List.getElem?_append_left (by simp; omega)]
  rw [List.getElem?_replicate]
  rw [if_pos (by omega)]
  rfl

theorem modifyRow_const (rows : List (List Nat)) (y : Nat) (new : List Nat) (hy : y < rows.length) :
    modifyRow rows y (fun _ => new) = setSlice rows y 1 new := by
  unfold modifyRow setSlice
  have : rows[y]? = some rows[y] := List.getElem?_eq_getElem hy
  rw [this]
  rfl

/-- putting back an edited copy of row `y` (`y` inside the table), either through `set_row`
    (the stored row was repeated) or in place: the grid gets that row replaced, the columns
    widened to it -/
theorem putBack_setRow (t : Tbl) (h : Inv t) (y : Nat) (hy : y < height t) (d' : RowD) (hd' : Pos d') :
    ∃ t', setRow t y d' 1 = some t' ∧ Inv t' ∧
      absT t' = widen { absT t with rows := setSlice (absT t).rows y 1 (expand d') } (expand d').length := by
  obtain ⟨t', e, i, a⟩ := setRow_ok t h y d' 1 hd' (by omega)
  refine ⟨t', e, i, ?_⟩
  rw [a]
  unfold Grid.setRow
  have hnc : 1 ≤ (absT t).ncols := ncols_pos_of_rows t h (by omega)
  rw [declare_noop _ _ (by simp only [widen]; omega)]
  have hlen : y ≤ (absT t).rows.length := by
    have := height_ok t h
    simp only [Grid.height] at this
    omega
  rw [padRows_le _ _ hlen]

theorem expand_set_run (a b : Runs RowD) (d d' : RowD) (y : Nat) (hy : y = total a) :
    (expand (a ++ (d', 1) :: b)).map expand = setSlice ((expand (a ++ (d, 1) :: b)).map expand) y 1 (expand d') := by
  subst hy
  have hl : ((expand a).map expand).length = total a := by simp [expand_length]
  simp only [expand_append, expand_cons, List.map_append, List.replicate_one, List.map_cons, List.map_nil,
    List.singleton_append, setSlice]
  have h1 := take_len_append ((expand a).map expand) (expand d :: (expand b).map expand)
  have h2 := drop_len_succ_append ((expand a).map expand) (expand d) ((expand b).map expand)
  rw [hl] at h1 h2
  rw [h1, h2]
  simp

theorem putBack_inplace (t : Tbl) (h : Inv t) (y : Nat) (a b : Runs RowD) (d : RowD)
    (hruns : t.rows.runs = a ++ (d, 1) :: b) (hy : y = total a) (ro : RowObj) (hro : MapOk ro) :
    Inv (updateWidth { t with rows := { t.rows with runs := t.rows.runs.set a.length (ro.runs, 1) } } (rowWidth ro)) ∧
    absT (updateWidth { t with rows := { t.rows with runs := t.rows.runs.set a.length (ro.runs, 1) } } (rowWidth ro))
      = widen { absT t with rows := setSlice (absT t).rows y 1 (expand ro.runs) } (expand ro.runs).length := by
  have hset : t.rows.runs.set a.length (ro.runs, 1) = a ++ (ro.runs, 1) :: b := by
    rw [hruns]; simp
  have hmapsame : makeCacheMap (a ++ (ro.runs, 1) :: b) = makeCacheMap (a ++ (d, 1) :: b) := by
    simp [makeCacheMap, cumFrom_append, cumFrom]
  have hinv : Inv { t with rows := { t.rows with runs := t.rows.runs.set a.length (ro.runs, 1) } } := by
    refine ⟨h.cols, ⟨?_, ?_⟩, ?_, ?_⟩
    · show t.rows.map = makeCacheMap (t.rows.runs.set a.length (ro.runs, 1))
      rw [hset, hmapsame, ← hruns]; exact h.rows.1
    · show Pos (t.rows.runs.set a.length (ro.runs, 1))
      rw [hset]
      have hp := h.rows.2
      rw [hruns] at hp
      intro p hpm
      simp only [List.mem_append, List.mem_cons] at hpm
      rcases hpm with hpm | rfl | hpm
      · exact hp p (by simp [hpm])
      · simp
      · exact hp p (by simp [hpm])
    · show ∀ p ∈ t.rows.runs.set a.length (ro.runs, 1), Pos p.1
      rw [hset]
      intro p hpm
      simp only [List.mem_append, List.mem_cons] at hpm
      rcases hpm with hpm | rfl | hpm
      · exact h.cells p (by rw [hruns]; simp [hpm])
      · exact hro.2
      · exact h.cells p (by rw [hruns]; simp [hpm])
    · intro _
      exact h.declared (by rw [hruns]; simp)
  obtain ⟨i2, e2⟩ := updateWidth_ok _ hinv (rowWidth ro)
  refine ⟨i2, ?_⟩
  rw [e2, rowWidth_ok ro hro]
  simp only [absT, widen]
  congr 1
  show List.map expand (expand (t.rows.runs.set a.length (ro.runs, 1))) = _
  rw [hset, hruns]
  exact expand_set_run a b d ro.runs y hy

end Odf.Table
