import OdfModel.Toc

namespace Odf.Toc

/-! ### dict lemmas -/

theorem look_map_repl (d : Dict) (k v j : Nat) :
    ((d.map (fun p => if p.1 == k then (k, v) else p)).find? (fun p => p.1 == j)).map (·.2) =
      if j = k then (if d.any (fun p => p.1 == k) then some v else none) else look d j := by
  unfold look
  induction d with
  | nil => simp
  | cons a t ih =>
    simp only [List.map_cons, List.find?_cons, List.any_cons]
    by_cases hak : a.1 = k
    · simp only [hak, beq_self_eq_true, if_true, Bool.true_or]
      by_cases hjk : j = k
      · simp [hjk]
      · have h1 : (k == j) = false := by simpa using (fun h => hjk h.symm)
        simp only [h1, Bool.false_eq_true, if_false, hjk] at ih ⊢
        exact ih
    · have hak' : (a.1 == k) = false := by simpa using hak
      simp only [hak', Bool.false_eq_true, if_false, Bool.false_or]
      by_cases haj : a.1 = j
      · have hjk : j ≠ k := fun h => hak (haj.trans h)
        simp [haj, hjk]
      · have haj' : (a.1 == j) = false := by simpa using haj
        simp only [haj', Bool.false_eq_true, if_false]
        exact ih

theorem look_dset (d : Dict) (k v j : Nat) : look (dset d k v) j = if j = k then some v else look d j := by
  unfold dset
  by_cases hany : d.any (fun p => p.1 == k) = true
  · rw [if_pos hany]
    have := look_map_repl d k v j
    unfold look at this ⊢
    rw [this, hany]
    simp
  · rw [if_neg hany]
    unfold look
    have hnone : ∀ p ∈ d, (p.1 == k) = false := by
      intro p hp
      have : ¬ (d.any (fun p => p.1 == k) = true) := hany
      simp only [List.any_eq_true, not_exists, not_and] at this
      simpa using this p hp
    rw [List.find?_append]
    by_cases hjk : j = k
    · subst hjk
      have : d.find? (fun p => p.1 == j) = none := by
        rw [List.find?_eq_none]; intro p hp; simpa using hnone p hp
      simp [this]
    · have : ((k == j) = false) := by simpa using (fun h => hjk h.symm)
      simp only [hjk, if_false]
      cases hf : d.find? (fun p => p.1 == j) with
      | none => simp [List.find?, this]
      | some p => simp

theorem look_ddel (d : Dict) (k j : Nat) : look (ddel d k) j = if j = k then none else look d j := by
  unfold ddel look
  induction d with
  | nil => simp
  | cons a t ih =>
    simp only [List.filter_cons]
    by_cases hak : a.1 = k
    · have : (a.1 != k) = false := by simp [hak]
      simp only [this, Bool.false_eq_true, if_false, List.find?_cons]
      by_cases hjk : j = k
      · simp only [hjk, if_true] at ih ⊢; exact ih
      · have hne : (a.1 == j) = false := by rw [hak]; simpa using (fun h => hjk h.symm)
        simp only [hne, hjk, if_false] at ih ⊢
        exact ih
    · have : (a.1 != k) = true := by simp [hak]
      simp only [this, if_true, List.find?_cons]
      by_cases haj : a.1 = j
      · have hjk : j ≠ k := fun h => hak (haj.trans h)
        simp [haj, hjk]
      · have haj' : (a.1 == j) = false := by simpa using haj
        simp only [haj', Bool.false_eq_true, if_false]
        exact ih

/-- the keys of the dict are exactly 1..k -/
def Contig (d : Dict) (k : Nat) : Prop := ∀ i, (look d i).isSome ↔ (1 ≤ i ∧ i ≤ k)

/-- the counters of levels 1..k -/
def absList (d : Dict) (k : Nat) : List Nat := (List.range k).map (fun i => (look d (i + 1)).getD 0)

end Odf.Toc

namespace Odf.Toc

theorem foldl_max_le (l : List Nat) (b : Nat) : b ≤ l.foldl max b ∧ ∀ x ∈ l, x ≤ l.foldl max b := by
  induction l generalizing b with
  | nil => simp
  | cons a t ih =>
    simp only [List.foldl_cons, List.mem_cons]
    obtain ⟨h1, h2⟩ := ih (max b a)
    refine ⟨by omega, ?_⟩
    intro x hx
    rcases hx with rfl | hx
    · omega
    · exact h2 x hx

theorem key_le_maxKey (d : Dict) (i : Nat) (h : (look d i).isSome) : i ≤ maxKey d := by
  unfold look at h
  cases hf : d.find? (fun p => p.1 == i) with
  | none => rw [hf] at h; simp at h
  | some p =>
    have hm := List.mem_of_find?_eq_some hf
    have hp := List.find?_some hf
    have : p.1 = i := by simpa using hp
    rw [← this]
    exact (foldl_max_le (d.map (·.1)) 0).2 _ (List.mem_map.2 ⟨p, hm, rfl⟩)

theorem setDefaults_spec (n : Nat) (d : Dict) (idx : Nat) :
    (∀ i, look (setDefaults d idx n).1 i =
        if idx ≤ i ∧ i < idx + n then some ((look d i).getD 1) else look d i) ∧
    (setDefaults d idx n).2 = (List.range n).map (fun t => (look d (idx + t)).getD 1) := by
  induction n generalizing d idx with
  | zero =>
    refine ⟨fun i => ?_, rfl⟩
    simp only [setDefaults]
    rw [if_neg (by omega)]
  | succ n ih =>
    simp only [setDefaults]
    cases hl : look d idx with
    | some v =>
      simp only
      obtain ⟨h1, h2⟩ := ih d (idx + 1)
      constructor
      · intro i
        rw [h1 i]
        by_cases hi : i = idx
        · subst hi
          rw [if_neg (by omega), if_pos (by omega), hl]; rfl
        · by_cases hin : idx + 1 ≤ i ∧ i < idx + 1 + n
          · rw [if_pos hin, if_pos (by omega)]
          · rw [if_neg hin, if_neg (by omega)]
      · rw [h2, List.range_succ_eq_map, List.map_cons, List.map_map]
        simp only [Nat.add_zero, hl, Option.getD_some, List.cons.injEq, true_and]
        apply List.map_congr_left
        intro t _
        simp only [Function.comp]
        congr 2; omega
    | none =>
      simp only
      obtain ⟨h1, h2⟩ := ih (dset d idx 1) (idx + 1)
      constructor
      · intro i
        rw [h1 i, look_dset]
        by_cases hi : i = idx
        · subst hi
          rw [if_neg (by omega), if_pos rfl, if_pos (by omega), hl]; rfl
        · rw [if_neg hi]
          by_cases hin : idx + 1 ≤ i ∧ i < idx + 1 + n
          · rw [if_pos hin, if_pos (by omega)]
          · rw [if_neg hin, if_neg (by omega)]
      · rw [h2, List.range_succ_eq_map, List.map_cons, List.map_map]
        simp only [Nat.add_zero, hl, Option.getD_none, List.cons.injEq, true_and]
        apply List.map_congr_left
        intro t _
        simp only [Function.comp, look_dset]
        rw [if_neg (by omega)]
        congr 2; omega

theorem delFrom_spec (fuel : Nat) (d : Dict) (idx m : Nat)
    (h : ∀ i, idx ≤ i → ((look d i).isSome ↔ i ≤ m)) (hf : m + 1 - idx ≤ fuel) :
    ∀ i, look (delFrom d idx fuel) i = if idx ≤ i then none else look d i := by
  induction fuel generalizing d idx with
  | zero =>
    intro i
    simp only [delFrom]
    split
    · rename_i hi
      have : ¬ (look d i).isSome := by
        rw [h i hi]; omega
      simpa using this
    · rfl
  | succ f ih =>
    intro i
    simp only [delFrom]
    by_cases hs : (look d idx).isSome
    · rw [if_pos hs]
      have hm : idx ≤ m := (h idx (Nat.le_refl _)).1 hs
      have := ih (ddel d idx) (idx + 1) (by
        intro j hj
        rw [look_ddel, if_neg (by omega)]
        exact h j (by omega)) (by omega) i
      rw [this, look_ddel]
      by_cases hi : i = idx
      · subst hi; simp
      · by_cases hle : idx + 1 ≤ i
        · rw [if_pos hle, if_pos (by omega)]
        · rw [if_neg hle, if_neg hi, if_neg (by omega)]
    · rw [if_neg hs]
      split
      · rename_i hi
        have hnot : ¬ idx ≤ m := fun hh => hs ((h idx (Nat.le_refl _)).2 hh)
        have : ¬ (look d i).isSome := by rw [h i hi]; omega
        simpa using this
      · rfl

end Odf.Toc
