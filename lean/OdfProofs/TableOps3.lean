import OdfProofs.TableOps2

/-! set_row / insert_row / delete_row refine the grid operations. -/
namespace Odf.Table
open Odf.Rle Odf.Grid

theorem map_setSlice {α β} (f : α → β) (l : List α) (x rep : Nat) (c : α) :
    (setSlice l x rep c).map f = setSlice (l.map f) x rep (f c) := by
  simp [setSlice, List.map_take, List.map_drop]

theorem map_insSlice {α β} (f : α → β) (l : List α) (x rep : Nat) (c : α) :
    (insSlice l x rep c).map f = insSlice (l.map f) x rep (f c) := by
  simp [insSlice, List.map_take, List.map_drop]

theorem mem_setSlice {α} (l : List α) (x rep : Nat) (c a : α) (h : a ∈ setSlice l x rep c) : a = c ∨ a ∈ l := by
  simp only [setSlice, List.mem_append, List.mem_replicate] at h
  rcases h with (h | h) | h
  · exact Or.inr (List.mem_of_mem_take h)
  · exact Or.inl h.2
  · exact Or.inr (List.mem_of_mem_drop h)

theorem mem_insSlice {α} (l : List α) (x rep : Nat) (c a : α) (h : a ∈ insSlice l x rep c) : a = c ∨ a ∈ l := by
  simp only [insSlice, List.mem_append, List.mem_replicate] at h
  rcases h with (h | h) | h
  · exact Or.inr (List.mem_of_mem_take h)
  · exact Or.inl h.2
  · exact Or.inr (List.mem_of_mem_drop h)

theorem map_eraseIdx' {α β} (f : α → β) (l : List α) (i : Nat) :
    (l.eraseIdx i).map f = (l.map f).eraseIdx i := by
  induction l generalizing i with
  | nil => rfl
  | cons a t ih =>
    cases i with
    | zero => rfl
    | succ j => simp [List.eraseIdx, ih]

theorem rows_nonempty_of_height (t : Tbl) (h : Inv t) (hh : 0 < height t) : t.rows.runs ≠ [] := by
  intro e
  have := size_ok _ h.rows
  simp [height, e] at hh this
  omega

theorem ncols_pos_of_rows (t : Tbl) (h : Inv t) (hh : 0 < height t) : 1 ≤ (absT t).ncols :=
  total_pos_of_ne_nil _ h.cols.2 (h.declared (rows_nonempty_of_height t h hh))

/-- **set_row**: `rows[y : y + rep] = [row] * rep` after padding with empty rows to `y`. -/
theorem setRow_ok (t : Tbl) (h : Inv t) (y : Nat) (d : RowD) (r : Nat) (hd : Pos d) (hr : 1 ≤ r) :
    ∃ t', setRow t y d r = some t' ∧ Inv t' ∧ absT t' = Grid.setRow (absT t) y (expand d) r := by
  have hh := height_ok t h
  have hrw : rowWidth (rowObj d) = (expand d).length := rowWidth_ok _ (rowObj_ok d hd)
  unfold setRow
  simp only
  by_cases h1 : y = height t
  · rw [if_pos h1]
    obtain ⟨i1, e1⟩ := appendRow_ok t h d r hd hr
    obtain ⟨i2, e2⟩ := updateWidth_ok _ i1 (rowWidth (rowObj d))
    refine ⟨_, rfl, i2, ?_⟩
    rw [e2, e1, hrw, widen_noop _ _ (appendRow_ncols_ge _ _ _ hr), h1, hh, setRow_at_end]
  · rw [if_neg h1]
    by_cases h2 : y > height t
    · rw [if_pos h2]
      rw [colRep_pos _ (by omega)]
      obtain ⟨i0, e0⟩ := appendRow_ok t h [] (y - height t) (by intro p hp; simp at hp) (by omega)
      obtain ⟨i1, e1⟩ := appendRow_ok _ i0 d r hd hr
      obtain ⟨i2, e2⟩ := updateWidth_ok _ i1 (rowWidth (rowObj d))
      refine ⟨_, rfl, i2, ?_⟩
      rw [e2, e1, e0, hrw, widen_noop _ _ (appendRow_ncols_ge _ _ _ hr)]
      rw [setRow_beyond _ _ _ _ (by omega) hr, hh]
      rfl
    · rw [if_neg h2]
      have hy : y < total t.rows.runs := by
        have := size_ok _ h.rows
        simp only [height] at h1 h2
        omega
      obtain ⟨rows', es, ms, ex⟩ := setItem_ok t.rows h.rows y d r hy hr
      rw [es]
      simp only [Option.map_some]
      have hne : t.rows.runs ≠ [] := rows_nonempty_of_height t h (by simp only [height] at *; have := size_ok _ h.rows; omega)
      have hinv : Inv { t with rows := rows' } := by
        refine ⟨h.cols, ms, ?_, fun _ => h.declared hne⟩
        apply cells_after ms.2 d hd h.cells
        intro dd hdd
        rw [ex] at hdd
        exact mem_setSlice _ _ _ _ _ hdd
      obtain ⟨i2, e2⟩ := updateWidth_ok _ hinv (rowWidth (rowObj d))
      refine ⟨_, rfl, i2, ?_⟩
      rw [e2, hrw]
      unfold Grid.setRow
      have hnc : 1 ≤ (absT t).ncols := ncols_pos_of_rows t h (by simp only [height] at *; have := size_ok _ h.rows; omega)
      rw [declare_noop _ _ (by simp only [widen]; omega)]
      have hlen : y ≤ (absT t).rows.length := by
        simp only [absT, List.length_map, expand_length]; omega
      rw [padRows_le _ _ hlen]
      simp only [absT, widen, ex]
      congr 1
      show List.map expand (setSlice (expand t.rows.runs) y r d) = _
      rw [map_setSlice]

/-- **insert_row**: `rows[y:y] = [row] * rep` after padding with empty rows to `y`. -/
theorem insertRow_ok (t : Tbl) (h : Inv t) (y : Nat) (d : RowD) (r : Nat) (hd : Pos d) (hr : 1 ≤ r) :
    ∃ t', insertRow t y d r = some t' ∧ Inv t' ∧ absT t' = Grid.insertRow (absT t) y (expand d) r := by
  have hh := height_ok t h
  have hrw : rowWidth (rowObj d) = (expand d).length := rowWidth_ok _ (rowObj_ok d hd)
  unfold insertRow
  simp only
  by_cases h1 : y < height t
  · rw [if_pos h1]
    have hy : y < total t.rows.runs := by
      have := size_ok _ h.rows
      simp only [height] at h1
      omega
    obtain ⟨rows', es, ms, ex⟩ := insertItem_ok t.rows h.rows y d r hy hr
    rw [es]
    simp only [Option.map_some]
    have hne : t.rows.runs ≠ [] := rows_nonempty_of_height t h (by omega)
    have hinv : Inv { t with rows := rows' } := by
      refine ⟨h.cols, ms, ?_, fun _ => h.declared hne⟩
      apply cells_after ms.2 d hd h.cells
      intro dd hdd
      rw [ex] at hdd
      exact mem_insSlice _ _ _ _ _ hdd
    obtain ⟨i2, e2⟩ := updateWidth_ok _ hinv (rowWidth (rowObj d))
    refine ⟨_, rfl, i2, ?_⟩
    rw [e2, hrw]
    unfold Grid.insertRow
    simp only
    rw [if_neg (by rw [← hh]; omega)]
    have hlen : y ≤ (absT t).rows.length := by
      simp only [absT, List.length_map, expand_length]; omega
    rw [padRows_le _ _ hlen]
    simp only [absT, widen, ex]
    congr 1
    show List.map expand (insSlice (expand t.rows.runs) y r d) = _
    rw [map_insSlice]
  · rw [if_neg h1]
    have hins : Grid.insertRow (absT t) y (expand d) r = Grid.setRow (absT t) y (expand d) r := by
      unfold Grid.insertRow Grid.setRow
      simp only
      rw [if_pos (by rw [← hh]; omega)]
      have hlen : (padRows (absT t).rows y).length = y := padRows_length _ _ (by
        have : (absT t).rows.length = height t := by rw [hh]; rfl
        omega)
      rw [setSlice_at_end _ _ _ _ hlen, insSlice_at_end _ _ _ _ hlen]
    by_cases h2 : y = height t
    · rw [if_pos h2]
      obtain ⟨i1, e1⟩ := appendRow_ok t h d r hd hr
      obtain ⟨i2, e2⟩ := updateWidth_ok _ i1 (rowWidth (rowObj d))
      refine ⟨_, rfl, i2, ?_⟩
      rw [e2, e1, hrw, widen_noop _ _ (appendRow_ncols_ge _ _ _ hr), hins, h2, hh, setRow_at_end]
    · rw [if_neg h2]
      rw [colRep_pos _ (by omega)]
      obtain ⟨i0, e0⟩ := appendRow_ok t h [] (y - height t) (by intro p hp; simp at hp) (by omega)
      obtain ⟨i1, e1⟩ := appendRow_ok _ i0 d r hd hr
      obtain ⟨i2, e2⟩ := updateWidth_ok _ i1 (rowWidth (rowObj d))
      refine ⟨_, rfl, i2, ?_⟩
      rw [e2, e1, e0, hrw, widen_noop _ _ (appendRow_ncols_ge _ _ _ hr), hins]
      rw [setRow_beyond _ _ _ _ (by omega) hr, hh]
      rfl

/-- **delete_row** -/
theorem deleteRow_ok (t : Tbl) (h : Inv t) (y : Nat) :
    ∃ t', deleteRow t y = some t' ∧ MapOk t'.cols ∧ MapOk t'.rows ∧ (∀ p ∈ t'.rows.runs, Pos p.1) ∧
      (t'.rows.runs ≠ [] → t'.cols.runs ≠ []) ∧ absT t' = Grid.deleteRow (absT t) y := by
  unfold deleteRow
  by_cases h1 : y ≥ height t
  · rw [if_pos h1]
    refine ⟨t, rfl, h.cols, h.rows, h.cells, h.declared, ?_⟩
    unfold Grid.deleteRow
    have : (absT t).rows.length ≤ y := by
      have := height_ok t h
      simp only [Grid.height] at this
      omega
    rw [List.eraseIdx_of_length_le this]
  · rw [if_neg h1]
    have hy : y < total t.rows.runs := by
      have := size_ok _ h.rows
      simp only [height] at h1
      omega
    obtain ⟨rows', es, ms, ex⟩ := deleteItem_ok t.rows h.rows y hy
    rw [es]
    simp only [Option.map_some]
    have hne : t.rows.runs ≠ [] := rows_nonempty_of_height t h (by omega)
    refine ⟨_, rfl, h.cols, ms, ?_, fun _ => h.declared hne, ?_⟩
    · apply cells_after ms.2 [] (by intro p hp; simp at hp) h.cells
      intro dd hdd
      rw [ex] at hdd
      exact Or.inr (List.mem_of_mem_eraseIdx hdd)
    · simp only [absT, Grid.deleteRow, ex]
      congr 1
      rw [map_eraseIdx']

end Odf.Table
