import OdfProofs.TableOps6
import OdfProofs.TableBulk
import OdfModel.TableStep
import OdfProofs.Transform2

/-! One step and whole histories: the model refines the grid. -/
namespace Odf.Table
open Odf.Rle Odf.Grid

/-- rows exist only under declared columns (false only after deleting the last column of a
    table that has rows) -/
def NoLimbo (g : Grid) : Prop := g.ncols ≠ 0 ∨ g.rows = []

theorem inv_noLimbo (t : Tbl) (h : Inv t) : NoLimbo (absT t) := by
  by_cases hr : t.rows.runs = []
  · right; simp [absT, hr]
  · left
    have := total_pos_of_ne_nil _ h.cols.2 (h.declared hr)
    simp only [absT]; omega

/-- **one step**: every operation of the alphabet, on every coherent state, with every valid
    argument, succeeds and denotes the grid operation. -/
theorem step_refines (t : Tbl) (h : Inv t) (hfit : GridFit (absT t)) (op : Op) (hv : op.Valid) :
    ∃ t', step t op = some t' ∧ absT t' = gstep (absT t) op ∧ (NoLimbo (absT t') → Inv t') := by
  cases op with
  | setCell x y c rep =>
    obtain ⟨t', e, i, a⟩ := setCell_ok t h x y c rep hv
    exact ⟨t', e, a, fun _ => i⟩
  | insertCell x y c rep =>
    obtain ⟨t', e, i, a⟩ := insertCell_ok t h x y c rep hv
    exact ⟨t', e, a, fun _ => i⟩
  | appendCell y c rep =>
    obtain ⟨t', e, i, a⟩ := appendCell_ok t h y c rep hv
    exact ⟨t', e, a, fun _ => i⟩
  | deleteCell x y =>
    obtain ⟨t', e, i, a⟩ := deleteCell_ok t h hfit x y
    exact ⟨t', e, a, fun _ => i⟩
  | setRow y d rep =>
    obtain ⟨t', e, i, a⟩ := setRow_ok t h (tr y (height t)) d rep hv.2 hv.1
    refine ⟨t', e, ?_, fun _ => i⟩
    rw [a, tr_eq_norm, height_ok t h]; rfl
  | insertRow y d rep =>
    obtain ⟨t', e, i, a⟩ := insertRow_ok t h (tr y (height t)) d rep hv.2 hv.1
    refine ⟨t', e, ?_, fun _ => i⟩
    rw [a, tr_eq_norm, height_ok t h]; rfl
  | appendRow d rep =>
    obtain ⟨i, a⟩ := appendRow_ok t h d rep hv.2 hv.1
    exact ⟨_, rfl, a, fun _ => i⟩
  | deleteRow y =>
    obtain ⟨t', e, c1, c2, c3, c4, a⟩ := deleteRow_ok t h (tr y (height t))
    refine ⟨t', e, ?_, fun _ => ⟨c1, c2, c3, c4⟩⟩
    rw [a, tr_eq_norm, height_ok t h]; rfl
  | insertColumn x rep =>
    obtain ⟨t', e, i, a⟩ := insertColumn_ok t h x rep hv
    exact ⟨t', e, a, fun _ => i⟩
  | appendColumn rep =>
    obtain ⟨i, a⟩ := appendColumnOp_ok t h rep hv
    exact ⟨_, rfl, a, fun _ => i⟩
  | deleteColumn x =>
    obtain ⟨t', e, _, _, _, a, i⟩ := deleteColumn_ok t h x
    exact ⟨t', e, a, i⟩
  | setCells x y m =>
    obtain ⟨t', e, i, a⟩ := setCells_ok t h x y m hv
    exact ⟨t', e, a, fun _ => i⟩
  | setValues x y m =>
    obtain ⟨t', e, i, a⟩ := setValues_ok t h x y m
    exact ⟨t', e, a, fun _ => i⟩
  | rstrip a =>
    exact ⟨_, rfl, Odf.Transform.tblRstrip_refines _ t h, fun _ => Odf.Transform.tblRstrip_inv _ t h⟩
  | transpose =>
    exact ⟨_, rfl, Odf.Transform.tblTranspose_refines t, fun _ => Odf.Transform.tblTranspose_inv t⟩

end Odf.Table

namespace Odf.Table
open Odf.Rle Odf.Grid

/-! ### no row wider than the declared columns: preserved by every grid operation -/

theorem declare_rows (hB : Nat) (g : Grid) : (declare hB g).rows = g.rows := by
  unfold declare; split <;> rfl

theorem declare_ncols_ge (hB : Nat) (g : Grid) : g.ncols ≤ (declare hB g).ncols := by
  unfold declare; split
  · rename_i h; simp [h.2]
  · exact Nat.le_refl _

theorem mem_padRows (rows : List (List Nat)) (n : Nat) (r : List Nat) (h : r ∈ padRows rows n) : r ∈ rows ∨ r = [] := by
  simp only [padRows, List.mem_append, List.mem_replicate] at h
  rcases h with h | h
  · exact Or.inl h
  · exact Or.inr h.2

theorem mem_modifyRow (rows : List (List Nat)) (y : Nat) (f : List Nat → List Nat) (r : List Nat)
    (h : r ∈ modifyRow rows y f) : r ∈ rows ∨ ∃ old ∈ rows, r = f old := by
  simp only [modifyRow, List.mem_append] at h
  rcases h with (h | h) | h
  · exact Or.inl (List.mem_of_mem_take h)
  · cases hy : rows[y]? with
    | none => rw [hy] at h; simp at h
    | some old =>
      rw [hy] at h
      simp at h
      exact Or.inr ⟨old, List.mem_of_getElem? hy, h⟩
  · exact Or.inl (List.mem_of_mem_drop h)

/-- shape shared by the row-level setters: new rows are old rows, empty rows or `new` -/
theorem fit_declare_widen (g : Grid) (hfit : GridFit g) (hB : Nat) (rows' : List (List Nat)) (new : List Nat)
    (hmem : ∀ r ∈ rows', r ∈ g.rows ∨ r = [] ∨ r = new) :
    GridFit (declare hB (widen { g with rows := rows' } new.length)) := by
  intro r hr
  rw [declare_rows] at hr
  have hge := declare_ncols_ge hB (widen { g with rows := rows' } new.length)
  have hw : (widen { g with rows := rows' } new.length).ncols = max g.ncols new.length := rfl
  have hr' : r ∈ rows' := hr
  rcases hmem r hr' with h | h | h
  · have := hfit r h; omega
  · subst h; simp
  · subst h; omega

theorem fit_editRowN (g : Grid) (hfit : GridFit g) (yn : Nat) (F : List Nat → List Nat) :
    GridFit (editRowN g yn F) := by
  unfold editRowN
  apply fit_declare_widen g hfit
  intro r hr
  rcases mem_modifyRow _ _ _ _ hr with h | ⟨old, _, h⟩
  · rcases mem_padRows _ _ _ h with h | h
    · exact Or.inl h
    · exact Or.inr (Or.inl h)
  · exact Or.inr (Or.inr h)

theorem fit_setCells (g : Grid) (hfit : GridFit g) (x y : Int) (m : List (List (Nat × Nat))) :
    GridFit (Grid.setCells g x y m) := by
  unfold Grid.setCells
  simp only
  generalize Grid.norm y (Grid.height g) = yn
  generalize Grid.norm x g.ncols = xn
  induction m generalizing g yn with
  | nil => exact hfit
  | cons line rest ih =>
    simp only [List.foldl_cons]
    by_cases hl : line = []
    · simp only [hl, if_true]; exact ih g hfit (yn + 1)
    · simp only [hl, if_false]
      exact ih _ (by unfold Grid.setLine; exact fit_editRowN g hfit _ _) (yn + 1)

theorem fit_gstep (g : Grid) (hfit : GridFit g) (op : Op) : GridFit (gstep g op) := by
  cases op with
  | setCell x y c rep =>
    simp only [gstep, Grid.setCell, Grid.setCellN]
    exact fit_editRowN g hfit _ _
  | insertCell x y c rep =>
    simp only [gstep, Grid.insertCell]
    exact fit_editRowN g hfit _ _
  | appendCell y c rep =>
    simp only [gstep, Grid.appendCell]
    exact fit_editRowN g hfit _ _
  | deleteCell x y =>
    intro r hr
    simp only [gstep, Grid.deleteCell] at hr ⊢
    rcases mem_modifyRow _ _ _ _ hr with h | ⟨old, ho, h⟩
    · exact hfit r h
    · subst h
      have := hfit old ho
      have := List.length_eraseIdx_le old (Grid.norm x g.ncols)
      omega
  | setRow y d rep =>
    simp only [gstep, Grid.setRow]
    apply fit_declare_widen g hfit
    intro r hr
    rcases mem_setSlice _ _ _ _ _ hr with h | h
    · exact Or.inr (Or.inr h)
    · rcases mem_padRows _ _ _ h with h | h
      · exact Or.inl h
      · exact Or.inr (Or.inl h)
  | insertRow y d rep =>
    simp only [gstep, Grid.insertRow]
    have hw : GridFit (widen { g with rows := insSlice (padRows g.rows (Grid.norm y (Grid.height g))) (Grid.norm y (Grid.height g)) rep (expand d) } (expand d).length) := by
      intro r hr
      simp only [widen] at hr ⊢
      rcases mem_insSlice _ _ _ _ _ hr with h | h
      · subst h; omega
      · rcases mem_padRows _ _ _ h with h | h
        · have := hfit r h; omega
        · subst h; simp
    split
    · intro r hr
      rw [declare_rows] at hr
      have := hw r hr
      have := declare_ncols_ge (Grid.height g) (widen { g with rows := insSlice (padRows g.rows (Grid.norm y (Grid.height g))) (Grid.norm y (Grid.height g)) rep (expand d) } (expand d).length)
      omega
    · exact hw
  | appendRow d rep =>
    simp only [gstep, Grid.appendRow]
    apply fit_declare_widen g hfit
    intro r hr
    simp only [List.mem_append, List.mem_replicate] at hr
    rcases hr with h | h
    · exact Or.inl h
    · exact Or.inr (Or.inr h.2)
  | deleteRow y =>
    intro r hr
    simp only [gstep, Grid.deleteRow] at hr ⊢
    exact hfit r (List.mem_of_mem_eraseIdx hr)
  | insertColumn x rep =>
    intro r hr
    simp only [gstep, Grid.insertColumn, List.mem_map] at hr ⊢
    obtain ⟨old, ho, rfl⟩ := hr
    have := hfit old ho
    split
    · simp only [insSlice, List.length_append, List.length_take, List.length_replicate, List.length_drop]
      omega
    · omega
  | appendColumn rep =>
    intro r hr
    simp only [gstep, Grid.appendColumn] at hr ⊢
    have := hfit r hr
    omega
  | deleteColumn x =>
    simp only [gstep, Grid.deleteColumn]
    split
    · rename_i hlt
      intro r hr
      simp only [List.mem_map] at hr ⊢
      obtain ⟨old, ho, rfl⟩ := hr
      have := hfit old ho
      split
      · rename_i hgt
        rw [List.length_eraseIdx, if_pos hgt]
        omega
      · omega
    · exact hfit
  | setCells x y m =>
    simp only [gstep]
    exact fit_setCells g hfit x y m
  | setValues x y m =>
    simp only [gstep, Grid.setValues]
    exact fit_setCells g hfit x y _
  | rstrip a => exact Odf.Transform.fit_gridRstrip _ g hfit
  | transpose => exact Odf.Transform.fit_transposeG g

/-- **every history**: from any coherent table whose rows fit its columns, every finite
    sequence of valid operations succeeds, and what the table denotes is exactly what the same
    sequence produces on the plain grid — as long as the history does not go through the state
    "rows but no column" (only reachable by deleting the last column of a table with rows). -/
theorem history_refines (ops : List Op) (t : Tbl) (h : Inv t) (hfit : GridFit (absT t))
    (hv : ∀ op ∈ ops, op.Valid)
    (hlimbo : ∀ k, k ≤ ops.length → NoLimbo (grun (absT t) (ops.take k))) :
    ∃ t', run t ops = some t' ∧ absT t' = grun (absT t) ops ∧ Inv t' ∧ GridFit (absT t') := by
  induction ops generalizing t with
  | nil => exact ⟨t, rfl, rfl, h, hfit⟩
  | cons op ops ih =>
    obtain ⟨t1, e1, a1, i1⟩ := step_refines t h hfit op (hv op (by simp))
    have hl1 : NoLimbo (absT t1) := by
      have := hlimbo 1 (by simp)
      simpa [grun, a1] using this
    have hfit1 : GridFit (absT t1) := by rw [a1]; exact fit_gstep _ hfit op
    obtain ⟨t', e, a, i, f⟩ := ih t1 (i1 hl1) hfit1 (fun o ho => hv o (by simp [ho])) (by
      intro k hk
      have := hlimbo (k + 1) (by simp; omega)
      simpa [grun, a1] using this)
    refine ⟨t', ?_, ?_, i, f⟩
    · simp only [run, e1, Option.bind_some, e]
    · simp only [grun, ← a1, a]

end Odf.Table
