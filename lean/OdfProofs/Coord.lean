import OdfModel.Coord
import Mathlib.Tactic.Ring
import Mathlib.Data.List.Induction

/-! Helper lemmas for `OdfProps/C19.lean` (property theorems live there). -/
namespace Odf.Coord

/-! ### base 26 -/

theorem foldl_shift26 (ls : List Nat) (c : Nat) :
    ls.foldl (fun c l => c * 26 + (l + 1)) c = c * 26 ^ ls.length + alphaVal ls := by
  induction ls generalizing c with
  | nil => simp [alphaVal]
  | cons l ls ih =>
    simp only [List.foldl_cons, List.length_cons, alphaVal]
    rw [ih, ih (0 * 26 + (l + 1))]
    rw [Nat.pow_succ]
    simp only [alphaVal]
    ring

theorem toAlphaAux_val (d : Nat) (acc : List Nat) :
    alphaVal (toAlphaAux d acc) = d * 26 ^ acc.length + alphaVal acc := by
  induction d using Nat.strongRecOn generalizing acc with
  | _ d ih =>
    cases d with
    | zero => simp [toAlphaAux]
    | succ d =>
      rw [toAlphaAux, ih (d / 26) (by omega)]
      simp only [List.length_cons, alphaVal, List.foldl_cons]
      rw [foldl_shift26]
      have h := Nat.div_add_mod d 26
      rw [Nat.pow_succ]
      have : (d+1) * 26 ^ acc.length = (26 * (d/26) + d % 26 + 1) * 26 ^ acc.length := by rw [h]
      rw [this]
      simp only [alphaVal]
      ring

theorem alphaVal_snoc (ls : List Nat) (l : Nat) :
    alphaVal (ls ++ [l]) = alphaVal ls * 26 + (l + 1) := by
  simp [alphaVal, List.foldl_append]

theorem toAlphaAux_append (d : Nat) (acc : List Nat) :
    toAlphaAux d acc = toAlphaAux d [] ++ acc := by
  induction d using Nat.strongRecOn generalizing acc with
  | _ d ih =>
    cases d with
    | zero => simp [toAlphaAux]
    | succ d =>
      rw [toAlphaAux, toAlphaAux, ih (d / 26) (by omega) (d % 26 :: acc),
        ih (d / 26) (by omega) [d % 26]]
      simp

theorem toAlphaAux_alphaVal (ls : List Nat) (h : ∀ l ∈ ls, l < 26) :
    toAlphaAux (alphaVal ls) [] = ls := by
  induction ls using List.reverseRecOn with
  | nil => simp [alphaVal, toAlphaAux]
  | append_singleton ls l ih =>
    have hl : l < 26 := h l (by simp)
    have hls : ∀ x ∈ ls, x < 26 := fun x hx => h x (by simp [hx])
    rw [alphaVal_snoc]
    have e : alphaVal ls * 26 + (l + 1) = (alphaVal ls * 26 + l) + 1 := by omega
    rw [e, toAlphaAux]
    have h1 : (alphaVal ls * 26 + l) / 26 = alphaVal ls := by omega
    have h2 : (alphaVal ls * 26 + l) % 26 = l := by omega
    rw [h1, h2, toAlphaAux_append, ih hls]

theorem alphaVal_pos (ls : List Nat) (h : ls ≠ []) : 0 < alphaVal ls := by
  induction ls using List.reverseRecOn with
  | nil => exact absurd rfl h
  | append_singleton ls l _ => rw [alphaVal_snoc]; omega

theorem toAlphaAux_lt26 (d : Nat) (acc : List Nat) (h : ∀ l ∈ acc, l < 26) :
    ∀ l ∈ toAlphaAux d acc, l < 26 := by
  induction d using Nat.strongRecOn generalizing acc with
  | _ d ih =>
    cases d with
    | zero => simpa [toAlphaAux] using h
    | succ d =>
      rw [toAlphaAux]
      apply ih (d / 26) (by omega)
      intro l hl
      simp only [List.mem_cons] at hl
      rcases hl with rfl | hl
      · omega
      · exact h l hl

theorem toAlphaAux_ne_nil (d : Nat) (acc : List Nat) (h : 0 < d ∨ acc ≠ []) :
    toAlphaAux d acc ≠ [] := by
  induction d using Nat.strongRecOn generalizing acc with
  | _ d ih =>
    cases d with
    | zero =>
      rcases h with h | h
      · omega
      · simpa [toAlphaAux] using h
    | succ d =>
      rw [toAlphaAux]
      exact ih (d / 26) (by omega) _ (Or.inr (by simp))

/-! ### base 10 -/

theorem foldl_shift10 (ls : List Nat) (c : Nat) :
    ls.foldl (fun c d => c * 10 + d) c = c * 10 ^ ls.length + decVal ls := by
  induction ls generalizing c with
  | nil => simp [decVal]
  | cons l ls ih =>
    simp only [List.foldl_cons, List.length_cons, decVal]
    rw [ih, ih (0 * 10 + l)]
    rw [Nat.pow_succ]
    simp only [decVal]
    ring

theorem toDecAux_val (d : Nat) (acc : List Nat) :
    decVal (toDecAux d acc) = d * 10 ^ acc.length + decVal acc := by
  induction d using Nat.strongRecOn generalizing acc with
  | _ d ih =>
    cases d with
    | zero => simp [toDecAux]
    | succ d =>
      rw [toDecAux, ih ((d+1) / 10) (by omega)]
      simp only [List.length_cons, decVal, List.foldl_cons]
      rw [foldl_shift10]
      have h := Nat.div_add_mod (d+1) 10
      rw [Nat.pow_succ]
      have : (d+1) * 10 ^ acc.length = (10 * ((d+1)/10) + (d+1) % 10) * 10 ^ acc.length := by rw [h]
      rw [this]
      simp only [decVal]
      ring

theorem decVal_toDec (n : Nat) : decVal (toDec n) = n := by
  unfold toDec
  split
  · subst_vars; simp [decVal]
  · rw [toDecAux_val]; simp [decVal]

theorem toDecAux_lt10 (d : Nat) (acc : List Nat) (h : ∀ l ∈ acc, l < 10) :
    ∀ l ∈ toDecAux d acc, l < 10 := by
  induction d using Nat.strongRecOn generalizing acc with
  | _ d ih =>
    cases d with
    | zero => simpa [toDecAux] using h
    | succ d =>
      rw [toDecAux]
      apply ih ((d+1) / 10) (by omega)
      intro l hl
      simp only [List.mem_cons] at hl
      rcases hl with rfl | hl
      · omega
      · exact h l hl

theorem toDec_lt10 (n : Nat) : ∀ l ∈ toDec n, l < 10 := by
  unfold toDec
  split
  · simp
  · exact toDecAux_lt10 n [] (by simp)

theorem toDecAux_ne_nil (d : Nat) (acc : List Nat) (h : 0 < d ∨ acc ≠ []) :
    toDecAux d acc ≠ [] := by
  induction d using Nat.strongRecOn generalizing acc with
  | _ d ih =>
    cases d with
    | zero =>
      rcases h with h | h
      · omega
      · simpa [toDecAux] using h
    | succ d =>
      rw [toDecAux]
      exact ih ((d+1) / 10) (by omega) _ (Or.inr (by simp))

theorem toDec_ne_nil (n : Nat) : toDec n ≠ [] := by
  unfold toDec
  split
  · simp
  · exact toDecAux_ne_nil n [] (Or.inl (by omega))

/-! ### characters -/

theorem letterDigit_letterOf : ∀ k, k < 26 → letterDigit (letterOf k) = k := by decide
theorem isAsciiAlpha_letterOf : ∀ k, k < 26 → isAsciiAlpha (letterOf k) = true := by decide
theorem charDigit_digitChar : ∀ d, d < 10 → charDigit (digitChar d) = d := by decide
theorem isDigit_digitChar : ∀ d, d < 10 → isDigit (digitChar d) = true := by decide
theorem not_alpha_digitChar : ∀ d, d < 10 → isAsciiAlpha (digitChar d) = false := by decide
theorem not_blank_digitChar : ∀ d, d < 10 → isBlank (digitChar d) = false := by decide
theorem not_blank_letterOf : ∀ k, k < 26 → isBlank (letterOf k) = false := by decide
theorem not_colon_digitChar : ∀ d, d < 10 → (digitChar d != ':') = true := by decide
theorem not_colon_letterOf : ∀ k, k < 26 → (letterOf k != ':') = true := by decide
theorem not_sign_digitChar : ∀ d, d < 10 → digitChar d ≠ '-' ∧ digitChar d ≠ '+' := by decide

theorem map_letterDigit_letterOf (ls : List Nat) (h : ∀ l ∈ ls, l < 26) :
    (ls.map letterOf).map letterDigit = ls := by
  induction ls with
  | nil => rfl
  | cons a t ih =>
    simp only [List.map_cons]
    rw [letterDigit_letterOf a (h a (by simp)), ih (fun l hl => h l (by simp [hl]))]

theorem map_charDigit_digitChar (ls : List Nat) (h : ∀ l ∈ ls, l < 10) :
    (ls.map digitChar).map charDigit = ls := by
  induction ls with
  | nil => rfl
  | cons a t ih =>
    simp only [List.map_cons]
    rw [charDigit_digitChar a (h a (by simp)), ih (fun l hl => h l (by simp [hl]))]

/-! ### list scanning -/

theorem takeWhile_append_stop {α} (p : α → Bool) (l₁ l₂ : List α)
    (h₁ : ∀ a ∈ l₁, p a = true) (h₂ : ∀ a, l₂.head? = some a → p a = false) :
    (l₁ ++ l₂).takeWhile p = l₁ := by
  induction l₁ with
  | nil =>
    cases l₂ with
    | nil => rfl
    | cons b t => simp [h₂ b rfl]
  | cons a t ih =>
    simp only [List.cons_append, List.takeWhile, h₁ a (by simp)]
    rw [ih (fun x hx => h₁ x (by simp [hx]))]

theorem takeWhile_all {α} (p : α → Bool) (l : List α) (h : ∀ a ∈ l, p a = true) :
    l.takeWhile p = l := by
  simpa using takeWhile_append_stop p l [] h (by simp)

theorem dropWhile_none {α} (p : α → Bool) (l : List α) (h : ∀ a ∈ l, p a = false) :
    l.dropWhile p = l := by
  cases l with
  | nil => rfl
  | cons a t => simp [List.dropWhile, h a (by simp)]

theorem strip_id (cs : List Char) (h : ∀ c ∈ cs, isBlank c = false) : strip cs = cs := by
  unfold strip
  rw [dropWhile_none _ _ h, dropWhile_none _ _ (by simpa using h)]
  simp

theorem natToStr_facts (n : Nat) :
    natToStr n ≠ [] ∧ (natToStr n).all isDigit = true ∧ (natToStr n).map charDigit = toDec n ∧
    (natToStr n).head? ≠ some '-' ∧ (natToStr n).head? ≠ some '+' := by
  have hlt := toDec_lt10 n
  have hne := toDec_ne_nil n
  unfold natToStr
  refine ⟨by simpa using hne, ?_, map_charDigit_digitChar _ hlt, ?_, ?_⟩
  · rw [List.all_eq_true]
    intro c hc
    obtain ⟨d, hd, rfl⟩ := List.mem_map.1 hc
    exact isDigit_digitChar d (hlt d hd)
  · cases h : toDec n with
    | nil => exact absurd h hne
    | cons d ds =>
      simp only [List.map_cons, List.head?_cons, ne_eq, Option.some.injEq]
      exact (not_sign_digitChar d (hlt d (by rw [h]; simp))).1
  · cases h : toDec n with
    | nil => exact absurd h hne
    | cons d ds =>
      simp only [List.map_cons, List.head?_cons, ne_eq, Option.some.injEq]
      exact (not_sign_digitChar d (hlt d (by rw [h]; simp))).2

/-- `int(str(n)) == n` for every natural number -/
theorem parseInt_natToStr (n : Nat) : parseInt (natToStr n) = some (n : Int) := by
  obtain ⟨hne, hall, hmap, hm, hp⟩ := natToStr_facts n
  cases hs : natToStr n with
  | nil => exact absurd hs hne
  | cons c rest =>
    rw [hs] at hall hmap hm hp
    simp only [List.head?_cons, ne_eq, Option.some.injEq] at hm hp
    unfold parseInt
    split
    · rename_i heq; cases heq
    · rename_i r heq
      have : c = '-' := by injection heq with h1 h2
      exact absurd this hm
    · rename_i r heq
      have : c = '+' := by injection heq with h1 h2
      exact absurd this hp
    · rw [if_pos hall, hmap, decVal_toDec]

/-- **`int(str(z)) == z` for every Python int, of any size and sign** -/
theorem parseInt_intToStr (z : Int) : parseInt (intToStr z) = some z := by
  unfold intToStr
  by_cases hz : z < 0
  · rw [if_pos hz]
    obtain ⟨hne, hall, hmap, _, _⟩ := natToStr_facts z.natAbs
    unfold parseInt
    simp only
    rw [if_pos ⟨hne, hall⟩, hmap, decVal_toDec]
    congr 1
    omega
  · rw [if_neg hz, parseInt_natToStr]
    congr 1
    omega

end Odf.Coord
