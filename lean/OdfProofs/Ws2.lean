import OdfProofs.Ws

namespace Odf.Ws

/-! ### "no two adjacent plain spaces" on atoms -/

def isSp : Atom → Bool
  | .c ch => ch == ' '
  | _ => false

def noDblA : List Atom → Bool
  | a :: b :: r => !(isSp a && isSp b) && noDblA (b :: r)
  | _ => true

def startsSp : List Atom → Bool
  | a :: _ => isSp a
  | [] => false

def endsSp : List Atom → Bool
  | [] => false
  | [a] => isSp a
  | _ :: b :: r => endsSp (b :: r)

theorem endsSp_cons_ne (a : Atom) (r : List Atom) (h : r ≠ []) : endsSp (a :: r) = endsSp r := by
  cases r with
  | nil => exact absurd rfl h
  | cons b t => rfl

theorem endsSp_append (A B : List Atom) (h : B ≠ []) : endsSp (A ++ B) = endsSp B := by
  induction A with
  | nil => rfl
  | cons a t ih =>
    rw [List.cons_append, endsSp_cons_ne _ _ (by simp [h]), ih]

theorem startsSp_append (A B : List Atom) (h : A ≠ []) : startsSp (A ++ B) = startsSp A := by
  cases A with
  | nil => exact absurd rfl h
  | cons a t => rfl

theorem noDblA_cons (a : Atom) (r : List Atom) :
    noDblA (a :: r) = (!(isSp a && startsSp r) && noDblA r) := by
  cases r with
  | nil => simp [noDblA, startsSp]
  | cons b t => simp [noDblA, startsSp]

theorem noDblA_append (A B : List Atom) :
    noDblA (A ++ B) = (noDblA A && noDblA B && !(endsSp A && startsSp B)) := by
  induction A with
  | nil => simp [noDblA, endsSp]
  | cons a t ih =>
    cases t with
    | nil =>
      rw [List.cons_append, List.nil_append, noDblA_cons]
      have e1 : noDblA [a] = true := rfl
      have e2 : endsSp [a] = isSp a := rfl
      rw [e1, e2]
      cases isSp a <;> cases startsSp B <;> cases noDblA B <;> rfl
    | cons b t' =>
      rw [List.cons_append, noDblA_cons, ih, noDblA_cons a (b :: t')]
      have e1 : startsSp (b :: t' ++ B) = startsSp (b :: t') := rfl
      have e2 : endsSp (a :: b :: t') = endsSp (b :: t') := rfl
      rw [e1, e2]
      cases isSp a <;> cases startsSp (b :: t') <;> cases noDblA (b :: t') <;> cases noDblA B <;>
        cases endsSp (b :: t') <;> cases startsSp B <;> rfl

/-- no adjacent spaces, and neither the first nor the last atom is a plain space -/
def tight (A : List Atom) : Bool := noDblA A && !startsSp A && !endsSp A

theorem tight_nil : tight [] = true := rfl

theorem tight_append (A B : List Atom) (hA : tight A = true) (hB : tight B = true) :
    tight (A ++ B) = true := by
  simp only [tight, Bool.and_eq_true, Bool.not_eq_true'] at hA hB ⊢
  obtain ⟨⟨a1, a2⟩, a3⟩ := hA
  obtain ⟨⟨b1, b2⟩, b3⟩ := hB
  by_cases hB0 : B = []
  · subst hB0; simp [a1, a2, a3]
  by_cases hA0 : A = []
  · subst hA0; simp [b1, b2, b3]
  rw [noDblA_append, endsSp_append _ _ hB0, startsSp_append _ _ hA0]
  simp [a1, a2, a3, b1, b2, b3]

theorem tight_single (a : Atom) (h : isSp a = false) : tight [a] = true := by
  simp [tight, noDblA, startsSp, endsSp, h]

theorem nosp_facts (A : List Atom) (h : ∀ a ∈ A, isSp a = false) :
    noDblA A = true ∧ startsSp A = false ∧ endsSp A = false := by
  induction A with
  | nil => simp [noDblA, startsSp, endsSp]
  | cons a t ih =>
    have ha := h a (by simp)
    obtain ⟨i1, i2, i3⟩ := ih (fun x hx => h x (by simp [hx]))
    refine ⟨?_, ?_, ?_⟩
    · rw [noDblA_cons]; simp [ha, i1]
    · simp [startsSp, ha]
    · cases t with
      | nil => simp [endsSp, ha]
      | cons b t' => exact i3

theorem isSp_tabifyA (a : Atom) : isSp (tabifyA a) = isSp a := by
  cases a with
  | c ch =>
    simp only [tabifyA, tabifyC]
    split
    · subst_vars; decide
    · split
      · subst_vars; decide
      · rfl
  | _ => rfl

theorem noDblA_map_tabifyA (A : List Atom) : noDblA (A.map tabifyA) = noDblA A := by
  induction A with
  | nil => rfl
  | cons a t ih =>
    cases t with
    | nil => rfl
    | cons b t' =>
      simp only [List.map_cons, noDblA, isSp_tabifyA] at ih ⊢
      rw [ih]

theorem startsSp_map_tabifyA (A : List Atom) : startsSp (A.map tabifyA) = startsSp A := by
  cases A with
  | nil => rfl
  | cons a t => simp [startsSp, isSp_tabifyA]

theorem endsSp_map_tabifyA (A : List Atom) : endsSp (A.map tabifyA) = endsSp A := by
  induction A with
  | nil => rfl
  | cons a t ih =>
    cases t with
    | nil => simp [endsSp, isSp_tabifyA]
    | cons b t' => simpa [endsSp] using ih

theorem tight_map_tabifyA (A : List Atom) : tight (A.map tabifyA) = tight A := by
  simp [tight, noDblA_map_tabifyA, startsSp_map_tabifyA, endsSp_map_tabifyA]

/-! ### groups -/

def altOK : Option Bool → List (Bool × List Char) → Bool
  | _, [] => true
  | prev, (b, g) :: r =>
    (prev != some b) && !g.isEmpty && (if b then g.all (· == ' ') else g.all (· != ' ')) && altOK (some b) r

theorem groups_flatten (t : List Char) : (groups t).flatMap (·.2) = t := by
  induction t with
  | nil => rfl
  | cons c cs ih =>
    simp only [groups]
    split
    · rename_i b g rest heq
      rw [heq] at ih
      split
      · simp only [List.flatMap_cons, List.cons_append] at ih ⊢; rw [ih]
      · simp only [List.flatMap_cons, List.cons_append, List.nil_append] at ih ⊢; rw [ih]
    · rename_i heq
      rw [heq] at ih
      simp at ih
      simp [ih]

theorem groups_altOK (t : List Char) : altOK none (groups t) = true := by
  induction t with
  | nil => rfl
  | cons c cs ih =>
    simp only [groups]
    split
    · rename_i b g rest heq
      rw [heq] at ih
      simp only [altOK, Bool.and_eq_true, bne_iff_ne, ne_eq, reduceCtorEq, not_false_eq_true, true_and,
        Bool.not_eq_true'] at ih
      obtain ⟨⟨hne, hall⟩, hrest⟩ := ih
      split
      · rename_i hb
        simp only [altOK, Bool.and_eq_true, bne_iff_ne, ne_eq, reduceCtorEq, not_false_eq_true, true_and,
          Bool.not_eq_true', List.isEmpty_cons, hrest, and_true]
        cases b with
        | true =>
          have : (c == ' ') = true := by simpa using hb.symm
          simp only [if_true, List.all_cons, this, Bool.true_and] at hall ⊢
          exact hall
        | false =>
          have : (c == ' ') = false := by simpa using hb.symm
          simp only [Bool.false_eq_true, if_false, List.all_cons, Bool.and_eq_true, bne_iff_ne, ne_eq] at hall ⊢
          refine ⟨?_, hall⟩
          simpa using this
      · rename_i hb
        simp only [altOK, Bool.and_eq_true, bne_iff_ne, ne_eq, reduceCtorEq, not_false_eq_true, true_and,
          Bool.not_eq_true', List.isEmpty_cons, Option.some.injEq, hne, hall, hrest, and_true]
        refine ⟨?_, fun h => hb h.symm⟩
        by_cases hc : c = ' ' <;> simp [hc]
    · simp only [altOK, Bool.and_eq_true, bne_iff_ne, ne_eq, reduceCtorEq, not_false_eq_true, true_and,
        List.isEmpty_cons, Bool.not_false, and_true]
      by_cases hc : c = ' ' <;> simp [hc]

end Odf.Ws
