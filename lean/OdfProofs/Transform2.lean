import OdfProofs.Transform
import OdfProofs.TableBulk

/-! The run-length `Table.rstrip` refines its grid spec (C17): `absT (tblRstrip emp t) = gridRstrip emp (absT t)`. -/
namespace Odf.Transform
open Odf.Rle Odf.Table Odf.Grid

/-! ### rstripList: congruence, appended block, map -/

theorem dropWhile_append_all {α} (p : α → Bool) (l1 l2 : List α) (h : ∀ a ∈ l1, p a = true) :
    (l1 ++ l2).dropWhile p = l2.dropWhile p := by
  induction l1 with
  | nil => rfl
  | cons a t ih =>
    have ha : p a = true := h a (by simp)
    simp only [List.cons_append, List.dropWhile, ha]
    exact ih (fun b hb => h b (by simp [hb]))

theorem rstripList_append_all {α} (p : α → Bool) (pre suf : List α) (h : ∀ a ∈ suf, p a = true) :
    rstripList p (pre ++ suf) = rstripList p pre := by
  unfold rstripList
  rw [List.reverse_append, dropWhile_append_all p suf.reverse pre.reverse (fun a ha => h a (by simpa using ha))]

theorem dropWhile_congr {α} (p q : α → Bool) (l : List α) (h : ∀ a ∈ l, p a = q a) : l.dropWhile p = l.dropWhile q := by
  induction l with
  | nil => rfl
  | cons a t ih =>
    have ha := h a (by simp)
    simp only [List.dropWhile, ha]
    cases q a with
    | true => exact ih (fun b hb => h b (by simp [hb]))
    | false => rfl

theorem rstripList_congr {α} (p q : α → Bool) (l : List α) (h : ∀ a ∈ l, p a = q a) : rstripList p l = rstripList q l := by
  unfold rstripList
  rw [dropWhile_congr p q l.reverse (fun a ha => h a (by simpa using ha))]

theorem dropWhile_map {α β} (p : β → Bool) (f : α → β) (l : List α) :
    (l.map f).dropWhile p = (l.dropWhile (fun a => p (f a))).map f := by
  induction l with
  | nil => rfl
  | cons a t ih =>
    simp only [List.map_cons, List.dropWhile]
    cases p (f a) with
    | true => exact ih
    | false => rfl

theorem rstripList_map {α β} (p : β → Bool) (f : α → β) (l : List α) :
    rstripList p (l.map f) = (rstripList (fun a => p (f a)) l).map f := by
  unfold rstripList
  rw [← List.map_reverse, dropWhile_map, List.map_reverse]

/-! ### expansion of a stripped run list -/

theorem mem_expand {α} (v : Runs α) (a : α) (h : a ∈ expand v) : ∃ n, (a, n) ∈ v := by
  induction v with
  | nil => simp at h
  | cons hd tl ih =>
    obtain ⟨c, n⟩ := hd
    simp only [expand_cons, List.mem_append, List.mem_replicate] at h
    rcases h with ⟨_, rfl⟩ | h
    · exact ⟨n, by simp⟩
    · obtain ⟨m, hm⟩ := ih h
      exact ⟨m, by simp [hm]⟩

theorem expand_getLast {α} (v : Runs α) (hp : Pos v) (a : α) (h : (expand v).getLast? = some a) :
    ∃ n, v.getLast? = some (a, n) := by
  induction v with
  | nil => simp at h
  | cons hd tl ih =>
    obtain ⟨c, n⟩ := hd
    have hn : 1 ≤ n := hp (c, n) (by simp)
    cases tl with
    | nil =>
      simp only [expand_cons, expand_nil, List.append_nil] at h
      have : (List.replicate n c).getLast? = some c := by
        cases n with
        | zero => omega
        | succ k => simp [List.getLast?_replicate]
      rw [this] at h
      cases h
      exact ⟨n, rfl⟩
    | cons hd2 tl2 =>
      have hne : expand (hd2 :: tl2) ≠ [] := by
        obtain ⟨c2, n2⟩ := hd2
        have hn2 : 1 ≤ n2 := hp (c2, n2) (by simp)
        intro hcontra
        have := congrArg List.length hcontra
        simp [expand_length] at this
        omega
      rw [expand_cons, List.getLast?_append] at h
      cases hx : (expand (hd2 :: tl2)).getLast? with
      | none => exact absurd (List.getLast?_eq_none_iff.mp hx) hne
      | some x =>
        rw [hx] at h
        have h' : x = a := by simpa using h
        subst h'
        obtain ⟨m, hm⟩ := ih (fun q hq => hp q (by simp [hq])) hx
        exact ⟨m, by rw [List.getLast?_cons_cons]; exact hm⟩

/-- stripping the trailing runs whose payload satisfies `P`, then expanding = expanding, then
    stripping the trailing items that satisfy `P` -/
theorem expand_rstrip {α} (P : α → Bool) (v : Runs α) (hp : Pos v) :
    expand (rstripList (fun c => P c.1) v) = rstripList P (expand v) := by
  obtain ⟨suf, e, hs⟩ := rstripList_split (fun (c : α × Nat) => P c.1) v
  generalize hr : rstripList (fun (c : α × Nat) => P c.1) v = r at e
  have hlast : ∀ c, r.getLast? = some c → P c.1 = false := by
    intro c hc
    exact rstripList_last (fun (c : α × Nat) => P c.1) v c (by rw [hr]; exact hc)
  have hpr : Pos r := by
    intro q hq
    exact hp q (by rw [e]; simp [hq])
  conv => rhs; rw [e, expand_append]
  rw [rstripList_append_all P (expand r) (expand suf) (by
    intro a ha
    obtain ⟨n, hn⟩ := mem_expand suf a ha
    exact hs (a, n) hn)]
  rw [rstripList_of_last P (expand r) (by
    intro a ha
    obtain ⟨n, hn⟩ := expand_getLast r hpr a ha
    exact hlast (a, n) hn)]

theorem all_expand (emp : Nat → Bool) (d : RowD) (hp : Pos d) : (expand d).all emp = d.all (fun c => emp c.1) := by
  induction d with
  | nil => rfl
  | cons hd tl ih =>
    obtain ⟨c, n⟩ := hd
    have hn : 1 ≤ n := hp (c, n) (by simp)
    simp only [expand_cons, List.all_append, List.all_cons]
    rw [ih (fun q hq => hp q (by simp [hq]))]
    congr 1
    cases n with
    | zero => omega
    | succ k => cases h : emp c <;> simp [List.all_replicate, h]

theorem expand_map_fst {α β} (f : α → β) (v : Runs α) : expand (v.map (fun r => (f r.1, r.2))) = (expand v).map f := by
  induction v with
  | nil => rfl
  | cons hd tl ih =>
    obtain ⟨c, n⟩ := hd
    simp [ih]

/-! ### columns and widths -/

theorem total_reverse {α} (v : Runs α) : total v.reverse = total v := by
  induction v with
  | nil => rfl
  | cons hd tl ih =>
    obtain ⟨c, n⟩ := hd
    simp only [List.reverse_cons, total_append, ih, total_cons, total_nil]
    omega

theorem total_trimColsRev (cols : Runs Nat) (diff : Nat) (h : diff ≤ total cols) :
    total (trimColsRev cols diff) = total cols - diff := by
  induction cols generalizing diff with
  | nil =>
    cases diff <;> simp [trimColsRev]
  | cons hd tl ih =>
    obtain ⟨c, n⟩ := hd
    cases diff with
    | zero => simp [trimColsRev]
    | succ k =>
      simp only [trimColsRev]
      split
      · simp only [total_cons]; omega
      · simp only [total_cons] at h ⊢
        rw [ih (k + 1 - n) (by omega)]
        omega

theorem total_trimCols (cols : Runs Nat) (diff : Nat) (h : diff ≤ total cols) :
    total (trimCols cols diff) = total cols - diff := by
  unfold trimCols
  rw [total_reverse, total_trimColsRev _ _ (by rw [total_reverse]; exact h), total_reverse]

theorem foldl_max_replicate (n x b : Nat) (hn : 1 ≤ n) : (List.replicate n x).foldl max b = max b x := by
  induction n generalizing b with
  | zero => omega
  | succ k ih =>
    cases k with
    | zero => simp
    | succ j =>
      rw [List.replicate_succ, List.foldl_cons, ih (max b x) (by omega)]
      omega

theorem foldl_max_expand {α} (f : α → Nat) (v : Runs α) (hp : Pos v) (b : Nat) :
    ((expand v).map f).foldl max b = (v.map (fun r => f r.1)).foldl max b := by
  induction v generalizing b with
  | nil => rfl
  | cons hd tl ih =>
    obtain ⟨c, n⟩ := hd
    have hn : 1 ≤ n := hp (c, n) (by simp)
    simp only [expand_cons, List.map_append, List.map_replicate, List.foldl_append, List.map_cons, List.foldl_cons]
    rw [foldl_max_replicate n (f c) b hn]
    exact ih (fun q hq => hp q (by simp [hq])) _

/-! ### the theorem -/

/-- **`Table.rstrip` on the run-length state denotes `rstrip` on the plain grid**: the trailing row
    ELEMENTS that are empty go, every row loses its trailing empty cell ELEMENTS, the declared columns
    shrink to the widest remaining row — and that is exactly: trailing empty rows go, every row loses
    its trailing empty cells, the width shrinks to the widest remaining row -/
theorem tblRstrip_refines (emp : Nat → Bool) (t : Tbl) (h : Inv t) :
    absT (tblRstrip emp t) = gridRstrip emp (absT t) := by
  have hposR : Pos t.rows.runs := h.rows.2
  have hcells : ∀ d ∈ expand t.rows.runs, Pos d := by
    intro d hd
    obtain ⟨n, hn⟩ := mem_expand _ d hd
    exact h.cells (d, n) hn
  -- the rows kept
  generalize hr1 : rstripList (fun (r : RowD × Nat) => r.1.all (fun c => emp c.1)) t.rows.runs = rows1
  have hsub : ∀ q ∈ rows1, q ∈ t.rows.runs := by
    obtain ⟨suf, e, _⟩ := rstripList_split (fun (r : RowD × Nat) => r.1.all (fun c => emp c.1)) t.rows.runs
    intro q hq
    rw [e, hr1]; simp [hq]
  have hpos1 : Pos rows1 := fun q hq => hposR q (hsub q hq)
  have hcells1 : ∀ d ∈ expand rows1, Pos d := by
    intro d hd
    obtain ⟨n, hn⟩ := mem_expand _ d hd
    exact h.cells (d, n) (hsub _ hn)
  have hrows1 : rstripList (fun r => r.all emp) ((expand t.rows.runs).map expand) = (expand rows1).map expand := by
    rw [rstripList_map]
    rw [rstripList_congr (fun d => (expand d).all emp) (fun d => d.all (fun c => emp c.1)) (expand t.rows.runs)
      (fun d hd => all_expand emp d (hcells d hd))]
    rw [← expand_rstrip (fun (d : RowD) => d.all (fun c => emp c.1)) t.rows.runs hposR, hr1]
  have hrows2 : ((expand rows1).map expand).map (rstripList emp) =
      (expand (rows1.map (fun r => (rowRstrip emp r.1, r.2)))).map expand := by
    rw [expand_map_fst, List.map_map, List.map_map]
    apply List.map_congr_left
    intro d hd
    simp only [Function.comp]
    exact (expand_rstrip emp d (hcells1 d hd)).symm
  have hpos2 : Pos (rows1.map (fun r => (rowRstrip emp r.1, r.2))) := by
    intro q hq
    obtain ⟨r, hr, rfl⟩ := List.mem_map.mp hq
    exact hpos1 r hr
  unfold tblRstrip gridRstrip absT
  simp only [hr1, fresh, hrows1, hrows2]
  have hmax : (((expand (rows1.map (fun r => (rowRstrip emp r.1, r.2)))).map expand).map List.length).foldl max 0 =
      ((rows1.map (fun r => (rowRstrip emp r.1, r.2))).map (fun r => total r.1)).foldl max 0 := by
    rw [List.map_map]
    have : (List.length ∘ expand : RowD → Nat) = fun d => total d := by
      funext d; simp [expand_length]
    rw [this, foldl_max_expand (fun d => total d) _ hpos2 0]
  rw [hmax]
  congr 1
  generalize ((rows1.map (fun r => (rowRstrip emp r.1, r.2))).map (fun r => total r.1)).foldl max 0 = maxW
  split
  · rename_i hgt
    rw [total_trimCols _ _ (by omega)]
    omega
  · omega

/-! ### the stripped table is a coherent state again -/

theorem pos_trimColsRev (cols : Runs Nat) (diff : Nat) (hp : Pos cols) : Pos (trimColsRev cols diff) := by
  induction cols generalizing diff with
  | nil => cases diff <;> simpa [trimColsRev] using hp
  | cons hd tl ih =>
    obtain ⟨c, n⟩ := hd
    cases diff with
    | zero => simpa [trimColsRev] using hp
    | succ k =>
      simp only [trimColsRev]
      split
      · intro q hq
        simp only [List.mem_cons] at hq
        rcases hq with rfl | hq
        · simp only; omega
        · exact hp q (by simp [hq])
      · exact ih _ (fun q hq => hp q (by simp [hq]))

theorem pos_reverse {α} (v : Runs α) (hp : Pos v) : Pos v.reverse := fun q hq => hp q (by simpa using hq)

theorem pos_rstripList {α} (p : α × Nat → Bool) (v : Runs α) (hp : Pos v) : Pos (rstripList p v) := by
  obtain ⟨suf, e, _⟩ := rstripList_split p v
  intro q hq
  exact hp q (by rw [e]; simp [hq])

theorem foldl_max_pos (l : List Nat) (x : Nat) (hx : x ∈ l) (b : Nat) : x ≤ l.foldl max b :=
  (foldl_max_ge l b).2 x hx

theorem tblRstrip_inv (emp : Nat → Bool) (t : Tbl) (h : Inv t) : Inv (tblRstrip emp t) := by
  have hposR : Pos t.rows.runs := h.rows.2
  generalize hr1 : rstripList (fun (r : RowD × Nat) => r.1.all (fun c => emp c.1)) t.rows.runs = rows1
  obtain ⟨suf, e, _⟩ := rstripList_split (fun (r : RowD × Nat) => r.1.all (fun c => emp c.1)) t.rows.runs
  rw [hr1] at e
  have hsub : ∀ q ∈ rows1, q ∈ t.rows.runs := fun q hq => by rw [e]; simp [hq]
  have hpos2 : Pos (rows1.map (fun r => (rowRstrip emp r.1, r.2))) := by
    intro q hq
    obtain ⟨r, hr, rfl⟩ := List.mem_map.mp hq
    exact hposR r (hsub r hr)
  have hcells2 : ∀ p ∈ rows1.map (fun r => (rowRstrip emp r.1, r.2)), Pos p.1 := by
    intro q hq
    obtain ⟨r, hr, rfl⟩ := List.mem_map.mp hq
    exact pos_rstripList _ _ (h.cells r (hsub r hr))
  unfold tblRstrip
  simp only [hr1]
  refine ⟨⟨rfl, ?_⟩, ⟨rfl, hpos2⟩, hcells2, ?_⟩
  · -- the columns stay positive
    simp only [fresh]
    split
    · unfold trimCols
      exact pos_reverse _ (pos_trimColsRev _ _ (pos_reverse _ h.cols.2))
    · exact h.cols.2
  · -- rows left ⇒ columns left
    intro hne
    simp only [fresh] at hne ⊢
    have hne1 : rows1 ≠ [] := by
      intro hc; apply hne; rw [hc]; rfl
    have hRne : t.rows.runs ≠ [] := by
      intro hc
      rw [hc] at e
      have : rows1 = [] := by
        have := congrArg List.length e
        simp at this
        exact List.eq_nil_of_length_eq_zero (by omega)
      exact hne1 this
    have hcne := h.declared hRne
    split
    · rename_i hgt
      -- the last kept row is not empty, so the widest stripped row has a cell, so a column is left
      intro hc
      have ht := total_trimCols t.cols.runs (total t.cols.runs - (List.map (fun r => total r.1) (List.map (fun r => (rowRstrip emp r.1, r.2)) rows1)).foldl max 0) (by omega)
      rw [hc] at ht
      simp only [total_nil] at ht
      -- so maxW = 0 … but the last kept row has a non-empty cell
      obtain ⟨r0, hr0⟩ : ∃ r0, rows1.getLast? = some r0 := by
        cases hl : rows1.getLast? with
        | none => exact absurd (List.getLast?_eq_none_iff.mp hl) hne1
        | some r0 => exact ⟨r0, rfl⟩
      have hnotall : r0.1.all (fun c => emp c.1) = false :=
        rstripList_last (fun (r : RowD × Nat) => r.1.all (fun c => emp c.1)) t.rows.runs r0 (by rw [hr1]; exact hr0)
      have hr0mem : r0 ∈ rows1 := List.mem_of_getLast? hr0
      have hstrip_ne : rowRstrip emp r0.1 ≠ [] := by
        intro hc2
        have := all_rstripList (fun (c : Nat × Nat) => emp c.1) r0.1
        unfold rowRstrip at hc2
        rw [hc2] at this
        simp only [List.all_nil] at this
        rw [hnotall] at this
        cases this
      have hw : 1 ≤ total (rowRstrip emp r0.1) :=
        total_pos_of_ne_nil _ (pos_rstripList _ _ (h.cells r0 (hsub r0 hr0mem))) hstrip_ne
      have hle := foldl_max_pos (List.map (fun r => total r.1) (List.map (fun r => (rowRstrip emp r.1, r.2)) rows1))
        (total (rowRstrip emp r0.1)) (by
          simp only [List.map_map, List.mem_map]
          exact ⟨r0, hr0mem, rfl⟩) 0
      omega
    · exact hcne

/-! ### transpose: the run-length table built by `Table.transpose()` denotes the transposed grid -/

theorem expand_unit_rows (rows : List (List Nat)) :
    (expand (rows.map (fun r => (r.map (fun c => (c, 1)), 1)))).map expand = rows := by
  induction rows with
  | nil => rfl
  | cons r rest ih =>
    simp only [List.map_cons, expand_cons, List.replicate_one, List.singleton_append]
    rw [ih, Table.expand_units]

theorem tblTranspose_refines (t : Tbl) : absT (tblTranspose t) = transposeG (absT t) := by
  unfold tblTranspose
  generalize transposeG (absT t) = g
  obtain ⟨nc, rows⟩ := g
  unfold absT
  simp only [fresh]
  rw [expand_unit_rows]
  congr 1
  by_cases h0 : nc = 0
  · simp [h0]
  · simp [h0]

theorem tblTranspose_inv (t : Tbl) : Inv (tblTranspose t) := by
  unfold tblTranspose
  simp only
  refine ⟨⟨rfl, ?_⟩, ⟨rfl, ?_⟩, ?_, ?_⟩
  · simp only [fresh]
    split
    · intro q hq; simp at hq
    · rename_i hne
      intro q hq
      simp only [List.mem_singleton] at hq
      subst hq
      simp only
      omega
  · intro q hq
    simp only [fresh, List.mem_map] at hq
    obtain ⟨r, _, rfl⟩ := hq
    simp
  · intro q hq
    simp only [fresh, List.mem_map] at hq
    obtain ⟨r, _, rfl⟩ := hq
    intro c hc
    simp only [List.mem_map] at hc
    obtain ⟨v, _, rfl⟩ := hc
    simp
  · intro hne
    simp only [fresh] at hne ⊢
    have hrows : (transposeG (absT t)).rows ≠ [] := by
      intro hc; apply hne; rw [hc]; rfl
    have hnc : (transposeG (absT t)).ncols ≠ 0 := by
      unfold transposeG at hrows ⊢
      simp only at hrows ⊢
      rw [if_neg hrows]
      omega
    rw [if_neg hnc]
    simp

/-! ### no row wider than the declared columns, after the two transformations -/

theorem fit_gridRstrip (emp : Nat → Bool) (g : Grid) (hfit : Table.GridFit g) : Table.GridFit (gridRstrip emp g) := by
  intro row hrow
  unfold gridRstrip at hrow ⊢
  simp only at hrow ⊢
  obtain ⟨r, hr, rfl⟩ := List.mem_map.mp hrow
  have hr_in : r ∈ g.rows := by
    obtain ⟨suf, e, _⟩ := rstripList_split (fun (r : List Nat) => r.all emp) g.rows
    rw [e]; simp [hr]
  have h1 : (rstripList emp r).length ≤ r.length := by
    obtain ⟨suf, e, _⟩ := rstripList_split emp r
    have := congrArg List.length e
    simp only [List.length_append] at this
    omega
  have h2 := hfit r hr_in
  have h3 : (rstripList emp r).length ≤
      ((List.map (rstripList emp) (rstripList (fun r => r.all emp) g.rows)).map List.length).foldl max 0 :=
    len_le_maxLen _ _ (List.mem_map.mpr ⟨r, hr, rfl⟩)
  omega

theorem fit_transposeG (g : Grid) : Table.GridFit (transposeG g) := by
  intro row hrow
  unfold transposeG at hrow ⊢
  simp only at hrow ⊢
  have hne : transposePad g.rows ≠ [] := List.ne_nil_of_mem hrow
  rw [if_neg hne]
  unfold transposePad at hrow
  simp only [List.mem_map] at hrow
  obtain ⟨k, _, rfl⟩ := hrow
  simp only [List.length_map]
  omega

end Odf.Transform

/-! ### `optimize_width` on the run-length state: coherent, and no row wider than the declared columns -/
namespace Odf.Transform
open Odf.Rle Odf.Table Odf.Grid

theorem trimRowsOpt_sub (rows : Runs RowD) : ∀ q ∈ trimRowsOpt rows, q.2 = 1 ∨ q ∈ rows := by
  unfold trimRowsOpt
  simp only
  obtain ⟨suf, e, _⟩ := rstripList_split (fun (r : RowD × Nat) => r.1.all (fun c => empOf false c.1)) rows
  generalize rstripList (fun (r : RowD × Nat) => r.1.all (fun c => empOf false c.1)) rows = kept at e
  cases hd : rows.drop kept.length with
  | nil => intro q hq; exact Or.inr hq
  | cons p rest =>
    obtain ⟨d, n⟩ := p
    intro q hq
    simp only [List.mem_append, List.mem_singleton] at hq
    rcases hq with hq | rfl
    · exact Or.inr (by rw [e]; simp [hq])
    · exact Or.inl rfl

theorem trimRowsOpt_cells (rows : Runs RowD) : ∀ q ∈ trimRowsOpt rows, ∃ n, (q.1, n) ∈ rows := by
  unfold trimRowsOpt
  simp only
  obtain ⟨suf, e, _⟩ := rstripList_split (fun (r : RowD × Nat) => r.1.all (fun c => empOf false c.1)) rows
  generalize rstripList (fun (r : RowD × Nat) => r.1.all (fun c => empOf false c.1)) rows = kept at e
  cases hd : rows.drop kept.length with
  | nil => intro q hq; exact ⟨q.2, hq⟩
  | cons p rest =>
    obtain ⟨d, n⟩ := p
    intro q hq
    simp only [List.mem_append, List.mem_singleton] at hq
    rcases hq with hq | rfl
    · exact ⟨q.2, by rw [e]; simp [hq]⟩
    · exact ⟨n, List.mem_of_mem_drop (by rw [hd]; simp)⟩

theorem trimRowsOpt_ne_nil (rows : Runs RowD) (h : trimRowsOpt rows ≠ []) : rows ≠ [] := by
  intro hc
  apply h
  subst hc
  rfl

theorem minimizedWidth_pos (d : RowD) (hp : Pos d) : 1 ≤ minimizedWidth d := by
  unfold minimizedWidth
  cases hl : d.getLast? with
  | none => simp
  | some p =>
    obtain ⟨c, n⟩ := p
    simp only
    have hmem : (c, n) ∈ d := List.mem_of_getLast? hl
    have hn : 1 ≤ n := hp (c, n) hmem
    have hle : n ≤ total d := by
      obtain ⟨a, b, hab⟩ := List.append_of_mem hmem
      rw [hab, total_append, total_cons]; omega
    split <;> omega

theorem total_dropLast_getLast (d : RowD) (c n : Nat) (hl : d.getLast? = some (c, n)) : total d = total d.dropLast + n := by
  have : d = d.dropLast ++ [(c, n)] := by
    have hne : d ≠ [] := by intro hc; subst hc; simp at hl
    have := List.dropLast_concat_getLast hne
    rw [List.getLast?_eq_some_getLast hne] at hl
    simp only [Option.some.injEq] at hl
    rw [hl] at this
    exact this.symm
  conv => lhs; rw [this]
  rw [total_append]; simp

/-- a forced row is exactly `w` wide when it was shortened, unchanged otherwise; never wider than `max w (its minimized width)` -/
theorem total_forceWidth (w : Nat) (d : RowD) (hw : minimizedWidth d ≤ w) : total (forceWidth w d) ≤ w ∧ total (forceWidth w d) ≤ total d := by
  unfold forceWidth
  unfold minimizedWidth at hw
  cases hl : d.getLast? with
  | none =>
    have : d = [] := List.getLast?_eq_none_iff.mp hl
    subst this
    simp
  | some p =>
    obtain ⟨c, n⟩ := p
    rw [hl] at hw
    simp only at hw ⊢
    have ht := total_dropLast_getLast d c n hl
    by_cases hcond : empOf true c = true ∧ n ≥ 2 ∧ total d > w
    · rw [if_pos hcond]
      obtain ⟨he, hn2, hgt⟩ := hcond
      rw [if_pos he] at hw
      rw [total_append]
      simp only [total_cons, total_nil]
      omega
    · rw [if_neg hcond]
      by_cases he : empOf true c = true
      · rw [if_pos he] at hw
        have : ¬ (n ≥ 2 ∧ total d > w) := fun h => hcond ⟨he, h⟩
        omega
      · rw [if_neg he] at hw
        omega

theorem pos_forceWidth (w : Nat) (d : RowD) (hp : Pos d) (hw : minimizedWidth d ≤ w) : Pos (forceWidth w d) := by
  unfold forceWidth
  unfold minimizedWidth at hw
  cases hl : d.getLast? with
  | none => exact hp
  | some p =>
    obtain ⟨c, n⟩ := p
    rw [hl] at hw
    simp only at hw ⊢
    split
    · rename_i hcond
      obtain ⟨he, hn2, hgt⟩ := hcond
      rw [if_pos he] at hw
      have ht := total_dropLast_getLast d c n hl
      intro q hq
      simp only [List.mem_append, List.mem_singleton] at hq
      rcases hq with hq | rfl
      · exact hp q (List.dropLast_subset d hq)
      · simp only; omega
    · exact hp

/-- **`optimize_width` leaves a coherent table in which no row is wider than the declared columns** (the width it
    trims the columns to is at least the minimized width of every row, and every row it forces ends up at most that wide) -/
theorem tblOptimize_inv_fit (t : Tbl) (h : Inv t) (hfit : Table.GridFit (absT t)) :
    Inv (tblOptimize t) ∧ Table.GridFit (absT (tblOptimize t)) := by
  have hposR : Pos t.rows.runs := h.rows.2
  generalize hr1 : trimRowsOpt t.rows.runs = rows1
  have hsubc : ∀ q ∈ rows1, ∃ n, (q.1, n) ∈ t.rows.runs := by rw [← hr1]; exact trimRowsOpt_cells _
  have hpos1 : Pos rows1 := by
    intro q hq
    rcases trimRowsOpt_sub t.rows.runs q (by rw [hr1]; exact hq) with h1 | hm
    · omega
    · exact hposR q hm
  have hcell1 : ∀ q ∈ rows1, Pos q.1 := by
    intro q hq
    obtain ⟨n, hn⟩ := hsubc q hq
    exact h.cells (q.1, n) hn
  generalize hwd : (rows1.map (fun r => minimizedWidth r.1)).foldl max 0 = w
  have hwge : ∀ q ∈ rows1, minimizedWidth q.1 ≤ w := by
    intro q hq
    rw [← hwd]
    exact foldl_max_pos (rows1.map (fun r => minimizedWidth r.1)) (minimizedWidth q.1) (List.mem_map.mpr ⟨q, hq, rfl⟩) 0
  have hcolfit : ∀ q ∈ rows1, total q.1 ≤ total t.cols.runs := by
    intro q hq
    obtain ⟨n, hn⟩ := hsubc q hq
    have hn1 : 1 ≤ n := hposR (q.1, n) hn
    have hmem : expand q.1 ∈ (absT t).rows := by
      unfold absT
      simp only [List.mem_map]
      refine ⟨q.1, ?_, rfl⟩
      obtain ⟨a, b, hab⟩ := List.append_of_mem hn
      rw [hab, expand_append, expand_cons]
      simp only [List.mem_append, List.mem_replicate]
      exact Or.inr (Or.inl ⟨by omega, trivial⟩)
    have := hfit (expand q.1) hmem
    simpa [absT, expand_length] using this
  have hI : Inv (tblOptimize t) := by
    unfold tblOptimize
    simp only [hr1, hwd]
    refine ⟨⟨rfl, ?_⟩, ⟨rfl, ?_⟩, ?_, ?_⟩
    · simp only [fresh]
      split
      · unfold trimCols
        exact pos_reverse _ (pos_trimColsRev _ _ (pos_reverse _ h.cols.2))
      · exact h.cols.2
    · intro q hq
      simp only [fresh] at hq
      obtain ⟨r, hr, rfl⟩ := List.mem_map.mp hq
      exact hpos1 r hr
    · intro q hq
      simp only [fresh] at hq
      obtain ⟨r, hr, rfl⟩ := List.mem_map.mp hq
      exact pos_forceWidth w r.1 (hcell1 r hr) (hwge r hr)
    · intro hne
      simp only [fresh] at hne ⊢
      have hne1 : rows1 ≠ [] := by intro hc; apply hne; rw [hc]; rfl
      have hRne : t.rows.runs ≠ [] := trimRowsOpt_ne_nil _ (by rw [hr1]; exact hne1)
      have hcne := h.declared hRne
      split
      · rename_i hgt
        intro hc
        have ht := total_trimCols t.cols.runs (total t.cols.runs - w) (by omega)
        rw [hc] at ht
        simp only [total_nil] at ht
        obtain ⟨r0, hr0⟩ := List.exists_mem_of_ne_nil _ hne1
        have := minimizedWidth_pos r0.1 (hcell1 r0 hr0)
        have := hwge r0 hr0
        omega
      · exact hcne
  refine ⟨hI, ?_⟩
  -- no row wider than the columns
  intro row hrow
  unfold tblOptimize absT at hrow ⊢
  simp only [hr1, hwd, fresh] at hrow ⊢
  rw [expand_map_fst] at hrow
  simp only [List.mem_map] at hrow
  obtain ⟨d', ⟨d, hd, rfl⟩, rfl⟩ := hrow
  obtain ⟨n, hn⟩ := mem_expand rows1 d hd
  have hq : (d, n) ∈ rows1 := hn
  obtain ⟨h1, h2⟩ := total_forceWidth w d (hwge (d, n) hq)
  have h3 := hcolfit (d, n) hq
  rw [expand_length]
  split
  · rename_i hgt
    rw [total_trimCols _ _ (by omega)]
    omega
  · simp only at h3
    omega

end Odf.Transform

/-! ### `optimize_width` keeps every non-empty value at its coordinates -/
namespace Odf.Transform
open Odf.Rle Odf.Table Odf.Grid

theorem getElem?_replicate_some {α} (n : Nat) (c v : α) (i : Nat) (h : (List.replicate n c)[i]? = some v) : v = c := by
  have := List.mem_of_getElem? h
  exact (List.mem_replicate.mp this).2

theorem forceWidth_keeps (w : Nat) (d : RowD) (x v : Nat) (h : (expand d)[x]? = some v) (hv : empOf true v = false) :
    (expand (forceWidth w d))[x]? = some v := by
  unfold forceWidth
  cases hl : d.getLast? with
  | none => exact h
  | some p =>
    obtain ⟨c, n⟩ := p
    simp only
    split
    · rename_i hcond
      obtain ⟨he, _, _⟩ := hcond
      have hd : d = d.dropLast ++ [(c, n)] := by
        have hne : d ≠ [] := by intro hc; subst hc; simp at hl
        have := List.dropLast_concat_getLast hne
        rw [List.getLast?_eq_some_getLast hne] at hl
        simp only [Option.some.injEq] at hl
        rw [hl] at this
        exact this.symm
      rw [hd, expand_append] at h
      rw [expand_append]
      by_cases hx : x < (expand d.dropLast).length
      · rw [List.getElem?_append_left hx] at h ⊢
        exact h
      · rw [List.getElem?_append_right (by omega)] at h
        simp only [expand_cons, expand_nil, List.append_nil] at h
        have := getElem?_replicate_some _ _ _ _ h
        subst this
        rw [he] at hv
        cases hv
    · exact h

theorem getElem?_expand_append_left {α} (a b : Runs α) (i : Nat) (h : i < total a) : (expand (a ++ b))[i]? = (expand a)[i]? := by
  rw [expand_append, List.getElem?_append_left (by rw [expand_length]; exact h)]

theorem emp0_emp1 (c : Nat) (h : empOf false c = true) : empOf true c = true := by
  unfold empOf at h ⊢
  simp only [Bool.false_eq_true, if_false, if_true] at h ⊢
  have : c = 0 := by simpa using h
  subst this
  decide

/-- rows: a row that holds a non-empty value is not one of the trailing empty row elements, so it keeps its position -/
theorem trimRowsOpt_keeps (rows : Runs RowD) (hp : Pos rows) (y : Nat) (d : RowD) (hy : (expand rows)[y]? = some d)
    (x v : Nat) (hx : (expand d)[x]? = some v) (hv : empOf true v = false) :
    (expand (trimRowsOpt rows))[y]? = some d := by
  unfold trimRowsOpt
  simp only
  obtain ⟨suf, e, hs⟩ := rstripList_split (fun (r : RowD × Nat) => r.1.all (fun c => empOf false c.1)) rows
  generalize rstripList (fun (r : RowD × Nat) => r.1.all (fun c => empOf false c.1)) rows = kept at e
  have hyk : y < total kept := by
    rcases Nat.lt_or_ge y (total kept) with hlt | hge
    · exact hlt
    · exfalso
      rw [e, expand_append, List.getElem?_append_right (by rw [expand_length]; exact hge)] at hy
      have hmem := List.mem_of_getElem? hy
      obtain ⟨n, hn⟩ := mem_expand suf d hmem
      have hall := hs (d, n) hn
      simp only [List.all_eq_true] at hall
      obtain ⟨m, hm⟩ := mem_expand d v (List.mem_of_getElem? hx)
      have := emp0_emp1 v (hall (v, m) hm)
      rw [this] at hv
      cases hv
  have hyk' : (expand kept)[y]? = some d := by
    rw [e, getElem?_expand_append_left kept suf y hyk] at hy
    exact hy
  cases hd : rows.drop kept.length with
  | nil => rw [e, getElem?_expand_append_left kept suf y hyk]; exact hyk'
  | cons p rest =>
    obtain ⟨d0, n0⟩ := p
    simp only
    rw [getElem?_expand_append_left kept _ y hyk]
    exact hyk'

/-- **optimize_width keeps every non-empty value (aggressive sense: a value, not a style) at its coordinates** -/
theorem tblOptimize_keeps (t : Tbl) (h : Inv t) (x y v : Nat) (row : List Nat)
    (hrow : (absT t).rows[y]? = some row) (hv : row[x]? = some v) (hne : empOf true v = false) :
    ∃ row', (absT (tblOptimize t)).rows[y]? = some row' ∧ row'[x]? = some v := by
  unfold absT at hrow
  simp only [List.getElem?_map] at hrow
  cases hd : (expand t.rows.runs)[y]? with
  | none => rw [hd] at hrow; cases hrow
  | some d =>
    rw [hd] at hrow
    simp only [Option.map_some, Option.some.injEq] at hrow
    subst hrow
    have hk := trimRowsOpt_keeps t.rows.runs h.rows.2 y d hd x v hv hne
    unfold tblOptimize absT
    simp only [fresh]
    rw [expand_map_fst]
    simp only [List.getElem?_map, hk, Option.map_some]
    exact ⟨_, rfl, forceWidth_keeps _ d x v hv hne⟩

end Odf.Transform

/-! ### `optimize_width` is idempotent (on the run-length state itself) -/
namespace Odf.Transform
open Odf.Rle Odf.Table Odf.Grid

theorem getLast?_concat' {α} (l : List α) (a : α) : (l ++ [a]).getLast? = some a := by simp

theorem dropLast_concat' {α} (l : List α) (a : α) : (l ++ [a]).dropLast = l := by simp

/-- the forced row has the same minimized width, the same cell payloads in the same order, and forcing it again changes nothing -/
theorem forceWidth_facts (w : Nat) (d : RowD) (hp : Pos d) (hw : minimizedWidth d ≤ w) :
    minimizedWidth (forceWidth w d) = minimizedWidth d ∧
    (forceWidth w d).map (·.1) = d.map (·.1) ∧
    forceWidth w (forceWidth w d) = forceWidth w d := by
  unfold forceWidth
  cases hl : d.getLast? with
  | none => simp [hl]
  | some p =>
    obtain ⟨c, n⟩ := p
    simp only
    have hne : d ≠ [] := by intro hc; subst hc; simp at hl
    have hd : d = d.dropLast ++ [(c, n)] := by
      have := List.dropLast_concat_getLast hne
      rw [List.getLast?_eq_some_getLast hne] at hl
      simp only [Option.some.injEq] at hl
      rw [hl] at this
      exact this.symm
    have ht := total_dropLast_getLast d c n hl
    by_cases hcond : empOf true c = true ∧ n ≥ 2 ∧ total d > w
    · rw [if_pos hcond]
      obtain ⟨he, hn2, hgt⟩ := hcond
      have hmw : minimizedWidth d = total d - n + 1 := by
        unfold minimizedWidth; rw [hl]; simp only; rw [if_pos he]
      rw [hmw] at hw
      refine ⟨?_, ?_, ?_⟩
      · unfold minimizedWidth
        rw [getLast?_concat', hl]
        simp only
        rw [if_pos he, if_pos he, total_append]
        simp only [total_cons, total_nil]
        omega
      · conv => rhs; rw [hd]
        simp
      · rw [getLast?_concat']
        simp only
        have : ¬ (empOf true c = true ∧ n - (total d - w) ≥ 2 ∧ total (d.dropLast ++ [(c, n - (total d - w))]) > w) := by
          rintro ⟨_, _, h3⟩
          rw [total_append] at h3
          simp only [total_cons, total_nil] at h3
          omega
        rw [if_neg this]
    · rw [if_neg hcond]
      refine ⟨rfl, rfl, ?_⟩
      rw [hl]
      simp only
      rw [if_neg hcond]

theorem all_of_map_fst (P : Nat → Bool) (a b : RowD) (h : a.map (·.1) = b.map (·.1)) :
    a.all (fun c => P c.1) = b.all (fun c => P c.1) := by
  have ha : a.all (fun c => P c.1) = (a.map (·.1)).all P := by rw [List.all_map]; rfl
  have hb : b.all (fun c => P c.1) = (b.map (·.1)).all P := by rw [List.all_map]; rfl
  rw [ha, hb, h]

theorem trimRowsOpt_idem (rows : Runs RowD) : trimRowsOpt (trimRowsOpt rows) = trimRowsOpt rows := by
  unfold trimRowsOpt
  simp only
  generalize hk : rstripList (fun (r : RowD × Nat) => r.1.all (fun c => empOf false c.1)) rows = kept
  cases hd : rows.drop kept.length with
  | nil =>
    simp only
    rw [hk, hd]
  | cons p rest =>
    obtain ⟨d, n⟩ := p
    simp only
    -- d is one of the stripped (empty) rows
    obtain ⟨suf, e, hs⟩ := rstripList_split (fun (r : RowD × Nat) => r.1.all (fun c => empOf false c.1)) rows
    rw [hk] at e
    have hsuf : suf = (d, n) :: rest := by
      have := congrArg (List.drop kept.length) e
      rw [drop_len_append] at this
      rw [← this]; exact hd
    have hdemp : d.all (fun c => empOf false c.1) = true := hs (d, n) (by rw [hsuf]; simp)
    have hlast : ∀ a, kept.getLast? = some a → (fun (r : RowD × Nat) => r.1.all (fun c => empOf false c.1)) a = false := by
      intro a ha
      exact rstripList_last _ rows a (by rw [hk]; exact ha)
    have h1 : rstripList (fun (r : RowD × Nat) => r.1.all (fun c => empOf false c.1)) (kept ++ [(d, 1)]) = kept := by
      rw [rstripList_append_all _ kept [(d, 1)] (by intro a ha; simp only [List.mem_singleton] at ha; subst ha; exact hdemp)]
      exact rstripList_of_last _ kept hlast
    rw [h1, drop_len_append]

end Odf.Transform

namespace Odf.Transform
open Odf.Rle Odf.Table Odf.Grid

/-- trimming the trailing empty rows commutes with a map that keeps, row by row, the emptiness and the repeat count -/
theorem trimRowsOpt_map (l : Runs RowD) (f : RowD → RowD)
    (hP : ∀ r ∈ l, (f r.1).all (fun c => empOf false c.1) = r.1.all (fun c => empOf false c.1)) :
    trimRowsOpt (l.map (fun r => (f r.1, r.2))) = (trimRowsOpt l).map (fun r => (f r.1, r.2)) := by
  unfold trimRowsOpt
  simp only
  have hk : rstripList (fun (r : RowD × Nat) => r.1.all (fun c => empOf false c.1)) (l.map (fun r => (f r.1, r.2))) =
      (rstripList (fun (r : RowD × Nat) => r.1.all (fun c => empOf false c.1)) l).map (fun r => (f r.1, r.2)) := by
    rw [rstripList_map]
    congr 1
    exact rstripList_congr _ _ l (fun r hr => hP r hr)
  rw [hk]
  generalize rstripList (fun (r : RowD × Nat) => r.1.all (fun c => empOf false c.1)) l = kept
  rw [List.length_map, ← List.map_drop]
  cases hd : l.drop kept.length with
  | nil => simp
  | cons p rest =>
    obtain ⟨d, n⟩ := p
    simp

theorem tblOptimize_idem (t : Tbl) (h : Inv t) : tblOptimize (tblOptimize t) = tblOptimize t := by
  have hposR : Pos t.rows.runs := h.rows.2
  generalize hr1 : trimRowsOpt t.rows.runs = rows1
  have hcell1 : ∀ q ∈ rows1, Pos q.1 := by
    intro q hq
    obtain ⟨n, hn⟩ := trimRowsOpt_cells t.rows.runs q (by rw [hr1]; exact hq)
    exact h.cells (q.1, n) hn
  generalize hwd : (rows1.map (fun r => minimizedWidth r.1)).foldl max 0 = w
  have hwge : ∀ q ∈ rows1, minimizedWidth q.1 ≤ w := by
    intro q hq
    rw [← hwd]
    exact foldl_max_pos (rows1.map (fun r => minimizedWidth r.1)) (minimizedWidth q.1) (List.mem_map.mpr ⟨q, hq, rfl⟩) 0
  have hfacts : ∀ q ∈ rows1, _ := fun q hq => forceWidth_facts w q.1 (hcell1 q hq) (hwge q hq)
  -- the first pass, named
  have e1 : tblOptimize t = { cols := fresh (if total t.cols.runs > w then trimCols t.cols.runs (total t.cols.runs - w) else t.cols.runs),
                              rows := fresh (rows1.map (fun r => (forceWidth w r.1, r.2))) } := by
    unfold tblOptimize
    simp only [hr1, hwd]
  rw [e1]
  -- the rows of the second pass
  have hA : trimRowsOpt (rows1.map (fun r => (forceWidth w r.1, r.2))) = rows1.map (fun r => (forceWidth w r.1, r.2)) := by
    rw [trimRowsOpt_map rows1 (forceWidth w) (fun r hr => all_of_map_fst _ _ _ (hfacts r hr).2.1)]
    rw [← hr1, trimRowsOpt_idem]
  have hB : ((rows1.map (fun r => (forceWidth w r.1, r.2))).map (fun r => minimizedWidth r.1)).foldl max 0 = w := by
    rw [List.map_map]
    have hm : rows1.map ((fun (r : RowD × Nat) => minimizedWidth r.1) ∘ (fun r => (forceWidth w r.1, r.2))) = rows1.map (fun r => minimizedWidth r.1) := by
      apply List.map_congr_left
      intro r hr
      exact (hfacts r hr).1
    rw [hm, hwd]
  have hC : (rows1.map (fun r => (forceWidth w r.1, r.2))).map (fun r => (forceWidth w r.1, r.2)) = rows1.map (fun r => (forceWidth w r.1, r.2)) := by
    rw [List.map_map]
    apply List.map_congr_left
    intro r hr
    simp only [Function.comp]
    rw [(hfacts r hr).2.2]
  have hD : ¬ total (if total t.cols.runs > w then trimCols t.cols.runs (total t.cols.runs - w) else t.cols.runs) > w := by
    split
    · rename_i hgt
      rw [total_trimCols _ _ (by omega)]
      omega
    · omega
  unfold tblOptimize
  simp only [fresh, hA, hB, hC, if_neg hD]

end Odf.Transform

/-! ### `optimize_width` removes only trailing empty rows and trailing empty cells -/
namespace Odf.Transform
open Odf.Rle Odf.Table Odf.Grid

theorem forceWidth_prefix (w : Nat) (d : RowD) (hp : Pos d) (hw : minimizedWidth d ≤ w) :
    ∃ suf, expand d = expand (forceWidth w d) ++ suf ∧ ∀ c ∈ suf, empOf true c = true := by
  unfold forceWidth
  cases hl : d.getLast? with
  | none => exact ⟨[], by simp, by simp⟩
  | some p =>
    obtain ⟨c, n⟩ := p
    simp only
    split
    · rename_i hcond
      obtain ⟨he, hn2, hgt⟩ := hcond
      have hne : d ≠ [] := by intro hc; subst hc; simp at hl
      have hd : d = d.dropLast ++ [(c, n)] := by
        have := List.dropLast_concat_getLast hne
        rw [List.getLast?_eq_some_getLast hne] at hl
        simp only [Option.some.injEq] at hl
        rw [hl] at this
        exact this.symm
      have ht := total_dropLast_getLast d c n hl
      have hmw : minimizedWidth d = total d - n + 1 := by
        unfold minimizedWidth; rw [hl]; simp only; rw [if_pos he]
      rw [hmw] at hw
      refine ⟨List.replicate (total d - w) c, ?_, ?_⟩
      · conv => lhs; rw [hd]
        rw [expand_append, expand_append]
        simp only [expand_cons, expand_nil, List.append_nil, List.append_assoc]
        congr 1
        rw [List.replicate_append_replicate]
        congr 1
        omega
      · intro x hx
        rw [(List.mem_replicate.mp hx).2]
        exact he
    · exact ⟨[], by simp, by simp⟩

/-- the rows kept by `_optimize_width_trim_rows` are a prefix of the rows, what is cut off is empty rows -/
theorem trimRowsOpt_prefix (rows : Runs RowD) (hp : Pos rows) :
    ∃ cut, expand rows = expand (trimRowsOpt rows) ++ cut ∧ ∀ d ∈ cut, d.all (fun c => empOf false c.1) = true := by
  unfold trimRowsOpt
  simp only
  obtain ⟨suf, e, hs⟩ := rstripList_split (fun (r : RowD × Nat) => r.1.all (fun c => empOf false c.1)) rows
  generalize rstripList (fun (r : RowD × Nat) => r.1.all (fun c => empOf false c.1)) rows = kept at e
  cases hd : rows.drop kept.length with
  | nil => exact ⟨[], by simp, by simp⟩
  | cons p rest =>
    obtain ⟨d, n⟩ := p
    simp only
    have hsuf : suf = (d, n) :: rest := by
      have := congrArg (List.drop kept.length) e
      rw [drop_len_append] at this
      rw [← this]; exact hd
    have hn : 1 ≤ n := hp (d, n) (by rw [e, hsuf]; simp)
    refine ⟨List.replicate (n - 1) d ++ expand rest, ?_, ?_⟩
    · conv => lhs; rw [e, hsuf]
      rw [expand_append, expand_append]
      simp only [expand_cons, expand_nil, List.append_nil, List.append_assoc]
      congr 1
      rw [← List.append_assoc, List.replicate_append_replicate]
      congr 2
      omega
    · intro x hx
      simp only [List.mem_append, List.mem_replicate] at hx
      rcases hx with ⟨_, rfl⟩ | hx
      · exact hs (x, n) (by rw [hsuf]; simp)
      · obtain ⟨m, hm⟩ := mem_expand rest x hx
        exact hs (x, m) (by rw [hsuf]; simp [hm])

/-- **optimize_width removes only trailing empty rows and trailing empty cells**: the rows of the result are, one by one,
    the first rows of the table, each cut of a block of trailing empty cells; the rows that go are empty -/
theorem tblOptimize_only_trailing (t : Tbl) (h : Inv t) :
    ∃ cut : List RowD,
      (expand t.rows.runs).length = (absT (tblOptimize t)).rows.length + cut.length ∧
      (∀ d ∈ cut, d.all (fun c => empOf false c.1) = true) ∧
      ∀ (y : Nat) (row' : List Nat), (absT (tblOptimize t)).rows[y]? = some row' →
        ∃ (row suf : List Nat), (absT t).rows[y]? = some row ∧ row = row' ++ suf ∧ ∀ c ∈ suf, empOf true c = true := by
  have hposR : Pos t.rows.runs := h.rows.2
  obtain ⟨cut, hcut, hcutE⟩ := trimRowsOpt_prefix t.rows.runs hposR
  generalize hr1 : trimRowsOpt t.rows.runs = rows1 at hcut
  have hcell1 : ∀ q ∈ rows1, Pos q.1 := by
    intro q hq
    obtain ⟨n, hn⟩ := trimRowsOpt_cells t.rows.runs q (by rw [hr1]; exact hq)
    exact h.cells (q.1, n) hn
  generalize hwd : (rows1.map (fun r => minimizedWidth r.1)).foldl max 0 = w
  have hwge : ∀ q ∈ rows1, minimizedWidth q.1 ≤ w := by
    intro q hq
    rw [← hwd]
    exact foldl_max_pos (rows1.map (fun r => minimizedWidth r.1)) (minimizedWidth q.1) (List.mem_map.mpr ⟨q, hq, rfl⟩) 0
  have hrows : (absT (tblOptimize t)).rows = (expand rows1).map (fun d => expand (forceWidth w d)) := by
    unfold tblOptimize absT
    simp only [hr1, hwd, fresh]
    rw [expand_map_fst, List.map_map]
    rfl
  refine ⟨cut, ?_, hcutE, ?_⟩
  · rw [hrows, hcut]; simp
  · intro y row' hy
    rw [hrows, List.getElem?_map] at hy
    cases hd : (expand rows1)[y]? with
    | none => rw [hd] at hy; cases hy
    | some d =>
      rw [hd] at hy
      simp only [Option.map_some, Option.some.injEq] at hy
      subst hy
      obtain ⟨n, hn⟩ := mem_expand rows1 d (List.mem_of_getElem? hd)
      obtain ⟨suf, e, hs⟩ := forceWidth_prefix w d (hcell1 (d, n) hn) (hwge (d, n) hn)
      refine ⟨expand d, suf, ?_, e, hs⟩
      unfold absT
      simp only [List.getElem?_map]
      rw [hcut]
      have hlt : y < (expand rows1).length := by
        rcases Nat.lt_or_ge y (expand rows1).length with hlt | hge
        · exact hlt
        · rw [List.getElem?_eq_none hge] at hd; cases hd
      rw [List.getElem?_append_left hlt, hd]
      rfl

end Odf.Transform
