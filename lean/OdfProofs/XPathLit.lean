import OdfModel.XPathLit

namespace Odf.XPathLit

def joinQ : List (List Char) → List Char
  | [] => []
  | [p] => p
  | p :: q :: ps => p ++ ['"'] ++ joinQ (q :: ps)

theorem splitQ_ne_nil (v : List Char) : splitQ v ≠ [] := by
  induction v with
  | nil => simp [splitQ]
  | cons c cs ih =>
    simp only [splitQ]
    split
    · split <;> simp
    · simp

theorem joinQ_splitQ (v : List Char) : joinQ (splitQ v) = v := by
  induction v with
  | nil => rfl
  | cons c cs ih =>
    simp only [splitQ]
    cases hs : splitQ cs with
    | nil => exact absurd hs (splitQ_ne_nil cs)
    | cons p ps =>
      rw [hs] at ih
      simp only
      split
      · rename_i hc
        subst hc
        simp only [joinQ, List.nil_append, List.singleton_append]
        rw [ih]
      · cases ps with
        | nil => simp only [joinQ] at ih ⊢; rw [ih]
        | cons q qs => simp only [joinQ, List.cons_append] at ih ⊢; rw [ih]

theorem splitQ_noquote (v : List Char) : ∀ p ∈ splitQ v, '"' ∉ p := by
  induction v with
  | nil => simp [splitQ]
  | cons c cs ih =>
    simp only [splitQ]
    cases hs : splitQ cs with
    | nil => exact absurd hs (splitQ_ne_nil cs)
    | cons p ps =>
      rw [hs] at ih
      simp only
      split
      · intro q hq
        simp only [List.mem_cons] at hq
        rcases hq with rfl | rfl | hq
        · simp
        · exact ih _ (by simp)
        · exact ih q (by simp [hq])
      · rename_i hc
        intro q hq
        simp only [List.mem_cons] at hq
        rcases hq with rfl | hq
        · intro hm
          simp only [List.mem_cons] at hm
          rcases hm with hm | hm
          · exact hc hm.symm
          · exact ih p (by simp) hm
        · exact ih q (by simp [hq])

theorem takeWhile_stop {α} (p : α → Bool) (l₁ : List α) (a : α) (l₂ : List α)
    (h₁ : ∀ x ∈ l₁, p x = true) (h₂ : p a = false) : (l₁ ++ a :: l₂).takeWhile p = l₁ := by
  induction l₁ with
  | nil => simp [List.takeWhile, h₂]
  | cons x t ih =>
    simp only [List.cons_append, List.takeWhile, h₁ x (by simp)]
    rw [ih (fun y hy => h₁ y (by simp [hy]))]

theorem drop_len_app {α} (a l : List α) : (a ++ l).drop a.length = l := by
  induction a with
  | nil => simp
  | cons x t ih => simp [ih]

/-- a quoted literal followed by anything parses to its body -/
theorem parseLiteral_quoted (q : Char) (hq : q = '"' ∨ q = '\'') (body after : List Char) (hb : q ∉ body) :
    parseLiteral ([q] ++ body ++ [q] ++ after) = some (body, after) := by
  simp only [parseLiteral, List.singleton_append, List.cons_append, List.append_assoc, List.nil_append]
  rw [if_pos hq]
  have htw : (body ++ q :: after).takeWhile (· != q) = body := by
    apply takeWhile_stop
    · intro x hx
      have : x ≠ q := fun h => hb (h ▸ hx)
      simpa using this
    · simp
  simp only [htw, drop_len_app]

theorem parseArgs_join (parts : List (List Char)) (hne : parts ≠ []) (hq : ∀ p ∈ parts, '"' ∉ p)
    (fuel : Nat) (hf : 2 * parts.length ≤ fuel) :
    parseArgs fuel (joinParts parts ++ [')']) = some (joinQ parts) := by
  induction parts generalizing fuel with
  | nil => exact absurd rfl hne
  | cons p ps ih =>
    cases ps with
    | nil =>
      cases fuel with
      | zero => simp at hf
      | succ f =>
        simp only [joinParts, parseArgs, joinQ]
        have := parseLiteral_quoted '"' (Or.inl rfl) p [')'] (hq p (by simp))
        simp only [List.append_assoc] at this ⊢
        rw [this]
        rfl
    | cons q qs =>
      cases fuel with
      | zero => simp at hf
      | succ f =>
        cases f with
        | zero => simp at hf; omega
        | succ f2 =>
          have hp := hq p (by simp)
          have hsep : (", '\"', " : String).toList = [',', ' ', '\'', '"', '\'', ',', ' '] := by decide
          simp only [joinParts, joinQ, hsep]
          have h1 := parseLiteral_quoted '"' (Or.inl rfl) p
            ([',', ' ', '\'', '"', '\'', ',', ' '] ++ joinParts (q :: qs) ++ [')']) hp
          simp only [List.append_assoc] at h1
          rw [parseArgs]
          simp only [List.append_assoc]
          rw [h1]
          simp only [List.cons_append, List.nil_append]
          rw [parseArgs]
          have h2 := parseLiteral_quoted '\'' (Or.inr rfl) ['"'] ([',', ' '] ++ (joinParts (q :: qs) ++ [')'])) (by decide)
          simp only [List.singleton_append, List.cons_append, List.nil_append] at h2
          rw [h2]
          simp only
          rw [ih (by simp) (fun x hx => hq x (by simp [hx])) f2 (by simp at hf ⊢; omega)]
          simp

end Odf.XPathLit
