import OdfModel.Rle

/-! Lemmas on the run-length vault: expansion, position maps, and the three vault edits. -/
namespace Odf.Rle

variable {α : Type}

/-! ### expand / total -/

@[simp] theorem expand_nil : expand ([] : Runs α) = [] := rfl
@[simp] theorem expand_cons (c : α) (n : Nat) (rest : Runs α) :
    expand ((c, n) :: rest) = List.replicate n c ++ expand rest := rfl
@[simp] theorem total_nil : total ([] : Runs α) = 0 := rfl
@[simp] theorem total_cons (c : α) (n : Nat) (rest : Runs α) : total ((c, n) :: rest) = n + total rest := rfl

theorem expand_append (a b : Runs α) : expand (a ++ b) = expand a ++ expand b := by
  induction a with
  | nil => simp
  | cons hd tl ih => obtain ⟨c, n⟩ := hd; simp [ih]

theorem total_append (a b : Runs α) : total (a ++ b) = total a + total b := by
  induction a with
  | nil => simp
  | cons hd tl ih => obtain ⟨c, n⟩ := hd; simp [ih]; omega

theorem expand_length (v : Runs α) : (expand v).length = total v := by
  induction v with
  | nil => rfl
  | cons hd tl ih => obtain ⟨c, n⟩ := hd; simp [ih]

/-- every repeat count is at least 1 (`repeated or 1`, `max(int, 1)`) -/
def Pos (v : Runs α) : Prop := ∀ p ∈ v, 1 ≤ p.2

theorem Pos.append {a b : Runs α} (ha : Pos a) (hb : Pos b) : Pos (a ++ b) := by
  intro p hp
  rcases List.mem_append.1 hp with h | h
  · exact ha p h
  · exact hb p h

theorem Pos.of_append_left {a b : Runs α} (h : Pos (a ++ b)) : Pos a :=
  fun p hp => h p (List.mem_append.2 (Or.inl hp))
theorem Pos.of_append_right {a b : Runs α} (h : Pos (a ++ b)) : Pos b :=
  fun p hp => h p (List.mem_append.2 (Or.inr hp))

theorem Pos.take {v : Runs α} (h : Pos v) (k : Nat) : Pos (v.take k) :=
  fun p hp => h p (List.mem_of_mem_take hp)
theorem Pos.drop {v : Runs α} (h : Pos v) (k : Nat) : Pos (v.drop k) :=
  fun p hp => h p (List.mem_of_mem_drop hp)

/-! ### trimFront -/

theorem expand_trimFront (k : Nat) (v : Runs α) :
    expand (trimFront k v) = (expand v).drop k := by
  induction v generalizing k with
  | nil => simp [trimFront]
  | cons hd tl ih =>
    obtain ⟨c, n⟩ := hd
    simp only [trimFront]
    split
    · subst_vars; simp
    · split
      · rename_i h0 h
        simp only [expand_cons]
        rw [List.drop_append_of_le_length (by simp; omega)]
        simp [List.drop_replicate]
      · rename_i h0 h
        rw [ih, expand_cons, List.drop_append]
        have : List.drop k (List.replicate n c) = [] := by simp; omega
        simp [this]

theorem Pos.trimFront {v : Runs α} (h : Pos v) (k : Nat) : Pos (trimFront k v) := by
  induction v generalizing k with
  | nil => simp [Rle.trimFront, Pos]
  | cons hd tl ih =>
    obtain ⟨c, n⟩ := hd
    have htl : Pos tl := fun p hp => h p (by simp [hp])
    simp only [Rle.trimFront]
    split
    · exact h
    · split
      · intro p hp
        simp only [List.mem_cons] at hp
        rcases hp with rfl | hp
        · simp; omega
        · exact htl p hp
      · exact ih htl _

theorem total_trimFront (k : Nat) (v : Runs α) : total (trimFront k v) = total v - k := by
  rw [← expand_length, expand_trimFront, List.length_drop, expand_length]

/-! ### cumulative maps -/

theorem cumFrom_length (b : Nat) (v : Runs α) : (cumFrom b v).length = v.length := by
  induction v generalizing b with
  | nil => rfl
  | cons hd tl ih => obtain ⟨c, n⟩ := hd; simp [cumFrom, ih]

theorem cumFrom_append (b : Nat) (a c : Runs α) :
    cumFrom b (a ++ c) = cumFrom b a ++ cumFrom (b + total a) c := by
  induction a generalizing b with
  | nil => simp [cumFrom]
  | cons hd tl ih =>
    obtain ⟨x, n⟩ := hd
    simp only [List.cons_append, cumFrom, ih, total_cons, List.cons.injEq, true_and]
    rw [Nat.add_assoc]

theorem cumFrom_shift (b k : Nat) (v : Runs α) : (cumFrom b v).map (· + k) = cumFrom (b + k) v := by
  induction v generalizing b with
  | nil => rfl
  | cons hd tl ih =>
    obtain ⟨x, n⟩ := hd
    simp only [cumFrom, List.map_cons, ih, List.cons.injEq]
    have e : b + n + k = b + k + n := by omega
    exact ⟨e, by rw [e]⟩

theorem cumFrom_shift_sub (b k : Nat) (v : Runs α) (h : k ≤ b) :
    (cumFrom b v).map (· - k) = cumFrom (b - k) v := by
  induction v generalizing b with
  | nil => rfl
  | cons hd tl ih =>
    obtain ⟨x, n⟩ := hd
    simp only [cumFrom, List.map_cons, List.cons.injEq]
    refine ⟨by omega, ?_⟩
    rw [ih (b + n) (by omega)]
    congr 1; omega

theorem cumFrom_getLastD (b : Nat) (v : Runs α) : (cumFrom b v).getLastD b = b + total v := by
  induction v generalizing b with
  | nil => rfl
  | cons hd tl ih =>
    obtain ⟨x, n⟩ := hd
    simp only [cumFrom, total_cons]
    cases htl : tl with
    | nil => simp [cumFrom, List.getLastD]
    | cons hd2 tl2 =>
      have := ih (b + n)
      rw [htl] at this
      obtain ⟨x2, n2⟩ := hd2
      simp only [cumFrom, List.getLastD_cons, total_cons] at this ⊢
      rw [this]; omega

/-- the size read from a coherent map is the total count -/
theorem size_fresh (v : Runs α) : size (fresh v) = total v := by
  have := cumFrom_getLastD 0 v
  simpa [size, fresh, makeCacheMap] using this

/-- `getD` on a cumulative map -/
theorem cumFrom_getD (b : Nat) (v : Runs α) (i : Nat) (h : i < v.length) (d : Nat) :
    (cumFrom b v).getD i d = b + total (v.take (i + 1)) := by
  induction v generalizing b i with
  | nil => simp at h
  | cons hd tl ih =>
    obtain ⟨x, n⟩ := hd
    cases i with
    | zero => simp [cumFrom]
    | succ j =>
      simp only [cumFrom, List.getD_cons_succ, List.take_succ_cons, total_cons]
      rw [ih (b + n) j (by simpa using h)]
      omega

theorem beforeOf_mcm (v : Runs α) (idx : Nat) (h : idx ≤ v.length) :
    beforeOf (makeCacheMap v) idx = total (v.take idx) := by
  unfold beforeOf makeCacheMap
  split
  · subst_vars; simp
  · rename_i h0
    rw [cumFrom_getD 0 v (idx - 1) (by omega)]
    have : idx - 1 + 1 = idx := by omega
    rw [this]; simp

/-! ### locating a position -/

/-- index of the run covering `pos` and the offset inside it -/
def locate : Runs α → Nat → Option (Nat × Nat)
  | [], _ => none
  | (_, n) :: t, pos => if pos < n then some (0, pos) else (locate t (pos - n)).map (fun p => (p.1 + 1, p.2))

theorem findOdfIdx_cumFrom (b : Nat) (v : Runs α) (pos : Nat) :
    findOdfIdx (cumFrom b v) (b + pos) = (locate v pos).map (·.1) := by
  induction v generalizing b pos with
  | nil => simp [findOdfIdx, cumFrom, locate]
  | cons hd tl ih =>
    obtain ⟨x, n⟩ := hd
    simp only [cumFrom, locate]
    by_cases hlt : pos < n
    · simp only [hlt, if_true, Option.map_some]
      unfold findOdfIdx
      have : ¬ (b + n ≤ b + pos) := by omega
      simp [List.takeWhile, this]
    · simp only [hlt, if_false]
      have hih := ih (b + n) (pos - n)
      have e : b + n + (pos - n) = b + pos := by omega
      rw [e] at hih
      unfold findOdfIdx at hih ⊢
      have hle : b + n ≤ b + pos := by omega
      simp only [List.takeWhile, hle, decide_true, List.length_cons]
      cases hl : locate tl (pos - n) with
      | none =>
        rw [hl] at hih
        simp only [Option.map_none] at hih ⊢
        split at hih
        · simp at hih
        · rename_i h; rw [if_neg (by omega)]
      | some p =>
        rw [hl] at hih
        simp only [Option.map_some] at hih ⊢
        split at hih
        · rename_i h
          rw [if_pos (by omega)]
          simp only [Option.some.injEq] at hih ⊢
          omega
        · simp at hih

theorem findOdfIdx_mcm (v : Runs α) (pos : Nat) :
    findOdfIdx (makeCacheMap v) pos = (locate v pos).map (·.1) := by
  have := findOdfIdx_cumFrom 0 v pos
  simpa [makeCacheMap] using this

/-- `locate` in terms of take/drop: the run, what precedes it, and the offset -/
theorem locate_spec (v : Runs α) (pos idx off : Nat) (h : locate v pos = some (idx, off)) :
    ∃ c n, v[idx]? = some (c, n) ∧ off < n ∧ pos = total (v.take idx) + off := by
  induction v generalizing pos idx with
  | nil => simp [locate] at h
  | cons hd tl ih =>
    obtain ⟨x, n⟩ := hd
    simp only [locate] at h
    split at h
    · rename_i hlt
      simp only [Option.some.injEq, Prod.mk.injEq] at h
      obtain ⟨rfl, rfl⟩ := h
      exact ⟨x, n, by simp, hlt, by simp⟩
    · rename_i hge
      cases hl : locate tl (pos - n) with
      | none => rw [hl] at h; simp at h
      | some p =>
        rw [hl] at h
        simp only [Option.map_some, Option.some.injEq, Prod.mk.injEq] at h
        obtain ⟨rfl, rfl⟩ := h
        obtain ⟨c, m, h1, h2, h3⟩ := ih (pos - n) p.1 hl
        refine ⟨c, m, by simpa using h1, h2, ?_⟩
        simp only [List.take_succ_cons, total_cons]
        omega

theorem locate_some_of_lt (v : Runs α) (pos : Nat) (h : pos < total v) : ∃ p, locate v pos = some p := by
  induction v generalizing pos with
  | nil => simp at h
  | cons hd tl ih =>
    obtain ⟨x, n⟩ := hd
    simp only [locate]
    split
    · exact ⟨_, rfl⟩
    · rename_i hge
      obtain ⟨p, hp⟩ := ih (pos - n) (by simp at h; omega)
      exact ⟨_, by rw [hp]; rfl⟩

theorem locate_none_of_ge (v : Runs α) (pos : Nat) (h : total v ≤ pos) : locate v pos = none := by
  induction v generalizing pos with
  | nil => rfl
  | cons hd tl ih =>
    obtain ⟨x, n⟩ := hd
    simp only [locate]
    simp only [total_cons] at h
    rw [if_neg (by omega), ih (pos - n) (by omega)]
    rfl

/-- splitting a list around an index -/
theorem split_at {β : Type} (l : List β) (i : Nat) (x : β) (h : l[i]? = some x) :
    l = l.take i ++ x :: l.drop (i + 1) := by
  induction l generalizing i with
  | nil => simp at h
  | cons a t ih =>
    cases i with
    | zero => simp at h; subst h; simp
    | succ j =>
      simp only [List.getElem?_cons_succ] at h
      simp only [List.take_succ_cons, List.drop_succ_cons, List.cons_append, List.cons.injEq, true_and]
      exact ih j h

end Odf.Rle
