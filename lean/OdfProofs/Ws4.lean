import OdfProofs.Ws3

namespace Odf.Ws

/-! ### the consumer reads a tight, clean atom list verbatim -/

/-- no inline element, and the only collapsible character among the atoms is the plain space -/
def cleanA (A : List Atom) : Prop :=
  ∀ a ∈ A, (∀ i t, a ≠ .el i t) ∧ (∀ ch, a = .c ch → isWs ch = true → ch = ' ')

theorem consume_clean (A : List Atom) (ign : Bool) (out : List Char)
    (hc : cleanA A) (hd : noDblA A = true) (hs : ign = true → startsSp A = false) :
    consume A ign out = (if A = [] then ign else endsSp A, (atomsText A).reverse ++ out) := by
  induction A generalizing ign out with
  | nil => simp [consume]
  | cons a r ih =>
    have hcr : cleanA r := fun x hx => hc x (by simp [hx])
    have hdr : noDblA r = true := by
      rw [noDblA_cons] at hd
      simp only [Bool.and_eq_true] at hd
      exact hd.2
    have hends : ∀ v : Bool, isSp a = v → (if r = [] then v else endsSp r) = endsSp (a :: r) := by
      intro v hv
      cases r with
      | nil => simp [endsSp, hv]
      | cons b t => simp [endsSp]
    simp only [List.cons_ne_nil, if_false]
    cases a with
    | c ch =>
      by_cases hws : isWs ch = true
      · have hch : ch = ' ' := (hc (.c ch) (by simp)).2 ch rfl hws
        subst hch
        have hign : ign = false := by
          cases ign with
          | false => rfl
          | true => have := hs rfl; simp [startsSp, isSp] at this
        subst hign
        have hsr : startsSp r = false := by
          rw [noDblA_cons] at hd
          simp only [Bool.and_eq_true, Bool.not_eq_true', Bool.and_eq_false_iff] at hd
          rcases hd.1 with h | h
          · simp [isSp] at h
          · exact h
        simp only [consume, hws, if_true, Bool.false_eq_true, if_false]
        rw [ih true (' ' :: out) hcr hdr (fun _ => hsr)]
        rw [hends true (by simp [isSp])]
        simp [Atom.text]
      · have hws' : isWs ch = false := by simpa using hws
        simp only [consume, hws', Bool.false_eq_true, if_false]
        rw [ih false (ch :: out) hcr hdr (by simp)]
        have : isSp (Atom.c ch) = false := by
          simp only [isSp, beq_eq_false_iff_ne, ne_eq]
          intro h; subst h; simp [isWs] at hws'
        rw [hends false this]
        simp [Atom.text]
    | sp n =>
      simp only [consume]
      rw [ih false _ hcr hdr (by simp), hends false rfl]
      simp [Atom.text]
    | tab =>
      simp only [consume]
      rw [ih false _ hcr hdr (by simp), hends false rfl]
      simp [Atom.text]
    | lb =>
      simp only [consume]
      rw [ih false _ hcr hdr (by simp), hends false rfl]
      simp [Atom.text]
    | el i t => exact absurd rfl ((hc (.el i t) (by simp)).1 i t)

theorem collapse_tight (p : List Item) (hc : cleanA (atoms p)) (ht : tight (atoms p) = true) :
    collapse p = innerText p := by
  simp only [tight, Bool.and_eq_true, Bool.not_eq_true'] at ht
  obtain ⟨⟨h1, h2⟩, h3⟩ := ht
  unfold collapse
  rw [collapseItems_eq, consume_clean _ true [] hc h1 (fun _ => h2), innerText_eq]
  by_cases h0 : atoms p = []
  · simp [h0]
  · simp [h0, h3]

theorem mem_atomsText_of_c (A : List Atom) (ch : Char) (h : Atom.c ch ∈ A) : ch ∈ atomsText A := by
  induction A with
  | nil => simp at h
  | cons a t ih =>
    simp only [List.mem_cons] at h
    rcases h with rfl | h
    · simp [Atom.text]
    · simp [ih h]

end Odf.Ws

namespace Odf.Ws

theorem el_not_mem_restAtoms (i : Nat) (t : List Char) (rest : List (Bool × List Char)) :
    Atom.el i t ∉ restAtoms rest := by
  induction rest with
  | nil => simp [restAtoms]
  | cons hd tl ih =>
    obtain ⟨b, g⟩ := hd
    cases tl with
    | nil => simp only [restAtoms]; split <;> simp [spA]
    | cons hd2 tl2 =>
      simp only [restAtoms]
      split
      · simp [spA, ih]
      · simp [ih]

theorem el_not_mem_groupAtoms (i : Nat) (t : List Char) (gs : List (Bool × List Char)) :
    Atom.el i t ∉ groupAtoms gs := by
  cases gs with
  | nil => simp [groupAtoms]
  | cons hd tl =>
    obtain ⟨b, g⟩ := hd
    simp only [groupAtoms, List.mem_append, not_or]
    refine ⟨?_, el_not_mem_restAtoms i t tl⟩
    split <;> simp [spA]

theorem el_atom_item (l : List Item) (i : Nat) (t : List Char) :
    Atom.el i t ∈ atoms l ↔ Item.el i t ∈ l := by
  simp only [atoms, List.mem_flatMap]
  constructor
  · rintro ⟨it, hit, hm⟩
    cases it <;> simp [Item.atoms] at hm
    obtain ⟨rfl, rfl⟩ := hm
    exact hit
  · intro h
    exact ⟨_, h, by simp [Item.atoms]⟩

/-- an inline element among the atoms produced by an append was a child of the paragraph -/
theorem el_mem_pipeline (p : Para) (s : List Char) (i : Nat) (t : List Char)
    (h : Atom.el i t ∈ ((expandSpaces p s).flatMap mergedAtoms).map tabifyA) : Item.el i t ∈ p := by
  simp only [List.mem_map] at h
  obtain ⟨a0, ha0, heq⟩ := h
  have ha0el : a0 = .el i t := by
    cases a0 with
    | c ch =>
      simp only [tabifyA, tabifyC] at heq
      split at heq
      · cases heq
      · split at heq <;> cases heq
    | _ => simpa [tabifyA] using heq
  subst ha0el
  simp only [List.mem_flatMap] at ha0
  obtain ⟨it, hit, hm⟩ := ha0
  have hitel : it = .el i t := by
    cases it with
    | str cs => exact absurd hm (el_not_mem_groupAtoms i t _)
    | s n => simp [mergedAtoms, Item.atoms] at hm
    | tab => simp [mergedAtoms, Item.atoms] at hm
    | lb => simp [mergedAtoms, Item.atoms] at hm
    | el j u =>
      simp only [mergedAtoms, Item.atoms, List.mem_singleton, Atom.el.injEq] at hm
      rw [hm.1, hm.2]
  subst hitel
  have hat : Atom.el i t ∈ atoms (expandSpaces p s) := (el_atom_item _ i t).2 hit
  rw [atoms_expandSpaces] at hat
  simp only [List.mem_append, List.mem_flatMap, List.mem_map, reduceCtorEq, and_false, exists_false,
    or_false] at hat
  obtain ⟨a1, ha1, hu⟩ := hat
  have : a1 = .el i t := by
    cases a1 with
    | sp n => simp [unspace] at hu
    | c ch => simp [unspace] at hu
    | tab => simp [unspace] at hu
    | lb => simp [unspace] at hu
    | el j u =>
      simp only [unspace, List.mem_singleton, Atom.el.injEq] at hu
      rw [hu.1, hu.2]
  subst this
  exact (el_atom_item _ i t).1 ha1

end Odf.Ws
