import OdfModel.Package

/-! Helper lemmas for C03 / C04 / C10: association lists, the container view, loading. -/
namespace Odf.Pkg

/-! ### association lists -/

theorem look_put {α : Type} (l : List (Nat × α)) (n : Nat) (v : α) (m : Nat) :
    look (put l n v) m = if m = n then some v else look l m := by
  induction l with
  | nil =>
    simp only [put, look]
    by_cases h : n = m
    · subst h; simp
    · have : ¬ m = n := fun e => h e.symm
      simp [h, this]
  | cons p rest ih =>
    obtain ⟨k, w⟩ := p
    simp only [put]
    by_cases hk : k = n
    · subst hk
      simp only [if_true, look]
      by_cases hm : k = m
      · subst hm; simp
      · have : ¬ m = k := fun e => hm e.symm
        simp [hm, this]
    · simp only [hk, if_false, look]
      by_cases hm : k = m
      · subst hm
        have : ¬ k = n := hk
        simp [this]
      · simp only [hm, if_false, ih]

def keys {α : Type} (l : List (Nat × α)) : List Nat := l.map (·.1)

theorem keys_put {α : Type} (l : List (Nat × α)) (n : Nat) (v : α) :
    keys (put l n v) = if n ∈ keys l then keys l else keys l ++ [n] := by
  induction l with
  | nil => simp [put, keys]
  | cons p rest ih =>
    obtain ⟨k, w⟩ := p
    simp only [put]
    by_cases hk : k = n
    · subst hk; simp [keys]
    · simp only [hk, if_false]
      have ih' := ih
      simp only [keys] at ih' ⊢
      simp only [List.map_cons, ih', List.mem_cons]
      have hnk : ¬ n = k := fun e => hk e.symm
      by_cases hm : n ∈ rest.map (·.1)
      · simp [hm]
      · simp [hm, hnk]

theorem nodup_put {α : Type} (l : List (Nat × α)) (n : Nat) (v : α) (h : (keys l).Nodup) : (keys (put l n v)).Nodup := by
  rw [keys_put]
  split
  · exact h
  · rename_i hn
    rw [List.nodup_append]
    refine ⟨h, by simp, ?_⟩
    intro a ha b hb
    simp at hb; subst hb
    intro e; subst e; exact hn ha

theorem look_none_iff {α : Type} (l : List (Nat × α)) (n : Nat) : look l n = none ↔ n ∉ keys l := by
  induction l with
  | nil => simp [look, keys]
  | cons p rest ih =>
    obtain ⟨k, w⟩ := p
    simp only [look, keys, List.map_cons, List.mem_cons]
    by_cases hk : k = n
    · subst hk; simp
    · have : ¬ n = k := fun e => hk e.symm
      simp only [hk, if_false, this, false_or]
      exact ih

theorem look_del {α : Type} (l : List (Nat × α)) (n m : Nat) (h : (keys l).Nodup) :
    look (del l n) m = if m = n then none else look l m := by
  induction l with
  | nil => simp [del, look]
  | cons p rest ih =>
    obtain ⟨k, w⟩ := p
    have hr : (keys rest).Nodup := by
      simp only [keys, List.map_cons, List.nodup_cons] at h; exact h.2
    have hk' : k ∉ keys rest := by
      simp only [keys, List.map_cons, List.nodup_cons] at h; exact h.1
    simp only [del]
    by_cases hk : k = n
    · subst hk
      simp only [if_true, look]
      by_cases hm : m = k
      · subst hm
        simp only [if_true]
        exact (look_none_iff rest m).2 hk'
      · have : ¬ k = m := fun e => hm e.symm
        simp [hm, this]
    · simp only [hk, if_false, look, ih hr]
      by_cases hm : k = m
      · subst hm
        have : ¬ k = n := hk
        simp [this]
      · simp [hm]

theorem keys_del {α : Type} (l : List (Nat × α)) (n : Nat) (h : (keys l).Nodup) :
    (keys (del l n)).Nodup ∧ ∀ m, m ∈ keys (del l n) ↔ (m ∈ keys l ∧ m ≠ n) := by
  induction l with
  | nil => simp [del, keys]
  | cons p rest ih =>
    obtain ⟨k, w⟩ := p
    have hr : (keys rest).Nodup := by
      simp only [keys, List.map_cons, List.nodup_cons] at h; exact h.2
    have hk' : k ∉ keys rest := by
      simp only [keys, List.map_cons, List.nodup_cons] at h; exact h.1
    simp only [del]
    by_cases hk : k = n
    · subst hk
      simp only [if_true]
      refine ⟨hr, ?_⟩
      intro m
      simp only [keys, List.map_cons, List.mem_cons]
      constructor
      · intro hm
        refine ⟨Or.inr hm, ?_⟩
        intro e; subst e; exact hk' hm
      · rintro ⟨h1 | h1, h2⟩
        · exact absurd h1 h2
        · exact h1
    · simp only [hk, if_false]
      obtain ⟨i1, i2⟩ := ih hr
      constructor
      · simp only [keys, List.map_cons, List.nodup_cons]
        refine ⟨?_, i1⟩
        intro hm
        exact hk' ((i2 k).1 hm).1
      · intro m
        simp only [keys, List.map_cons, List.mem_cons]
        have := i2 m
        simp only [keys] at this
        rw [this]
        constructor
        · rintro (h1 | ⟨h1, h2⟩)
          · subst h1; exact ⟨Or.inl rfl, hk⟩
          · exact ⟨Or.inr h1, h2⟩
        · rintro ⟨h1 | h1, h2⟩
          · exact Or.inl h1
          · exact Or.inr ⟨h1, h2⟩

/-! ### the container view -/

/-- what the container holds under a name: the loaded / set value, nothing when deleted, what is
    on disk when the part was not read yet -/
def cview (c : Cont) (n : Nat) : Option Blob :=
  match look c.parts n with
  | some v => v
  | none => if c.lazy then look c.src n else none

def WFc (c : Cont) : Prop := (keys c.parts).Nodup ∧ (keys c.src).Nodup

theorem get_fst (c : Cont) (n : Nat) : (c.get n).1 = cview c n := by
  unfold Cont.get cview
  cases h1 : look c.parts n with
  | some v => cases v <;> rfl
  | none =>
    simp only
    cases hl : c.lazy with
    | true => simp only [if_true]; cases h2 : look c.src n <;> rfl
    | false => rfl

theorem get_snd_cview (c : Cont) (n m : Nat) : cview (c.get n).2 m = cview c m := by
  unfold Cont.get
  cases h1 : look c.parts n with
  | some v => cases v <;> rfl
  | none =>
    simp only
    cases hl : c.lazy with
    | false => rfl
    | true =>
      simp only [if_true]
      cases h2 : look c.src n with
      | none => rfl
      | some b =>
        simp only [cview, look_put, hl, if_true]
        by_cases hm : m = n
        · subst hm; simp [h1, h2]
        · simp [hm]

theorem get_snd_wf (c : Cont) (n : Nat) (h : WFc c) : WFc (c.get n).2 := by
  unfold Cont.get
  cases h1 : look c.parts n with
  | some v => cases v <;> exact h
  | none =>
    simp only
    cases hl : c.lazy with
    | false => exact h
    | true =>
      simp only [if_true]
      cases h2 : look c.src n with
      | none => exact h
      | some b => exact ⟨nodup_put _ _ _ h.1, h.2⟩

theorem get_snd_src (c : Cont) (n : Nat) : (c.get n).2.src = c.src ∧ (c.get n).2.lazy = c.lazy := by
  unfold Cont.get
  split
  · exact ⟨rfl, rfl⟩
  · exact ⟨rfl, rfl⟩
  · split
    · split <;> exact ⟨rfl, rfl⟩
    · exact ⟨rfl, rfl⟩

theorem cview_set (c : Cont) (n : Nat) (b : Blob) (m : Nat) :
    cview (c.set n b) m = if m = n then some b else cview c m := by
  simp only [cview, Cont.set, look_put]
  by_cases hm : m = n
  · simp [hm]
  · simp only [hm, if_false]
    cases look c.parts m <;> rfl

theorem cview_delete (c : Cont) (n m : Nat) :
    cview (c.delete n) m = if m = n then none else cview c m := by
  simp only [cview, Cont.delete, look_put]
  by_cases hm : m = n
  · simp [hm]
  · simp only [hm, if_false]
    cases look c.parts m <;> rfl

theorem wf_set (c : Cont) (n : Nat) (b : Blob) (h : WFc c) : WFc (c.set n b) := ⟨nodup_put _ _ _ h.1, h.2⟩
theorem wf_delete (c : Cont) (n : Nat) (h : WFc c) : WFc (c.delete n) := ⟨nodup_put _ _ _ h.1, h.2⟩

/-- one step of `loadAll` -/
def loadStep (c : Cont) (n : Nat) : Cont :=
  match look c.parts n with
  | some _ => c
  | none => (c.get n).2

theorem loadStep_cview (c : Cont) (n m : Nat) : cview (loadStep c n) m = cview c m := by
  unfold loadStep; split
  · rfl
  · exact get_snd_cview c n m

theorem loadStep_wf (c : Cont) (n : Nat) (h : WFc c) : WFc (loadStep c n) := by
  unfold loadStep; split
  · exact h
  · exact get_snd_wf c n h

theorem loadStep_src (c : Cont) (n : Nat) : (loadStep c n).src = c.src ∧ (loadStep c n).lazy = c.lazy := by
  unfold loadStep; split
  · exact ⟨rfl, rfl⟩
  · exact get_snd_src c n

/-- a loaded name stays loaded -/
theorem loadStep_mono (c : Cont) (n m : Nat) (h : look c.parts m ≠ none) : look (loadStep c n).parts m ≠ none := by
  unfold loadStep; split
  · exact h
  · unfold Cont.get
    rename_i h1
    rw [h1]
    simp only
    split
    · split
      · simp only [look_put]
        by_cases hm : m = n
        · simp [hm]
        · simp [hm, h]
      · exact h
    · exact h

/-- after the step, `n` is loaded if it is on disk (lazy container) -/
theorem loadStep_loads (c : Cont) (n : Nat) (hl : c.lazy = true) (hs : look c.src n ≠ none) :
    look (loadStep c n).parts n ≠ none := by
  unfold loadStep
  cases h1 : look c.parts n with
  | some v => simp [h1]
  | none =>
    simp only
    unfold Cont.get
    rw [h1]
    simp only [hl, if_true]
    cases h2 : look c.src n with
    | none => exact absurd h2 hs
    | some b => simp [look_put]

theorem foldl_loadStep_cview (ns : List Nat) (c : Cont) (m : Nat) : cview (ns.foldl loadStep c) m = cview c m := by
  induction ns generalizing c with
  | nil => rfl
  | cons n rest ih => simp only [List.foldl_cons]; rw [ih, loadStep_cview]

theorem foldl_loadStep_wf (ns : List Nat) (c : Cont) (h : WFc c) : WFc (ns.foldl loadStep c) := by
  induction ns generalizing c with
  | nil => exact h
  | cons n rest ih => simp only [List.foldl_cons]; exact ih _ (loadStep_wf c n h)

theorem foldl_loadStep_src (ns : List Nat) (c : Cont) :
    (ns.foldl loadStep c).src = c.src ∧ (ns.foldl loadStep c).lazy = c.lazy := by
  induction ns generalizing c with
  | nil => exact ⟨rfl, rfl⟩
  | cons n rest ih =>
    simp only [List.foldl_cons]
    obtain ⟨h1, h2⟩ := ih (loadStep c n)
    obtain ⟨h3, h4⟩ := loadStep_src c n
    exact ⟨h1.trans h3, h2.trans h4⟩

theorem foldl_loadStep_mono (ns : List Nat) (c : Cont) (m : Nat) (h : look c.parts m ≠ none) :
    look (ns.foldl loadStep c).parts m ≠ none := by
  induction ns generalizing c with
  | nil => exact h
  | cons n rest ih => simp only [List.foldl_cons]; exact ih _ (loadStep_mono c n m h)

theorem foldl_loadStep_loads (ns : List Nat) (c : Cont) (m : Nat) (hm : m ∈ ns) (hl : c.lazy = true)
    (hs : look c.src m ≠ none) : look (ns.foldl loadStep c).parts m ≠ none := by
  induction ns generalizing c with
  | nil => simp at hm
  | cons n rest ih =>
    simp only [List.foldl_cons]
    simp only [List.mem_cons] at hm
    rcases hm with rfl | hm
    · exact foldl_loadStep_mono rest _ m (loadStep_loads c m hl hs)
    · obtain ⟨h3, h4⟩ := loadStep_src c n
      exact ih (loadStep c n) hm (by rw [h4]; exact hl) (by rw [h3]; exact hs)

theorem loadAll_eq (c : Cont) : c.loadAll = c.names.foldl loadStep c := by
  unfold Cont.loadAll
  congr 1

theorem loadAll_cview (c : Cont) (m : Nat) : cview c.loadAll m = cview c m := by
  rw [loadAll_eq]; exact foldl_loadStep_cview _ c m

theorem loadAll_wf (c : Cont) (h : WFc c) : WFc c.loadAll := by
  rw [loadAll_eq]; exact foldl_loadStep_wf _ c h

/-- **after `loadAll` the parts dict alone decides**: nothing is left on disk only -/
theorem loadAll_complete (c : Cont) (m : Nat) :
    cview c m = match look c.loadAll.parts m with
      | some v => v
      | none => none := by
  rw [← loadAll_cview c m]
  unfold cview
  cases h1 : look c.loadAll.parts m with
  | some v => rfl
  | none =>
    simp only
    have hsl : c.loadAll.src = c.src ∧ c.loadAll.lazy = c.lazy := by
      rw [loadAll_eq]; exact foldl_loadStep_src c.names c
    obtain ⟨hs, hl⟩ := hsl
    rw [hl, hs]
    rw [loadAll_eq] at h1
    cases hlz : c.lazy with
    | false => rfl
    | true =>
      simp only [if_true]
      cases h2 : look c.src m with
      | none => rfl
      | some b =>
        exfalso
        have hm : m ∈ c.names := by
          unfold Cont.names
          rw [hlz]
          simp only [if_true]
          have hk : m ∈ keys c.src := by
            by_cases hh : m ∈ keys c.src
            · exact hh
            · have := (look_none_iff c.src m).2 hh
              rw [h2] at this; simp at this
          simpa [keys] using hk
        exact foldl_loadStep_loads c.names c m hm hlz (by rw [h2]; simp) h1

end Odf.Pkg
