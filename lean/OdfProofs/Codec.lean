import OdfModel.Codec
import OdfProofs.Coord

namespace Odf.Codec
open Odf.Coord

/-! ### digits -/

theorem decVal_snoc (ds : List Nat) (d : Nat) : decVal (ds ++ [d]) = decVal ds * 10 + d := by
  simp [decVal, List.foldl_append]

theorem decVal_fixedDigits (w n : Nat) : decVal (fixedDigits w n) = n % 10 ^ w := by
  induction w generalizing n with
  | zero => simp [fixedDigits, decVal, Nat.mod_one]
  | succ w ih =>
    rw [fixedDigits, decVal_snoc, ih, Nat.pow_succ]
    have h1 := Nat.div_add_mod n 10
    have h2 := Nat.div_add_mod (n / 10) (10 ^ w)
    have h3 : n % (10 ^ w * 10) = (n / 10 % 10 ^ w) * 10 + n % 10 := by
      rw [Nat.mul_comm (10 ^ w) 10, Nat.mod_mul]
      omega
    omega

theorem fixedDigits_length (w n : Nat) : (fixedDigits w n).length = w := by
  induction w generalizing n with
  | zero => rfl
  | succ w ih => simp [fixedDigits, ih]

theorem fixedDigits_lt10 (w n : Nat) : ∀ d ∈ fixedDigits w n, d < 10 := by
  induction w generalizing n with
  | zero => simp [fixedDigits]
  | succ w ih =>
    intro d hd
    simp only [fixedDigits, List.mem_append, List.mem_singleton] at hd
    rcases hd with hd | rfl
    · exact ih _ d hd
    · omega

theorem pad2_lt10 (n : Nat) : ∀ d ∈ pad2 n, d < 10 := by
  unfold pad2
  split
  · intro d hd; simp at hd; omega
  · exact toDec_lt10 n

theorem pad2_ne_nil (n : Nat) : pad2 n ≠ [] := by
  unfold pad2
  split
  · simp
  · exact toDec_ne_nil n

theorem decVal_pad2 (n : Nat) : decVal (pad2 n) = n := by
  unfold pad2
  split
  · simp [decVal]
  · exact decVal_toDec n

theorem digitsStr_all_digit (ds : List Nat) (h : ∀ d ∈ ds, d < 10) :
    ∀ c ∈ digitsStr ds, isDigit c = true := by
  intro c hc
  simp only [digitsStr, List.mem_map] at hc
  obtain ⟨k, hk, rfl⟩ := hc
  exact isDigit_digitChar k (h k hk)

theorem numVal_digitsStr (ds : List Nat) (h : ∀ d ∈ ds, d < 10) : numVal (digitsStr ds) = decVal ds := by
  unfold numVal digitsStr
  rw [map_charDigit_digitChar ds h]

theorem spanDigits_stop (ds : List Nat) (h : ∀ d ∈ ds, d < 10) (rest : List Char)
    (hr : ∀ c, rest.head? = some c → isDigit c = false) :
    spanDigits (digitsStr ds ++ rest) = (digitsStr ds, rest) := by
  unfold spanDigits
  rw [takeWhile_append_stop isDigit _ _ (digitsStr_all_digit ds h) hr]
  simp

theorem optNum_hit (x : Char) (hx : isDigit x = false) (ds : List Nat) (hne : ds ≠ [])
    (h : ∀ d ∈ ds, d < 10) (rest : List Char) :
    optNum x (digitsStr ds ++ x :: rest) = (some (decVal ds), rest) := by
  unfold optNum
  rw [spanDigits_stop ds h (x :: rest) (by intro c hc; simp at hc; subst hc; exact hx)]
  simp only
  cases hds : ds with
  | nil => exact absurd hds hne
  | cons a t =>
    have : digitsStr (a :: t) = digitChar a :: digitsStr t := rfl
    rw [this]
    simp only [if_true]
    rw [← this, numVal_digitsStr _ (by rw [← hds]; exact h)]

theorem optNum_miss (x c : Char) (hc : isDigit c = false) (hcx : c ≠ x) (ds : List Nat)
    (h : ∀ d ∈ ds, d < 10) (rest : List Char) :
    optNum x (digitsStr ds ++ c :: rest) = (none, digitsStr ds ++ c :: rest) := by
  unfold optNum
  rw [spanDigits_stop ds h (c :: rest) (by intro c' hc'; simp at hc'; subst hc'; exact hc)]
  simp only
  cases hds : digitsStr ds with
  | nil => rfl
  | cons a t => simp [hcx]

theorem optSec_plain (ds : List Nat) (hne : ds ≠ []) (h : ∀ d ∈ ds, d < 10) (rest : List Char) :
    optSec (digitsStr ds ++ 'S' :: rest) = (some (decVal ds, []), rest) := by
  unfold optSec
  rw [spanDigits_stop ds h ('S' :: rest) (by intro c hc; simp at hc; subst hc; decide)]
  simp only
  cases hds : ds with
  | nil => exact absurd hds hne
  | cons a t =>
    have : digitsStr (a :: t) = digitChar a :: digitsStr t := rfl
    rw [this]
    simp only
    rw [← this, numVal_digitsStr _ (by rw [← hds]; exact h)]

/-! ### the fraction of the seconds field -/

theorem decVal_replicate_zero (k : Nat) : decVal (List.replicate k 0) = 0 := by
  induction k with
  | zero => rfl
  | succ k ih => rw [List.replicate_succ', decVal_snoc, ih]

theorem takeWhile_zero_replicate (l : List Nat) :
    l.takeWhile (· == 0) = List.replicate (l.takeWhile (· == 0)).length 0 := by
  induction l with
  | nil => rfl
  | cons a t ih =>
    simp only [List.takeWhile_cons]
    by_cases h : a = 0
    · subst h
      simp only [BEq.rfl, if_true, List.length_cons, List.replicate_succ]
      rw [← ih]
    · have : (a == 0) = false := by simpa using h
      rw [this]; rfl

/-- the stripped digits followed by the zeros that were stripped are the digits -/
theorem rstripZeros_pad (ds : List Nat) :
    rstripZeros ds ++ List.replicate (ds.length - (rstripZeros ds).length) 0 = ds := by
  have h := List.takeWhile_append_dropWhile (p := (· == 0)) (l := ds.reverse)
  have hlen : (ds.reverse.takeWhile (· == 0)).length + (ds.reverse.dropWhile (· == 0)).length = ds.length := by
    have := congrArg List.length h
    rw [List.length_append, List.length_reverse] at this
    exact this
  have h2 : ds = (ds.reverse.dropWhile (· == 0)).reverse ++ (ds.reverse.takeWhile (· == 0)).reverse := by
    have := congrArg List.reverse h
    rw [List.reverse_append, List.reverse_reverse] at this
    exact this.symm
  unfold rstripZeros
  rw [List.length_reverse]
  have hk : ds.length - (ds.reverse.dropWhile (· == 0)).length = (ds.reverse.takeWhile (· == 0)).length := by omega
  rw [hk]
  conv => rhs; rw [h2]
  congr 1
  rw [takeWhile_zero_replicate ds.reverse]
  simp

theorem rstripZeros_length_le (ds : List Nat) : (rstripZeros ds).length ≤ ds.length := by
  unfold rstripZeros
  rw [List.length_reverse]
  have := (List.dropWhile_sublist (· == 0) (l := ds.reverse)).length_le
  simpa using this

theorem rstripZeros_lt10 (ds : List Nat) (h : ∀ d ∈ ds, d < 10) : ∀ d ∈ rstripZeros ds, d < 10 := by
  intro d hd
  unfold rstripZeros at hd
  rw [List.mem_reverse] at hd
  have := (List.dropWhile_sublist (· == 0) (l := ds.reverse)).subset hd
  exact h d (by simpa using this)

theorem rstripZeros_ne_nil (ds : List Nat) (h : decVal ds ≠ 0) : rstripZeros ds ≠ [] := by
  intro hnil
  have := rstripZeros_pad ds
  rw [hnil, List.nil_append] at this
  rw [← this, decVal_replicate_zero] at h
  exact h rfl

theorem digitsStr_append (a b : List Nat) : digitsStr (a ++ b) = digitsStr a ++ digitsStr b := by
  simp [digitsStr]

theorem digitsStr_replicate_zero (k : Nat) : digitsStr (List.replicate k 0) = List.replicate k '0' := by
  simp [digitsStr, digitChar]

/-- `int((frac + "000000")[:6])` of the written fraction is the microseconds -/
theorem fracMicros_frac (m : Nat) (hm : m < 1000000) :
    fracMicros (digitsStr (rstripZeros (fixedDigits 6 m))) = m := by
  unfold fracMicros
  have hpad := rstripZeros_pad (fixedDigits 6 m)
  have hle := rstripZeros_length_le (fixedDigits 6 m)
  rw [fixedDigits_length] at hpad hle
  have hlen : (digitsStr (rstripZeros (fixedDigits 6 m))).length = (rstripZeros (fixedDigits 6 m)).length := by
    simp [digitsStr]
  have htake : (digitsStr (rstripZeros (fixedDigits 6 m)) ++ List.replicate 6 '0').take 6 =
      digitsStr (fixedDigits 6 m) := by
    conv => rhs; rw [← hpad]
    rw [digitsStr_append, digitsStr_replicate_zero, List.take_append, hlen,
      List.take_of_length_le (by omega), List.take_replicate]
    congr 2
    omega
  rw [htake, numVal_digitsStr _ (fixedDigits_lt10 6 m), decVal_fixedDigits]
  omega

theorem optSec_frac (ds fs : List Nat) (hne : ds ≠ []) (hfne : fs ≠ []) (h : ∀ d ∈ ds, d < 10)
    (hf : ∀ d ∈ fs, d < 10) (rest : List Char) :
    optSec (digitsStr ds ++ '.' :: (digitsStr fs ++ 'S' :: rest)) = (some (decVal ds, digitsStr fs), rest) := by
  unfold optSec
  rw [spanDigits_stop ds h ('.' :: (digitsStr fs ++ 'S' :: rest)) (by intro c hc; simp at hc; subst hc; decide)]
  simp only
  cases hds : ds with
  | nil => exact absurd hds hne
  | cons a t =>
    have : digitsStr (a :: t) = digitChar a :: digitsStr t := rfl
    rw [this]
    simp only
    rw [spanDigits_stop fs hf ('S' :: rest) (by intro c hc; simp at hc; subst hc; decide)]
    simp only
    cases hfs : fs with
    | nil => exact absurd hfs hfne
    | cons b u =>
      have hb : digitsStr (b :: u) = digitChar b :: digitsStr u := rfl
      rw [hb]
      simp only
      rw [← this, numVal_digitsStr _ (by rw [← hds]; exact h)]

theorem takeNum_fixed (w n : Nat) (rest : List Char) :
    takeNum w (digitsStr (fixedDigits w n) ++ rest) = some (n % 10 ^ w, rest) := by
  unfold takeNum
  have hl : (digitsStr (fixedDigits w n)).length = w := by simp [digitsStr, fixedDigits_length]
  have ht : (digitsStr (fixedDigits w n) ++ rest).take w = digitsStr (fixedDigits w n) := by
    rw [List.take_append_of_le_length (by omega), List.take_of_length_le (by omega)]
  have hd : (digitsStr (fixedDigits w n) ++ rest).drop w = rest := by
    rw [List.drop_append_of_le_length (by omega), List.drop_of_length_le (by omega)]
    rfl
  simp only [ht, hd, hl]
  have hall : (digitsStr (fixedDigits w n)).all isDigit = true := by
    rw [List.all_eq_true]
    exact digitsStr_all_digit _ (fixedDigits_lt10 w n)
  rw [if_pos ⟨trivial, hall⟩, numVal_digitsStr _ (fixedDigits_lt10 w n), decVal_fixedDigits]

theorem toDec_two (n : Nat) (h1 : 10 ≤ n) (h2 : n < 100) : toDec n = [n / 10, n % 10] := by
  unfold toDec
  rw [if_neg (by omega)]
  match n, h1, h2 with
  | k+1, h1, h2 =>
    rw [toDecAux]
    match hq : (k+1)/10, (show 0 < (k+1)/10 by omega) with
    | q+1, _ =>
      rw [toDecAux]
      have : (q+1)/10 = 0 := by omega
      rw [this, toDecAux]
      have : (q+1) % 10 = q + 1 := by omega
      rw [this]

theorem toDecAux_length_ge (d : Nat) (acc : List Nat) : acc.length ≤ (toDecAux d acc).length := by
  induction d using Nat.strongRecOn generalizing acc with
  | _ d ih =>
    cases d with
    | zero => simp [toDecAux]
    | succ d =>
      rw [toDecAux]
      have := ih ((d+1)/10) (by omega) ((d+1) % 10 :: acc)
      simp at this
      omega

theorem toDec_length_ge2 (n : Nat) (h : 10 ≤ n) : 2 ≤ (toDec n).length := by
  unfold toDec
  rw [if_neg (by omega)]
  match n, h with
  | k+1, h =>
    rw [toDecAux]
    match hq : (k+1)/10, (show 0 < (k+1)/10 by omega) with
    | q+1, _ =>
      rw [toDecAux]
      have := toDecAux_length_ge ((q+1)/10) [(q+1) % 10, (k+1) % 10]
      simpa using this

/-! ### hexadecimal -/

theorem hexPair_hex2 : ∀ v, v < 256 →
    hexPair (hexDigitChar (v / 16)) (hexDigitChar (v % 16)) = some v := by decide +kernel

theorem hex2_isHex : ∀ v, v < 256 →
    (hexVal (hexDigitChar (v / 16))).isSome = true ∧ (hexVal (hexDigitChar (v % 16))).isSome = true := by
  decide +kernel

end Odf.Codec
