import OdfProofs.TableHist
import OdfProofs.Traverse
import OdfModel.TableObj

/-! The object layer (wrapper caches) refines the XML-level table model. -/
namespace Odf.TableObj
open Odf.Rle Odf.Table

/-! ### the cache as an association list -/

theorem lookup_filter_ne {β : Type} (c : List (Nat × β)) (k k' : Nat) (h : k' ≠ k) :
    (c.filter (fun p => p.1 != k)).lookup k' = c.lookup k' := by
  induction c with
  | nil => rfl
  | cons hd tl ih =>
    obtain ⟨a, b⟩ := hd
    by_cases ha : a = k
    · subst ha
      have : (k' == a) = false := by simpa using h
      simp [List.filter, List.lookup, this, ih]
    · have hf : (a != k) = true := by simpa using ha
      simp only [List.filter, hf, List.lookup]
      split <;> simp_all

theorem lookup_store_self {β : Type} (c : List (Nat × β)) (k : Nat) (v : β) :
    (store c k v).lookup k = some v := by
  simp [store, List.lookup]

theorem lookup_store_ne {β : Type} (c : List (Nat × β)) (k k' : Nat) (v : β) (h : k' ≠ k) :
    (store c k v).lookup k' = c.lookup k' := by
  have : (k' == k) = false := by simpa using h
  simp only [store, List.lookup, this]
  exact lookup_filter_ne c k k' h

/-! ### coherence of the wrapper caches -/

/-- a wrapper still describes its element: its own map is the one a fresh wrapper would
    compute, every cached cell is the cell at its key -/
def WOk (w : RowW) (d : RowD) : Prop :=
  w.rmap = makeCacheMap d ∧ ∀ i p, w.ccache.lookup i = some p → ∃ n, d[i]? = some (p, n)

/-- every cached wrapper still describes the element at its key -/
def CacheOk (o : OTbl) : Prop :=
  ∀ idx w, o.tcache.lookup idx = some w → ∃ d rep, o.t.rows.runs[idx]? = some (d, rep) ∧ WOk w d

theorem WOk.newW (d : RowD) : WOk (newW d) d := ⟨rfl, fun i p h => by simp [TableObj.newW, List.lookup] at h⟩

theorem CacheOk.parsed (t : Tbl) : CacheOk (parsed t) := fun idx w h => by simp [TableObj.parsed, List.lookup] at h

theorem wObj_of_ok (w : RowW) (d : RowD) (h : WOk w d) : wObj w d = rowObj d := by
  simp [wObj, rowObj, fresh, h.1]

theorem CacheOk.store (o : OTbl) (hc : CacheOk o) (idx : Nat) (w : RowW) (d : RowD) (rep : Nat)
    (hd : o.t.rows.runs[idx]? = some (d, rep)) (hw : WOk w d) :
    CacheOk { o with tcache := store o.tcache idx w } := by
  intro i w' h
  by_cases hi : i = idx
  · subst hi
    rw [lookup_store_self] at h
    cases h
    exact ⟨d, rep, hd, hw⟩
  · rw [lookup_store_ne _ _ _ _ hi] at h
    exact hc i w' h

/-- `_get_row2_base` on a coherent cache: the wrapper it hands out is as good as a new one -/
theorem getRowBase_some (o : OTbl) (hc : CacheOk o) (y idx : Nat) (d : RowD) (rep : Nat)
    (h : rowAt o.t y = some (idx, d, rep)) :
    ∃ o1 w, getRowBase o y = some (o1, idx, w, d, rep) ∧ o1.t = o.t ∧ CacheOk o1 ∧ WOk w d ∧
      o1.tcache.lookup idx = some w ∧ o.t.rows.runs[idx]? = some (d, rep) := by
  unfold rowAt at h
  unfold getRowBase
  cases hf : findOdfIdx o.t.rows.map y with
  | none => simp [hf] at h
  | some i =>
    simp only [hf] at h ⊢
    cases hr : o.t.rows.runs[i]? with
    | none => simp [hr] at h
    | some p =>
      obtain ⟨d', rep'⟩ := p
      simp only [hr, Option.map_some, Option.some.injEq, Prod.mk.injEq] at h
      obtain ⟨rfl, rfl, rfl⟩ := h
      simp only
      cases hl : o.tcache.lookup i with
      | some w =>
        obtain ⟨d2, rep2, hd2, hw⟩ := hc i w hl
        rw [hr] at hd2
        cases hd2
        exact ⟨o, w, rfl, rfl, hc, hw, hl, hr⟩
      | none =>
        refine ⟨_, newW d', rfl, rfl, ?_, WOk.newW d', lookup_store_self _ _ _, hr⟩
        exact CacheOk.store o hc i (newW d') d' rep' hr (WOk.newW d')

theorem getRowBase_none (o : OTbl) (y : Nat) (h : rowAt o.t y = none) : getRowBase o y = none := by
  unfold rowAt at h
  unfold getRowBase
  cases hf : findOdfIdx o.t.rows.map y with
  | none => rfl
  | some i =>
    simp only [hf] at h ⊢
    cases hr : o.t.rows.runs[i]? with
    | none => rfl
    | some p => simp [hr] at h

/-! ### table-level helpers -/

theorem appendRowW_eq (t : Tbl) (d : RowD) (x m : Nat) :
    appendRowW t d x m (rowWidth (rowObj d)) = appendRow t d x m := rfl

theorem updateWidth_rows (t : Tbl) (rw : Nat) : (updateWidth t rw).rows = t.rows := by
  unfold updateWidth appendColumn; split <;> rfl

theorem appendRowW_runs (t : Tbl) (d : RowD) (x m rw : Nat) :
    (appendRowW t d x m rw).rows.runs = t.rows.runs ++ [(d, x)] := by
  unfold appendRowW
  simp only [updateWidth_rows]
  split <;> rfl

theorem rowWidth_of_ok (ro : RowObj) (h : MapOk ro) : rowWidth ro = rowWidth (rowObj ro.runs) := by
  unfold rowWidth rowObj fresh Rle.size
  rw [h.1]

theorem setRowW_t (o : OTbl) (y : Nat) (d : RowD) (rep : Nat) :
    (setRowW o y d rep (rowWidth (rowObj d))).map (·.t) = Table.setRow o.t y d rep := by
  unfold setRowW Table.setRow
  simp only [appendRowW_eq]
  split
  · rfl
  · split
    · rfl
    · cases setItem o.t.rows y d rep <;> rfl

theorem insertRowW_t (o : OTbl) (y : Nat) (d : RowD) (rep : Nat) :
    (insertRowW o y d rep (rowWidth (rowObj d))).map (·.t) = Table.insertRow o.t y d rep := by
  unfold insertRowW Table.insertRow
  simp only [appendRowW_eq]
  split
  · cases insertItem o.t.rows y d rep <;> rfl
  · split <;> rfl

theorem deleteRowW_t (o : OTbl) (y : Nat) : (deleteRowW o y).map (·.t) = Table.deleteRow o.t y := by
  unfold deleteRowW Table.deleteRow
  split
  · rfl
  · cases deleteItem o.t.rows y <;> rfl

/-- a coherent cache survives anything that keeps the stored row elements where they are -/
theorem CacheOk.of_prefix (o : OTbl) (hc : CacheOk o) (t' : Tbl)
    (hp : ∀ (idx : Nat) (p : RowD × Nat), o.t.rows.runs[idx]? = some p → t'.rows.runs[idx]? = some p) :
    CacheOk { t := t', tcache := o.tcache } := by
  intro idx w h
  obtain ⟨d, rep, hd, hw⟩ := hc idx w h
  exact ⟨d, rep, hp idx _ hd, hw⟩

theorem CacheOk.empty (t : Tbl) : CacheOk { t := t, tcache := [] } := fun idx w h => by simp at h

theorem getElem?_append_some {β : Type} (a b : List β) (i : Nat) (x : β) (h : a[i]? = some x) :
    (a ++ b)[i]? = some x := by
  have hi : i < a.length := by
    rcases Nat.lt_or_ge i a.length with hlt | hge
    · exact hlt
    · rw [List.getElem?_eq_none hge] at h
      cases h
  rw [List.getElem?_append_left hi]; exact h

theorem setRowW_cacheOk (o : OTbl) (hc : CacheOk o) (y : Nat) (d : RowD) (rep rw : Nat) (o' : OTbl)
    (h : setRowW o y d rep rw = some o') : CacheOk o' := by
  unfold setRowW at h
  simp only at h
  split at h
  · cases h
    exact CacheOk.of_prefix o hc _ (fun idx p hp => by
      rw [updateWidth_rows, appendRowW_runs]; exact getElem?_append_some _ _ _ _ hp)
  · split at h
    · cases h
      exact CacheOk.of_prefix o hc _ (fun idx p hp => by
        rw [updateWidth_rows, appendRowW_runs, appendRowW_runs]
        exact getElem?_append_some _ _ _ _ (getElem?_append_some _ _ _ _ hp))
    · cases hs : setItem o.t.rows y d rep with
      | none => simp [hs] at h
      | some rows' =>
        simp only [hs, Option.map_some, Option.some.injEq] at h
        subst h
        exact CacheOk.empty _

theorem insertRowW_cacheOk (o : OTbl) (hc : CacheOk o) (y : Nat) (d : RowD) (rep rw : Nat) (o' : OTbl)
    (h : insertRowW o y d rep rw = some o') : CacheOk o' := by
  unfold insertRowW at h
  simp only at h
  split at h
  · cases hs : insertItem o.t.rows y d rep with
    | none => simp [hs] at h
    | some rows' =>
      simp only [hs, Option.map_some, Option.some.injEq] at h
      subst h
      exact CacheOk.empty _
  · split at h
    · cases h
      exact CacheOk.of_prefix o hc _ (fun idx p hp => by
        rw [updateWidth_rows, appendRowW_runs]; exact getElem?_append_some _ _ _ _ hp)
    · cases h
      exact CacheOk.of_prefix o hc _ (fun idx p hp => by
        rw [updateWidth_rows, appendRowW_runs, appendRowW_runs]
        exact getElem?_append_some _ _ _ _ (getElem?_append_some _ _ _ _ hp))

theorem deleteRowW_cacheOk (o : OTbl) (hc : CacheOk o) (y : Nat) (o' : OTbl)
    (h : deleteRowW o y = some o') : CacheOk o' := by
  unfold deleteRowW at h
  split at h
  · cases h; exact hc
  · cases hs : deleteItem o.t.rows y with
    | none => simp [hs] at h
    | some rows' =>
      simp only [hs, Option.map_some, Option.some.injEq] at h
      subst h
      exact CacheOk.empty _

/-! ### the cell-level operations -/

theorem pos_nil : Pos ([] : RowD) := by intro p hp; simp at hp

theorem oSetCell_t (o : OTbl) (hc : CacheOk o) (hi : Inv o.t) (x y : Int) (c rep : Nat) (hrep : 1 ≤ rep) :
    (oSetCell o x y c rep).map (·.t) = setCell o.t x y c rep := by
  unfold oSetCell setCell
  simp only
  split
  · obtain ⟨ro, e, m, _⟩ := rowSetCell_ok (rowObj []) (rowObj_ok [] pos_nil) (tr x (width o.t)) c rep hrep
    rw [e]
    simp only [Option.bind_some]
    rw [rowWidth_of_ok ro m]
    exact setRowW_t o _ ro.runs 1
  · unfold editRow
    cases hra : rowAt o.t (tr y (height o.t)) with
    | none => rw [getRowBase_none o _ hra]; rfl
    | some r =>
      obtain ⟨idx, d, rrep⟩ := r
      obtain ⟨o1, w, e, ht, hc1, hw, hl, hr⟩ := getRowBase_some o hc _ idx d rrep hra
      rw [e]
      simp only
      rw [wObj_of_ok w d hw]
      have hpos : Pos d := hi.cells (d, rrep) (List.mem_of_getElem? hr)
      obtain ⟨ro, e2, m, _⟩ := rowSetCell_ok (rowObj d) (rowObj_ok d hpos) (tr x (width o.t)) c rep hrep
      rw [e2]
      simp only [Option.bind_some, Option.map_some]
      split
      · rw [rowWidth_of_ok ro m, ← ht]
        exact setRowW_t o1 _ ro.runs 1
      · simp [ht]

theorem rowSetCell_prefix (ro : RowObj) (x c rep : Nat) (h : ¬ x < rowWidth ro) (ro' : RowObj)
    (e : rowSetCell ro x c rep = some ro') : ∃ tail, ro'.runs = ro.runs ++ tail := by
  unfold rowSetCell at e
  simp only at e
  split at e
  · cases e; exact ⟨[(c, rep)], rfl⟩
  · split at e
    · cases e; exact ⟨[(emptyCell, x - rowWidth ro)] ++ [(c, rep)], by simp [rowAppend, appendItem]⟩
    · omega

/-- the in-place edit through a cached wrapper keeps the whole cache coherent -/
theorem inplace_cacheOk (o1 : OTbl) (hc1 : CacheOk o1) (idx : Nat) (d : RowD) (rrep : Nat)
    (hr : o1.t.rows.runs[idx]? = some (d, rrep)) (ro : RowObj) (m : MapOk ro) (cc : List (Nat × Nat))
    (hcc : ∀ i p, cc.lookup i = some p → ∃ n, ro.runs[i]? = some (p, n)) (t' : Tbl)
    (ht' : t'.rows.runs = o1.t.rows.runs.set idx (ro.runs, rrep)) :
    CacheOk { t := t', tcache := store o1.tcache idx { rmap := ro.map, ccache := cc } } := by
  have hlt : idx < o1.t.rows.runs.length := by
    rcases Nat.lt_or_ge idx o1.t.rows.runs.length with hlt | hge
    · exact hlt
    · rw [List.getElem?_eq_none hge] at hr; cases hr
  intro i w' h
  by_cases hi : i = idx
  · subst hi
    rw [lookup_store_self] at h
    cases h
    refine ⟨ro.runs, rrep, ?_, m.1, hcc⟩
    rw [ht', List.getElem?_set_self hlt]
  · rw [lookup_store_ne _ _ _ _ hi] at h
    obtain ⟨d2, rep2, hd2, hw2⟩ := hc1 i w' h
    refine ⟨d2, rep2, ?_, hw2⟩
    rw [ht', List.getElem?_set_ne (Ne.symm hi)]
    exact hd2

theorem oSetCell_cacheOk (o : OTbl) (hc : CacheOk o) (hi : Inv o.t) (x y : Int) (c rep : Nat) (hrep : 1 ≤ rep)
    (o' : OTbl) (h : oSetCell o x y c rep = some o') : CacheOk o' := by
  unfold oSetCell at h
  simp only at h
  split at h
  · cases hs : rowSetCell (rowObj []) (tr x (width o.t)) c rep with
    | none => simp [hs] at h
    | some ro =>
      simp only [hs, Option.bind_some] at h
      exact setRowW_cacheOk o hc _ _ _ _ o' h
  · cases hra : rowAt o.t (tr y (height o.t)) with
    | none => rw [getRowBase_none o _ hra] at h; cases h
    | some r =>
      obtain ⟨idx, d, rrep⟩ := r
      obtain ⟨o1, w, e, ht, hc1, hw, hl, hr⟩ := getRowBase_some o hc _ idx d rrep hra
      rw [e] at h
      simp only at h
      have hpos : Pos d := hi.cells (d, rrep) (List.mem_of_getElem? hr)
      have hwo := wObj_of_ok w d hw
      obtain ⟨ro, e2, m, _⟩ := rowSetCell_ok (rowObj d) (rowObj_ok d hpos) (tr x (width o.t)) c rep hrep
      rw [hwo, e2] at h
      simp only [Option.bind_some, Option.map_some] at h
      split at h
      · exact setRowW_cacheOk o1 hc1 _ _ _ _ o' h
      · cases h
        refine inplace_cacheOk o1 hc1 idx d rrep (ht ▸ hr) ro m _ ?_ _ (by rw [updateWidth_rows])
        intro i p hlk
        split at hlk
        · simp at hlk
        · rename_i hx
          obtain ⟨n, hn⟩ := hw.2 i p hlk
          obtain ⟨tail, htl⟩ := rowSetCell_prefix (rowObj d) _ c rep hx ro e2
          exact ⟨n, by rw [htl]; exact getElem?_append_some _ _ _ _ hn⟩

theorem oDeleteCell_t (o : OTbl) (hc : CacheOk o) (hi : Inv o.t) (x y : Int) :
    (oDeleteCell o x y).map (·.t) = deleteCell o.t x y := by
  unfold oDeleteCell deleteCell
  simp only
  split
  · rfl
  · cases hra : rowAt o.t (tr y (height o.t)) with
    | none => rw [getRowBase_none o _ hra]; rfl
    | some r =>
      obtain ⟨idx, d, rrep⟩ := r
      obtain ⟨o1, w, e, ht, hc1, hw, hl, hr⟩ := getRowBase_some o hc _ idx d rrep hra
      rw [e]
      simp only
      rw [wObj_of_ok w d hw]
      have hpos : Pos d := hi.cells (d, rrep) (List.mem_of_getElem? hr)
      obtain ⟨ro, e2, m, _⟩ := rowDeleteCell_ok (rowObj d) (rowObj_ok d hpos) (tr x (width o.t))
      rw [e2]
      simp only [Option.bind_some, Option.map_some]
      split
      · rw [rowWidth_of_ok ro m, ← ht]
        exact setRowW_t o1 _ ro.runs 1
      · simp [ht]

theorem rowDeleteCell_same (ro : RowObj) (x : Nat) (h : ¬ x < rowWidth ro) (ro' : RowObj)
    (e : rowDeleteCell ro x = some ro') : ro' = ro := by
  unfold rowDeleteCell at e
  split at e
  · cases e; rfl
  · omega

theorem oDeleteCell_cacheOk (o : OTbl) (hc : CacheOk o) (hi : Inv o.t) (x y : Int)
    (o' : OTbl) (h : oDeleteCell o x y = some o') : CacheOk o' := by
  unfold oDeleteCell at h
  simp only at h
  split at h
  · cases h; exact hc
  · cases hra : rowAt o.t (tr y (height o.t)) with
    | none => rw [getRowBase_none o _ hra] at h; cases h
    | some r =>
      obtain ⟨idx, d, rrep⟩ := r
      obtain ⟨o1, w, e, ht, hc1, hw, hl, hr⟩ := getRowBase_some o hc _ idx d rrep hra
      rw [e] at h
      simp only at h
      have hpos : Pos d := hi.cells (d, rrep) (List.mem_of_getElem? hr)
      have hwo := wObj_of_ok w d hw
      obtain ⟨ro, e2, m, _⟩ := rowDeleteCell_ok (rowObj d) (rowObj_ok d hpos) (tr x (width o.t))
      rw [hwo, e2] at h
      simp only [Option.bind_some, Option.map_some] at h
      split at h
      · exact setRowW_cacheOk o1 hc1 _ _ _ _ o' h
      · cases h
        refine inplace_cacheOk o1 hc1 idx d rrep (ht ▸ hr) ro m _ ?_ _ rfl
        intro i p hlk
        split at hlk
        · simp at hlk
        · rename_i hx
          obtain ⟨n, hn⟩ := hw.2 i p hlk
          have := rowDeleteCell_same (rowObj d) _ hx ro e2
          subst this
          exact ⟨n, hn⟩

/-! ### copy of a row, edited, put back -/

theorem getRowCopyW_spec (o : OTbl) (hc : CacheOk o) (y : Nat) :
    (∃ o1 d, getRowCopyW o y = some (o1, rowObj d) ∧ getRowCopy o.t y = some d ∧ o1.t = o.t ∧ CacheOk o1) ∨
    (getRowCopyW o y = none ∧ getRowCopy o.t y = none) := by
  unfold getRowCopyW getRowCopy
  split
  · exact Or.inl ⟨o, [], rfl, rfl, rfl, hc⟩
  · cases hra : rowAt o.t y with
    | none => right; rw [getRowBase_none o _ hra]; exact ⟨rfl, rfl⟩
    | some r =>
      obtain ⟨idx, d, rrep⟩ := r
      obtain ⟨o1, w, e, ht, hc1, hw, hl, hr⟩ := getRowBase_some o hc _ idx d rrep hra
      left
      refine ⟨o1, d, ?_, rfl, ht, hc1⟩
      rw [e]
      simp only [Option.map_some]
      rw [wObj_of_ok w d hw]

theorem oSetLine_t (o : OTbl) (hc : CacheOk o) (hi : Inv o.t) (y : Nat) (f : RowObj → Option RowObj)
    (hf : ∀ ro, MapOk ro → ∀ ro', f ro = some ro' → MapOk ro') :
    (oSetLine o y f).map (·.t) = setLine o.t y f := by
  unfold oSetLine setLine
  rcases getRowCopyW_spec o hc y with ⟨o1, d, e1, e2, ht, hc1⟩ | ⟨e1, e2⟩
  · rw [e1, e2]
    simp only [Option.bind_some]
    have hpos : Pos d := by
      unfold getRowCopy at e2
      split at e2
      · cases e2; exact pos_nil
      · cases hra : rowAt o.t y with
        | none => simp [hra] at e2
        | some r =>
          obtain ⟨idx, d', rrep⟩ := r
          simp only [hra, Option.map_some, Option.some.injEq] at e2
          subst e2
          unfold rowAt at hra
          cases hfi : findOdfIdx o.t.rows.map y with
          | none => simp [hfi] at hra
          | some i =>
            simp only [hfi] at hra
            cases hr : o.t.rows.runs[i]? with
            | none => simp [hr] at hra
            | some p =>
              simp only [hr, Option.map_some, Option.some.injEq, Prod.mk.injEq] at hra
              obtain ⟨_, h2, _⟩ := hra
              subst h2
              exact hi.cells p (List.mem_of_getElem? hr)
    cases hfr : f (rowObj d) with
    | none => rfl
    | some ro =>
      have m := hf _ (rowObj_ok d hpos) ro hfr
      simp only [Option.bind_some]
      rw [rowWidth_of_ok ro m, ← ht]
      have := setRowW_t o1 y ro.runs 1
      cases hs : setRowW o1 y ro.runs 1 (rowWidth (rowObj ro.runs)) with
      | none => rw [hs] at this; simp only [Option.map_none] at this ⊢; rw [← this]; rfl
      | some o2 => rw [hs] at this; simp only [Option.map_some] at this ⊢; rw [← this]; rfl
  · rw [e1, e2]; rfl

theorem oSetLine_cacheOk (o : OTbl) (hc : CacheOk o) (y : Nat) (f : RowObj → Option RowObj)
    (o' : OTbl) (h : oSetLine o y f = some o') : CacheOk o' := by
  unfold oSetLine at h
  rcases getRowCopyW_spec o hc y with ⟨o1, d, e1, e2, ht, hc1⟩ | ⟨e1, e2⟩
  · rw [e1] at h
    simp only [Option.bind_some] at h
    cases hfr : f (rowObj d) with
    | none => simp [hfr] at h
    | some ro =>
      simp only [hfr, Option.bind_some] at h
      cases hs : setRowW o1 y ro.runs 1 (rowWidth ro) with
      | none => simp [hs] at h
      | some o2 =>
        simp only [hs, Option.map_some, Option.some.injEq] at h
        subst h
        have := setRowW_cacheOk o1 hc1 _ _ _ _ o2 hs
        exact CacheOk.of_prefix o2 this _ (fun idx p hp => by rw [updateWidth_rows]; exact hp)
  · rw [e1] at h; cases h

theorem rowSpec_mapOk {f : RowObj → Option RowObj} {F : List Nat → List Nat} (hf : RowSpec f F) :
    ∀ ro, MapOk ro → ∀ ro', f ro = some ro' → MapOk ro' := by
  intro ro m ro' e
  obtain ⟨r2, e2, m2, _⟩ := hf ro m
  rw [e] at e2
  cases e2
  exact m2

/-- the line loop of `set_values` / `set_cells` through the wrapper cache against the loop of
    the XML-level model -/
theorem oLinesLoop_ok {L : Type} (skip : L → Prop) [DecidablePred skip] (f : L → RowObj → Option RowObj)
    (F : L → List Nat → List Nat) (lines : List L) (hf : ∀ l ∈ lines, ¬ skip l → RowSpec (f l) (F l))
    (o : OTbl) (hc : CacheOk o) (hi : Inv o.t) (yn : Nat) :
    ∃ o', lines.foldl (fun (acc : Option (OTbl × Nat)) line =>
        acc.bind (fun (o, yy) =>
          if skip line then some (o, yy + 1)
          else (oSetLine o yy (f line)).map (fun o' => (o', yy + 1)))) (some (o, yn)) = some (o', yn + lines.length) ∧
      CacheOk o' ∧
      lines.foldl (fun (acc : Option (Tbl × Nat)) line =>
        acc.bind (fun (t, yy) =>
          if skip line then some (t, yy + 1)
          else (setLine t yy (f line)).map (fun t' => (t', yy + 1)))) (some (o.t, yn)) = some (o'.t, yn + lines.length) := by
  induction lines generalizing o yn with
  | nil => exact ⟨o, rfl, hc, rfl⟩
  | cons l rest ih =>
    simp only [List.foldl_cons, Option.bind_some, List.length_cons]
    by_cases hs : skip l
    · simp only [hs, if_true]
      obtain ⟨o', e, c, e'⟩ := ih (fun x hx => hf x (by simp [hx])) o hc hi (yn + 1)
      exact ⟨o', by rw [e]; congr 2; omega, c, by rw [e']; congr 2; omega⟩
    · simp only [hs, if_false]
      have hspec := hf l (by simp) hs
      obtain ⟨t1, e1, i1, _⟩ := copyEdit_ok o.t hi yn (f l) (F l) hspec
      have hsl : setLine o.t yn (f l) = some t1 := e1
      have hrt := oSetLine_t o hc hi yn (f l) (rowSpec_mapOk hspec)
      rw [hsl] at hrt
      cases ho : oSetLine o yn (f l) with
      | none => rw [ho] at hrt; cases hrt
      | some o1 =>
        rw [ho] at hrt
        simp only [Option.map_some, Option.some.injEq] at hrt
        have hc1 := oSetLine_cacheOk o hc yn (f l) o1 ho
        obtain ⟨o', e, c, e'⟩ := ih (fun x hx => hf x (by simp [hx])) o1 hc1 (hrt ▸ i1) (yn + 1)
        refine ⟨o', ?_, c, ?_⟩
        · simp only [Option.map_some]; rw [e]; congr 2; omega
        · rw [hsl]; simp only [Option.map_some]; rw [← hrt, e']; congr 2; omega

theorem oSetCells_ok (o : OTbl) (hc : CacheOk o) (hi : Inv o.t) (x y : Int) (m : List (List (Nat × Nat)))
    (hpos : ∀ line ∈ m, ∀ c ∈ line, 1 ≤ c.2) :
    ∃ o', oSetCells o x y m = some o' ∧ CacheOk o' ∧ setCells o.t x y m = some o'.t := by
  obtain ⟨o', e, c, e'⟩ := oLinesLoop_ok (fun (line : List (Nat × Nat)) => line = [])
    (fun line ro => rowSetCells ro line (tr x (width o.t))) (fun line => Grid.lineF line (tr x (width o.t))) m
    (fun l hl _ => rowSetCells_spec l _ (hpos l hl)) o hc hi (tr y (height o.t))
  refine ⟨o', ?_, c, ?_⟩
  · unfold oSetCells; simp only; rw [e]; rfl
  · unfold setCells; simp only; rw [e']; rfl

theorem oSetValues_ok (o : OTbl) (hc : CacheOk o) (hi : Inv o.t) (x y : Int) (m : List (List Nat)) :
    ∃ o', oSetValues o x y m = some o' ∧ CacheOk o' ∧ setValues o.t x y m = some o'.t := by
  obtain ⟨o', e, c, e'⟩ := oLinesLoop_ok (fun (line : List Nat) => line = [])
    (fun line ro => rowSetValues ro line (tr x (width o.t))) (fun line => Grid.lineF (line.map (fun v => (v, 1))) (tr x (width o.t))) m
    (fun l _ _ => rowSetValues_spec l _) o hc hi (tr y (height o.t))
  refine ⟨o', ?_, c, ?_⟩
  · unfold oSetValues; simp only; rw [e]; rfl
  · unfold setValues; simp only; rw [e']; rfl

theorem deleteColumn_beyond (t : Tbl) (x : Int) (h : tr x (width t) ≥ width t) : deleteColumn t x = some t := by
  unfold deleteColumn
  simp only
  rw [if_pos h]

/-! ### one step of the alphabet -/

/-- **refinement**: on a coherent cache, every operation made through the cached wrappers does to
    the XML and the table maps exactly what the same operation does on a table without any
    wrapper cache -/
theorem ostep_refines (o : OTbl) (hc : CacheOk o) (hi : Inv o.t) (op : Op) (hv : op.Valid) :
    (ostep o op).map (·.t) = step o.t op := by
  cases op with
  | setCell x y c rep => exact oSetCell_t o hc hi x y c rep hv
  | insertCell x y c rep =>
    exact oSetLine_t o hc hi (tr y (height o.t)) (fun ro => rowInsertCell ro (tr x (width o.t)) c rep) (fun ro m ro' e => by
      obtain ⟨r2, e2, m2, _⟩ := rowInsertCell_ok ro m (tr x (width o.t)) c rep hv
      rw [e] at e2; cases e2; exact m2)
  | appendCell y c rep =>
    exact oSetLine_t o hc hi (tr y (height o.t)) (fun ro => some (rowAppend ro c rep)) (fun ro m ro' e => by
      cases e; exact (rowAppend_ok ro m c rep hv).1)
  | deleteCell x y => exact oDeleteCell_t o hc hi x y
  | setRow y d rep => exact setRowW_t o _ d rep
  | insertRow y d rep => exact insertRowW_t o _ d rep
  | appendRow d rep => rfl
  | deleteRow y => exact deleteRowW_t o _
  | insertColumn x rep =>
    show (oInsertColumn o x rep).map (·.t) = insertColumn o.t x rep
    unfold oInsertColumn
    cases insertColumn o.t x rep <;> rfl
  | appendColumn rep => rfl
  | deleteColumn x =>
    show (oDeleteColumn o x).map (·.t) = deleteColumn o.t x
    unfold oDeleteColumn
    split
    · rename_i hb
      rw [deleteColumn_beyond o.t x hb]; rfl
    · cases deleteColumn o.t x <;> rfl
  | setCells x y m =>
    obtain ⟨o', e, _, e'⟩ := oSetCells_ok o hc hi x y m hv
    show (oSetCells o x y m).map (·.t) = setCells o.t x y m
    rw [e, e']; rfl
  | setValues x y m =>
    obtain ⟨o', e, _, e'⟩ := oSetValues_ok o hc hi x y m
    show (oSetValues o x y m).map (·.t) = setValues o.t x y m
    rw [e, e']; rfl
  | rstrip a => rfl
  | transpose => rfl

/-- **the caches stay coherent**: after every operation every cached wrapper still describes
    the element at its key (or the cache was emptied) -/
theorem ostep_cacheOk (o : OTbl) (hc : CacheOk o) (hi : Inv o.t) (op : Op) (hv : op.Valid)
    (o' : OTbl) (h : ostep o op = some o') : CacheOk o' := by
  cases op with
  | setCell x y c rep => exact oSetCell_cacheOk o hc hi x y c rep hv o' h
  | insertCell x y c rep =>
    have h' : oSetLine o (tr y (height o.t)) (fun ro => rowInsertCell ro (tr x (width o.t)) c rep) = some o' := h
    exact oSetLine_cacheOk o hc _ _ o' h'
  | appendCell y c rep =>
    have h' : oSetLine o (tr y (height o.t)) (fun ro => some (rowAppend ro c rep)) = some o' := h
    exact oSetLine_cacheOk o hc _ _ o' h'
  | deleteCell x y => exact oDeleteCell_cacheOk o hc hi x y o' h
  | setRow y d rep => exact setRowW_cacheOk o hc _ _ _ _ o' h
  | insertRow y d rep => exact insertRowW_cacheOk o hc _ _ _ _ o' h
  | appendRow d rep =>
    cases h
    exact CacheOk.of_prefix o hc _ (fun idx p hp => by
      rw [appendRowW_runs]; exact getElem?_append_some _ _ _ _ hp)
  | deleteRow y => exact deleteRowW_cacheOk o hc _ o' h
  | insertColumn x rep =>
    have h' : oInsertColumn o x rep = some o' := h
    unfold oInsertColumn at h'
    cases hs : insertColumn o.t x rep with
    | none => simp [hs] at h'
    | some t' => simp only [hs, Option.map_some, Option.some.injEq] at h'; subst h'; exact CacheOk.empty _
  | appendColumn rep =>
    cases h
    exact CacheOk.of_prefix o hc _ (fun idx p hp => hp)
  | deleteColumn x =>
    have h' : oDeleteColumn o x = some o' := h
    unfold oDeleteColumn at h'
    split at h'
    · cases h'; exact hc
    · cases hs : deleteColumn o.t x with
      | none => simp [hs] at h'
      | some t' => simp only [hs, Option.map_some, Option.some.injEq] at h'; subst h'; exact CacheOk.empty _
  | setCells x y m =>
    obtain ⟨o2, e, c, _⟩ := oSetCells_ok o hc hi x y m hv
    have h' : oSetCells o x y m = some o' := h
    rw [e] at h'; cases h'; exact c
  | setValues x y m =>
    obtain ⟨o2, e, c, _⟩ := oSetValues_ok o hc hi x y m
    have h' : oSetValues o x y m = some o' := h
    rw [e] at h'; cases h'; exact c
  | rstrip a => cases h; exact CacheOk.empty _
  | transpose => cases h; exact CacheOk.empty _

/-! ### reads through the caches -/

theorem WOk.storeCell (w : RowW) (d : RowD) (hw : WOk w d) (i p n : Nat) (h : d[i]? = some (p, n)) :
    WOk { w with ccache := store w.ccache i p } d := by
  refine ⟨hw.1, ?_⟩
  intro j q hl
  by_cases hj : j = i
  · subst hj
    simp only at hl
    rw [lookup_store_self] at hl
    cases hl
    exact ⟨n, h⟩
  · simp only at hl
    rw [lookup_store_ne _ _ _ _ hj] at hl
    exact hw.2 j q hl

theorem wGetCell_ok (w : RowW) (d : RowD) (hw : WOk w d) (x : Nat) :
    (wGetCell w d x).1.getD emptyCell =
      (match findOdfIdx (makeCacheMap d) x with
        | none => emptyCell
        | some i => ((d[i]?).map (·.1)).getD emptyCell) ∧ WOk (wGetCell w d x).2 d := by
  unfold wGetCell
  rw [show findOdfIdx w.rmap x = findOdfIdx (makeCacheMap d) x from by rw [hw.1]]
  cases hf : findOdfIdx (makeCacheMap d) x with
  | none => exact ⟨rfl, hw⟩
  | some i =>
    simp only
    cases hl : w.ccache.lookup i with
    | some p =>
      obtain ⟨n, hn⟩ := hw.2 i p hl
      simp only [hn, Option.map_some, Option.getD_some, true_and]
      exact hw
    | none =>
      cases hd : d[i]? with
      | none => exact ⟨rfl, hw⟩
      | some q =>
        obtain ⟨p, n⟩ := q
        simp only [Option.map_some, Option.getD_some, true_and]
        exact WOk.storeCell w d hw i p n hd

/-- **get_value** through the caches answers what a table without caches answers, changes no
    XML and leaves the caches coherent -/
theorem oGetValue_ok (o : OTbl) (hc : CacheOk o) (x y : Int) :
    (oGetValue o x y).1 = getValue o.t x y ∧ (oGetValue o x y).2.t = o.t ∧ CacheOk (oGetValue o x y).2 := by
  unfold oGetValue getValue
  simp only
  split
  · exact ⟨rfl, rfl, hc⟩
  · cases hra : rowAt o.t (tr y (height o.t)) with
    | none => rw [getRowBase_none o _ hra]; exact ⟨rfl, rfl, hc⟩
    | some r =>
      obtain ⟨idx, d, rrep⟩ := r
      obtain ⟨o1, w, e, ht, hc1, hw, hl, hr⟩ := getRowBase_some o hc _ idx d rrep hra
      rw [e]
      simp only
      obtain ⟨h1, h2⟩ := wGetCell_ok w d hw (tr x (width o.t))
      refine ⟨?_, ht, ?_⟩
      · rw [h1]; rfl
      · exact CacheOk.store o1 hc1 idx _ d rrep (ht ▸ hr) h2

theorem travLoop_ok (d : RowD) (hpos : Pos d) (rest pre : RowD) (hd : d = pre ++ rest) (out : List Nat) (w : RowW) (hw : WOk w d) :
    ∃ w', (cumFrom (total pre) rest).foldl (travStep d) (out, w, pre.length, total pre) =
        (out ++ expand rest, w', d.length, total d) ∧ WOk w' d := by
  induction rest generalizing pre out w with
  | nil =>
    subst hd
    exact ⟨w, by simp [cumFrom, expand], hw⟩
  | cons hd' tl ih =>
    obtain ⟨c, n⟩ := hd'
    have hidx : d[pre.length]? = some (c, n) := by
      rw [hd]; simp
    have hn : 1 ≤ n := hpos (c, n) (by rw [hd]; simp)
    simp only [cumFrom, List.foldl_cons]
    have hstep : ∃ w1, travStep d (out, w, pre.length, total pre) (total pre + n) =
        (out ++ List.replicate n c, w1, pre.length + 1, total pre + n) ∧ WOk w1 d := by
      unfold travStep
      simp only [hidx]
      have hrep : (if total pre + n - total pre = 0 then 1 else total pre + n - total pre) = n := by
        split <;> omega
      rw [hrep]
      cases hl : w.ccache.lookup pre.length with
      | some p =>
        obtain ⟨n', hn'⟩ := hw.2 _ p hl
        rw [hidx] at hn'
        cases hn'
        exact ⟨w, rfl, hw⟩
      | none => exact ⟨_, rfl, WOk.storeCell w d hw _ c n hidx⟩
    obtain ⟨w1, e1, hw1⟩ := hstep
    rw [e1]
    have := ih (pre ++ [(c, n)]) (by rw [hd]; simp) (out ++ List.replicate n c) w1 hw1
    simp only [total_append, total, List.length_append, List.length_cons, List.length_nil, Nat.add_zero, Nat.zero_add] at this
    obtain ⟨w', e, hw'⟩ := this
    refine ⟨w', ?_, hw'⟩
    rw [e]
    simp [expand, List.append_assoc]

theorem wTraverse_ok (w : RowW) (d : RowD) (hw : WOk w d) (hpos : Pos d) :
    (wTraverse w d).1 = expand d ∧ WOk (wTraverse w d).2 d := by
  unfold wTraverse
  rw [hw.1]
  obtain ⟨w', e, hw'⟩ := travLoop_ok d hpos d [] rfl [] w hw
  simp only [total, List.length_nil] at e
  unfold makeCacheMap
  rw [e]
  exact ⟨by simp, hw'⟩

/-- **get_row_values** through the caches = the expansion of the stored row -/
theorem oGetRowValues_ok (o : OTbl) (hc : CacheOk o) (hi : Inv o.t) (y : Int) :
    (oGetRowValues o y).1 = rowValuesFresh o.t y ∧ (oGetRowValues o y).2.t = o.t ∧ CacheOk (oGetRowValues o y).2 := by
  unfold oGetRowValues rowValuesFresh
  simp only
  split
  · exact ⟨rfl, rfl, hc⟩
  · cases hra : rowAt o.t (tr y (height o.t)) with
    | none => rw [getRowBase_none o _ hra]; exact ⟨rfl, rfl, hc⟩
    | some r =>
      obtain ⟨idx, d, rrep⟩ := r
      obtain ⟨o1, w, e, ht, hc1, hw, hl, hr⟩ := getRowBase_some o hc _ idx d rrep hra
      rw [e]
      simp only
      have hpos : Pos d := hi.cells (d, rrep) (List.mem_of_getElem? hr)
      obtain ⟨h1, h2⟩ := wTraverse_ok w d hw hpos
      refine ⟨by rw [h1], ht, ?_⟩
      exact CacheOk.store o1 hc1 idx _ d rrep (ht ▸ hr) h2

theorem oTouchRow_ok (o : OTbl) (hc : CacheOk o) (y : Int) :
    (oTouchRow o y).t = o.t ∧ CacheOk (oTouchRow o y) := by
  unfold oTouchRow
  simp only
  split
  · exact ⟨rfl, hc⟩
  · cases hra : rowAt o.t (tr y (height o.t)) with
    | none => rw [getRowBase_none o _ hra]; exact ⟨rfl, hc⟩
    | some r =>
      obtain ⟨idx, d, rrep⟩ := r
      obtain ⟨o1, w, e, ht, hc1, hw, hl, hr⟩ := getRowBase_some o hc _ idx d rrep hra
      rw [e]
      exact ⟨ht, hc1⟩

/-! ### histories of mutations interleaved with cache-filling reads -/

/-- the mutations of a history -/
def muts : List OOp → List Op
  | [] => []
  | .edit op :: r => op :: muts r
  | .readValue _ _ :: r => muts r
  | .readRow _ :: r => muts r
  | .touchRow _ :: r => muts r

/-- **every history**: whatever reads filled whatever caches in between, every answer given
    through the caches and the XML reached are those of the same history run on tables that
    never cache a wrapper — i.e. on a fresh parse of the XML at every step -/
theorem cached_history (ops : List OOp) (o : OTbl) (hc : CacheOk o) (hi : Inv o.t)
    (hfit : Table.GridFit (absT o.t))
    (hv : ∀ op ∈ muts ops, op.Valid)
    (hlimbo : ∀ k, k ≤ (muts ops).length → NoLimbo (grun (absT o.t) ((muts ops).take k))) :
    ∃ o' answers, orun o ops = some (o', answers) ∧ frun o.t ops = some (o'.t, answers) ∧
      CacheOk o' ∧ Inv o'.t := by
  induction ops generalizing o with
  | nil => exact ⟨o, [], rfl, rfl, hc, hi⟩
  | cons op ops ih =>
    cases op with
    | edit m =>
      have hvm : m.Valid := hv m (by simp [muts])
      obtain ⟨t1, e1, a1, i1⟩ := step_refines o.t hi hfit m hvm
      have hl1 : NoLimbo (absT t1) := by
        have := hlimbo 1 (by simp [muts])
        simpa [muts, grun, a1] using this
      have hfit1 : Table.GridFit (absT t1) := by rw [a1]; exact fit_gstep _ hfit m
      have hr := ostep_refines o hc hi m hvm
      rw [e1] at hr
      cases ho : ostep o m with
      | none => rw [ho] at hr; cases hr
      | some o1 =>
        rw [ho] at hr
        simp only [Option.map_some, Option.some.injEq] at hr
        have hc1 := ostep_cacheOk o hc hi m hvm o1 ho
        obtain ⟨o', ans, e, f, c, i⟩ := ih o1 hc1 (hr ▸ i1 hl1) (hr ▸ hfit1)
          (fun p hp => hv p (by simp [muts, hp])) (by
            intro k hk
            have := hlimbo (k + 1) (by simp [muts]; omega)
            rw [hr]
            simpa [muts, grun, a1] using this)
        refine ⟨o', [] :: ans, ?_, ?_, c, i⟩
        · simp only [orun, ostepAll, ho, Option.map_some, Option.bind_some, e]
        · simp only [frun, fstepAll, e1, Option.map_some, Option.bind_some]
          rw [← hr, f]; rfl
    | readValue x y =>
      obtain ⟨h1, h2, h3⟩ := oGetValue_ok o hc x y
      obtain ⟨o', ans, e, f, c, i⟩ := ih (oGetValue o x y).2 h3 (h2 ▸ hi) (h2 ▸ hfit)
        (fun p hp => hv p (by simpa [muts] using hp)) (by
          intro k hk
          rw [h2]
          exact hlimbo k (by simpa [muts] using hk))
      refine ⟨o', [(oGetValue o x y).1] :: ans, ?_, ?_, c, i⟩
      · simp only [orun, ostepAll, Option.bind_some, e, Option.map_some]
      · rw [h2] at f
        simp only [frun, fstepAll, Option.bind_some, f, Option.map_some, h1]
    | readRow y =>
      obtain ⟨h1, h2, h3⟩ := oGetRowValues_ok o hc hi y
      obtain ⟨o', ans, e, f, c, i⟩ := ih (oGetRowValues o y).2 h3 (h2 ▸ hi) (h2 ▸ hfit)
        (fun p hp => hv p (by simpa [muts] using hp)) (by
          intro k hk
          rw [h2]
          exact hlimbo k (by simpa [muts] using hk))
      refine ⟨o', (oGetRowValues o y).1 :: ans, ?_, ?_, c, i⟩
      · simp only [orun, ostepAll, Option.bind_some, e, Option.map_some]
      · rw [h2] at f
        simp only [frun, fstepAll, Option.bind_some, f, Option.map_some, h1]
    | touchRow y =>
      obtain ⟨h2, h3⟩ := oTouchRow_ok o hc y
      obtain ⟨o', ans, e, f, c, i⟩ := ih (oTouchRow o y) h3 (h2 ▸ hi) (h2 ▸ hfit)
        (fun p hp => hv p (by simpa [muts] using hp)) (by
          intro k hk
          rw [h2]
          exact hlimbo k (by simpa [muts] using hk))
      refine ⟨o', [] :: ans, ?_, ?_, c, i⟩
      · simp only [orun, ostepAll, Option.bind_some, e, Option.map_some]
      · rw [h2] at f
        simp only [frun, fstepAll, Option.bind_some, f, Option.map_some]

/-! ### down to the plain grid: the answers given through the caches are the answers of C01's spec -/

theorem rowValuesFresh_ok (t : Tbl) (h : Inv t) (y : Int) : rowValuesFresh t y = gridRowValues (absT t) y := by
  unfold rowValuesFresh gridRowValues
  simp only
  rw [tr_eq_norm, width_ok t h, height_ok t h]
  generalize Grid.norm y (Grid.height (absT t)) = yn
  by_cases hy : yn ≥ Grid.height (absT t)
  · rw [if_pos hy, if_pos hy]
  · rw [if_neg hy, if_neg hy]
    have hy' : yn < height t := by rw [height_ok t h]; omega
    obtain ⟨a, b, d, rep, hruns, hrow, hlo, hhi⟩ := rowAt_spec t h yn hy'
    have hgd : (absT t).rows.getD yn [] = expand d := by
      rw [rows_getD, hruns, expand_getD_of_decomp a b d rep _ [] hlo hhi]
    rw [hrow, hgd]
    rfl

/-- the cache-free run of a history on a coherent table is the run of the plain grid -/
theorem frun_is_grid (ops : List OOp) (t : Tbl) (hi : Inv t) (hfit : Table.GridFit (absT t))
    (hv : ∀ op ∈ muts ops, op.Valid)
    (hlimbo : ∀ k, k ≤ (muts ops).length → NoLimbo (grun (absT t) ((muts ops).take k))) :
    ∃ t', frun t ops = some (t', grunAll (absT t) ops) ∧ absT t' = grun (absT t) (muts ops) := by
  induction ops generalizing t with
  | nil => exact ⟨t, rfl, rfl⟩
  | cons op ops ih =>
    cases op with
    | edit m =>
      have hvm : m.Valid := hv m (by simp [muts])
      obtain ⟨t1, e1, a1, i1⟩ := step_refines t hi hfit m hvm
      have hl1 : NoLimbo (absT t1) := by
        have := hlimbo 1 (by simp [muts])
        simpa [muts, grun, a1] using this
      have hfit1 : Table.GridFit (absT t1) := by rw [a1]; exact fit_gstep _ hfit m
      obtain ⟨t', f, a⟩ := ih t1 (i1 hl1) hfit1 (fun p hp => hv p (by simp [muts, hp])) (by
        intro k hk
        have := hlimbo (k + 1) (by simp [muts]; omega)
        simpa [muts, grun, a1] using this)
      refine ⟨t', ?_, ?_⟩
      · simp only [frun, fstepAll, e1, Option.map_some, Option.bind_some, f, grunAll, gstepAll, a1]
      · simp only [muts, grun, ← a1, a]
    | readValue x y =>
      obtain ⟨t', f, a⟩ := ih t hi hfit (fun p hp => hv p (by simpa [muts] using hp)) (by
        intro k hk; exact hlimbo k (by simpa [muts] using hk))
      refine ⟨t', ?_, by simpa [muts] using a⟩
      simp only [frun, fstepAll, Option.bind_some, f, Option.map_some, grunAll, gstepAll, Table.getValue_ok t hi]
    | readRow y =>
      obtain ⟨t', f, a⟩ := ih t hi hfit (fun p hp => hv p (by simpa [muts] using hp)) (by
        intro k hk; exact hlimbo k (by simpa [muts] using hk))
      refine ⟨t', ?_, by simpa [muts] using a⟩
      simp only [frun, fstepAll, Option.bind_some, f, Option.map_some, grunAll, gstepAll, rowValuesFresh_ok t hi]
    | touchRow y =>
      obtain ⟨t', f, a⟩ := ih t hi hfit (fun p hp => hv p (by simpa [muts] using hp)) (by
        intro k hk; exact hlimbo k (by simpa [muts] using hk))
      refine ⟨t', ?_, by simpa [muts] using a⟩
      simp only [frun, fstepAll, Option.bind_some, f, Option.map_some, grunAll, gstepAll]

end Odf.TableObj
