import OdfModel.Addr
import OdfProofs.Coord

namespace Odf.Addr
open Odf.Coord

theorem scanQuoted_escape (name rest acc : List Char) (h : ∀ c, rest.head? = some c → c ≠ '\'') :
    scanQuoted (escapeName name ++ ['\''] ++ rest) acc = (acc.reverse ++ name, rest) := by
  induction name generalizing acc with
  | nil =>
    simp only [escapeName, List.flatMap_nil, List.nil_append, List.cons_append, List.append_nil]
    unfold scanQuoted
    simp only [if_true]
    cases rest with
    | nil => rfl
    | cons r rs =>
      have := h r rfl
      split
      · rename_i heq; simp at heq; exact absurd heq.1 this
      · rfl
  | cons a t ih =>
    by_cases ha : a = '\''
    · subst ha
      simp only [escapeName, List.flatMap_cons, if_true, List.cons_append, List.nil_append] at ih ⊢
      unfold scanQuoted
      simp only [if_true]
      rw [ih]
      simp
    · simp only [escapeName, List.flatMap_cons, if_neg ha, List.cons_append, List.nil_append] at ih ⊢
      unfold scanQuoted
      rw [if_neg ha, ih]
      simp

theorem strip_ends (a b : Char) (m : List Char) (ha : isBlank a = false) (hb : isBlank b = false) :
    strip (a :: (m ++ [b])) = a :: (m ++ [b]) := by
  unfold strip
  have h1 : (a :: (m ++ [b])).dropWhile isBlank = a :: (m ++ [b]) := by
    simp [List.dropWhile, ha]
  rw [h1]
  have h2 : (a :: (m ++ [b])).reverse = b :: (a :: m).reverse := by simp
  rw [h2]
  have h3 : (b :: (a :: m).reverse).dropWhile isBlank = b :: (a :: m).reverse := by
    simp [List.dropWhile, hb]
  rw [h3]
  simp

theorem clean_append (a b : List Char) : clean (a ++ b) = clean a ++ clean b := by
  simp [clean]

theorem clean_id (cs : List Char) (h : ∀ c ∈ cs, c ≠ '$' ∧ c ≠ '.') : clean cs = cs := by
  unfold clean
  rw [List.filter_eq_self]
  intro c hc
  have := h c hc
  simp [this.1, this.2]

theorem not_sep_letterOf : ∀ k, k < 26 → letterOf k ≠ '$' ∧ letterOf k ≠ '.' := by decide
theorem not_sep_digitChar : ∀ d, d < 10 → digitChar d ≠ '$' ∧ digitChar d ≠ '.' := by decide

theorem clean_alpha (x : Nat) : clean (digitToAlphaStr x) = digitToAlphaStr x := by
  apply clean_id
  intro c hc
  simp only [digitToAlphaStr, List.mem_map] at hc
  obtain ⟨k, hk, rfl⟩ := hc
  exact not_sep_letterOf k (toAlphaAux_lt26 _ _ (by simp) k hk)

theorem clean_num (n : Nat) : clean (natToStr n) = natToStr n := by
  apply clean_id
  intro c hc
  simp only [natToStr, List.mem_map] at hc
  obtain ⟨k, hk, rfl⟩ := hc
  exact not_sep_digitChar k (toDec_lt10 n k hk)

theorem natToStr_snoc (n : Nat) : ∃ m b, natToStr n = m ++ [b] ∧ isBlank b = false := by
  have hne : natToStr n ≠ [] := by simp [natToStr, toDec_ne_nil]
  refine ⟨(natToStr n).dropLast, (natToStr n).getLast hne, (List.dropLast_concat_getLast hne).symm, ?_⟩
  have hmem := List.getLast_mem hne
  simp only [natToStr, List.mem_map] at hmem
  obtain ⟨k, hk, hk2⟩ := hmem
  have := not_blank_digitChar k (toDec_lt10 n k hk)
  simp only [natToStr] at hk2 ⊢
  rw [← hk2]; exact this

end Odf.Addr
