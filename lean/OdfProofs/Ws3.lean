import OdfProofs.Ws2

namespace Odf.Ws

/-! ### what `_sub_merge_spaces` produces is tight and spells the text -/

theorem spA_text (n : Nat) (h : 1 ≤ n) : (spA n).text = List.replicate n ' ' := by
  unfold spA
  split
  · have : n = 1 := by omega
    subst this; rfl
  · rfl

theorem isSp_spA (n : Nat) : isSp (spA n) = false := rfl

theorem all_space_replicate (g : List Char) (h : g.all (· == ' ') = true) : g = List.replicate g.length ' ' := by
  induction g with
  | nil => rfl
  | cons a t ih =>
    simp only [List.all_cons, Bool.and_eq_true, beq_iff_eq] at h
    rw [List.length_cons, List.replicate_succ, ← ih h.2, h.1]

theorem nosp_map_c (g : List Char) (h : g.all (· != ' ') = true) : ∀ a ∈ g.map Atom.c, isSp a = false := by
  intro a ha
  simp only [List.mem_map] at ha
  obtain ⟨ch, hch, rfl⟩ := ha
  simp only [List.all_eq_true, bne_iff_ne, ne_eq] at h
  simp [isSp, h ch hch]

theorem restAtoms_ne_nil (rest : List (Bool × List Char)) (prev : Bool) (h : altOK (some prev) rest = true)
    (hne : rest ≠ []) : restAtoms rest ≠ [] := by
  cases rest with
  | nil => exact absurd rfl hne
  | cons hd tl =>
    obtain ⟨b, g⟩ := hd
    simp only [altOK, Bool.and_eq_true, Bool.not_eq_true'] at h
    obtain ⟨⟨⟨_, hg⟩, _⟩, _⟩ := h
    have hgne : g ≠ [] := by intro h0; subst h0; simp at hg
    cases tl with
    | nil =>
      simp only [restAtoms]
      split
      · simp
      · simpa using hgne
    | cons hd2 tl2 =>
      simp only [restAtoms]
      split
      · simp
      · simp [hgne]

theorem restAtoms_facts (rest : List (Bool × List Char)) (prev : Bool)
    (h : altOK (some prev) rest = true) :
    noDblA (restAtoms rest) = true ∧ (prev = true → startsSp (restAtoms rest) = false) ∧
      endsSp (restAtoms rest) = false ∧ atomsText (restAtoms rest) = rest.flatMap (·.2) := by
  induction rest generalizing prev with
  | nil => simp [restAtoms, noDblA, startsSp, endsSp]
  | cons hd tl ih =>
    obtain ⟨b, g⟩ := hd
    have h' := h
    simp only [altOK, Bool.and_eq_true, Bool.not_eq_true', bne_iff_ne, ne_eq, Option.some.injEq] at h'
    obtain ⟨⟨⟨hpb, hg⟩, hall⟩, htl⟩ := h'
    have hgne : g ≠ [] := by intro h0; subst h0; simp at hg
    have hlen : 1 ≤ g.length := by
      cases g with
      | nil => exact absurd rfl hgne
      | cons _ _ => simp
    cases tl with
    | nil =>
      simp only [restAtoms, List.flatMap_cons, List.flatMap_nil, List.append_nil]
      cases b with
      | true =>
        simp only [if_true] at hall ⊢
        refine ⟨rfl, fun _ => rfl, rfl, ?_⟩
        simp only [atomsText_cons, atomsText_nil, List.append_nil, spA_text _ hlen]
        exact (all_space_replicate g hall).symm
      | false =>
        simp only [Bool.false_eq_true, if_false] at hall ⊢
        obtain ⟨n1, n2, n3⟩ := nosp_facts _ (nosp_map_c g hall)
        exact ⟨n1, fun _ => n2, n3, atomsText_map_c g⟩
    | cons hd2 tl2 =>
      obtain ⟨i1, i2, i3, i4⟩ := ih b htl
      have hRne := restAtoms_ne_nil (hd2 :: tl2) b htl (by simp)
      simp only [restAtoms, List.flatMap_cons] at i4 ⊢
      cases b with
      | true =>
        have hprev : prev = false := by
          cases prev with
          | false => rfl
          | true => exact absurd rfl hpb
        simp only [if_true] at hall
        have hrep := all_space_replicate g hall
        by_cases hlen2 : g.length > 1
        · rw [if_pos ⟨rfl, hlen2⟩]
          refine ⟨?_, ?_, ?_, ?_⟩
          · rw [noDblA_cons, noDblA_cons]
            simp [isSp_spA, startsSp, i1]
          · intro hp; rw [hprev] at hp; exact absurd hp (by simp)
          · rw [endsSp_cons_ne _ _ (by simp), endsSp_cons_ne _ _ hRne]; exact i3
          · simp only [atomsText_cons, i4]
            rw [spA_text _ (show 1 ≤ g.length - 1 by omega)]
            show [' '] ++ _ = _
            have : [' '] ++ (List.replicate (g.length - 1) ' ' ++ List.flatMap (·.2) (hd2 :: tl2))
                = List.replicate g.length ' ' ++ List.flatMap (·.2) (hd2 :: tl2) := by
              have : g.length = (g.length - 1) + 1 := by omega
              rw [this, List.replicate_succ]
              simp
            simp only [List.flatMap_cons] at this ⊢
            rw [this, ← hrep]
        · have hlen1 : g.length = 1 := by omega
          have hg1 : g = [' '] := by rw [hrep, hlen1]; rfl
          rw [if_neg (by intro h; exact hlen2 h.2)]
          subst hg1
          refine ⟨?_, ?_, ?_, ?_⟩
          · simp only [List.map_cons, List.map_nil, List.cons_append, List.nil_append]
            rw [noDblA_cons, i2 rfl]
            simp [i1]
          · intro hp; rw [hprev] at hp; exact absurd hp (by simp)
          · rw [endsSp_append _ _ hRne]; exact i3
          · simp [atomsText_append, Atom.text, i4]
      | false =>
        simp only [Bool.false_eq_true, if_false] at hall
        rw [if_neg (by intro h; exact absurd h.1 (by simp))]
        obtain ⟨n1, n2, n3⟩ := nosp_facts _ (nosp_map_c g hall)
        refine ⟨?_, ?_, ?_, ?_⟩
        · rw [noDblA_append, n1, i1, n3]; rfl
        · intro _; rw [startsSp_append _ _ (by simpa using hgne)]; exact n2
        · rw [endsSp_append _ _ hRne]; exact i3
        · simp [atomsText_append, atomsText_map_c, i4]

theorem groupAtoms_facts (gs : List (Bool × List Char)) (h : altOK none gs = true) :
    tight (groupAtoms gs) = true ∧ atomsText (groupAtoms gs) = gs.flatMap (·.2) := by
  cases gs with
  | nil => exact ⟨rfl, rfl⟩
  | cons hd tl =>
    obtain ⟨b, g⟩ := hd
    simp only [altOK, Bool.and_eq_true, Bool.not_eq_true', bne_iff_ne, ne_eq] at h
    obtain ⟨⟨⟨_, hg⟩, hall⟩, htl⟩ := h
    have hgne : g ≠ [] := by intro h0; subst h0; simp at hg
    have hlen : 1 ≤ g.length := by
      cases g with
      | nil => exact absurd rfl hgne
      | cons _ _ => simp
    obtain ⟨i1, i2, i3, i4⟩ := restAtoms_facts tl b htl
    simp only [groupAtoms, List.flatMap_cons]
    cases b with
    | true =>
      simp only [if_true] at hall ⊢
      constructor
      · simp only [tight, Bool.and_eq_true, Bool.not_eq_true']
        refine ⟨⟨?_, rfl⟩, ?_⟩
        · rw [List.singleton_append, noDblA_cons]; simp [isSp_spA, i1]
        · by_cases hr : restAtoms tl = []
          · rw [hr]; rfl
          · rw [endsSp_append _ _ hr]; exact i3
      · simp only [List.singleton_append, atomsText_cons, spA_text _ hlen, i4]
        rw [← all_space_replicate g hall]
    | false =>
      simp only [Bool.false_eq_true, if_false] at hall ⊢
      obtain ⟨n1, n2, n3⟩ := nosp_facts _ (nosp_map_c g hall)
      constructor
      · simp only [tight, Bool.and_eq_true, Bool.not_eq_true']
        refine ⟨⟨?_, ?_⟩, ?_⟩
        · rw [noDblA_append, n1, i1, n3]; rfl
        · rw [startsSp_append _ _ (by simpa using hgne)]; exact n2
        · by_cases hr : restAtoms tl = []
          · rw [hr, List.append_nil]; exact n3
          · rw [endsSp_append _ _ hr]; exact i3
      · simp [atomsText_append, atomsText_map_c, i4]

/-- atoms after `_merge_spaces`, item by item -/
def mergedAtoms (it : Item) : List Atom :=
  match it with
  | .str cs => groupAtoms (groups cs)
  | it => it.atoms

theorem atoms_mergeSpaces (l : List Item) : atoms (mergeSpaces l) = l.flatMap mergedAtoms := by
  induction l with
  | nil => rfl
  | cons i t ih =>
    simp only [mergeSpaces, List.flatMap_cons] at ih ⊢
    rw [atoms_append, ih]
    congr 1
    cases i <;> simp [mergedAtoms, atoms_subMergeSpaces, Item.atoms]

theorem mergedAtoms_text (it : Item) : atomsText (mergedAtoms it) = it.text := by
  cases it with
  | str cs =>
    simp only [mergedAtoms, Item.text]
    rw [(groupAtoms_facts _ (groups_altOK cs)).2, groups_flatten]
  | _ => simp [mergedAtoms, item_text_atoms]

theorem mergedAtoms_tight (it : Item) : tight (mergedAtoms it) = true := by
  cases it with
  | str cs => exact (groupAtoms_facts _ (groups_altOK cs)).1
  | s n => exact tight_single _ rfl
  | tab => exact tight_single _ rfl
  | lb => exact tight_single _ rfl
  | el i t => exact tight_single _ rfl

theorem flatMap_mergedAtoms_tight (l : List Item) : tight (l.flatMap mergedAtoms) = true := by
  induction l with
  | nil => rfl
  | cons i t ih =>
    rw [List.flatMap_cons]
    exact tight_append _ _ (mergedAtoms_tight i) ih

theorem flatMap_mergedAtoms_text (l : List Item) : atomsText (l.flatMap mergedAtoms) = innerText l := by
  induction l with
  | nil => rfl
  | cons i t ih =>
    simp only [List.flatMap_cons, atomsText_append, ih, mergedAtoms_text, innerText]

/-! ### `Element.__append` does not disturb a list without adjacent spaces -/

theorem noDbl_collapse (cs : List Char) (h : noDblA (cs.map Atom.c) = true) : collapseSpaces cs = cs := by
  induction cs with
  | nil => rfl
  | cons a t ih =>
    cases t with
    | nil => rfl
    | cons b t' =>
      simp only [List.map_cons, noDblA, Bool.and_eq_true, Bool.not_eq_true'] at h
      have h2 := ih (by simpa [noDblA] using h.2)
      simp only [collapseSpaces]
      rw [if_neg]
      · rw [h2]
      · intro hab
        have : (isSp (Atom.c a) && isSp (Atom.c b)) = true := by simp [isSp, hab.1, hab.2]
        rw [this] at h
        exact absurd h.1 (by simp)

theorem noDblA_sub (A B C : List Atom) (h : noDblA (A ++ B ++ C) = true) : noDblA B = true := by
  rw [noDblA_append, noDblA_append] at h
  simp only [Bool.and_eq_true] at h
  exact h.1.1.1.2

theorem atomsR_foldl_append (l : List Item) (acc : List Item)
    (h : noDblA (atomsR acc ++ atoms l) = true) :
    atomsR (l.foldl appendItem acc) = atomsR acc ++ atoms l := by
  induction l generalizing acc with
  | nil => simp
  | cons i t ih =>
    simp only [List.foldl_cons]
    have step : atomsR (appendItem acc i) = atomsR acc ++ i.atoms := by
      cases i with
      | str cs =>
        simp only [appendItem]
        split
        · rename_i c tl
          -- text after text: the two strings are one contiguous run of atoms
          have hsub : noDblA ((c ++ cs).map Atom.c) = true := by
            have e : atomsR (Item.str c :: tl) ++ atoms (Item.str cs :: t)
                = atomsR tl ++ (c ++ cs).map Atom.c ++ atoms t := by
              simp [atomsR_cons, Item.atoms]
            rw [e] at h
            exact noDblA_sub _ _ _ h
          rw [noDbl_collapse _ hsub]
          simp [atomsR_cons, Item.atoms]
        · have hsub : noDblA (cs.map Atom.c) = true := by
            have e : atomsR acc ++ atoms (Item.str cs :: t) = atomsR acc ++ cs.map Atom.c ++ atoms t := by
              simp [Item.atoms]
            rw [e] at h
            exact noDblA_sub _ _ _ h
          rw [noDbl_collapse _ hsub]
          split
          · rename_i h0; rw [h0]; simp [Item.atoms]
          · simp [atomsR_cons, Item.atoms]
      | s n => simp [appendItem, atomsR_cons]
      | tab => simp [appendItem, atomsR_cons]
      | lb => simp [appendItem, atomsR_cons]
      | el id tx => simp [appendItem, atomsR_cons]
    rw [ih (appendItem acc i) (by rw [step]; simpa [List.append_assoc] using h), step]
    simp

theorem atoms_rebuild (l : List Item) (h : noDblA (atoms l) = true) : atoms (rebuild l) = atoms l := by
  have := atomsR_foldl_append l [] (by simpa [atomsR] using h)
  simpa [atomsR, rebuild] using this

end Odf.Ws
