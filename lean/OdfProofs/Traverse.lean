import OdfProofs.TableOps6
import OdfModel.Traverse

namespace Odf.Table
open Odf.Rle

theorem attrOf_one : attrOf 1 = none := rfl

/-- un-ranged `Row.traverse()` on a coherent row: positions count up from 0, payloads are the
    expansion, no yielded cell keeps a repeat attribute -/
theorem goAll_ok (runs : Runs Nat) (hp : Pos runs) (b x : Nat) :
    (goAll (cumFrom b runs) runs b x).map (·.1) = List.range' x (total runs) ∧
    (goAll (cumFrom b runs) runs b x).map (·.2.1) = expand runs ∧
    ∀ p ∈ goAll (cumFrom b runs) runs b x, p.2.2 = none := by
  induction runs generalizing b x with
  | nil => simp [goAll, cumFrom]
  | cons hd tl ih =>
    obtain ⟨c, n⟩ := hd
    have hn : 1 ≤ n := hp (c, n) (by simp)
    obtain ⟨i1, i2, i3⟩ := ih (fun p h => hp p (by simp [h])) (b + n) (x + n)
    have hrep : b + n - b = n := by omega
    have hk : (if n = 0 then 1 else n) = n := by rw [if_neg (by omega)]
    simp only [cumFrom, goAll, hrep, hk, List.map_append, List.map_map, total_cons, expand_cons]
    refine ⟨?_, ?_, ?_⟩
    · rw [i1]
      have : List.map ((fun x => x.1) ∘ fun i => (x + i, c, if n > 1 then none else attrOf n)) (List.range n)
          = List.range' x n := by
        rw [List.range'_eq_map_range]
        apply List.map_congr_left
        intro i _; rfl
      rw [this]
      have := List.range'_append (s := x) (m := n) (n := total tl) (step := 1)
      simp only [Nat.one_mul] at this
      exact this
    · rw [i2]
      congr 1
      rw [List.eq_replicate_iff]
      simp
    · intro p hpm
      simp only [List.mem_append, List.mem_map, List.mem_range] at hpm
      rcases hpm with ⟨i, _, rfl⟩ | hpm
      · simp only
        split
        · rfl
        · have : n = 1 := by omega
          rw [this]; rfl
      · exact i3 p hpm

theorem rowTraverseAll_ok (r : RowObj) (h : MapOk r) :
    (rowTraverseAll r).map (·.1) = List.range (rowWidth r) ∧
    (rowTraverseAll r).map (·.2.1) = expand r.runs ∧
    ∀ p ∈ rowTraverseAll r, p.2.2 = none := by
  unfold rowTraverseAll
  rw [h.1]
  unfold makeCacheMap
  obtain ⟨a, b, c⟩ := goAll_ok r.runs h.2 0 0
  refine ⟨?_, b, c⟩
  rw [a, rowWidth, size_ok r h, List.range_eq_range']

/-- runs read with their own cumulative bounds: nothing keeps a repeat attribute -/
theorem goRange_tail (start e : Nat) (runs : Runs Nat) (hp : Pos runs) (b x : Nat) :
    ∀ p ∈ goRange start e (cumFrom b runs) runs b x, p.2.2 = none := by
  induction runs generalizing b x with
  | nil => simp [goRange, cumFrom]
  | cons hd tl ih =>
    obtain ⟨c, n⟩ := hd
    have hn : 1 ≤ n := hp (c, n) (by simp)
    have hrep : b + n - b = n := by omega
    intro p hpm
    simp only [cumFrom, goRange, hrep, List.mem_append, List.mem_map] at hpm
    rcases hpm with ⟨q, _, rfl⟩ | hpm
    · simp only
      split
      · rfl
      · rename_i hh
        have : n = 1 := by
          have : ¬ n > 1 := fun h => hh (Or.inl h)
          omega
        rw [this]; rfl
    · exact ih (fun q h => hp q (by simp [h])) _ _ p hpm

/-- **ranged `Row.traverse(start, end)`**: whatever the bounds, no yielded cell keeps a repeat
    attribute — also when the range starts on the last position of a repeated run (the
    `x == start and start > 0` clause of the code) -/
theorem rowTraverseRange_norepeat (r : RowObj) (h : MapOk r) (start : Nat) (end_ : Option Nat) :
    ∀ p ∈ rowTraverseRange r start end_, p.2.2 = none := by
  intro p hpm
  unfold rowTraverseRange at hpm
  split at hpm
  · simp at hpm
  · by_cases hs : start < total r.runs
    · obtain ⟨a, b, c, n, off, hruns, hoff, hpos, hfind⟩ := decompose r.runs start hs
      rw [h.1, hfind] at hpm
      simp only at hpm
      have hn : 1 ≤ n := h.2 (c, n) (by rw [hruns]; simp)
      have hmapd : (makeCacheMap r.runs).drop a.length = (total a + n) :: cumFrom (total a + n) b := by
        rw [hruns, mcm_append]
        have hl : (makeCacheMap a).length = a.length := mcm_length a
        rw [← hl, drop_len_append]
        rfl
      have hrund : r.runs.drop a.length = (c, n) :: b := by rw [hruns, drop_len_append]
      rw [hmapd, hrund] at hpm
      simp only [goRange, List.mem_append, List.mem_map] at hpm
      rcases hpm with ⟨q, hq, rfl⟩ | hpm
      · simp only
        split
        · rfl
        · rename_i hh
          -- one position left in the run, and it is not "start > 0": the run is the first cell
          have h1 : ¬ (total a + n - start > 1) := fun hgt => hh (Or.inl hgt)
          have hrep1 : total a + n - start = 1 := by omega
          simp only [hrep1, if_neg (show ¬ (1 = 0) by omega), List.range_one, List.map_cons, List.map_nil,
            Nat.add_zero, List.mem_filter, List.mem_singleton] at hq
          have hq1 : q = start := hq.1
          have h2 : ¬ (q = start ∧ start > 0) := fun hc => hh (Or.inr hc)
          have hs0 : start = 0 := by
            rcases Nat.eq_zero_or_pos start with h0 | h0
            · exact h0
            · exact absurd ⟨hq1, h0⟩ h2
          have : n = 1 := by omega
          rw [this]; rfl
      · have hPb : Pos b := fun q hq => h.2 q (by rw [hruns]; simp [hq])
        exact goRange_tail start _ b hPb _ _ p hpm
    · have : findOdfIdx r.map start = none := by
        rw [h.1, findOdfIdx_mcm, locate_none_of_ge _ _ (by omega)]; rfl
      rw [this] at hpm
      simp at hpm

/-- `Table.traverse`: every stored row is yielded once per repetition, in order, numbered
    from 0, without repeat count -/
theorem yieldOdfRows_ok (runs : Runs RowD) (hp : Pos runs) : yieldOdfRows runs = expand runs := by
  induction runs with
  | nil => rfl
  | cons hd tl ih =>
    obtain ⟨d, n⟩ := hd
    have hn : 1 ≤ n := hp (d, n) (by simp)
    simp only [yieldOdfRows, List.flatMap_cons, expand_cons] at ih ⊢
    rw [ih (fun q h => hp q (by simp [h]))]
    congr 1
    by_cases h2 : n < 2
    · have : n = 1 := by omega
      subst this; rfl
    · simp [attrOf, h2]

end Odf.Table

namespace Odf.Table
open Odf.Rle Odf.Grid

theorem getD_of_length_le {α} (l : List α) (i : Nat) (d : α) (h : l.length ≤ i) : l.getD i d = d := by
  rw [List.getD_eq_getElem?_getD, List.getElem?_eq_none h]; rfl

/-- `get_value((x, y))` through both position maps is the cell of the grid; outside the
    populated area (beyond the last row, or beyond the end of a short row) it is the empty
    cell — the read neither fails nor grows anything -/
theorem getValue_ok (t : Tbl) (h : Inv t) (x y : Int) : getValue t x y = Grid.getValue (absT t) x y := by
  unfold getValue Grid.getValue
  simp only
  rw [tr_eq_norm, tr_eq_norm, width_ok t h, height_ok t h]
  generalize Grid.norm y (Grid.height (absT t)) = yn
  generalize Grid.norm x (absT t).ncols = xn
  have hgh : Grid.height (absT t) = (absT t).rows.length := rfl
  by_cases hy : yn ≥ Grid.height (absT t)
  · rw [if_pos hy, getD_of_length_le (absT t).rows yn [] (by omega)]
    rfl
  · rw [if_neg hy]
    have hy' : yn < height t := by rw [height_ok t h]; omega
    obtain ⟨a, b, d, rep, hruns, hrow, hlo, hhi⟩ := rowAt_spec t h yn hy'
    have hdpos : Pos d := h.cells (d, rep) (by rw [hruns]; simp)
    have hgd : (absT t).rows.getD yn [] = expand d := by
      rw [rows_getD, hruns, expand_getD_of_decomp a b d rep _ [] hlo hhi]
    rw [hrow, hgd]
    simp only [rowObj, fresh]
    by_cases hx : xn < total d
    · obtain ⟨a2, b2, c, n, off, hd, hoff, hp, hf⟩ := decompose d xn hx
      rw [hf]
      simp only
      rw [hd, getElem?_len_append]
      simp only [Option.map_some, Option.getD_some]
      rw [expand_getD_of_decomp a2 b2 c n xn 0 (by omega) (by omega)]
    · have : findOdfIdx (makeCacheMap d) xn = none := by
        rw [findOdfIdx_mcm, locate_none_of_ge _ _ (by omega)]; rfl
      rw [this]
      simp only
      rw [getD_of_length_le _ _ _ (by rw [expand_length]; omega)]
      rfl

end Odf.Table
