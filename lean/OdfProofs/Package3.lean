import OdfProofs.Package2

/-! Helper lemmas for C03 / C04 / C10, third part: add / delete, save, clone, open. -/
namespace Odf.Pkg

theorem addFile_wf (d : Doc) (name : Nat) (data : Blob) (mt : Nat) (h : WFd d) : WFd (d.addFile name data mt) := by
  unfold Doc.addFile
  have h2 := manifest_snd d
  cases hg : d.manifest with
  | mk es d1 =>
    rw [hg] at h2
    simp only at h2
    have hw : WFd d1 := by rw [h2]; exact parse_wf d nManifest h
    simp only
    apply setManifest_wf
    exact ⟨wf_set _ _ _ hw.1, hw.2⟩

theorem delPart_view (d : Doc) (name : Nat) (m : Nat) (hn : name ≠ nManifest) (hp : look d.parsed name = none) :
    (d.delPart name).view m =
      if m = nManifest then some (.man (delPath (manifestOf { d with c := d.c.delete name }) name))
      else if m = name then none else d.view m := by
  unfold Doc.delPart
  simp only
  have h1 := manifest_fst { d with c := d.c.delete name }
  have h2 := manifest_snd { d with c := d.c.delete name }
  cases hg : Doc.manifest { d with c := d.c.delete name } with
  | mk es d2 =>
    rw [hg] at h1 h2
    simp only at h1 h2
    subst h1
    simp only [setManifest_view]
    by_cases hm : m = nManifest
    · simp only [hm, if_true]
    · simp only [hm, if_false]
      rw [h2, parse_view]
      simp only [view_eq, cview_delete]
      by_cases hmn : m = name
      · subst hmn; simp [hp]
      · simp [hmn]

theorem delPart_wf (d : Doc) (name : Nat) (h : WFd d) : WFd (d.delPart name) := by
  unfold Doc.delPart
  simp only
  have h2 := manifest_snd { d with c := d.c.delete name }
  cases hg : Doc.manifest { d with c := d.c.delete name } with
  | mk es d2 =>
    rw [hg] at h2
    simp only at h2
    apply setManifest_wf
    rw [h2]
    exact parse_wf _ nManifest ⟨wf_delete _ _ h.1, h.2⟩

/-- the manifest after deleting an optional part is the one before (the part itself is not the manifest) -/
theorem manifestOf_delete (d : Doc) (name : Nat) (hn : name ≠ nManifest) :
    manifestOf { d with c := d.c.delete name } = manifestOf d := by
  unfold manifestOf
  simp only [view_eq, cview_delete]
  have : ¬ nManifest = name := fun e => hn e.symm
  simp [this]

/-! ### writing -/

theorem foldl_set_cview (ps : List (Nat × Blob)) (c : Cont) (m : Nat) (h : (keys ps).Nodup) :
    cview (ps.foldl (fun c p => c.set p.1 p.2) c) m = match look ps m with
      | some b => some b
      | none => cview c m := by
  induction ps generalizing c with
  | nil => rfl
  | cons p rest ih =>
    obtain ⟨k, b⟩ := p
    have hr : (keys rest).Nodup := by simp only [keys, List.map_cons, List.nodup_cons] at h; exact h.2
    have hk : k ∉ keys rest := by simp only [keys, List.map_cons, List.nodup_cons] at h; exact h.1
    simp only [List.foldl_cons, look]
    rw [ih _ hr]
    by_cases hm : k = m
    · subst hm
      have : look rest k = none := (look_none_iff rest k).2 hk
      simp [this, cview_set]
    · have : ¬ m = k := fun e => hm e.symm
      simp only [hm, if_false, cview_set, this]

theorem foldl_set_wf (ps : List (Nat × Blob)) (c : Cont) (h : WFc c) : WFc (ps.foldl (fun c p => c.set p.1 p.2) c) := by
  induction ps generalizing c with
  | nil => exact h
  | cons p rest ih => simp only [List.foldl_cons]; exact ih _ (wf_set _ _ _ h)

def live (parts : List (Nat × Option Blob)) : List (Nat × Blob) :=
  parts.filterMap (fun p => p.2.map (fun b => (p.1, b)))

theorem look_live (parts : List (Nat × Option Blob)) (m : Nat) (h : (keys parts).Nodup) :
    look (live parts) m = match look parts m with
      | some v => v
      | none => none := by
  induction parts with
  | nil => rfl
  | cons p rest ih =>
    obtain ⟨k, v⟩ := p
    have hr : (keys rest).Nodup := by simp only [keys, List.map_cons, List.nodup_cons] at h; exact h.2
    have hk : k ∉ keys rest := by simp only [keys, List.map_cons, List.nodup_cons] at h; exact h.1
    cases v with
    | none =>
      simp only [live, List.filterMap_cons, Option.map_none, look]
      by_cases hm : k = m
      · subst hm
        have h0 : look rest k = none := (look_none_iff rest k).2 hk
        have := ih hr
        simp only [live] at this
        rw [this, h0]; simp
      · simp only [hm, if_false]; exact ih hr
    | some b =>
      simp only [live, List.filterMap_cons, Option.map_some, look]
      by_cases hm : k = m
      · simp [hm]
      · simp only [hm, if_false]; exact ih hr

theorem keys_live_sublist (parts : List (Nat × Option Blob)) : (keys (live parts)).Sublist (keys parts) := by
  induction parts with
  | nil => exact List.Sublist.refl _
  | cons p rest ih =>
    obtain ⟨k, v⟩ := p
    cases v with
    | none => simp only [live, List.filterMap_cons, Option.map_none, keys, List.map_cons]; exact List.Sublist.cons _ ih
    | some b => simp only [live, List.filterMap_cons, Option.map_some, keys, List.map_cons]; exact List.Sublist.cons₂ _ ih

/-- **what a container writes is exactly what it holds** -/
theorem written_look (c : Cont) (h : WFc c) (m : Nat) : look (live c.loadAll.parts) m = cview c m := by
  rw [look_live _ _ (loadAll_wf c h).1, loadAll_complete c m]
  cases look c.loadAll.parts m <;> rfl

/-! ### the manifest.rdf reconciliation -/

/-- the part manifest.rdf is present exactly when the manifest declares it -/
def RdfOk (d : Doc) : Prop := declaredRdf (manifestOf d) = (d.manifest.2.c.names.contains nRdf)

theorem checkRdf_of_ok (d : Doc) (rdf : Blob) (h : RdfOk d) : d.checkRdf rdf = d.manifest.2 := by
  unfold Doc.checkRdf
  unfold RdfOk at h
  have h1 := manifest_fst d
  cases hg : d.manifest with
  | mk es d1 =>
    rw [hg] at h1 h
    simp only at h1 h ⊢
    subst h1
    rw [h]
    cases d1.c.names.contains nRdf <;> simp

theorem checkRdf_wf (d : Doc) (rdf : Blob) (h : WFd d) : WFd (d.checkRdf rdf) := by
  unfold Doc.checkRdf
  have h2 := manifest_snd d
  cases hg : d.manifest with
  | mk es d1 =>
    rw [hg] at h2
    simp only at h2
    have hw : WFd d1 := by rw [h2]; exact parse_wf d nManifest h
    simp only
    by_cases hd : declaredRdf es = true
    · rw [if_pos hd]
      by_cases hc : d1.c.names.contains nRdf = true
      · rw [if_pos hc]; exact hw
      · rw [if_neg hc]; exact ⟨wf_set _ _ _ hw.1, hw.2⟩
    · rw [if_neg hd]
      by_cases hc : d1.c.names.contains nRdf = true
      · rw [if_pos hc]; exact ⟨wf_delete _ _ hw.1, hw.2⟩
      · rw [if_neg hc]; exact hw

/-! ### save -/

/-- the document as `save` sees it: meta parsed (generator stamp), manifest.rdf reconciled -/
def Doc.prepared (d : Doc) (rdf : Blob) : Doc := ((d.parse nMeta).2).checkRdf rdf

theorem save_snd (d : Doc) (rdf : Blob) :
    (d.save rdf).2 = live ((d.prepared rdf).parsed.foldl (fun c p => c.set p.1 p.2) (d.prepared rdf).c).loadAll.parts := rfl

/-- **save writes the document**: every name of the written package holds what the (prepared)
    document holds under that name, and nothing else is written -/
theorem save_written (d : Doc) (rdf : Blob) (h : WFd d) (m : Nat) :
    look (d.save rdf).2 m = (d.prepared rdf).view m := by
  have hw : WFd (d.prepared rdf) := checkRdf_wf _ rdf (parse_wf d nMeta h)
  rw [save_snd, written_look _ (foldl_set_wf _ _ hw.1), foldl_set_cview _ _ _ hw.2, view_eq]
  cases look (d.prepared rdf).parsed m <;> rfl

theorem save_written_nodup (d : Doc) (rdf : Blob) (h : WFd d) : (keys (d.save rdf).2).Nodup := by
  have hw : WFd (d.prepared rdf) := checkRdf_wf _ rdf (parse_wf d nMeta h)
  rw [save_snd]
  exact List.Sublist.nodup (keys_live_sublist _) (loadAll_wf _ (foldl_set_wf _ _ hw.1)).1

theorem prepared_view_of_ok (d : Doc) (rdf : Blob) (h : RdfOk (d.parse nMeta).2) (m : Nat) :
    (d.prepared rdf).view m = d.view m := by
  unfold Doc.prepared
  rw [checkRdf_of_ok _ rdf h, manifest_snd, parse_view, parse_view]

/-! ### open and clone -/

theorem look_map_some (files : List (Nat × Blob)) (m : Nat) :
    look (files.map (fun p => (p.1, some p.2))) m = (look files m).map some := by
  induction files with
  | nil => rfl
  | cons p rest ih =>
    obtain ⟨k, b⟩ := p
    simp only [List.map_cons, look]
    by_cases hk : k = m <;> simp [hk, ih]

theorem ofBytes_view (files : List (Nat × Blob)) (m : Nat) : (Doc.ofBytes files).view m = look files m := by
  simp only [Doc.ofBytes, Cont.ofBytes, view_eq, look, cview, look_map_some]
  cases look files m <;> rfl

theorem ofBytes_wf (files : List (Nat × Blob)) (h : (keys files).Nodup) : WFd (Doc.ofBytes files) := by
  refine ⟨⟨?_, by simp [Doc.ofBytes, Cont.ofBytes, keys]⟩, by simp [Doc.ofBytes, keys]⟩
  simp only [Doc.ofBytes, Cont.ofBytes, keys, List.map_map]
  exact h

theorem ofPath_view (files : List (Nat × Blob)) (m : Nat) : (Doc.ofPath files).view m = look files m := by
  simp only [Doc.ofPath, Cont.ofPath, view_eq, look, cview]
  cases hm : look files nMime with
  | none => simp [look]
  | some b =>
    simp only [look]
    by_cases hk : nMime = m
    · subst hk; simp [hm]
    · simp [hk]

theorem ofPath_wf (files : List (Nat × Blob)) (h : (keys files).Nodup) : WFd (Doc.ofPath files) := by
  refine ⟨⟨?_, h⟩, by simp [Doc.ofPath, keys]⟩
  simp only [Doc.ofPath, Cont.ofPath]
  cases look files nMime <;> simp [keys]

theorem cont_clone_cview (c : Cont) (m : Nat) : cview c.clone m = cview c m := by
  rw [loadAll_complete c m]
  simp only [Cont.clone, cview]
  cases look c.loadAll.parts m <;> rfl

theorem cont_clone_wf (c : Cont) (h : WFc c) : WFc c.clone :=
  ⟨(loadAll_wf c h).1, by simp [Cont.clone, keys]⟩

/-- **a clone is equal at birth** -/
theorem clone_view (d : Doc) (h : WFd d) (m : Nat) : d.clone.view m = d.view m := by
  simp only [Doc.clone, view_eq, look]
  rw [foldl_set_cview _ _ _ h.2, cont_clone_cview]
  cases look d.parsed m <;> rfl

theorem clone_wf (d : Doc) (h : WFd d) : WFd d.clone :=
  ⟨foldl_set_wf _ _ (cont_clone_wf _ h.1), by simp [Doc.clone, keys]⟩

end Odf.Pkg
