import OdfProofs.Rle3
import OdfModel.Abs

/-! Row-level refinement lemmas: each `Row` method is the list operation of the spec. -/
namespace Odf.Table
open Odf.Rle Odf.Grid

theorem rowObj_ok (d : RowD) (h : Pos d) : MapOk (rowObj d) := MapOk.fresh d h

theorem rowWidth_ok (r : RowObj) (h : MapOk r) : rowWidth r = (expand r.runs).length := by
  rw [rowWidth, size_ok r h, expand_length]

theorem rowAppend_ok (r : RowObj) (h : MapOk r) (c rep : Nat) (hrep : 1 ≤ rep) :
    MapOk (rowAppend r c rep) ∧ expand (rowAppend r c rep).runs = expand r.runs ++ List.replicate rep c :=
  appendItem_ok r h c rep hrep

theorem setSlice_at_end {α} (l : List α) (x rep : Nat) (c : α) (h : l.length = x) :
    setSlice l x rep c = l ++ List.replicate rep c := by
  subst h; simp [setSlice]

theorem insSlice_at_end {α} (l : List α) (x rep : Nat) (c : α) (h : l.length = x) :
    insSlice l x rep c = l ++ List.replicate rep c := by
  subst h; simp [insSlice]

theorem padRow_le (l : List Nat) (x : Nat) (h : x ≤ l.length) : padRow l x = l := by
  simp [padRow, Nat.sub_eq_zero_of_le h]

theorem padRow_length (l : List Nat) (x : Nat) (h : l.length ≤ x) : (padRow l x).length = x := by
  simp [padRow]; omega

/-- `Row.set_cell(x, cell)` is `row[x : x + rep] = [cell] * rep` on the row padded to x -/
theorem rowSetCell_ok (r : RowObj) (h : MapOk r) (x c rep : Nat) (hrep : 1 ≤ rep) :
    ∃ r', rowSetCell r x c rep = some r' ∧ MapOk r' ∧
      expand r'.runs = setSlice (padRow (expand r.runs) x) x rep c := by
  have hw := rowWidth_ok r h
  unfold rowSetCell
  simp only
  by_cases h1 : x = rowWidth r
  · rw [if_pos h1]
    obtain ⟨m, e⟩ := rowAppend_ok r h c rep hrep
    refine ⟨_, rfl, m, ?_⟩
    rw [e, padRow_le _ _ (by omega)]
    rw [setSlice_at_end _ _ _ _ (by omega)]
  · rw [if_neg h1]
    by_cases h2 : x > rowWidth r
    · rw [if_pos h2]
      obtain ⟨m1, e1⟩ := rowAppend_ok r h emptyCell (x - rowWidth r) (by omega)
      obtain ⟨m2, e2⟩ := rowAppend_ok _ m1 c rep hrep
      refine ⟨_, rfl, m2, ?_⟩
      rw [e2, e1]
      have hpl : (padRow (expand r.runs) x).length = x := padRow_length _ _ (by omega)
      rw [setSlice_at_end _ _ _ _ hpl, padRow, hw]
      rfl
    · rw [if_neg h2]
      have hx : x < total r.runs := by rw [← expand_length]; omega
      obtain ⟨r', e, m, ex⟩ := setItem_ok r h x c rep hx hrep
      refine ⟨r', e, m, ?_⟩
      rw [ex, padRow_le _ _ (by omega)]
      rfl

/-- `Row.insert_cell(x, cell)` is `row[x:x] = [cell] * rep` on the row padded to x -/
theorem rowInsertCell_ok (r : RowObj) (h : MapOk r) (x c rep : Nat) (hrep : 1 ≤ rep) :
    ∃ r', rowInsertCell r x c rep = some r' ∧ MapOk r' ∧
      expand r'.runs = insSlice (padRow (expand r.runs) x) x rep c := by
  have hw := rowWidth_ok r h
  unfold rowInsertCell
  simp only
  by_cases h1 : x < rowWidth r
  · rw [if_pos h1]
    have hx : x < total r.runs := by rw [← expand_length]; omega
    obtain ⟨r', e, m, ex⟩ := insertItem_ok r h x c rep hx hrep
    refine ⟨r', e, m, ?_⟩
    rw [ex, padRow_le _ _ (by omega)]
    rfl
  · rw [if_neg h1]
    by_cases h2 : x = rowWidth r
    · rw [if_pos h2]
      obtain ⟨m, e⟩ := rowAppend_ok r h c rep hrep
      refine ⟨_, rfl, m, ?_⟩
      rw [e, padRow_le _ _ (by omega)]
      rw [insSlice_at_end _ _ _ _ (by omega)]
    · rw [if_neg h2]
      obtain ⟨m1, e1⟩ := rowAppend_ok r h emptyCell (x - rowWidth r) (by omega)
      obtain ⟨m2, e2⟩ := rowAppend_ok _ m1 c rep hrep
      refine ⟨_, rfl, m2, ?_⟩
      rw [e2, e1]
      have hpl : (padRow (expand r.runs) x).length = x := padRow_length _ _ (by omega)
      rw [insSlice_at_end _ _ _ _ hpl, padRow, hw]
      rfl

/-- `Row.delete_cell(x)` removes the cell at x when the row has one -/
theorem rowDeleteCell_ok (r : RowObj) (h : MapOk r) (x : Nat) :
    ∃ r', rowDeleteCell r x = some r' ∧ MapOk r' ∧ expand r'.runs = (expand r.runs).eraseIdx x := by
  have hw := rowWidth_ok r h
  unfold rowDeleteCell
  by_cases h1 : x ≥ rowWidth r
  · rw [if_pos h1]
    exact ⟨r, rfl, h, by rw [List.eraseIdx_of_length_le (by omega)]⟩
  · rw [if_neg h1]
    have hx : x < total r.runs := by rw [← expand_length]; omega
    exact deleteItem_ok r h x hx

end Odf.Table
