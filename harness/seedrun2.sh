#!/bin/bash
# seedrun2.sh <seed-name> <Cxx> [tier] : run a check against a seeded change WITHOUT touching /repo:
# /repo/src is copied to a scratch directory outside /repo and /verif, the stored patch is applied there and
# the harness + translators are pointed at the copy (ODFDO_SRC). The evidence file of the unchanged tree is
# put back afterwards and the scratch copy is removed. Several of these can run side by side.
NAME=$1; PID=$2; TIER=${3:-quick}
V=$(cd "$(dirname "$0")/.." && pwd)
S=$(mktemp -d /tmp/seedrun-$NAME-XXXX)
cp -r /repo/src $S/src
( cd $S && patch -s -p1 < $V/seeded/$NAME/patch.diff ) || { echo "$NAME: patch does not apply"; rm -rf $S; exit 2; }
cp $V/evidence/$PID.json $S/evidence.json 2>/dev/null
( cd $V && ODFDO_SRC=$S/src ./check $PID --tier $TIER 2>&1 | tail -${TAILN:-4} | sed "s/^/[$NAME vs $PID] /" )
[ -f $S/evidence.json ] && cp $S/evidence.json $V/evidence/$PID.json
rm -rf $S
( cd $V && /venv/bin/python harness/translate.py > /dev/null 2>&1 )
