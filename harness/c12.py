"""C12 — every element class round-trips through XML and comes back as the same class.

impl: every class of the live registry (enumerated at run time), constructed with type-directed
arguments for its declared parameters; serialise, re-parse with Element.from_tag; every access path
{from_tag, children, get_elements, xpath, parent, clone, get_element} on the sample documents and
on fragments that bind the ODF namespaces to unconventional prefixes.
observed: type(), canonical XML, property getters before / after the re-parse.
model: OdfModel/Registry.lean (dispatch table dumped from the live registry, generic attribute
getter / setter of PropDef)."""
from __future__ import annotations

import inspect
import io
from datetime import datetime, timedelta
from decimal import Decimal

from lxml import etree

import core
import pkg
from core import enc_str

STRS = ["n1", "A b", "x&<y>", "é漢", "q\"uote", "it's", "S_1", "true"]
# text arguments are turned into text:tab / text:line-break / text:s children with single blanks between them
WS_TEXTS = ["\t \tz", "\n \n", "  \t \tz", "a  b", " lead and trail ", "l1\nl2\t x", "\t \n \t"]
TEXT_PARAMS = ("text", "text_or_element", "body", "title", "title_text", "citation", "list_content")
SKIP_PARAMS = {"formatted", "parent", "from_document", "kwargs", "tag", "tag_or_elem"}
# (class, parameter) pairs whose argument is not what the property of the same name reports, by design
NOT_EXPOSED = {
    ("BackgroundImage", "position"),                      # a position keyword, the generator gives a coordinate pair
    ("Cell", "currency"), ("Cell", "text"), ("Cell", "value"), ("Cell", "cell_type"),     # typed value: C06 covers it
    ("VarSet", "display"), ("VarSet", "text"),            # display=False stores "none" and hides the text
    ("Table", "width"), ("Table", "height"),              # initial size, at least one cell is made
}


# constructor arguments that are couples, and the two properties their members are stored under (checked when the class has both)
PAIR_PARAMS = {"p1": ("x1", "y1"), "p2": ("x2", "y2"), "glue_points": ("start_glue_point", "end_glue_point")}


def gen_value(rng, name: str, ann: str, cls_name: str):
    a = ann.replace(" ", "")
    if name in TEXT_PARAMS and "str" in a and rng.random() < 0.4:
        return rng.choice(WS_TEXTS)
    if name == "family":
        return rng.choice(["paragraph", "text", "table-cell", "graphic", "list", "master-page", "font-face", "page-layout", "number"])
    if name == "ref_format":
        return rng.choice(["page", "chapter", "text", "direction"])
    if name in ("xml_id", "draw_id"):
        return rng.choice([None, "id1", "Idé_2", "a-b.c"])
    if name == "protection_key":
        return rng.choice([None, "k3y", "é漢"])
    if name == "note_class":
        return rng.choice(["footnote", "endnote"])
    if name == "crange":
        return rng.choice(["A1:B2", (0, 0, 1, 1), "C3"])
    if name == "print_ranges":
        return rng.choice([None, ["A1:B2"], ["A1:B2", "C3:D4"], "E1:F2"])
    if name == "table_name":
        return rng.choice(["T1", "My Table"])
    if name in ("p1", "p2") and rng.random() < 0.3:
        return rng.choice([(0, f"{rng.randrange(1, 9)}cm"), (f"{rng.randrange(1, 9)}cm", 0), (0, 0), ("0cm", 3)])      # numbers are accepted as coordinates
    if name in ("position", "size", "p1", "p2"):
        return (f"{rng.randrange(1, 9)}cm", f"{rng.randrange(1, 9)}mm")
    if name == "glue_points":
        return rng.choice([None, (0, 2), (1, 0), (2, 3), (0, 0)])           # glue point 0 is the first default glue point of a shape
    if name == "connected_shapes":
        return None
    if name == "level" or name == "outline_level":
        return rng.choice([1, 2, 3]) if "int" in a else rng.choice(["1", "2"])
    if name in ("repeated", "width", "height", "number", "anchor_page", "z_index", "start_value"):
        return rng.choice([None, 1, 2, 3, 0]) if "None" in a else rng.choice([0, 1, 3])
    if name == "value":
        return rng.choice([None, 3, "txt", True, Decimal("1.5"), datetime(2024, 1, 2, 3, 4, 5), timedelta(minutes=5)])
    if name == "value_type":
        return None
    if name in ("text_or_element", "list_content"):
        from odfdo import Paragraph

        return rng.choice([None, "some text", Paragraph("in element")]) if name == "text_or_element" else rng.choice([None, "item", ["a", "b"]])
    if name == "display" and "bool" in a:
        return rng.choice([True, False, "value", "none"])
    if "datetime" in a or "dt_time" in a:
        return rng.choice([None, datetime(2024, 1, 2, 3, 4, 5)])
    if "timedelta" in a:
        return rng.choice([None, timedelta(minutes=5)])
    if a == "bool":
        return rng.choice([True, False])
    if "tuple" in a:
        return rng.choice([None, ("1cm", "2cm")])
    if "int" in a:
        return rng.choice([None, 0, 2]) if "None" in a else rng.choice([0, 2])
    if "str" in a or a == "Any":
        if "None" in a and rng.random() < 0.25:
            return None
        if name in ("color", "background_color"):
            return rng.choice(["#ff0000", "blue", (1, 2, 3)])
        if name in ("url", "href"):
            return rng.choice(["http://example.com/a?b=1&c=2", "Pictures/x.png"])
        if name in ("show", "actuate", "xlink_type"):
            return {"show": "embed", "actuate": "onLoad", "xlink_type": "simple"}[name]
        return rng.choice(STRS)
    return None


def same(arg, got) -> bool:
    if got is None:
        return arg is None or arg == "" or arg is False
    if isinstance(arg, bool):
        return got is arg or got == str(arg).lower()
    if isinstance(arg, datetime):
        from odfdo.datatype import DateTime

        return got == arg or got == DateTime.encode(arg)
    if isinstance(got, list) and not isinstance(arg, list):
        return got == [arg]
    if isinstance(arg, timedelta):
        from odfdo.datatype import Duration

        return got == Duration.encode(arg)
    if isinstance(got, bool):
        return False
    if arg == got or str(arg) == str(got):
        return True
    try:
        return Decimal(str(arg)) == Decimal(str(got))
    except Exception:  # noqa: BLE001
        return False


def cx(elem) -> bytes:
    return etree.tostring(elem._Element__element, method="c14n", exclusive=True)


def prop_names(cls) -> list[str]:
    out = []
    for k in inspect.getmro(cls):
        for p in getattr(k, "_properties", ()) or ():
            if p.name not in out:
                out.append(p.name)
    return out


SCALARS = (str, int, float, bool, type(None))


def value_props(cls) -> list[str]:
    """every public Python property of the class (not only the generic attribute properties): those that answer a plain value
    on an element are compared on the re-parsed element and on the clone"""
    return [n for n in dir(cls) if not n.startswith("_") and isinstance(getattr(cls, n, None), property) and n not in ("clone", "parent", "root", "children")]


def read_scalars(e, names) -> dict:
    out = {}
    for n in names:
        try:
            v = getattr(e, n)
        except Exception as ex:  # noqa: BLE001
            v = f"<raises {type(ex).__name__}>"
        if isinstance(v, SCALARS) or type(v).__name__ in ("Decimal", "date", "datetime", "timedelta"):
            out[n] = v
    return out


def read_props(e, names) -> dict:
    out = {}
    for n in names:
        try:
            out[n] = getattr(e, n)
        except Exception as ex:  # noqa: BLE001
            out[n] = f"<raises {type(ex).__name__}>"
    return out


def TRANSLATE():
    import translate

    return translate.gen_registry() + translate.gen_ctors()


def run(chk: core.Check) -> None:
    import odfdo
    from odfdo import Element
    from odfdo.element import _class_registry

    rng = chk.rng
    chk.rule = (
        "every class of the live registry x type-directed argument combinations for its declared constructor parameters (None / bool / 0 vs None / strings with XML "
        "special characters and quotes / colours / datetimes / Elements); re-parse of the serialisation; every access path on the sample documents and on fragments with "
        "unconventional namespace prefixes. non-trivial = a construction with at least one non-default argument; distinct by (class, arguments)"
    )
    chk.classifiers["name_true_false_is_bool"] = lambda case: case.get("clause") in ("argument-exposed", "property-after-reparse") and case.get("value") in ("true", "false")
    classes: dict = {}
    for tag, cls in _class_registry.items():
        classes.setdefault(cls, []).append(tag)
    chk.extra["registry"] = {"tags": len(_class_registry), "classes": len(classes)}
    reqs = []
    for cls, tags in sorted(classes.items(), key=lambda x: x[0].__name__):
        sig = inspect.signature(cls.__init__)
        params = [(n, str(p.annotation), p.default) for n, p in sig.parameters.items() if n not in ("self",) and n not in SKIP_PARAMS and p.kind in (p.POSITIONAL_OR_KEYWORD, p.KEYWORD_ONLY)]
        pnames = prop_names(cls)
        n_trials = chk.n(40, 300) if params else 1
        for trial in range(n_trials):
            kwargs = {}
            for n, ann, default in params:
                if trial == 0 and default is not inspect._empty:
                    continue            # first trial: only the mandatory arguments
                if default is not inspect._empty and rng.random() < 0.35:
                    continue
                kwargs[n] = gen_value(rng, n, ann, cls.__name__)
            case = {"class": cls.__name__, "arguments": {k: repr(v)[:60] for k, v in kwargs.items()}}
            chk.count("class", cls.__name__)
            try:
                e = cls(**kwargs)
            except (TypeError, ValueError, KeyError, AttributeError) as ex:
                chk.count("construction", f"refused: {type(ex).__name__}")
                continue
            except Exception as ex:  # noqa: BLE001
                chk.fail({**case, "exception": repr(ex), "clause": "constructor-raises"}, f"{cls.__name__}(...) raised {type(ex).__name__}")
                continue
            chk.case((cls.__name__, repr(sorted(case["arguments"].items()))), nontrivial=bool(kwargs), sample=case if kwargs else None)
            chk.count("construction", "ok")
            # ---- arguments exposed through the properties ------------------------------------------
            bad = None
            for n, v in kwargs.items():
                if v is None or (cls.__name__, n) in NOT_EXPOSED or n not in pnames and not isinstance(getattr(cls, n, None), property):
                    continue            # (None = "not specified": the class may apply its default)
                if n == "text" and isinstance(v, str) and (v != v.strip() or "  " in v or "\t" in v or "\n" in v):
                    continue            # blanks become text:s / text:tab / text:line-break children, .text is the first text node only
                if n == "number" and v in (0, 1):
                    continue            # text:s without text:c is one blank
                if cls.__name__ == "Style" and n not in ("name", "display_name", "family", "parent_style"):
                    continue            # the other arguments of Style apply to one family only
                if n == "repeated" and v in (0, 1):
                    continue            # a repetition of 1 is the absence of the attribute
                if cls.__name__ == "Style" and n == "name" and kwargs.get("family") == "font-face" and kwargs.get("font_name"):
                    continue            # a font face is named after its font
                if n == "protection_key" and not kwargs.get("protected"):
                    continue            # documented: the key is kept for a protected table only
                try:
                    got = getattr(e, n)
                except Exception as ex:  # noqa: BLE001
                    bad = (n, v, f"<raises {type(ex).__name__}>")
                    break
                if not same(v, got):
                    bad = (n, v, got)
                    break
            # ---- arguments that are couples: each member is what the property of that member reports -------------
            if bad is None:
                for n, (pa, pb) in PAIR_PARAMS.items():
                    v = kwargs.get(n)
                    if v is None or pa not in pnames or pb not in pnames:
                        continue
                    chk.count("couple arguments", f"{cls.__name__}.{n}" + (" with a 0 member" if 0 in v else ""))
                    for member, prop in zip(v, (pa, pb)):
                        got = getattr(e, prop)
                        if not same(member, got):
                            bad = (f"{n} -> {prop}", member, got)
                            break
                    if bad:
                        break
            if bad:
                chk.fail({**case, "clause": "argument-exposed", "parameter": bad[0], "value": bad[1] if isinstance(bad[1], (str, int, bool, type(None))) else repr(bad[1]), "read_back": repr(bad[2])},
                         f"{cls.__name__}: the constructor argument {bad[0]!r} is not what the property of the same name reports")
                continue
            # ---- serialise, re-parse ----------------------------------------------------------------
            try:
                xml = e.serialize()
                e2 = Element.from_tag(xml)
            except Exception as ex:  # noqa: BLE001
                chk.fail({**case, "exception": repr(ex), "clause": "reparse"}, f"{cls.__name__}: the serialisation cannot be parsed back: {type(ex).__name__}")
                continue
            if type(e2) is not type(e):
                chk.fail({**case, "clause": "same-class", "xml": xml[:200], "got": type(e2).__name__}, f"{cls.__name__}: parsing its serialisation gives a {type(e2).__name__}")
                continue
            if cx(e2) != cx(e):
                chk.fail({**case, "clause": "infoset", "xml": xml[:200]}, f"{cls.__name__}: the re-parsed element is not the same XML")
                continue
            p1, p2 = read_props(e, pnames), read_props(e2, pnames)
            if p1 != p2:
                k = next(k for k in p1 if p1[k] != p2[k])
                chk.fail({**case, "clause": "property-after-reparse", "property": k, "value": p1[k] if isinstance(p1[k], (str, int, bool, type(None))) else repr(p1[k]), "after": repr(p2[k])},
                         f"{cls.__name__}.{k} differs after serialise + parse")
                continue
            # clone comes back as the same class too
            try:
                c = e.clone
                if type(c) is not type(e) or cx(c) != cx(e):
                    chk.fail({**case, "clause": "clone-class"}, f"{cls.__name__}.clone is a {type(c).__name__} / another XML")
                    continue
                # ... and reports the same property values (whatever other elements or clones exist by now)
                vnames = value_props(cls)
                v1, v2 = read_scalars(e, vnames), read_scalars(e2, vnames)
                if v1 != v2:
                    k = next(k for k in set(v1) | set(v2) if v1.get(k, "<no plain value>") != v2.get(k, "<no plain value>"))
                    chk.fail({**case, "clause": "property-after-reparse", "property": k, "value": repr(v1.get(k)), "after": repr(v2.get(k))},
                             f"{cls.__name__}.{k} differs after serialise + parse")
                    continue
                pc = {**read_props(c, pnames), **read_scalars(c, vnames)}
                p1 = {**p1, **v1}
                if pc != p1:
                    k = next(k for k in p1 if p1[k] != pc.get(k, "<no plain value>"))
                    chk.fail({**case, "clause": "property-on-clone", "property": k, "value": p1[k] if isinstance(p1[k], (str, int, bool, type(None))) else repr(p1[k]), "on_clone": repr(pc.get(k))},
                             f"{cls.__name__}.{k} read on the clone differs from the element it was cloned from")
                    continue
            except Exception as ex:  # noqa: BLE001
                chk.fail({**case, "exception": repr(ex), "clause": "clone-class"}, f"{cls.__name__}.clone raised {type(ex).__name__}")
                continue
            # the generic attribute properties against the model (one request per string / bool / None value)
            model_reqs(reqs, cls, e, pnames, p1, case)
            # ---- properties set afterwards, on each access path: the constructed element, its re-parsed serialisation and its
            # clone must take the same attribute (whatever namespace it lives in) and still serialise to XML that parses back
            if pnames:
                ks = rng.sample(pnames, min(len(pnames), 3))
                vals = {k: rng.choice(["v1", "A b", True, "x&y"]) for k in ks}
                paths = {"constructed": e, "re-parsed": e2, "clone": c}
                out = {}
                for path, obj in paths.items():
                    try:
                        for k, v in vals.items():
                            setattr(obj, k, v)
                        back = Element.from_tag(obj.serialize())
                        out[path] = (type(back).__name__, cx(back), repr(read_props(back, ks)))
                    except Exception as ex:  # noqa: BLE001
                        out[path] = f"<raises {type(ex).__name__}>"
                chk.count("set-after", "same on the three paths" if len({repr(o) for o in out.values()}) == 1 else "differs")
                if isinstance(out["constructed"], str):
                    if any(not isinstance(o, str) for o in out.values()):
                        chk.fail({**case, "clause": "set-after-access-path", "set": {k: repr(v) for k, v in vals.items()}, "outcome": {k: (o if isinstance(o, str) else "ok") for k, o in out.items()}},
                                 f"{cls.__name__}: setting properties raises on one access path only")
                    continue
                for path in ("re-parsed", "clone"):
                    if out[path] != out["constructed"]:
                        chk.fail({**case, "clause": "set-after-access-path", "path": path, "set": {k: repr(v) for k, v in vals.items()},
                                  "outcome": out[path] if isinstance(out[path], str) else out[path][1].decode()[:200]},
                                 f"{cls.__name__}: properties set on the {path} element do not serialise / parse back like on the constructed one")
                        break
    # ---- every class that asks for a tag holds it: a class defined with a tag of its own (whatever the registry ended up
    # with) parses back from its own serialisation
    from odfdo.element import _get_lxml_tag

    def subs(k):
        for sub in k.__subclasses__():
            yield sub
            yield from subs(sub)

    chk.classifiers["tab_stop_tag_claimed_twice"] = lambda case: case.get("clause") == "registration-lost" and case.get("class") == "TabStopStyle" and case.get("holder") == "Style"
    for k in sorted(set(subs(Element)), key=lambda k: k.__name__):
        tag = k.__dict__.get("_tag") or ""
        if not k.__module__.startswith("odfdo.") or ":" not in tag or tag.endswith("-notodf"):
            continue
        holder = _class_registry.get(_get_lxml_tag(tag))
        chk.case(("own-tag", k.__name__), nontrivial=True)
        if holder is None or not (holder is k or issubclass(k, holder) and k in classes):
            # (a subclass registered for other tags of its own may share the base tag with its parent)
            chk.fail({"class": k.__name__, "tag": tag, "holder": getattr(holder, "__name__", None), "clause": "registration-lost"},
                     f"{k.__name__} is defined for {tag} but parsing that tag gives {getattr(holder, '__name__', None)}")
    dispatch_part(chk, rng, _class_registry, reqs)
    # the registry itself against the dumped table
    for tag, cls in _class_registry.items():
        reqs.append((f"rg class {enc_str(tag)}", f"ok {cls.__name__}", {"tag": tag}))
    answers = core.run_driver([q for q, _, _ in reqs])
    for (q, exp, case), ans in zip(reqs, answers):
        if exp != ans:
            chk.disagree({**case, "line": q[:200]}, f"impl {exp[:200]!r} != model {ans[:200]!r}")


def model_reqs(reqs, cls, e, pnames, p1, case):
    for k in pnames[:4]:
        v = p1[k]
        if isinstance(v, (str, bool)) or v is None:
            word = "N" if v is None else ("B1" if v is True else "B0" if v is False else "S" + enc_str(v))
            attr = e._Element__element.get(next((core_tag(p.attr) for kk in inspect.getmro(cls) for p in (getattr(kk, "_properties", ()) or ()) if p.name == k), ""))
            aw = "N" if attr is None else "S" + enc_str(attr)
            reqs.append((f"rg get {aw}", f"ok {word}", {**case, "property": k}))


def core_tag(qname: str) -> str:
    from odfdo.element import _get_lxml_tag

    return _get_lxml_tag(qname)


def dispatch_part(chk, rng, registry, reqs):
    """parsing a document gives each known tag its class, at any depth, through every access path"""
    from odfdo import Document, Element

    docs = [p for p in pkg.sample_files()]
    if chk.quick():
        docs = rng.sample(docs, 10)
    for src in docs:
        doc = Document(src)
        for partname in ("content", "styles"):
            root = doc.get_part(partname).root
            lroot = root._Element__element
            lx = [el for el in lroot.iter() if isinstance(el.tag, str)]
            if len(lx) > 1500:
                lx = rng.sample(lx, 1500)
            case0 = {"document": src.name, "part": partname}
            want = lambda el: registry.get(el.tag, Element)  # noqa: E731
            chk.case((src.name, partname), nontrivial=True)
            # get_elements / xpath: every descendant
            try:
                allw = root.get_elements("descendant-or-self::*")
                mism = [(w.tag, type(w).__name__) for w in allw if type(w) is not want(w._Element__element)]
                if mism:
                    chk.fail({**case0, "clause": "dispatch", "path": "get_elements", "examples": mism[:3]}, "get_elements returns a known tag with another class than the registry gives it")
                    continue
                allx = [w for w in root.xpath("descendant-or-self::*") if isinstance(w, Element)]
                mism = [(w.tag, type(w).__name__) for w in allx if type(w) is not want(w._Element__element)]
                if mism:
                    chk.fail({**case0, "clause": "dispatch", "path": "xpath", "examples": mism[:3]}, "xpath returns a known tag with another class than the registry gives it")
                    continue
                for w in rng.sample(allw, min(len(allw), 60)):
                    el = w._Element__element
                    for path, got in (("from_tag", Element.from_tag(el)), ("clone", w.clone)):
                        if type(got) is not want(el):
                            chk.fail({**case0, "clause": "dispatch", "path": path, "tag": w.tag, "got": type(got).__name__}, f"{path} gives a known tag another class than the registry")
                            raise StopIteration
                    kids = w.children
                    if [type(k) for k in kids] != [want(k._Element__element) for k in kids]:
                        chk.fail({**case0, "clause": "dispatch", "path": "children", "tag": w.tag}, "children gives a known tag another class than the registry")
                        raise StopIteration
                    for k in kids[:2]:
                        par = k.parent
                        if par is None or type(par) is not want(el):
                            chk.fail({**case0, "clause": "dispatch", "path": "parent", "tag": w.tag}, "parent gives a known tag another class than the registry")
                            raise StopIteration
                    if kids:
                        g = w.get_element("*")
                        if g is None or type(g) is not want(g._Element__element):
                            chk.fail({**case0, "clause": "dispatch", "path": "get_element", "tag": w.tag}, "get_element gives a known tag another class than the registry")
                            raise StopIteration
            except StopIteration:
                continue
            except Exception as ex:  # noqa: BLE001
                chk.fail({**case0, "exception": repr(ex), "clause": "dispatch-raises"}, f"walking the document raised {type(ex).__name__}")
    # unconventional prefixes: the class depends on the namespace URI, not on the prefix
    frag = (
        '<txt:p xmlns:txt="urn:oasis:names:tc:opendocument:xmlns:text:1.0" xmlns:d="urn:oasis:names:tc:opendocument:xmlns:drawing:1.0" '
        'xmlns:tbl="urn:oasis:names:tc:opendocument:xmlns:table:1.0" txt:style-name="S1">a<txt:span txt:style-name="T1">b</txt:span>'
        '<d:frame d:name="f1"><d:text-box><txt:p>in box</txt:p></d:text-box></d:frame><txt:s/><txt:bookmark txt:name="bk"/></txt:p>'
    )
    lroot = etree.fromstring(frag)
    root = Element.from_tag(lroot)
    case0 = {"document": "fragment with prefixes txt: / d: / tbl:", "part": "-"}
    chk.case(("fragment", "prefixes"), nontrivial=True, sample=case0)
    for w in [root] + root.get_elements("descendant::*"):
        el = w._Element__element
        if type(w) is not registry.get(el.tag, Element):
            chk.fail({**case0, "clause": "dispatch", "path": "unconventional prefix", "tag": el.tag, "got": type(w).__name__},
                     "with an unconventional namespace prefix a known tag does not get its class")
            break
        for k in w.children:
            if type(k) is not registry.get(k._Element__element.tag, Element):
                chk.fail({**case0, "clause": "dispatch", "path": "children (unconventional prefix)", "tag": k._Element__element.tag}, "children: a known tag does not get its class")
                break
    fr = root.get_element("descendant::draw:frame")
    if fr is None or getattr(fr, "name", None) != "f1":
        chk.fail({**case0, "clause": "dispatch", "path": "property (unconventional prefix)"}, "a Frame found under an unconventional prefix does not expose its name")


def replay(obj: dict) -> int:
    print(obj)
    return 0
