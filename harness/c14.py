"""C14 — anything is found again under the name it was given, whatever the name contains.

oracle: for every lookup entry point that takes a name or id, two objects are stored under two
different identifiers drawn from an alphabet rich in XPath / XML significant characters (accepted
by the respective setter); each lookup must return exactly its own object — in memory and after
save + reload — and never raise a query error.
correspondence: utils.xpath_literal vs OdfModel/XPathLit.lean, and lxml's evaluation of the
literal vs the Lean evaluator."""
from __future__ import annotations

import io

import core
from core import enc_str

ALPHA = ["a", "B", "7", " ", '"', "'", "&", "<", ">", "[", "]", "(", ")", "=", "@", "/", "é", "漢", "{", "}", ",", ".", "-", "_", ":", "*"]
FIXED = ['a"b', "a'b", "a\"b'c", '"', "'", "''", '""', "\"'\"", "it's \"q\"", "x & y", "<tag>", "a]b", "[@x='1']", "' or '1'='1", '" or "1"="1',
         "concat(", "a, 'b'", "é漢", "true", "false", "a  b", ")", "Profit & Loss", "a<b", "l'.a"]


def gen_name(rng):
    return "".join(rng.choice(ALPHA) for _ in range(rng.randint(1, 7)))


def variant(rng, n):
    """a different identifier that a sloppy query could confuse with n"""
    k = rng.randrange(6)
    if k == 0:
        return n + "x"
    if k == 1:
        return n.replace('"', "'") if '"' in n else n + '"'
    if k == 2:
        return n.replace("'", '"') if "'" in n else n + "'"
    if k == 3:
        return n[:-1] if len(n) > 1 else n + n
    if k == 4:
        return n.swapcase() if n.swapcase() != n else n + "_"
    return n.replace("&", "&amp;") if "&" in n else "z" + n


def run(chk: core.Check) -> None:
    from lxml import etree

    from odfdo import (Document, DrawPage, Frame, Header, Note, Paragraph, Style, Table, UserFieldDecl, VarDecl, VarSet, Annotation, Link, UserDefined)
    from odfdo.utils import xpath_literal

    rng = chk.rng
    # known finding C14-F3, as it shows on the pinned tree: these entry points read the name back through the generic attribute
    # getter (which decodes "true" / "false" into booleans). Any OTHER entry point that loses an object named "true" / "false"
    # is not that finding.
    F3_ENTRIES = {"get_annotation(name=)", "get_bookmark", "get_draw_page(name=)", "get_link(name=)", "get_note(note_id=)", "get_reference_mark_single",
                  "get_style", "get_user_defined", "get_user_field_decl", "get_variable_decl", "get_variable_set"}
    chk.classifiers["name_true_false_is_bool"] = lambda case: case.get("entry") in F3_ENTRIES and (
        case.get("name") in ("true", "false") or case.get("other") in ("true", "false") or case.get("lookup") in ("true", "false"))
    chk.rule = (
        "identifiers: a fixed list of quote / apostrophe / ampersand / bracket / injection-looking names + random strings over a 26-letter alphabet rich in "
        "XPath and XML significant characters; for each entry point two objects with two close but different identifiers, looked up in memory and after "
        "save + reload. non-trivial = the identifier contains a character significant for XPath or XML; distinct by (entry point, identifier pair)"
    )
    SIG = set("\"'&<>[]()=@/{}")
    names = list(FIXED) + [gen_name(rng) for _ in range(chk.n(220, 3000))]
    reqs = []
    root = etree.fromstring("<r/>")
    for n in names:
        # correspondence on the literal
        lit = xpath_literal(n)
        try:
            val = etree.XPath(lit)(root)
            lx = "ok " + enc_str(lit) + " " + enc_str(val)
        except etree.XPathError:
            lx = "ok " + enc_str(lit) + " NONE"
        reqs.append((f"xp lit {enc_str(n)}", lx, {"op": "literal", "name": n}))
        if lx.endswith("NONE") or val != n:
            chk.fail({"op": "xpath_literal", "name": n, "literal": lit}, "the XPath literal built for the identifier does not evaluate to the identifier (lxml)")

    def two(n):
        m = variant(rng, n)
        return (n, m) if m != n else (n, n + "2")

    def check(entry, n, m, store, lookup, ident, reload_lookup=None):
        """store(name) -> object or raises ValueError/TypeError if the setter refuses the name"""
        case = {"entry": entry, "name": n, "other": m}
        try:
            o1 = store(n)
            o2 = store(m)
        except (ValueError, TypeError):
            chk.count("entry", entry + " (refused by the setter)")
            return
        except Exception as e:  # noqa: BLE001
            chk.fail({**case, "exception": repr(e)}, f"{entry}: storing the object under this name failed with an internal error")
            return
        chk.count("entry", entry)
        chk.case((entry, n, m), nontrivial=bool(set(n) & SIG), sample=case if set(n) & SIG else None)
        w1 = o1 if isinstance(o1, str) else ident(o1)
        w2 = o2 if isinstance(o2, str) else ident(o2)
        if w1 == w2:
            return          # the setter normalised the two names to the same identifier
        for want in (w1, w2):
            try:
                got = lookup(want)
            except Exception as e:  # noqa: BLE001
                chk.fail({**case, "lookup": want, "exception": repr(e)}, f"{entry}: the lookup failed with an internal error")
                return
            if got is None or ident(got) != want:
                chk.fail({**case, "lookup": want, "found": None if got is None else ident(got)}, f"{entry}: the object is not found again under the name it was given / another one is")
                return
            # the same lookup on the model (OdfModel/XPathLit.selectByName: the predicate built with xpath_literal, evaluated on the
            # identifiers the document holds, first match): which of the two objects, if any
            if isinstance(w1, str) and isinstance(w2, str) and isinstance(want, str) and not ({w1, w2} & {"true", "false"}):
                gi = ident(got)
                reqs.append((f"xp select {enc_str(want)} {enc_str(w1)} {enc_str(w2)}", "ok " + ("0" if gi == w1 else "1" if gi == w2 else "OTHER"), {**case, "lookup": want, "op": "select"}))
                chk.count("lookup vs model", entry)

    for n in names:
        n1, n2 = two(n)
        # --- spreadsheet: tables
        doc = Document("spreadsheet")
        body = doc.body
        body.clear()

        def store_table(x, body=body):
            t = Table(x)
            body.append(t)
            return t
        check("get_table(name=)", n1, n2, store_table, lambda x, body=body: body.get_table(name=x), lambda o: o.name)
        # reload
        try:
            bio = io.BytesIO(); doc.save(bio); bio.seek(0)
            b2 = Document(bio).body
            for t in body.get_tables():
                nm = t.name
                r = b2.get_table(name=nm)
                if r is None or r.name != nm:
                    chk.fail({"entry": "get_table after reload", "name": nm}, "table not found under its name after save + reload")
        except Exception as e:  # noqa: BLE001
            chk.fail({"entry": "get_table after reload", "name": n1, "exception": repr(e)}, "save + reload + lookup raised")
        # --- spreadsheet: named ranges (names of letters, digits and underscores: the identifier is made valid first; "true" and
        #     "false" are valid names), looked up through the table, through the body, and deleted by name
        import re as _re

        def nr_name(x):
            y = _re.sub(r"[^0-9A-Za-z_À-ɏ]", "_", x)
            if not y or not (y[0].isalpha() or y[0] == "_"):
                y = "n_" + y
            return y + "_" if _re.fullmatch(r"[A-Za-z]{1,3}[0-9]+", y) else y
        sdoc = Document("spreadsheet")
        sbody = sdoc.body
        sbody.clear()
        stab = Table("Sheet")
        stab.set_values([[1, 2], [3, 4]])
        sbody.append(stab)
        r1, r2 = nr_name(n1), nr_name(n2)
        if r1 == r2:
            r2 = r1 + "x"

        def store_nr(x, k=[0]):
            k[0] += 1
            stab.set_named_range(x, (0, 0, k[0] % 2, 1))
            return x
        check("get_named_range (table)", r1, r2, store_nr, lambda x: stab.get_named_range(x), lambda o: o.name)
        check("get_named_range (body)", r1, r2, lambda x: x, lambda x: sbody.get_named_range(x), lambda o: o.name)
        try:
            stab.delete_named_range(r1)
            left = [nr.name for nr in stab.get_named_ranges()]
            if r1 in left or r2 not in left:
                chk.fail({"entry": "delete_named_range", "name": r1, "other": r2, "left": left}, "delete_named_range(name) does not delete exactly the named range of that name")
        except Exception as e:  # noqa: BLE001
            chk.fail({"entry": "delete_named_range", "name": r1, "exception": repr(e)}, f"delete_named_range raised {type(e).__name__}")
        # --- text document entry points
        doc = Document("text")
        body = doc.body
        body.clear()
        para = Paragraph("The quick brown fox jumps over the lazy dog and keeps running for a while")
        body.append(para)
        pos = [3]

        def nextpos():
            pos[0] += 2
            return pos[0]

        def st_bookmark(x):
            para.set_bookmark(x, position=nextpos())
            return x
        check("get_bookmark", n1, n2, st_bookmark, lambda x: body.get_bookmark(name=x), lambda o: o.name)

        def st_refmark(x):
            para.set_reference_mark(x, position=nextpos())
            return x
        check("get_reference_mark_single", n1, n2, st_refmark, lambda x: body.get_reference_mark_single(name=x), lambda o: o.name)
        check("get_reference_mark", n1 + "r", n2 + "r", st_refmark, lambda x: body.get_reference_mark(name=x), lambda o: o.name)

        def st_refrange(x):
            p = Paragraph("alpha beta gamma delta")
            body.append(p)
            p.set_reference_mark(x, content="beta")
            return x
        check("get_reference_mark(range)", n1 + "g", n2 + "g", st_refrange, lambda x: body.get_reference_mark(name=x), lambda o: o.name)

        def st_frame(x):
            f = Frame.text_frame("txt", size=("1cm", "1cm"), name=x)
            para.append(f)
            return f
        check("get_frame(name=)", n1, n2, st_frame, lambda x: body.get_frame(name=x), lambda o: o.name)

        def st_style(x):
            doc.insert_style(Style("paragraph", name=x))
            return x
        check("get_style", n1, n2, st_style, lambda x: doc.get_style("paragraph", x), lambda o: o.name)

        def st_vardecl(x):
            body.append(VarDecl(x, "float"))
            return x
        check("get_variable_decl", n1, n2, st_vardecl, lambda x: body.get_variable_decl(x), lambda o: o.name)

        def st_varset(x):
            para.append(VarSet(x, value=1))
            return x
        check("get_variable_set", n1, n2, st_varset, lambda x: body.get_variable_set(x), lambda o: o.name)

        def st_ufd(x):
            body.append(UserFieldDecl(x, value=3))
            return x
        check("get_user_field_decl", n1, n2, st_ufd, lambda x: body.get_user_field_decl(x), lambda o: o.name)

        def st_ud(x):
            para.append(UserDefined(name=x, value="v", value_type="string", text="v"))
            return x
        check("get_user_defined", n1, n2, st_ud, lambda x: body.get_user_defined(x), lambda o: o.name)

        def st_note(x):
            para.insert_note(note_id=x, citation="1", body="note body", after="fox")
            return x
        check("get_note(note_id=)", n1, n2, st_note, lambda x: body.get_note(note_id=x), lambda o: o.note_id)

        def st_annot(x):
            para.insert_annotation(Annotation("ann", name=x, creator="me"), after="dog")
            return x
        check("get_annotation(name=)", n1, n2, st_annot, lambda x: body.get_annotation(name=x), lambda o: o.name)

        def st_link(x):
            para.append(Link("http://example.com/", name=x, text="lnk"))
            return x
        check("get_link(name=)", n1, n2, st_link, lambda x: body.get_link(name=x), lambda o: o.name)

        # manifest paths
        man = doc.manifest

        def st_man(x):
            man.add_full_path("Pictures/" + x, "image/png")
            return x
        check("Manifest.get_media_type", n1, n2, st_man, lambda x: ("Pictures/" + x) if man.get_media_type("Pictures/" + x) == "image/png" and
              [p for p in man.get_paths() if str(p) == "Pictures/" + x] else None, lambda o: o[len("Pictures/"):])

        # user-defined metadata
        meta = doc.meta

        def st_meta(x):
            meta.set_user_defined_metadata(x, "v:" + x)
            meta.set_user_defined_metadata(x, "w:" + x)      # a second write must replace, not duplicate
            return x

        def lk_meta(x):
            d = meta.get_user_defined_metadata()
            cnt = sum(1 for e in meta.get_elements("//meta:user-defined") if e.get_attribute_string("meta:name") == x)
            return x if d.get(x) == "w:" + x and cnt == 1 else None
        check("user-defined metadata", n1, n2, st_meta, lk_meta, lambda o: o)

        # reload the text document and look everything up again
        try:
            bio = io.BytesIO(); doc.save(bio); bio.seek(0)
            d2 = Document(bio)
            b2 = d2.body
            for bm in body.get_bookmarks():
                if b2.get_bookmark(name=bm.name) is None:
                    chk.fail({"entry": "get_bookmark after reload", "name": bm.name}, "bookmark not found under its name after save + reload")
            for fr in body.get_frames():
                if fr.name and (b2.get_frame(name=fr.name) is None or b2.get_frame(name=fr.name).name != fr.name):
                    chk.fail({"entry": "get_frame after reload", "name": fr.name}, "frame not found under its name after save + reload")
        except Exception as e:  # noqa: BLE001
            chk.fail({"entry": "text document reload", "name": n1, "exception": repr(e)}, "save + reload + lookup raised")

        # --- presentation: draw pages
        if rng.random() < 0.5:
            doc = Document("presentation")
            body = doc.body
            body.clear()
            k = [0]

            def st_page(x, body=body, k=k):
                k[0] += 1
                body.append(DrawPage(f"id{k[0]}", name=x))
                return x
            check("get_draw_page(name=)", n1, n2, st_page, lambda x, body=body: body.get_draw_page(name=x), lambda o: o.name)

    answers = core.run_driver([q for q, _, _ in reqs])
    for (q, exp, case), ans in zip(reqs, answers):
        if exp != ans:
            chk.disagree({**case, "line": q}, f"impl/lxml {exp!r} != model {ans!r}")


def replay(obj: dict) -> int:
    print(obj)
    return 0
