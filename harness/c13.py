"""C13 — styles land in the right container, stay unique by family + name, are found again.

impl: sequences of insert_style (every family, named / unnamed, automatic / default / common),
set_table_displayed, add_page_break_style, delete_styles, merge_styles_from on the four templates
and on samples; the merged documents are templates, lpod_styles.odt and documents prepared by odfdo itself (templates that
received runs of unnamed automatic styles, hence styles named odfdo_auto_N); histories unnamed / merge / unnamed.  observed (lxml XPath on the serialised parts): the (part, container) of the
inserted style, the number of styles with its family and name there, Document.get_style on the
returned name (also after save + reload), freshness of generated names, the source of a merge.
model: OdfModel/Styles.lean (containers as lists, insertion, search order, automatic names)."""
from __future__ import annotations

import io
import re

from lxml import etree

import core
import pkg

NS = {
    "office": "urn:oasis:names:tc:opendocument:xmlns:office:1.0", "style": "urn:oasis:names:tc:opendocument:xmlns:style:1.0",
    "text": "urn:oasis:names:tc:opendocument:xmlns:text:1.0", "number": "urn:oasis:names:tc:opendocument:xmlns:datastyle:1.0",
    "draw": "urn:oasis:names:tc:opendocument:xmlns:drawing:1.0",
}
S = "{%s}" % NS["style"]
CONTAINERS = ["content:font-face-decls", "content:automatic-styles", "styles:font-face-decls", "styles:styles", "styles:automatic-styles", "styles:master-styles"]
STD = ["paragraph", "text", "table", "table-cell", "table-row", "table-column", "graphic", "section", "presentation", "drawing-page", "chart", "ruby"]
FALSE = {"list": "{%s}list-style" % NS["text"], "master-page": S + "master-page", "page-layout": S + "page-layout", "font-face": S + "font-face",
         "number": "{%s}number-style" % NS["number"], "date": "{%s}date-style" % NS["number"], "outline": "{%s}outline-style" % NS["text"]}


def family_of(e) -> str | None:
    """the family of a style element, read from the XML only"""
    if e.tag in (S + "style", S + "default-style"):
        return e.get(S + "family")
    for fam, tag in FALSE.items():
        if e.tag == tag:
            return fam
    return e.tag.rpartition("}")[2]


def snapshot(doc) -> dict:
    """container -> list of (tag localname, family, name, canonical xml) in order"""
    out = {}
    for partname, key in (("content", "content"), ("styles", "styles")):
        root = etree.fromstring(doc.get_part(partname).serialize())
        for cont in ("font-face-decls", "styles", "automatic-styles", "master-styles"):
            ck = f"{key}:{cont}"
            if ck not in CONTAINERS:
                continue
            el = root.find("{%s}%s" % (NS["office"], cont))
            items = []
            if el is not None:
                for ch in el:
                    if not isinstance(ch.tag, str):
                        continue
                    if ch.get(S + "name") is None and ch.tag.rpartition("}")[2] not in ("default-style", "fill-image", "marker"):
                        continue        # gradients, hatches, ... are not styles for the style API
                    items.append((ch.tag.rpartition("}")[2], family_of(ch), ch.get(S + "name") or ch.get("{%s}name" % NS["draw"]), etree.tostring(ch, method="c14n", exclusive=True)))
            out[ck] = items if el is not None else None
    return out


class Enc:
    """snapshot -> the words of the `sy` requests"""

    def __init__(self):
        self.names: dict = {}
        self.bodies: dict = {}

    def name(self, n) -> str:
        if n is None:
            return "-"
        m = re.fullmatch(r"odfdo_auto_([0-9]+)", n)
        if m and str(int(m.group(1))) == m.group(1):
            return f"a{int(m.group(1))}"
        if n not in self.names:
            self.names[n] = len(self.names) + 1
        return f"o{self.names[n]}"

    def body(self, xml: bytes) -> int:
        """identifier of a style element up to its tag (style / default-style) and its name"""
        el = etree.fromstring(xml)
        for a in (S + "name",):
            el.attrib.pop(a, None)
        if el.tag == S + "default-style":
            el.tag = S + "style"
        key = etree.tostring(el, method="c14n", exclusive=True)
        if key not in self.bodies:
            self.bodies[key] = len(self.bodies) + 1
        return self.bodies[key]

    def sty(self, it) -> str:
        tag, fam, nm, xml = it
        f = (fam or tag).replace(";", "_").replace(" ", "_")
        return f"{1 if tag == 'default-style' else 0};{f};{self.name(nm)};{self.body(xml)}"

    def doc(self, snap) -> str:
        order = ["content:font-face-decls", "content:automatic-styles", "styles:font-face-decls", "styles:styles", "styles:automatic-styles", "styles:master-styles"]
        return " | ".join(" ".join(self.sty(it) for it in (snap[c] or [])) for c in order)


def required_container(family: str, automatic: bool, default: bool) -> str:
    if family == "master-page":
        return "styles:master-styles"
    if family == "font-face":
        return "styles:font-face-decls" if default else "content:font-face-decls"
    if family == "page-layout":
        return "styles:automatic-styles"
    if automatic:
        return "content:automatic-styles"
    return "styles:styles"


PENDING_LOOKUPS: list = []


def gen_insert(rng, doc_type: str, snap=None):
    fam = rng.choice(STD + STD + ["list", "master-page", "page-layout", "font-face", "number"])
    mode = rng.choice(["common", "common", "automatic", "automatic", "automatic-unnamed", "default"])
    if fam in ("master-page", "page-layout", "list", "number") and mode in ("default", "automatic-unnamed"):
        mode = "common"
    if fam == "font-face":
        mode = rng.choice(["common", "default"])
    name = None if mode == "automatic-unnamed" else rng.choice(["A", "B", "odfdo_auto_2", "Standard", "Heading", "x y", "T1", "P1"])
    if snap is not None and rng.random() < 0.35:
        # a style that exists somewhere in the document: same family, same name
        pool = [(it[1], it[2]) for c in CONTAINERS for it in (snap[c] or []) if it[2] and it[1] in STD + ["list", "master-page", "page-layout", "font-face", "number"]]
        if pool:
            fam, name = rng.choice(pool)
            mode = rng.choice(["common", "automatic"]) if fam not in ("font-face",) else "common"
        # ... preferably one of a family WITHOUT dedicated search contexts (the data styles: number, date, ...) that sits among
        # the automatic styles, inserted again as a common style: which of the two a lookup finds is the search order
        data_pool = [(it[1], it[2]) for c in ("styles:automatic-styles", "content:automatic-styles") for it in (snap[c] or []) if it[2] and it[1] in ("number", "date")]
        if data_pool and rng.random() < 0.4:
            fam, name = rng.choice(data_pool)
            mode = "common"
    return ("insert", fam, mode, name, rng.randrange(100))


def make_style(op):
    from odfdo import Style

    _, fam, mode, name, k = op
    if fam == "font-face":
        return Style("font-face", name=name, font_name=name, font_family=f"'F{k}'")
    kw = {}
    if fam in ("paragraph", "text"):
        kw = {"bold": bool(k % 2)}
    if fam == "master-page":
        kw = {"page_layout": "Mpm1"}
    st = Style(fam, name=name, **kw)
    if fam not in ("font-face",):
        st.set_attribute("style:class" if fam in STD else "style:display-name", f"k{k}") if fam in STD else None
    return st


def TRANSLATE():
    import translate

    return translate.gen_style_contexts()


def run(chk: core.Check) -> None:
    from odfdo import Document

    rng = chk.rng
    chk.rule = (
        "sequences of 1..7 operations over {insert_style for 17 families x {common, automatic named, automatic unnamed, default} with colliding names, "
        "add_page_break_style, set_table_displayed, delete_styles, merge_styles_from (templates, lpod_styles.odt, and 'prepared' documents = a template into which "
        "1..5 unnamed automatic styles of 1..4 families and sometimes a named odfdo_auto_N were inserted first, so that the merged document holds generated names)} "
        "on the four templates and on samples, plus histories of the shape [0..2 random insertions] / unnamed automatic inserts of 1..3 families / merge of a prepared "
        "document holding the same families / unnamed automatic inserts of the same families again; after each "
        "insertion the six style containers are read back by XPath; every 3rd history is saved and reloaded. non-trivial = an insertion whose name already exists "
        "in the family, or an unnamed one; distinct by (source, history)"
    )
    chk.classifiers["same_name_in_an_earlier_container"] = lambda case: case.get("clause") == "lookup" and case.get("shadowed_by") is not None
    reqs = []
    chk.reqs_ref = reqs
    chk.enc = Enc()
    for h in range(chk.n(260, 4000)):
        kind = rng.choice(["text", "spreadsheet", "presentation", "drawing", "sample", "sample"])
        if kind == "sample":
            src = rng.choice([p for p in pkg.sample_files() if p.suffix in (".odt", ".ods", ".odp")])
            doc = Document(src)
            name = src.name
        else:
            doc = Document(kind)
            name = f"template:{kind}"
        chk.count("source", name if name.startswith("template") else "sample")
        hist = []
        try:
            snap = snapshot(doc)
        except Exception as e:  # noqa: BLE001
            chk.fail({"source": name, "exception": repr(e), "clause": "snapshot"}, f"reading the styles raised {type(e).__name__}")
            continue
        for step in range(rng.randrange(1, 8)):
            r = rng.random()
            case = {"source": name, "history": hist}
            if r < 0.05:
                # a burst of unnamed automatic styles of one family: the generated names must stay distinct past 9, 10, 11 …
                fam = rng.choice(["paragraph", "text", "table-cell", "graphic"])
                ok = True
                for j in range(rng.randrange(10, 14)):
                    op = ("insert", fam, "automatic-unnamed", None, j)
                    hist.append(list(op))
                    if not one_insert(chk, rng, doc, op, snap, {"source": name, "history": list(hist)}, reqs):
                        ok = False
                        break
                    snap = snapshot(doc)
                if not ok:
                    break
            elif r < 0.72:
                op = gen_insert(rng, kind, snap)
                hist.append(list(op))
                if not one_insert(chk, rng, doc, op, snap, {"source": name, "history": list(hist)}, reqs):
                    break
            elif r < 0.80:
                hist.append(["add_page_break_style"])
                try:
                    doc.add_page_break_style()
                    doc.add_page_break_style()
                except Exception as e:  # noqa: BLE001
                    chk.fail({**case, "exception": repr(e), "clause": "raises"}, f"add_page_break_style raised {type(e).__name__}")
                    break
                s2 = snapshot(doc)
                n = sum(1 for it in (s2["styles:styles"] or []) if it[1] == "paragraph" and it[2] == "odfdopagebreak")
                chk.case((name, repr(hist)), nontrivial=True)
                if n != 1:
                    chk.fail({**case, "clause": "unique", "count": n}, "add_page_break_style called twice leaves the page break style not exactly once among the common styles")
                    break
            elif r < 0.88:
                if not merge_step(chk, rng, doc, name, hist):
                    break
            elif r < 0.94 and kind in ("spreadsheet",):
                hist.append(["set_table_displayed"])
                try:
                    from odfdo import Table

                    if not doc.body.get_tables():
                        doc.body.append(Table("T1", width=1, height=1))
                    if rng.random() < 0.3:
                        # a table that names no style, in a document that received a default style of the table family
                        hist[-1] = ["set_table_displayed", "table without style, default table style present"]
                        doc.merge_styles_from(Document(pkg.TEMPLATE_DIR / "lpod_styles.odt"))
                        doc.body.get_tables()[0].style = None
                    doc.set_table_displayed(0, rng.random() < 0.5)
                except Exception as e:  # noqa: BLE001
                    chk.fail({**case, "exception": repr(e), "clause": "raises"}, f"set_table_displayed raised {type(e).__name__}")
                    break
                st = doc.get_table_style(0)
                chk.case((name, repr(hist)), nontrivial=True)
                if st is None or doc.get_style("table", st.name) is None:
                    chk.fail({**case, "clause": "lookup"}, "set_table_displayed: the style of the table is not found by the document lookup")
                    break
                # the style the table received is an automatic style: a style:style element (a copy of the family's DEFAULT style is
                # not one: C13-F8, a table without style name in a document that has a default table style)
                kinds = [it[0] for it in (snapshot(doc)["content:automatic-styles"] or []) if it[1] == "table" and it[2] == st.name]
                if kinds != ["style"]:
                    chk.fail({**case, "clause": "container", "table_style": st.name, "elements_of_that_name_among_the_automatic_styles": kinds},
                             "set_table_displayed: the style given to the table is not one style:style element among the automatic styles of content.xml")
                    break
            else:
                hist.append(["delete_styles"])
                try:
                    doc.delete_styles()
                except Exception as e:  # noqa: BLE001
                    chk.fail({**case, "exception": repr(e), "clause": "raises"}, f"delete_styles raised {type(e).__name__}")
                    break
            try:
                snap = snapshot(doc)
            except Exception as e:  # noqa: BLE001
                chk.fail({**case, "exception": repr(e), "clause": "snapshot"}, f"reading the styles raised {type(e).__name__}")
                break
    # unnamed / merge / unnamed: generated names must stay fresh when styles named odfdo_auto_N arrive by a merge in between
    for h in range(chk.n(36, 700)):
        kind = rng.choice(["text", "spreadsheet", "presentation", "drawing", "text", "sample"])
        if kind == "sample":
            src = rng.choice([p for p in pkg.sample_files() if p.suffix in (".odt", ".ods", ".odp")])
            doc = Document(src)
            name = src.name
        else:
            doc = Document(kind)
            name = f"template:{kind}"
        chk.count("source", (name if name.startswith("template") else "sample") + " (unnamed/merge/unnamed)")
        hist = []
        try:
            snap = snapshot(doc)
            ok = True
            for _ in range(rng.randrange(0, 3)):
                op = gen_insert(rng, kind, snap)
                hist.append(list(op))
                if not one_insert(chk, rng, doc, op, snap, {"source": name, "history": list(hist)}, reqs):
                    ok = False
                    break
                snap = snapshot(doc)
            if ok:
                sandwich(chk, rng, doc, name, hist, snap, reqs)
        except Exception as e:  # noqa: BLE001
            chk.fail({"source": name, "history": list(hist), "exception": repr(e), "clause": "snapshot"}, f"reading the styles back during the history raised {type(e).__name__}")
    answers = core.run_driver([q for q, _, _ in reqs])
    for (q, exp, case), ans in zip(reqs, answers):
        if exp != ans:
            chk.disagree({**case, "line": q[:400]}, f"impl {exp[:300]!r} != model {ans[:300]!r}")
    for idx, (fcase, what) in PENDING_LOOKUPS:
        if answers[idx] == reqs[idx][1]:
            chk.fail(fcase, what)                                  # the documented search order finds the other style: C13-F2
        else:
            chk.fail({**fcase, "shadowed_by": None, "model_of_the_search_order_finds": answers[idx][:200]},
                     what + " (and not the style the documented search order finds)")
    PENDING_LOOKUPS.clear()


def gen_prepared(rng, fams=None) -> list:
    """description of a document prepared by odfdo itself: a template + insertions of automatic styles, most of them unnamed
    (so the document holds styles named odfdo_auto_1 .. odfdo_auto_N), sometimes one named odfdo_auto_N (a gap in the numbering)"""
    fams = list(fams) if fams else rng.sample(STD, rng.randrange(1, 4))
    if rng.random() < 0.3:
        fams.append(rng.choice(STD))
    ops = []
    for fam in fams:
        if rng.random() < 0.25:
            ops.append(["insert", fam, "automatic", f"odfdo_auto_{rng.randrange(2, 13)}", rng.randrange(100)])
        for _ in range(rng.randrange(1, 6)):
            ops.append(["insert", fam, "automatic-unnamed", None, 100 + rng.randrange(100)])
    return ["prepared", rng.choice(["text", "spreadsheet", "presentation", "drawing"]), ops]


def build_prepared(spec):
    from odfdo import Document

    _, kind, ops = spec
    other = Document(kind)
    for op in ops:
        other.insert_style(make_style(tuple(op)), automatic=True)
    return other


def sandwich(chk, rng, doc, name, hist, snap, reqs) -> bool:
    """unnamed automatic inserts of some families / merge of a prepared document holding these families / unnamed inserts again"""
    fams = rng.sample(STD, rng.randrange(1, 4))

    def unnamed(fam, snap):
        for _ in range(rng.randrange(1, 3)):
            op = ("insert", fam, "automatic-unnamed", None, rng.randrange(100))
            hist.append(list(op))
            if not one_insert(chk, rng, doc, op, snap, {"source": name, "history": list(hist)}, reqs):
                return None
            snap = snapshot(doc)
        return snap

    for fam in fams:
        snap = unnamed(fam, snap)
        if snap is None:
            return False
    if not merge_step(chk, rng, doc, name, hist, spec=gen_prepared(rng, fams)):
        return False
    snap = snapshot(doc)
    rng.shuffle(fams)
    for fam in fams:
        snap = unnamed(fam, snap)
        if snap is None:
            return False
    chk.count("merge", "unnamed / merge / unnamed completed")
    return True


def merge_step(chk, rng, doc, name, hist, spec=None) -> bool:
    from odfdo import Document

    which = "prepared" if spec is not None else rng.choice(["text", "spreadsheet", "presentation", "lpod", "prepared"])
    if which == "prepared":
        spec = spec or gen_prepared(rng)
        hist.append(["merge", *spec])
    else:
        hist.append(["merge", which])
    case = {"source": name, "history": list(hist)}
    chk.count("merge", f"from {which}")
    try:
        other = build_prepared(spec) if which == "prepared" else Document(which) if which != "lpod" else Document(pkg.TEMPLATE_DIR / "lpod_styles.odt")
    except Exception as e:  # noqa: BLE001
        chk.fail({**case, "exception": repr(e), "clause": "raises"}, f"preparing the document to merge (insert_style) raised {type(e).__name__}")
        return False
    try:
        o0 = (other.get_part("content").serialize(), other.get_part("styles").serialize())
        before = snapshot(doc)
        osnap = snapshot(other)
        doc.merge_styles_from(other)
        after = snapshot(doc)
        o1 = (other.get_part("content").serialize(), other.get_part("styles").serialize())
    except NotImplementedError:
        chk.count("merge", "refused (NotImplementedError)")
        return True
    except Exception as e:  # noqa: BLE001
        chk.fail({**case, "exception": repr(e), "clause": "raises"}, f"merge_styles_from raised {type(e).__name__}")
        return False
    chk.case((name, repr(hist)), nontrivial=True, sample=case)
    if getattr(chk, "reqs_ref", None) is not None:
        chk.reqs_ref.append(("sy init " + chk.enc.doc(before), "ok", case))
        chk.reqs_ref.append(("sy other " + chk.enc.doc(osnap), "ok", case))
        chk.reqs_ref.append(("sy merge", "ok # " + chk.enc.doc(after), case))
    if o0 != o1:
        chk.fail({**case, "clause": "merge-source-unchanged"}, "merge_styles_from changed the document the styles come from")
        return False
    # union, the other document's definitions win: every named style of the other document is there with its definition
    for c in CONTAINERS:
        for tag, fam, nm, xml in (osnap[c] or []):
            if nm is None or tag == "default-style":
                continue
            mine = [it for it in (after[c] or []) if it[0] == tag and it[1] == fam and it[2] == nm]
            if len(mine) != 1 or mine[0][3] != xml:
                chk.fail({**case, "clause": "merge-union", "container": c, "family": fam, "name": nm, "found": len(mine)},
                         "after merge_styles_from a style of the other document is missing, duplicated or has not its definition")
                return False
    # nothing of mine is lost unless replaced
    for c in CONTAINERS:
        okeys = {(t, f, n) for t, f, n, _ in (osnap[c] or [])}
        for tag, fam, nm, xml in (before[c] or []):
            if nm is None or (tag, fam, nm) in okeys:
                continue
            if not any(it[0] == tag and it[1] == fam and it[2] == nm and it[3] == xml for it in (after[c] or [])):
                # a style of the same family and name in another container of the other document replaces it
                if any((tag, fam, nm) == (t, f, n) for cc in CONTAINERS for t, f, n, _ in (osnap[cc] or [])):
                    continue
                chk.fail({**case, "clause": "merge-union", "container": c, "family": fam, "name": nm}, "merge_styles_from lost a style of the receiving document")
                return False
    return True


def one_insert(chk, rng, doc, op, before, case, reqs) -> bool:
    from odfdo import Document

    _, fam, mode, name, k = op
    automatic = mode.startswith("automatic")
    default = mode == "default"
    # the definition is given as an object or as its XML text (insert_style takes both); the texts come from a small pool, so that
    # the SAME text is inserted again and again, in other containers and in other documents of the same process
    as_text = fam != "font-face" and not default and rng.random() < 0.3          # (a default style given as an object is rebuilt in place: the expectation below reads the object)
    if as_text:
        k = k % 2
        op = (op[0], fam, mode, name, k)
    try:
        style = make_style(op)
    except Exception as e:  # noqa: BLE001
        chk.count("insert", f"constructor refused {fam}")
        return True
    existing_names = {it[2] for c in CONTAINERS for it in (before[c] or []) if it[1] == fam and it[2]}
    nontriv = name is None or name in existing_names
    chk.case((case["source"], repr(case["history"])), nontrivial=nontriv, sample=case if nontriv else None)
    chk.count("insert", f"{mode}")
    chk.count("family", fam)
    enc = chk.enc
    sxml = etree.tostring(style._Element__element, method="c14n", exclusive=True)
    sty_in = enc.sty((style._Element__element.tag.rpartition("}")[2], fam, name, sxml))
    reqs.append(("sy init " + enc.doc(before), "ok", case))
    line = f"sy insert {sty_in} {int(automatic)} {int(default)}"
    try:
        chk.count("insert", "definition given as XML text" if as_text else "definition given as an object")
        ret = doc.insert_style(style.serialize() if as_text else style, automatic=automatic, default=default)
    except (AttributeError, ValueError) as e:
        chk.count("insert", f"refused: {type(e).__name__}")
        reqs.append((line, "refused", case))
        return True
    except Exception as e:  # noqa: BLE001
        chk.fail({**case, "exception": repr(e), "clause": "raises"}, f"insert_style raised {type(e).__name__}")
        return False
    try:
        after = snapshot(doc)
    except Exception as e:  # noqa: BLE001
        chk.fail({**case, "exception": repr(e), "clause": "snapshot"}, f"reading the styles raised {type(e).__name__}")
        return False
    reqs.append((line, f"ok {enc.name(ret if ret else None)} # {enc.doc(after)}", case))
    want_c = required_container(fam, automatic, default)
    if as_text and name is None and isinstance(ret, str):
        style.name = ret          # the name the library gave to the definition it parsed from the text
    xml = etree.tostring(style._Element__element, method="c14n", exclusive=True)
    tagl = "default-style" if default and fam in STD else None
    here = [it for it in (after[want_c] or []) if it[3] == xml]
    if not here:
        where = [c for c in CONTAINERS if any(it[3] == xml for it in (after[c] or []))]
        chk.fail({**case, "clause": "container", "required": want_c, "found_in": where}, "the inserted style is not in the container its family and kind require")
        return False
    if default:
        n = sum(1 for it in (after[want_c] or []) if it[0] == "default-style" and it[1] == fam) if fam in STD else 1
        if n != 1:
            chk.fail({**case, "clause": "unique", "container": want_c, "count": n}, "more than one default style of the family after the insertion")
            return False
        return True
    rname = here[0][2]
    if name is not None and rname != name:
        chk.fail({**case, "clause": "name", "returned": ret, "stored": rname}, "the style was stored under another name than the one given")
        return False
    if ret != rname:
        chk.fail({**case, "clause": "name", "returned": ret, "stored": rname}, "insert_style returns another name than the one the style is stored under")
        return False
    n = sum(1 for it in (after[want_c] or []) if it[1] == fam and it[2] == rname and it[0] == here[0][0])
    if n != 1:
        chk.fail({**case, "clause": "unique", "container": want_c, "family": fam, "name": rname, "count": n}, "the container holds several styles of this family and name after the insertion")
        return False
    if name is None:
        if rname in existing_names:
            chk.fail({**case, "clause": "fresh-name", "name": rname}, "the generated automatic name collides with an existing style of the family")
            return False
    # everything else is untouched (the replaced one apart)
    for c in CONTAINERS:
        b = [it for it in (before[c] or []) if not (c == want_c and it[1] == fam and it[2] == rname and it[0] == here[0][0])]
        a = [it for it in (after[c] or []) if not (c == want_c and it[3] == xml)]
        if b != a:
            chk.fail({**case, "clause": "others-untouched", "container": c}, "insert_style changed other styles")
            return False
    # lookup
    try:
        got = doc.get_style(fam, ret)
    except Exception as e:  # noqa: BLE001
        chk.fail({**case, "exception": repr(e), "clause": "lookup"}, f"get_style raised {type(e).__name__}")
        return False
    gx = etree.tostring(got._Element__element, method="c14n", exclusive=True) if got is not None else None
    if got is not None:
        ge = got._Element__element
        reqs.append((f"sy get {fam} {enc.name(ret)}", "ok " + enc.sty((ge.tag.rpartition("}")[2], family_of(ge), ge.get(S + "name"), gx)), case))
    else:
        reqs.append((f"sy get {fam} {enc.name(ret)}", "none", case))
    if gx != xml:
        shadow = [c for c in CONTAINERS if c != want_c and any(it[1] == fam and it[2] == ret for it in (after[c] or []))]
        failure = ({**case, "clause": "lookup", "returned": ret, "found": None if got is None else "another style", "shadowed_by": shadow or None},
                   "the document lookup does not find exactly the inserted style under the returned name")
        if shadow and got is not None:
            # known finding C13-F2 only if the MODEL of the documented search order finds that other style too: decided once
            # the driver has answered the `sy get` request just queued
            PENDING_LOOKUPS.append((len(reqs) - 1, failure))
        else:
            chk.fail(*failure)
        return False
    if rng.random() < 0.3:
        try:
            bio = io.BytesIO(); doc.save(bio); bio.seek(0)
            d2 = Document(bio)
            got2 = d2.get_style(fam, ret)
            gx2 = etree.tostring(got2._Element__element, method="c14n", exclusive=True) if got2 is not None else None
        except Exception as e:  # noqa: BLE001
            chk.fail({**case, "exception": repr(e), "clause": "reload"}, f"save + reload + lookup raised {type(e).__name__}")
            return False
        if gx2 != xml:
            chk.fail({**case, "clause": "lookup-after-reload", "returned": ret}, "after save and reload the lookup does not find the inserted style")
            return False
    return True


def wrap(xml: str) -> bytes:
    decl = " ".join(f'xmlns:{p}="{u}"' for p, u in {**NS, "fo": "urn:oasis:names:tc:opendocument:xmlns:xsl-fo-compatible:1.0", "svg": "urn:oasis:names:tc:opendocument:xmlns:svg-compatible:1.0",
                                                    "table": "urn:oasis:names:tc:opendocument:xmlns:table:1.0", "xlink": "http://www.w3.org/1999/xlink",
                                                    "presentation": "urn:oasis:names:tc:opendocument:xmlns:presentation:1.0", "chart": "urn:oasis:names:tc:opendocument:xmlns:chart:1.0",
                                                    "loext": "urn:org:documentfoundation:names:experimental:office:xmlns:loext:1.0"}.items())
    return f"<r {decl}>{xml}</r>".encode()


def replay(obj: dict) -> int:
    print(obj)
    return 0
