"""C17 — whole-table transformations preserve the content they are not meant to remove.

oracle: transpose twice = identity on values; rstrip / optimize_width idempotent, keep every
non-empty value at its coordinates, remove only trailing empty rows / cells; set_span +
del_span restores, covers exactly the area, refuses overlap, leaves values (merge=False);
CSV export + import keeps the values of the classes CSV can carry.
correspondence: rstrip and transpose vs OdfModel/Transform.lean (run structure / grid), spans vs
OdfModel/Span.lean."""
from __future__ import annotations

import io
from datetime import date, datetime, timedelta
from decimal import Decimal

import core
import tables as T

NS_T = T.TB


def coord_reads_ok(chk, t, which, rle):
    """after a transformation: reads by coordinates (served through the caches) equal the matrix, and a
    value written just below / right of the stripped table is read back"""
    from odfdo import Element

    vals = t.get_values()
    w, h = t.size
    for y in range(h):
        for x in range(w):
            try:
                v = t.get_value((x, y))
            except Exception as e:  # noqa: BLE001
                chk.fail({"op": which, **rle, "coord": (x, y), "exception": repr(e)}, f"after {which}: get_value by coordinates raised")
                return False
            if v != vals[y][x]:
                chk.fail({"op": which, **rle, "coord": (x, y), "get_value": v, "matrix": vals[y][x]}, f"after {which}: get_value by coordinates disagrees with get_values")
                return False
    try:
        t.set_value((0, h), "NEW")
        t.set_value((w, 0), "NEW2") if h else None
        got = (t.get_value((0, h)), t.get_value((w, 0)) if h else "NEW2")
        fresh = Element.from_tag(t.serialize())
        ok = got == ("NEW", "NEW2") and fresh.get_values() == t.get_values() and fresh.get_value((0, h)) == "NEW"
    except Exception as e:  # noqa: BLE001
        chk.fail({"op": which, **rle, "exception": repr(e)}, f"after {which}: writing next to the stripped table raised")
        return False
    if not ok:
        chk.fail({"op": which, **rle, "read_back": got, "live": t.get_values(), "fresh": fresh.get_values()}, f"after {which}: a value written next to the stripped table is not read back")
        return False
    return True


def strip_trailing(vals):
    """matrix modulo trailing empty columns and rows (a reading: they carry no content)"""
    rows = [list(r) for r in vals]
    while rows and all(v is None for v in rows[-1]):
        rows.pop()
    w = 0
    for r in rows:
        for i, v in enumerate(r):
            if v is not None:
                w = max(w, i + 1)
    return [r[:w] + [None] * (w - len(r[:w])) for r in rows]


def cells_of(t):
    return [[(c.get_value(), c.style) for c in r.traverse()] for r in t.traverse()]


def is_empty_cell(p, aggressive):
    v, s = p
    return v is None and (aggressive or s is None)


def gen_table(rng):
    cols, rows = T.gen_rle(rng)
    t = T.table_from_rle(cols, rows)
    return t, cols, rows


def run(chk: core.Check) -> None:
    from odfdo import Element

    rng = chk.rng
    chk.classifiers["csv_type_not_carried"] = lambda case: case.get("op") == "csv" and bool(case.get("uncarried_classes"))
    chk.rule = (
        "tables drawn as run-length encodings (repeats, ragged rows, styled empty cells, trailing empty rows/cells), 0-2 edits first; transpose x2, "
        "rstrip (aggressive or not) x2, optimize_width x2, compositions; spans: random areas on 2-5 x 2-5 tables with optional existing spans, set/del and "
        "overlapping attempts; merged cells as office applications store them (covered cells in repeated runs, styled or not, at the edges) under "
        "rstrip / optimize_width compositions, then overlap / del_span; CSV: value matrices over ints, floats, bools, plain strings (+ a stream of the classes CSV cannot carry). non-trivial = "
        "table has a repeat >= 2, a ragged row, a styled empty cell, a trailing empty row/cell, an existing span; distinct by (encoding, operation)"
    )
    lines, expects = [], []
    # ------------------------------------------------------------------ rstrip / optimize / transpose
    for _ in range(chk.n(500, 6000)):
        t, cols, rows = gen_table(rng)
        g = T.grid_from_rle(cols, rows)
        for _k in range(rng.randrange(3)):
            op = T.gen_op(rng, g)
            try:
                T.impl_apply(t, op)
            except Exception:  # noqa: BLE001
                break
            T.ref_apply(g, op)
            if g.rows and g.ncols == 0:
                break
        if g.rows and g.ncols == 0:
            continue
        for _k in range(rng.randrange(4)):
            T.do_read(t, T.gen_read(rng, g))          # cache-filling coordinate reads before the transformation
        rle = {"xml": t.serialize()}
        before_cells = cells_of(t)
        before_vals = t.get_values()
        which = rng.choice(["rstrip", "rstrip_aggr", "optimize_width", "transpose", "compose"])
        nontriv = any(r > 1 for _, r in rows) or len({len(r) for r in g.rows}) > 1 or any(is_empty_cell(c, True) for r in g.rows for c in r[-1:])
        chk.case((rle["xml"], which), nontriv, sample={"op": which, **rle} if nontriv else None)
        chk.count("transform", which)
        try:
            if which in ("rstrip", "rstrip_aggr", "optimize_width"):
                aggr = which == "rstrip_aggr"
                cs0, rs0, _p, _g = T.state_of_xml(t.serialize())
                if which == "optimize_width":
                    t.optimize_width()
                    aggr_eff = True
                else:
                    t.rstrip(aggressive=aggr)
                    aggr_eff = aggr
                after = cells_of(t)
                xml1 = t.serialize()
                # (1) keeps non-empty values at their coordinates, removes only trailing empties
                ok = True
                for y, row in enumerate(before_cells):
                    for x, c in enumerate(row):
                        kept = y < len(after) and x < len(after[y])
                        if kept and after[y][x] != c:
                            ok = False
                        if not kept and not is_empty_cell(c, aggr_eff):
                            ok = False
                if len(after) > len(before_cells) or any(len(a) > len(b) for a, b in zip(after, before_cells)):
                    ok = False
                if not ok:
                    chk.fail({"op": which, **rle, "before": before_cells, "after": after}, f"{which} changed or removed a non-empty value / did more than removing trailing empty rows and cells")
                    continue
                # (2) idempotent
                if which == "optimize_width":
                    t.optimize_width()
                else:
                    t.rstrip(aggressive=aggr)
                if cells_of(t) != after or t.get_values() != Element.from_tag(xml1).get_values():
                    chk.fail({"op": which, **rle, "once": after, "twice": cells_of(t)}, f"{which} is not idempotent")
                    continue
                # (3) fresh parse agrees, coordinate reads agree with the matrix, and the table is still usable
                if Element.from_tag(t.serialize()).get_values() != t.get_values():
                    chk.fail({"op": which, **rle}, f"after {which} the live table and its fresh parse disagree")
                    continue
                if not coord_reads_ok(chk, t, which, rle):
                    continue
                cs1, rs1, problems, _g1 = T.state_of_xml(xml1)
                if which != "optimize_width":
                    lines += [f"tbl init {cs0} {rs0}", f"tbl x rstrip {1 if aggr else 0}"]
                else:
                    # the run-length model of optimize_width (OdfModel/Transform.tblOptimize): same XML run structure
                    lines += [f"tbl init {cs0} {rs0}", "tbl x optimize"]
                expects += [None, (cs1, rs1, {"op": which, **rle})]
            elif which == "transpose":
                t.transpose()
                once = t.get_values()
                xml1 = t.serialize()
                t.transpose()
                twice = t.get_values()
                if strip_trailing(twice) != strip_trailing(before_vals):
                    chk.fail({"op": which, **rle, "before": before_vals, "after_two": twice}, "transposing twice does not give back the original matrix")
                    continue
                exp_once = [list(x) for x in zip(*[r + [None] * (max([len(q) for q in before_vals] + [0]) - len(r)) for r in before_vals])] if before_vals else []
                if strip_trailing(once) != strip_trailing(exp_once):
                    chk.fail({"op": which, **rle, "before": before_vals, "after_one": once}, "transpose is not the transposed matrix")
                    continue
                if t.name != "T":
                    chk.fail({"op": which, **rle, "name": t.name}, "transpose lost the table name")
                    continue
                cs0, rs0, _p, _g = T.state_of_xml(rle["xml"])
                cs1, rs1, _p1, _g1 = T.state_of_xml(xml1)
                lines += [f"tbl init {cs0} {rs0}", "tbl x transpose"]
                expects += [None, (cs1, rs1, {"op": which, **rle})]
            else:
                seq = [rng.choice(["rstrip", "optimize_width", "transpose", "transpose"]) for _ in range(3)]
                vals = strip_trailing(before_vals)
                ntr = 0
                for s in seq:
                    getattr(t, s)()
                    ntr += s == "transpose"
                got = strip_trailing(t.get_values())
                exp = vals if ntr % 2 == 0 else strip_trailing([list(x) for x in zip(*[r + [None] * (max([len(q) for q in vals] + [0]) - len(r)) for r in vals])] if vals else [])
                if got != exp:
                    chk.fail({"op": "compose", "seq": seq, **rle, "got": got, "expected": exp}, "a composition of rstrip / optimize_width / transpose lost or moved a value")
                    continue
        except Exception as e:  # noqa: BLE001
            import traceback
            chk.fail({"op": which, **rle, "exception": repr(e), "trace": traceback.format_exc()[-500:]}, f"{which} raised {type(e).__name__}")
    answers = core.run_driver(lines)
    for line, ans, exp in zip(lines, answers, expects):
        if exp is None:
            continue
        cs, rs, case = exp
        if not ans.startswith("ok "):
            chk.disagree({**case, "line": line}, f"model answers {ans!r}")
            continue
        if ans.endswith("spec=DIFF"):
            chk.disagree({**case, "line": line, "answer": ans}, "Lean run-length model of rstrip and Lean grid spec differ")
            continue
        st = T.parse_state(ans)
        mg = T.grid_of_spec(st["cols"], st["rows"]); ig = T.grid_of_spec(cs, rs)
        if mg.cells() != ig.cells() or mg.ncols != ig.ncols:
            chk.disagree({**case, "line": line, "impl": [cs, rs], "model": [st["cols"], st["rows"]]}, "model grid != implementation grid")

    span_part(chk)
    merged_part(chk)
    csv_part(chk)


# ---------------------------------------------------------------------------------------
# spans
# ---------------------------------------------------------------------------------------


def sgrid_of(t):
    """independent reading of span attributes / covered tags from the XML"""
    tbl = T.lxml_table(t.serialize())
    out = []
    for row in tbl.iter(NS_T + "table-row"):
        rr = int(row.get(NS_T + "number-rows-repeated", "1"))
        line = []
        for c in row:
            n = int(c.get(NS_T + "number-columns-repeated", "1"))
            v = T.cell_payload(c)[0]
            cell = (v, int(c.get(NS_T + "number-columns-spanned", "0")), int(c.get(NS_T + "number-rows-spanned", "0")), 1 if c.tag == NS_T + "covered-table-cell" else 0)
            line += [cell] * n
        out += [list(line) for _ in range(rr)]
    return out


VALS = [None, "a", "b", "c", "d", 7, 42]


def enc_sgrid(g):
    return "-" if not g else "/".join("e" if not r else ",".join(f"{VALS.index(c[0])}.{c[1]}.{c[2]}.{c[3]}" for c in r) for r in g)


def merged_part(chk):
    """spans as office applications store them (covered cells in repeated runs, styled or not, at the right / bottom edge)
    under rstrip / optimize_width and their compositions with set_span / del_span: a cell that belongs to a span is not an
    empty trailing cell, so the span still covers exactly its area, nothing non-empty moves, the operation is idempotent,
    an overlapping set_span is still refused and del_span still restores plain cells"""
    rng = chk.rng
    for _ in range(chk.n(450, 6000)):
        t, info = T.gen_merged_table(rng)
        g0 = sgrid_of(t)
        if info["areas"] and rng.random() < 0.4:
            # del_span of ONE span of a sheet stored with runs (covered cells of neighbouring spans in one repeated run, stacked
            # spans in one repeated row): the cells of its area become plain cells, nothing else changes
            x, y, z, tt = rng.choice(info["areas"])
            case = {"op": "merged del_span", **info, "area": (x, y, z, tt)}
            chk.case(("merged-del", info["merged_xml"], (x, y)), nontrivial=True)
            chk.count("merged", "del_span of one span")
            try:
                okd = t.del_span((x, y, x, y))
            except Exception as e:  # noqa: BLE001
                chk.fail({**case, "exception": repr(e)}, f"del_span raised {type(e).__name__} on a table with merged cells")
                continue
            g1 = sgrid_of(t)
            bad = None
            if not okd:
                bad = "del_span does not find the span"
            for j, row in enumerate(g0):
                for i, c in enumerate(row):
                    now = g1[j][i] if j < len(g1) and i < len(g1[j]) else None
                    inside = x <= i <= z and y <= j <= tt
                    want = (c[0], 0, 0, 0) if inside else c
                    if now != want and bad is None:
                        bad = f"cell ({i},{j}) {'inside' if inside else 'OUTSIDE'} the deleted span is {now}, expected {want}"
            if bad:
                chk.fail({**case, "problem": bad}, "del_span of one span changed something else than making the cells of its area plain cells")
            continue
        ops = [rng.choice(["rstrip", "rstrip_aggr", "optimize_width"]) for _k in range(rng.randint(1, 2))]
        case = {"op": "merged", **info, "ops": ops}
        chk.case(("merged", info["merged_xml"], tuple(ops)), nontrivial=True, sample=case)
        chk.count("merged", "+".join(ops))
        try:
            for o in ops:
                if o == "optimize_width":
                    t.optimize_width()
                else:
                    t.rstrip(aggressive=o == "rstrip_aggr")
            g1 = sgrid_of(t)
            last = ops[-1]
            if last == "optimize_width":
                t.optimize_width()
            else:
                t.rstrip(aggressive=last == "rstrip_aggr")
            g2 = sgrid_of(t)
        except Exception as e:  # noqa: BLE001
            chk.fail({**case, "exception": repr(e)}, f"{'+'.join(ops)} raised {type(e).__name__} on a table with merged cells")
            continue
        bad = None
        for j, row in enumerate(g0):
            for i, c in enumerate(row):
                if c[0] is not None or c[1] or c[2] or c[3]:
                    now = g1[j][i] if j < len(g1) and i < len(g1[j]) else None
                    if now != c:
                        bad = (i, j, c, now)
                        break
            if bad:
                break
        if bad:
            chk.fail({**case, "x": bad[0], "y": bad[1], "before": bad[2], "after": bad[3]},
                     "stripping / width-optimising removed or changed a cell that holds a value or belongs to a span")
            continue
        if g2 != g1:
            chk.fail({**case, "once": g1, "twice": g2}, f"{last} is not idempotent on a table with merged cells")
            continue
        for (x, y, z, tt) in info["areas"]:
            # the span still covers exactly its area
            okc = all((g1[j][i][1], g1[j][i][2], g1[j][i][3]) == ((z - x + 1, tt - y + 1, 0) if (i, j) == (x, y) else (0, 0, 1))
                      for j in range(y, tt + 1) for i in range(x, z + 1) if j < len(g1) and i < len(g1[j]))
            whole = all(j < len(g1) and i < len(g1[j]) for j in range(y, tt + 1) for i in range(x, z + 1))
            if not (okc and whole):
                chk.fail({**case, "area": (x, y, z, tt), "after": g1}, "after stripping the span no longer covers exactly its area")
                break
            if t.set_span((x, y, min(z + 1, len(g1[y]) - 1) if z + 1 < len(g1[y]) else z, tt)) and (z + 1 < len(g1[y])):
                chk.fail({**case, "area": (x, y, z, tt)}, "after stripping, set_span accepts an area that overlaps the existing span")
                break
            if not t.del_span((x, y, x, y)):
                chk.fail({**case, "area": (x, y, z, tt)}, "after stripping, del_span does not find the span")
                break
            g3 = sgrid_of(t)
            if any(g3[j][i][1] or g3[j][i][2] or g3[j][i][3] for j in range(y, tt + 1) for i in range(x, z + 1)):
                chk.fail({**case, "area": (x, y, z, tt), "after_del_span": g3}, "after stripping, del_span leaves covered / spanned cells in the area")
                break


def span_part(chk):
    from odfdo import Table

    rng = chk.rng
    lines, expects = [], []
    for _ in range(chk.n(250, 3000)):
        w, h = rng.randint(2, 5), rng.randint(2, 5)
        t = Table("S")
        vals = [[rng.choice(VALS) for _ in range(w)] for _ in range(h)]
        t.set_values(vals)
        def area():
            x = rng.randrange(w); z = rng.randrange(x, w); y = rng.randrange(h); tt = rng.randrange(y, h)
            return (x, y, z, tt)
        pre = []
        for _k in range(rng.randrange(3)):
            a = area()
            if t.set_span(a):
                pre.append(a)
        g0 = sgrid_of(t)
        lines.append(f"span init {enc_sgrid(g0)}"); expects.append(None)
        a = area()
        x, y, z, tt = a
        case = {"op": "span", "values": vals, "existing_spans": pre, "area": a}
        chk.case(("span", repr(vals), repr(pre), a), nontrivial=bool(pre) or (z - x) * (tt - y) > 0, sample=case)
        overlaps = any(g0[j][i][1] or g0[j][i][2] or g0[j][i][3] for j in range(y, tt + 1) for i in range(x, z + 1))
        before_vals = t.get_values()
        before_xml_grid = sgrid_of(t)
        ok = t.set_span(a)
        g1 = sgrid_of(t)
        lines.append(f"span set {x} {y} {z} {tt}"); expects.append((int(bool(ok)), g1, case))
        chk.count("span", f"set ok={bool(ok)} overlap={overlaps}")
        if (x, y) == (z, tt):
            if ok:
                chk.fail(case, "set_span on a single cell reported a span")
            continue
        if overlaps:
            if ok or g1 != g0:
                chk.fail({**case, "returned": ok}, "set_span did not refuse to overlap an existing span")
            continue
        if not ok:
            chk.fail(case, "set_span refused an area that overlaps no span")
            continue
        if t.get_values() != before_vals:
            chk.fail({**case, "before": before_vals, "after": t.get_values()}, "set_span changed values although merging was not asked")
            continue
        bad = False
        for j in range(h):
            for i in range(w):
                inside = x <= i <= z and y <= j <= tt
                c0, c1 = g0[j][i], g1[j][i]
                if not inside and c0 != c1:
                    bad = True
                if inside and (i, j) == (x, y) and (c1[1], c1[2], c1[3]) != (z - x + 1, tt - y + 1, 0):
                    bad = True
                if inside and (i, j) != (x, y) and (c1[1], c1[2], c1[3]) != (0, 0, 1):
                    bad = True
        if bad:
            chk.fail({**case, "after": g1}, "the span does not cover exactly the requested area")
            continue
        okd = t.del_span((x, y))
        g2 = sgrid_of(t)
        lines.append(f"span del {x} {y}"); expects.append((int(bool(okd)), g2, case))
        if not okd or g2 != g0 or t.get_values() != before_vals:
            chk.fail({**case, "before": g0, "after_set_del": g2}, "creating a span and deleting it does not restore the table")
    answers = core.run_driver(lines)
    for line, ans, exp in zip(lines, answers, expects):
        if exp is None:
            continue
        okflag, g, case = exp
        want = f"ok {okflag} {enc_sgrid(g)}"
        if ans != want:
            chk.disagree({**case, "line": line}, f"span: impl {want!r} != model {ans!r}")


# ---------------------------------------------------------------------------------------
# CSV
# ---------------------------------------------------------------------------------------


CSV_GOOD = [1, 0, -3, 42, 10**12, 1.5, -0.25, 3.0e10, True, False, "a", "abc", "é漢", "line", "Zq", None, "x_y", "v1"]
CSV_RISKY = [timedelta(hours=1, minutes=2), "007", "1e3", "true", "False", " pad ", "", date(2024, 1, 31), "2024-01-31", "12", "-5.5", "PT1H",
             "hello world", "x,y", 'q"t', "a;b"]


def value_class(v):
    import re as _re
    if isinstance(v, timedelta):
        return "timedelta"
    if isinstance(v, datetime):
        return "datetime"
    if isinstance(v, date):
        return "date"
    if isinstance(v, str):
        if v == "":
            return "empty-str"
        if v != v.strip():
            return "str-outer-blanks"
        if any(c in v for c in ' ,;"\t'):
            return "str-delimiter-quote-blank"
        try:
            float(v)
            return "str-looks-like-number"
        except ValueError:
            pass
        if v.lower() in ("true", "false"):
            return "str-looks-like-bool"
        if _re.match(r"-?P.", v):
            return "str-looks-like-duration"
        if _re.match(r"\d{4}-\d\d-\d\d", v):
            return "str-looks-like-date"
        return "str"
    return type(v).__name__


CARRIED = {"int", "float", "bool", "str", "NoneType"}


def csv_part(chk):
    from odfdo import Table
    from odfdo.table import import_from_csv

    rng = chk.rng
    for i in range(chk.n(160, 2000)):
        w, h = rng.randint(2, 5), rng.randint(1, 5)
        use_risky = i % 4 == 3
        pool = CSV_GOOD + (CSV_RISKY if use_risky else [])
        vals = [[rng.choice(pool) for _ in range(w)] for _ in range(h)]
        for r in vals:
            if r[-1] is None or r[-1] == "":
                r[-1] = 1          # a CSV line cannot end with empty fields (the import strips them)
        uncarried = sorted({value_class(v) for r in vals for v in r} - CARRIED)
        t = Table("C")
        t.set_values(vals)
        stored = t.get_values()
        case0 = {"op": "csv", "values": [[repr(v) for v in r] for r in vals], "uncarried_classes": uncarried}
        chk.case(("csv", repr(vals)), nontrivial=True)
        chk.count("csv", "only classes CSV carries" if not uncarried else "with classes CSV does not carry")
        explicit = rng.random() < 0.5
        try:
            text = t.to_csv()
            t2 = import_from_csv(io.StringIO(text), "C", delimiter=",", quotechar='"') if explicit else import_from_csv(io.StringIO(text), "C")
            back = t2.get_values()
        except Exception as e:  # noqa: BLE001
            chk.fail({**case0, "exception": repr(e)}, f"CSV export/import raised {type(e).__name__}")
            continue
        for y in range(h):
            for x in range(w):
                a = stored[y][x]
                b = back[y][x] if y < len(back) and x < len(back[y]) else None
                same = (a == b) or (a is None and b == "") or (
                    isinstance(a, (int, float, Decimal)) and not isinstance(a, bool) and isinstance(b, (int, float, Decimal)) and not isinstance(b, bool) and float(a) == float(b))
                if not same:
                    vc = value_class(vals[y][x])
                    chk.count("csv_mismatch", vc if not uncarried else "in a table with uncarried classes")
                    chk.fail({**case0, "x": x, "y": y, "stored": repr(a), "back": repr(b), "value_class": vc, "csv": text[:400]},
                             "CSV export + import changed a value")
                    break
            else:
                continue
            break


def replay(obj: dict) -> int:
    print(obj)
    return 0
