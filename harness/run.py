"""entry point of every check: ./check Cxx [--tier T] [--replay path]"""
from __future__ import annotations

import argparse
import importlib
import json
import os
import sys
import traceback
from pathlib import Path

sys.path.insert(0, str(Path(__file__).resolve().parent))
import core  # noqa: E402


def main() -> int:
    ap = argparse.ArgumentParser()
    ap.add_argument("pid")
    ap.add_argument("--tier", default=os.environ.get("VERIF_TIER", "quick"))
    ap.add_argument("--replay", default=None)
    a = ap.parse_args()
    pid = a.pid.upper()
    tier = a.tier if a.tier in ("quick", "thorough") else "quick"
    try:
        seed = int(os.environ.get("VERIF_SEED", "0"))
    except ValueError:
        seed = 0
    mod = importlib.import_module(pid.lower())
    if a.replay:
        p = Path(a.replay)
        if not p.is_absolute():
            p = core.VERIF / p
        obj = json.loads(p.read_text())
        return mod.replay(obj)
    chk = core.Check(pid, tier, seed, level=getattr(mod, "LEVEL", "proof"))
    try:
        chk.lean = core.lean_prepare(pid, getattr(mod, "TRANSLATE", None), tier)
        mod.run(chk)
    except core.DriverError as e:
        # the model driver could not be run: the correspondence is broken, not the property
        chk.disagree({"driver": "failed"}, str(e)[-1500:])
    except Exception:
        # a crash of the harness itself is an infrastructure error, never a violation
        traceback.print_exc()
        print(f"[{pid}] harness error (exit 2)")
        return 2
    return chk.finish()


if __name__ == "__main__":
    sys.exit(main())
