#!/bin/bash
# confirm_seed.sh <worktree> <seed-dir-name>  : demo fails with patch, suite passes with patch, demo passes without
WT=$1; NAME=$2; D=$WT/seeded/$NAME
cd $WT || exit 2
git checkout -q -- src
export PYTHONPATH=$WT/src
/venv/bin/python $D/demo.py > /tmp/confirm-$NAME-clean.log 2>&1; CLEAN=$?
git apply $D/patch.diff || { echo "$NAME: patch does not apply"; exit 2; }
/venv/bin/python $D/demo.py > /tmp/confirm-$NAME-mut.log 2>&1; MUT=$?
/venv/bin/python -m pytest -q -p no:cacheprovider -x -n 6 > /tmp/confirm-$NAME-suite.log 2>&1; SUITE=$?
git checkout -q -- src
echo "$NAME: demo_clean_exit=$CLEAN demo_mutant_exit=$MUT suite_exit=$SUITE $(tail -1 /tmp/confirm-$NAME-suite.log)"
