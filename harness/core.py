"""Shared machinery of the checks: PRNG, Lean build / gate / axiom audit, driver client,
evidence + replay writers, known-finding matcher, decision rule (DESIGN.md 1.1, 1.2)."""
from __future__ import annotations

import fcntl
import hashlib
import json
import os
import random
import re
import subprocess
import sys
import time
import traceback
from collections import Counter
from pathlib import Path

VERIF = Path(__file__).resolve().parent.parent
LEAN = VERIF / "lean"
REPO = Path(os.environ.get("ODFDO_REPO", "/repo"))
SRC = Path(os.environ.get("ODFDO_SRC", str(REPO / "src")))
GUARD = "JDUM_ODFDO_VERIF"
os.environ.setdefault(GUARD, "1")
# the implementation under test is always the current working tree
if str(SRC) not in sys.path:
    sys.path.insert(0, str(SRC))

ALLOWED_AXIOMS = {"propext", "Classical.choice", "Quot.sound"}
FORBIDDEN = re.compile(
    r"\bsorry\b|\badmit\b|^\s*axiom\s|native_decide|bv_decide|implemented_by|\bunsafe\s|maxHeartbeats\s+0\b",
    re.M,
)
TRUSTED_BASE = [
    "Lean 4.33 kernel; axioms limited to propext, Classical.choice, Quot.sound (audited with #print axioms on every registered theorem at every run; no native_decide, no bv_decide, no sorry, no own axiom)",
    "hand-written executable Lean models of the anchored Python functions: modelled, not verified; agreement with /repo/src is sampled by the correspondence run of this check, never proved",
    "the Python harness (generators, canonicalisers, encoding of cases to driver lines, independent oracles over lxml)",
    "lxml/libxml2 parse/serialise/XPath and CPython stdlib (str/int/float repr, datetime, re, zipfile) are parameters of the models",
]


def now() -> float:
    return time.monotonic()


# ---------------------------------------------------------------------------------------
# Lean side
# ---------------------------------------------------------------------------------------


class LeanStatus:
    def __init__(self) -> None:
        self.build_ok = True
        self.build_log = ""
        self.gate_hits: list[str] = []
        self.theorems: dict[str, dict] = {}
        self.generated_changed: list[str] = []
        self.rechecked = "not run (quick tier)"

    @property
    def obligations(self) -> int:
        return len(self.theorems)

    @property
    def discharged(self) -> int:
        return sum(1 for t in self.theorems.values() if t["ok"])

    @property
    def ok(self) -> bool:
        return (
            self.build_ok
            and not self.gate_hits
            and self.obligations > 0
            and self.discharged == self.obligations
        )

    def failing(self) -> list[str]:
        out = []
        if not self.build_ok:
            out.append("lake build failed")
        out += [f"forbidden token: {h}" for h in self.gate_hits]
        out += [
            f"theorem {n}: {t['why']}" for n, t in self.theorems.items() if not t["ok"]
        ]
        return out


def _lock():
    LEAN.mkdir(exist_ok=True)
    f = open(LEAN / ".build.lock", "w")
    fcntl.flock(f, fcntl.LOCK_EX)
    return f


def _strip_comments(src: str) -> str:
    # nested block comments, then line comments
    out = []
    depth = 0
    i = 0
    n = len(src)
    while i < n:
        if src.startswith("/-", i):
            depth += 1
            i += 2
        elif depth and src.startswith("-/", i):
            depth -= 1
            i += 2
        elif depth:
            i += 1
        elif src.startswith("--", i):
            j = src.find("\n", i)
            i = n if j < 0 else j
        else:
            out.append(src[i])
            i += 1
    return "".join(out)


def lean_gate() -> list[str]:
    hits = []
    for p in sorted(LEAN.rglob("*.lean")):
        rel = p.relative_to(LEAN)
        if rel.parts[0].startswith("."):
            continue
        txt = _strip_comments(p.read_text())
        for m in FORBIDDEN.finditer(txt):
            hits.append(f"{rel}: {m.group(0).strip()}")
    return hits


def props_registry() -> dict[str, list[str]]:
    return json.loads((LEAN / "props.json").read_text())


def lean_prepare(pid: str, translate=None, tier: str = "quick") -> LeanStatus:
    """regenerate generated models, build, gate, audit axioms of the theorems of `pid`."""
    st = LeanStatus()
    lock = _lock()
    try:
        if translate is not None:
            try:
                st.generated_changed = translate() or []
            except Exception as e:  # a translator that cannot read the source = broken tie
                st.build_ok = False
                st.build_log = "translator failed: " + "".join(
                    traceback.format_exception_only(type(e), e)
                )
                names = props_registry().get(pid, [])
                st.theorems = {
                    n: {"ok": False, "why": "translator failed", "axioms": []}
                    for n in names
                }
                return st
        r = subprocess.run(
            ["lake", "build", "OdfModel", f"OdfProps.{pid}"],
            cwd=LEAN,
            capture_output=True,
            text=True,
        )
        st.build_ok = r.returncode == 0
        st.build_log = (r.stdout + r.stderr)[-6000:]
        st.gate_hits = lean_gate()
        names = props_registry().get(pid, [])
        if not st.build_ok:
            st.theorems = {
                n: {"ok": False, "why": "module does not build", "axioms": []}
                for n in names
            }
            return st
        adir = LEAN / ".audit"
        adir.mkdir(exist_ok=True)
        af = adir / f"{pid}.lean"
        af.write_text(
            f"import OdfProps.{pid}\n" + "".join(f"#print axioms {n}\n" for n in names)
        )
        r = subprocess.run(
            ["lake", "env", "lean", str(af)], cwd=LEAN, capture_output=True, text=True
        )
        out = r.stdout + r.stderr
        found: dict[str, list[str]] = {}
        for m in re.finditer(
            r"'([^']+)' depends on axioms: \[([^\]]*)\]", out.replace("\n", " ")
        ):
            found[m.group(1)] = [a.strip() for a in m.group(2).split(",") if a.strip()]
        for m in re.finditer(r"'([^']+)' does not depend on any axioms", out):
            found[m.group(1)] = []
        for n in names:
            if n not in found:
                st.theorems[n] = {
                    "ok": False,
                    "why": "not found in the built module",
                    "axioms": [],
                }
            else:
                bad = [a for a in found[n] if a not in ALLOWED_AXIOMS]
                st.theorems[n] = {
                    "ok": not bad,
                    "why": ("inadmissible axioms " + ",".join(bad)) if bad else "",
                    "axioms": found[n],
                }
        if tier == "thorough":
            # the toolchain's independent re-checker replays the compiled module in a fresh kernel
            r = subprocess.run(["lake", "env", "leanchecker", f"OdfProps.{pid}"], cwd=LEAN, capture_output=True, text=True)
            if r.returncode == 0:
                st.rechecked = f"leanchecker OdfProps.{pid}: accepted"
            else:
                st.rechecked = f"leanchecker OdfProps.{pid}: REJECTED"
                st.build_ok = False
                st.build_log = "leanchecker rejected the module:\n" + (r.stdout + r.stderr)[-3000:]
        return st
    finally:
        lock.close()


def run_driver(lines: list[str], timeout: int = 1200) -> list[str]:
    """pipe request lines to the Lean model driver; one answer line per request."""
    if not lines:
        return []
    r = subprocess.run(
        ["lake", "env", "lean", "--run", "Driver.lean"],
        cwd=LEAN,
        input="\n".join(lines) + "\n",
        capture_output=True,
        text=True,
        timeout=timeout,
    )
    out = r.stdout.split("\n")
    if out and out[-1] == "":
        out.pop()
    if r.returncode != 0 or len(out) != len(lines):
        raise DriverError(
            f"driver exit {r.returncode}, {len(out)} answers for {len(lines)} requests: "
            + (r.stderr or "")[-2000:]
        )
    return out


class DriverError(Exception):
    pass


def enc_str(s: str) -> str:
    return "e" if s == "" else ",".join(str(ord(c)) for c in s)


def dec_str(tok: str) -> str:
    return "" if tok == "e" else "".join(chr(int(t)) for t in tok.split(","))


# ---------------------------------------------------------------------------------------
# known findings
# ---------------------------------------------------------------------------------------


def load_known(pid: str) -> tuple[list[dict], list[dict]]:
    known, fixed = [], []
    p = VERIF / "known_findings.jsonl"
    if p.exists():
        for line in p.read_text().splitlines():
            line = line.strip()
            if not line or line.startswith("#"):
                continue
            e = json.loads(line)
            if pid in str(e.get("property", "")).split("/"):
                (known if e.get("status") == "known" else fixed).append(e)
    return known, fixed


# ---------------------------------------------------------------------------------------
# the check object
# ---------------------------------------------------------------------------------------


class Check:
    def __init__(self, pid: str, tier: str, seed: int, level: str = "proof"):
        self.pid = pid
        self.tier = tier
        self.seed = seed
        self.level = level
        self.rng = random.Random(f"{pid}:{seed}")
        self.t0 = now()
        self.lean: LeanStatus | None = None
        self.evaluations = 0
        self.nontrivial: set = set()
        self.samples: list = []
        self.hist: dict[str, Counter] = {}
        self.violations: list[dict] = []
        self.disagreements: list[dict] = []  # impl != model
        self.disagreements_checked = 0
        self.known, self.fixed = load_known(pid)
        self.known_hit: dict[str, dict] = {}
        self.classifiers: dict = {}
        self.rule = ""
        self.extra: dict = {}
        self.assumptions: list[str] = []
        self.exhaustive = False
        self.budget_s = float(os.environ.get("VERIF_BUDGET_S", "0")) or None

    # -- bookkeeping -------------------------------------------------------------------
    def quick(self) -> bool:
        return self.tier == "quick"

    def n(self, quick: int, thorough: int) -> int:
        return quick if self.tier == "quick" else thorough

    def count(self, histogram: str, key) -> None:
        self.hist.setdefault(histogram, Counter())[str(key)] += 1

    def case(self, key=None, nontrivial: bool = False, sample=None) -> None:
        """register one executed case; `key` is its canonical form (for distinctness)"""
        self.evaluations += 1
        if nontrivial and key is not None:
            self.nontrivial.add(
                hashlib.blake2s(repr(key).encode(), digest_size=8).digest()
            )
        if sample is not None and len(self.samples) < 5:
            self.samples.append(sample)

    # -- failures ----------------------------------------------------------------------
    def fail(self, case: dict, what: str) -> bool:
        """impl violates the property on `case`. Returns True when it is a listed known
        finding (classifier matches), False when it is a new violation."""
        for e in self.known:
            clf = self.classifiers.get(e.get("classifier"))
            try:
                hit = bool(clf and clf(case))
            except Exception:
                hit = False
            if hit:
                if e["id"] not in self.known_hit:
                    self.known_hit[e["id"]] = {"entry": e, "case": case, "what": what, "n": 0}
                self.known_hit[e["id"]]["n"] += 1
                return True
        if len(self.violations) < 50:
            self.violations.append({"case": case, "what": what})
        return False

    def disagree(self, case: dict, what: str) -> None:
        """impl and Lean model differ on `case` (not by itself a violation)"""
        self.disagreements_checked += 1
        if len(self.disagreements) < 50:
            self.disagreements.append({"case": case, "what": what})

    # -- output ------------------------------------------------------------------------
    def _write_replay(self, obj: dict) -> str:
        d = VERIF / "replays" / self.pid
        d.mkdir(parents=True, exist_ok=True)
        blob = json.dumps(obj, sort_keys=True, default=str, ensure_ascii=False)
        h = hashlib.blake2s(blob.encode(), digest_size=6).hexdigest()
        p = d / f"{h}.json"
        p.write_text(json.dumps(obj, indent=1, default=str, ensure_ascii=False))
        return str(p.relative_to(VERIF))

    def finish(self) -> int:
        lean = self.lean
        lines = []
        rc = 0
        for kid, k in sorted(self.known_hit.items()):
            lines.append(f"KNOWN-FINDING: property={self.pid} {kid} {k['entry']['what']}")
        if self.violations:
            rc = 1
            seen = set()
            for v in self.violations[:5]:
                path = self._write_replay(
                    {"property": self.pid, "kind": "failing-input", "seed": self.seed,
                     "tier": self.tier, **v}
                )
                if path in seen:
                    continue
                seen.add(path)
                lines.append(f"VIOLATION property={self.pid} replay={path}")
        elif (lean is not None and not lean.ok) or self.disagreements:
            rc = 1
            obj = {
                "property": self.pid,
                "kind": "no-failing-input-found",
                "seed": self.seed,
                "tier": self.tier,
                "lean_obligations_failing": lean.failing() if lean else [],
                "lean_build_log_tail": (lean.build_log[-3000:] if lean and not lean.build_ok else ""),
                "correspondence_disagreements": self.disagreements[:10],
                "note": "the property is no longer shown to hold: a theorem or the model/"
                "implementation correspondence no longer checks; the failing-input "
                "search on the implementation found no concrete violating input",
            }
            path = self._write_replay(obj)
            lines.append(
                f"VIOLATION property={self.pid} replay={path} no-failing-input-found"
            )
        self._write_evidence(rc)
        for ln in lines:
            print(ln)
        for d in self.disagreements[:3]:
            print(f"  disagreement impl/model: {d['what'][:300]} case={json.dumps(d['case'], default=str, ensure_ascii=False)[:300]}")
        for v in self.violations[:3]:
            print(f"  violation: {v['what'][:300]}")
        lean_s = "n/a"
        if lean is not None:
            lean_s = f"{'ok' if lean.ok else 'FAIL'} ({lean.discharged}/{lean.obligations} theorems)"
        print(
            f"[{self.pid}] tier={self.tier} seed={self.seed} evaluations={self.evaluations} "
            f"nontrivial={len(self.nontrivial)} lean={lean_s} "
            f"disagreements={self.disagreements_checked} known={len(self.known_hit)} "
            f"violations={len(self.violations)} wall={now() - self.t0:.1f}s exit={rc}"
        )
        return rc

    def _write_evidence(self, rc: int) -> None:
        lean = self.lean
        cov = {
            "evaluations": self.evaluations,
            "distinct_nontrivial": len(self.nontrivial),
            "rule": self.rule,
            "samples": self.samples[:5] or ["(no case executed)"],
            "obligations": lean.obligations if lean else 0,
            "discharged": lean.discharged if lean else 0,
            "checker_cmd": f"cd /verif/lean && lake build OdfModel OdfProps.{self.pid} && lake env lean .audit/{self.pid}.lean  # #print axioms of every registered theorem",
            "trusted_base": TRUSTED_BASE,
            "theorems": {
                n: (t["axioms"] if t["ok"] else "FAILED: " + t["why"])
                for n, t in (lean.theorems.items() if lean else [])
            },
            "disagreements_checked": self.disagreements_checked,
            "known_findings_hit": {k: v["n"] for k, v in self.known_hit.items()},
            "histograms": {k: dict(v.most_common(40)) for k, v in self.hist.items()},
            "exhaustive": self.exhaustive,
            "lean_rebuilt": lean.generated_changed if lean else [],
            "lean_rechecked": lean.rechecked if lean else "",
        }
        cov.update(self.extra)
        ev = {
            "property_id": self.pid,
            "tier": self.tier,
            "seed": self.seed,
            "level": self.level,
            "coverage": cov,
            "assumptions": self.assumptions,
            "wall_s": round(now() - self.t0, 2),
            "violations": len(self.violations)
            + (1 if rc and not self.violations else 0),
        }
        d = VERIF / "evidence"
        d.mkdir(exist_ok=True)
        (d / f"{self.pid}.json").write_text(
            json.dumps(ev, indent=1, default=str, ensure_ascii=False)
        )


# ---------------------------------------------------------------------------------------
# shrinking
# ---------------------------------------------------------------------------------------


def shrink_list(items: list, fails, max_rounds: int = 200) -> list:
    """greedy delta-debugging: drop elements while `fails(items)` stays true"""
    cur = list(items)
    rounds = 0
    chunk = max(1, len(cur) // 2)
    while chunk >= 1 and rounds < max_rounds:
        i = 0
        progressed = False
        while i < len(cur) and rounds < max_rounds:
            cand = cur[:i] + cur[i + chunk:]
            rounds += 1
            ok = False
            try:
                ok = bool(cand != cur and fails(cand))
            except Exception:
                ok = False
            if ok:
                cur = cand
                progressed = True
            else:
                i += chunk
        if not progressed:
            chunk //= 2
    return cur


def err_kind(e: BaseException) -> str:
    if isinstance(e, ValueError):
        return "value"
    if isinstance(e, TypeError):
        return "type"
    if isinstance(e, IndexError):
        return "index"
    if isinstance(e, KeyError):
        return "key"
    return "other"
