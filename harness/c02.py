"""C02 — what a table answers in memory is what its own XML says when parsed afresh.

after EVERY step of every history (with cache-filling reads forced before the mutations) three
answers are compared: the live object, Element.from_tag(live.serialize()) and an independent
lxml expansion of the XML; at the end of the history (thorough: at every step) the table is put
in a spreadsheet document, saved to a buffer and reloaded."""
from __future__ import annotations

import io

import core
import tables as T
from c01 import run_histories, run_row_histories


def reads_of(t, g, rng_state):
    """a deterministic bundle of reads (same coordinates for live and fresh)"""
    import random

    rng = random.Random(rng_state)
    W, H = g.ncols, len(g.rows)
    out = {"size": tuple(t.size), "values": t.get_values()}
    for i in range(4):
        x = rng.randrange(-W, W + 2) if W else rng.randrange(0, 2)
        y = rng.randrange(-H, H + 2) if H else rng.randrange(0, 2)
        out[f"get_value({x},{y})"] = t.get_value((x, y))
        c = t.get_cell((x, y))
        out[f"get_cell({x},{y})"] = (c.get_value(), c.style)
    if H:
        y = rng.randrange(H)
        row = t.get_row(y)
        out[f"row({y})"] = (row.get_values(), row.width)
    if W:
        x = rng.randrange(W)
        out[f"col_values({x})"] = t.get_column_values(x)
        out[f"col({x}).repeated"] = t.get_column(x).repeated is None or True
    out["traverse"] = [[(c.get_value(), c.style) for c in r.traverse()] for r in t.traverse()]
    out["columns"] = len(list(t.traverse_columns()))
    return out


def extra(chk, t, g, case):
    from odfdo import Element

    seed = hash(repr(case["ops"][-1])) & 0xFFFF
    xml = t.serialize()
    try:
        live = reads_of(t, g, seed)
    except Exception as e:  # noqa: BLE001
        chk.fail({**case, "exception": repr(e)}, "a read of the live table raised")
        return False
    fresh_t = Element.from_tag(xml)
    fresh = reads_of(fresh_t, g, seed)
    for k in live:
        if live[k] != fresh.get(k):
            chk.fail({**case, "read": k, "live": live[k], "fresh_parse": fresh.get(k)},
                     f"live table and fresh parse of its own XML disagree on {k}")
            return False
    lg, cols, rows, problems = T.lxml_grid(xml)
    if lg.values() != live["values"] or (lg.ncols, len(lg.rows)) != live["size"]:
        chk.fail({**case, "live": [live["size"], live["values"]], "independent_reader": [(lg.ncols, len(lg.rows)), lg.values()]},
                 "live table disagrees with an independent expansion of its XML")
        return False
    if [[c for c in r] for r in lg.cells()] != [[c for c in r] for r in live["traverse"]]:
        chk.fail({**case, "live": live["traverse"], "independent_reader": lg.cells()}, "cells (value, style) differ from the independent expansion")
        return False
    chk.count("c02", "steps with live==fresh==lxml")
    if chk.tier == "thorough" or len(case["ops"]) % 3 == 0:
        if not save_reload(chk, t, live, case):
            return False
    return True


def save_reload(chk, t, live, case):
    from odfdo import Document

    doc = Document("spreadsheet")
    doc.body.clear()
    doc.body.append(t.clone)
    bio = io.BytesIO()
    doc.save(bio)
    bio.seek(0)
    t2 = Document(bio).body.get_table(0)
    if tuple(t2.size) != live["size"] or t2.get_values() != live["values"]:
        chk.fail({**case, "live": [live["size"], live["values"]], "reloaded": [tuple(t2.size), t2.get_values()]},
                 "a document saved right after the operation reloads to another table")
        return False
    chk.count("c02", "save+reload")
    return True


def run(chk: core.Check) -> None:
    chk.rule = (
        "the C01 histories with a cache-filling read (get_row / get_cell / get_value / traverse / get_column / get_values / get_column_cells, "
        "clone True/False) before most mutations; after every mutation the live object, the fresh parse of its serialisation and an independent "
        "lxml expansion are compared on size, matrix, random cells (in / edge / beyond / negative), a row and its width, a column, traverse with "
        "styles; save + reload of a document every third step (thorough: every step). non-trivial as in C01; distinct by (encoding, op prefix)"
    )
    run_histories(chk, chk.n(600, 12000), 8, compare_runs=False, reads=True, extra=extra)
    run_row_histories(chk, chk.n(500, 8000))


def replay(obj: dict) -> int:
    print(obj)
    return 0
