"""C02 — what a table answers in memory is what its own XML says when parsed afresh.

after EVERY step of every history (with cache-filling reads forced before the mutations) three
answers are compared: the live object, Element.from_tag(live.serialize()) and an independent
lxml expansion of the XML; at the end of the history (thorough: at every step) the table is put
in a spreadsheet document, saved to a buffer and reloaded."""
from __future__ import annotations

import io

import core
import tables as T
from c01 import run_histories, run_row_histories


def reads_of(t, g, rng_state):
    """a deterministic bundle of reads (same coordinates for live and fresh)"""
    import random

    rng = random.Random(rng_state)
    W, H = g.ncols, len(g.rows)
    out = {"size": tuple(t.size), "values": t.get_values()}
    for i in range(4):
        x = rng.randrange(-W, W + 2) if W else rng.randrange(0, 2)
        y = rng.randrange(-H, H + 2) if H else rng.randrange(0, 2)
        out[f"get_value({x},{y})"] = t.get_value((x, y))
        c = t.get_cell((x, y))
        out[f"get_cell({x},{y})"] = (c.get_value(), c.style)
    if H:
        y = rng.randrange(H)
        row = t.get_row(y)
        out[f"row({y})"] = (row.get_values(), row.width)
    if W:
        x = rng.randrange(W)
        out[f"col_values({x})"] = t.get_column_values(x)
        out[f"col({x}).repeated"] = t.get_column(x).repeated is None or True
    out["traverse"] = [[(c.get_value(), c.style) for c in r.traverse()] for r in t.traverse()]
    out["columns"] = len(list(t.traverse_columns()))
    return out


def extra(chk, t, g, case):
    from odfdo import Element

    seed = hash(repr(case["ops"][-1])) & 0xFFFF
    xml = t.serialize()
    try:
        live = reads_of(t, g, seed)
    except Exception as e:  # noqa: BLE001
        chk.fail({**case, "exception": repr(e)}, "a read of the live table raised")
        return False
    fresh_t = Element.from_tag(xml)
    fresh = reads_of(fresh_t, g, seed)
    for k in live:
        if not T.same(live[k], fresh.get(k)):
            chk.fail({**case, "read": k, "live": live[k], "fresh_parse": fresh.get(k)},
                     f"live table and fresh parse of its own XML disagree on {k}")
            return False
    lg, cols, rows, problems = T.lxml_grid(xml)
    if not T.same(lg.values(), live["values"]) or (lg.ncols, len(lg.rows)) != live["size"]:
        chk.fail({**case, "live": [live["size"], live["values"]], "independent_reader": [(lg.ncols, len(lg.rows)), lg.values()]},
                 "live table disagrees with an independent expansion of its XML")
        return False
    if not T.same(lg.cells(), live["traverse"]):
        chk.fail({**case, "live": live["traverse"], "independent_reader": lg.cells()}, "cells (value, style) differ from the independent expansion")
        return False
    chk.count("c02", "steps with live==fresh==lxml")
    if chk.tier == "thorough" or len(case["ops"]) % 3 == 0:
        if not save_reload(chk, t, live, case):
            return False
    return True


def save_reload(chk, t, live, case):
    from odfdo import Document

    doc = Document("spreadsheet")
    doc.body.clear()
    doc.body.append(t.clone)
    bio = io.BytesIO()
    doc.save(bio)
    bio.seek(0)
    t2 = Document(bio).body.get_table(0)
    if tuple(t2.size) != live["size"] or not T.same(t2.get_values(), live["values"]):
        chk.fail({**case, "live": [live["size"], live["values"]], "reloaded": [tuple(t2.size), t2.get_values()]},
                 "a document saved right after the operation reloads to another table")
        return False
    chk.count("c02", "save+reload")
    return True


# ---------------------------------------------------------------------------------------
# the object layer: the caches of wrapper objects against OdfModel/TableObj.lean
# ---------------------------------------------------------------------------------------

OBJ_READS = ["get_value", "get_cell", "get_row", "get_row_values"]


def _elem(w):
    return getattr(w, "_Element__element", None)


def cache_walk(t):
    """(dump, problems): the table's cache of Row wrappers in the driver's format
    `idx:rmap:cellidx=payload,...;...` (maps as cumulative counts) and, checked on the live objects, whether
    every cached wrapper holds the element at its key (the identification the Lean model makes).
    dump is None when the private attributes are not there (renamed): then only answers are compared."""
    idx_map = getattr(t, "_indexes", {}).get("_tmap") if isinstance(getattr(t, "_indexes", None), dict) else None
    root = _elem(t)
    if idx_map is None or root is None:
        return None, []
    rows = [e for e in root if e.tag == T.TB + "table-row"]
    out, problems = [], []
    for idx in sorted(idx_map):
        w = idx_map[idx]
        el = _elem(w)
        rmap = getattr(w, "_rmap", None)
        if el is None or rmap is None:
            return None, []
        if idx >= len(rows) or rows[idx] is not el:
            problems.append(f"the cached row wrapper under key {idx} does not hold the row element of odf index {idx}")
            continue
        cells = [c for c in el if c.tag in (T.TB + "table-cell", T.TB + "covered-table-cell")]
        cc = getattr(w, "_indexes", {}).get("_rmap", {})
        items = []
        for i in sorted(cc):
            cel = _elem(cc[i])
            if cel is None:
                continue
            if i >= len(cells) or cells[i] is not cel:
                problems.append(f"row wrapper {idx}: the cached cell wrapper under key {i} does not hold the cell element of odf index {i}")
                continue
            items.append(f"{i}={T.pay_id(T.cell_payload(cel))}")
        out.append(f"{idx}:{'.'.join(str(p + 1) for p in rmap) or '-'}:{','.join(items) or '-'}")
    return ";".join(out) or "-", problems


def gen_obj_history(rng, max_ops=9):
    """mutations of the proved alphabet with 0-3 cache-filling reads before each, tables parsed from XML"""
    cols, rows = T.gen_rle(rng)
    g = T.grid_from_rle(cols, rows)
    ops = []
    for _ in range(rng.randint(2, max_ops)):
        for _r in range(rng.choice([0, 1, 1, 2, 3])):
            W, H = g.ncols, len(g.rows)
            ops.append({"op": "read", "read": rng.choice(OBJ_READS), "x": rng.randrange(-W, W + 2) if W else rng.randrange(2),
                        "y": rng.randrange(-H, H + 2) if H else rng.randrange(2), "clone": rng.random() < 0.5})
        r = rng.random()
        if r < 0.05:
            # not in the alphabet of the history theorems (what it removes depends on the run-length encoding), but
            # Transform.tblOptimize predicts the XML it leaves; the wrapper cache the code must leave: empty
            op = {"op": "optimize_width"}
        elif r < 0.10:
            op = {"op": "rstrip", "aggr": rng.random() < 0.5}
        elif r < 0.15:
            op = {"op": "transpose"}
        else:
            op = T.gen_op(rng, g)
            while op["op"] == "set_column_values":
                op = T.gen_op(rng, g)
        ops.append(op)
        # (for optimize_width the reference grid only serves to draw later coordinates: approximated by rstrip)
        T.ref_apply(g, {"op": "rstrip", "aggr": False} if op["op"] == "optimize_width" else op)
        if g.rows and g.ncols == 0:
            break
    return {"cols": cols, "rows": rows, "how": "xml", "ops": ops}


def obj_line(op):
    if op["op"] == "rstrip":
        return f"otb op rstrip {1 if op['aggr'] else 0}"
    if op["op"] == "transpose":
        return "otb op transpose"
    if op["op"] != "read":
        return "otb" + T.op_line(op)[3:]
    r = op["read"]
    if r in ("get_value", "get_cell"):
        return f"otb getv {op['x']} {op['y']}"
    if r == "get_row":
        return f"otb touch {op['y']}"
    return f"otb rowv {op['y']}"


def obj_impl(t, op):
    """apply to the implementation; the answer of a value read (None otherwise)"""
    if op["op"] == "optimize_width":
        t.optimize_width()
        return None
    if op["op"] != "read":
        T.impl_apply(t, op)
        return None
    r = op["read"]
    if r == "get_value":
        return [t.get_value((op["x"], op["y"]))]
    if r == "get_cell":
        return [t.get_cell((op["x"], op["y"]), clone=op["clone"]).get_value()]
    if r == "get_row":
        t.get_row(op["y"], clone=op["clone"])
        return None
    return list(t.get_row_values(op["y"]))


def run_obj_histories(chk: core.Check, n_hist: int):
    from odfdo import Element

    rng = chk.rng
    lines, expects = [], []
    for hno in range(n_hist):
        h = gen_obj_history(rng)
        t = T.table_from_rle(h["cols"], h["rows"])
        case0 = {"cols": h["cols"], "rows": h["rows"], "how": "xml"}
        cs, rs, _p, _g = T.state_of_xml(t.serialize())
        dump, problems = cache_walk(t)
        lines.append(f"otb init {cs} {rs}")
        expects.append((cs, rs, dump, None, {**case0, "ops": []}))
        done = []
        for op in h["ops"]:
            done.append(op)
            case = {**case0, "ops": list(done)}
            chk.count("obj_ops", op["op"] if op["op"] != "read" else "read:" + op["read"])
            try:
                ans = obj_impl(t, op)
            except Exception as e:  # noqa: BLE001
                chk.fail({**case, "exception": repr(e)}, f"{op.get('read', op['op'])} raised {type(e).__name__} (object-layer history)")
                break
            xml = t.serialize()
            cs, rs, _p, _g = T.state_of_xml(xml)
            dump, problems = cache_walk(t)
            if dump is None:
                chk.count("obj", "caches not observable (private attributes absent)")
            chk.case(("obj", repr(case)), nontrivial=bool(dump and dump != "-"))
            if problems:
                # a wrapper that no longer holds the element at its key: look for the stale read it causes
                fr = Element.from_tag(xml)
                bad = None
                for y in range(t.height):
                    try:
                        if list(t.get_row_values(y)) != list(fr.get_row_values(y)):
                            bad = (y, list(t.get_row_values(y)), list(fr.get_row_values(y)))
                            break
                    except Exception as e:  # noqa: BLE001
                        bad = (y, repr(e), "fresh parse answers")
                        break
                if bad:
                    chk.fail({**case, "row": bad[0], "live": bad[1], "fresh_parse": bad[2], "cache": problems[0]},
                             "a read is served from a cached wrapper that an earlier operation made obsolete")
                else:
                    chk.disagree({**case, "cache": problems}, problems[0])
                break
            if ans is not None:
                fr = Element.from_tag(xml)
                fresh = obj_impl(fr, op)
                if fresh != ans:
                    chk.fail({**case, "live": ans, "fresh_parse": fresh}, f"{op['read']} through the caches differs from the fresh parse of the table's own XML")
                    break
            if op["op"] == "optimize_width":
                if dump not in (None, "-"):
                    # the transformation edits the rows through fresh wrappers: a wrapper cached before would keep an obsolete map
                    fr = Element.from_tag(xml)
                    bad = None
                    for y in range(t.height):
                        live = (list(t.get_row_values(y)), t.get_row(y).width)
                        fresh_ = (list(fr.get_row_values(y)), fr.get_row(y).width)
                        if not T.same(live, fresh_):
                            bad = (y, live, fresh_)
                            break
                    if bad:
                        chk.fail({**case, "row": bad[0], "live": bad[1], "fresh_parse": bad[2], "cache_left": dump},
                                 "after optimize_width a read is served from a cached wrapper that the transformation made obsolete")
                    else:
                        chk.disagree({**case, "cache_left": dump}, "optimize_width left cached row wrappers behind (the code empties the cache; no stale read found)")
                    break
                lines.append("otb xop optimize")
                expects.append((cs, rs, dump, None, case))
                continue
            lines.append(obj_line(op))
            expects.append((cs, rs, dump, ans, case))
    answers = core.run_driver(lines)
    skip_until_init = False
    for line, a, (cs, rs, dump, ans, case) in zip(lines, answers, expects):
        if line.startswith("otb init"):
            skip_until_init = False
        if skip_until_init:
            continue
        if not a.startswith("ok "):
            chk.disagree({**case, "line": line}, f"object-layer model answers {a!r} where the implementation succeeded")
            skip_until_init = True
            continue
        fields = dict(p.partition("=")[::2] for p in a.split(" ")[3:] if "=" in p)
        if fields.get("xml") in ("DIFF", "none"):
            chk.disagree({**case, "line": line, "answer": a}, "object-layer model and XML-level model differ on this step (cached_step_refines would be false here)")
            skip_until_init = True
            continue
        if fields.get("cols") != cs or fields.get("rows") != rs:
            mg, ig = T.grid_of_spec(fields["cols"], fields["rows"]), T.grid_of_spec(cs, rs)
            if mg.cells() != ig.cells() or mg.ncols != ig.ncols:
                chk.disagree({**case, "line": line, "impl": [cs, rs], "model": [fields["cols"], fields["rows"]]}, "object-layer model grid != implementation grid")
            else:
                chk.count("obj", "same grid, different runs (cache keys not comparable, history dropped)")
            skip_until_init = True
            continue
        if ans is not None:
            got = fields.get("ans", "-")
            mvals = [] if got == "-" else [T.id_pay(int(v))[0] for v in got.split(",")]
            if mvals != ans or [type(v) for v in mvals] != [type(v) for v in ans]:
                chk.disagree({**case, "line": line, "impl": ans, "model": mvals}, "answer of a read through the caches: implementation != object-layer model")
                skip_until_init = True
                continue
            if fields.get("ans") != fields.get("fresh"):
                chk.disagree({**case, "line": line, "answer": a}, "object-layer model: answer through the caches != answer of the cache-free model")
        if dump is not None:
            if fields.get("cache") != dump:
                chk.disagree({**case, "line": line, "impl_cache": dump, "model_cache": fields.get("cache")},
                             "wrapper caches (_indexes['_tmap'], each wrapper's _rmap and cached cells): implementation != object-layer model")
                skip_until_init = True
                continue
            chk.count("obj", "steps with identical wrapper caches" + ("" if dump == "-" else " (non-empty)"))


# ---------------------------------------------------------------------------------------
# wide alphabet: every public mutator of Table / Row, whole-table transformations included,
# decided by the live-vs-fresh-vs-independent-reader oracle alone (no model, no reference grid)
# ---------------------------------------------------------------------------------------

WIDE_OPS = ["rstrip", "rstrip_aggr", "optimize_width", "transpose", "set_span", "del_span", "extend_rows", "set_column_cells",
            "live_row_edit", "row_repeated", "cell_repeated", "clear_row"]
LIVE_REPEATED = ("row_repeated", "cell_repeated")
WIDE_READS = T.READS + ["get_row_values", "get_row_width", "get_cells", "is_row_empty"]


def wide_read(t, rng):
    W, H = t.size
    r = rng.choice(WIDE_READS)
    x, y = rng.randrange(W + 2), rng.randrange(H + 2)
    try:
        if r == "get_row_values":
            t.get_row_values(y)
        elif r == "get_row_width":
            t.get_row(y, clone=False).width  # noqa: B018
        elif r == "get_cells":
            t.get_cells()
        elif r == "is_row_empty":
            t.is_row_empty(y)
        else:
            T.do_read(t, {"read": r, "x": x, "y": y, "clone": rng.random() < 0.5})
    except (ValueError, IndexError):
        pass
    return (r, x, y)


def wide_op(t, rng):
    """apply one mutator chosen at random; returns its description"""
    from odfdo import Cell, Row

    W, H = t.size
    if rng.random() < 0.45:
        g = T.Grid()
        g.ncols = W
        g.rows = [[T.EMPTY] * W for _ in range(H)]
        op = T.gen_op(rng, g)
        T.impl_apply(t, op)
        return op
    k = rng.choice(WIDE_OPS + ["optimize_width", "optimize_width", "rstrip"])
    d = {"op": k}
    if k in ("rstrip", "rstrip_aggr"):
        t.rstrip(aggressive=k == "rstrip_aggr")
    elif k == "optimize_width":
        t.optimize_width()
    elif k == "transpose":
        t.transpose()
    elif k == "set_span":
        if W and H:
            x, y = rng.randrange(W), rng.randrange(H)
            d["area"] = (x, y, min(W - 1, x + rng.randrange(3)), min(H - 1, y + rng.randrange(3)))
            t.set_span(d["area"])
    elif k == "del_span":
        if W and H:
            d["area"] = (rng.randrange(W), rng.randrange(H))
            t.del_span((d["area"][0], d["area"][1], d["area"][0], d["area"][1]))
    elif k == "extend_rows":
        d["rows"] = [T.expand_line(T.gen_line(rng, 3)) for _ in range(rng.randint(1, 2))]
        t.extend_rows([T.mk_row(r, rng.choice(T.REPS)) for r in d["rows"]])
    elif k == "set_column_cells":
        if W:
            d["x"] = rng.randrange(W)
            t.set_column_cells(d["x"], [T.mk_cell(T.gen_payload(rng)) for _ in range(H)])
    elif k == "live_row_edit":
        # a row obtained with clone=False is the table's own row: editing it edits the table
        if H:
            d["y"] = rng.randrange(H)
            row = t.get_row(d["y"], clone=False)
            if (row.repeated or 1) == 1:
                d["x"] = rng.randrange(W + 1)
                row.set_cell(d["x"], T.mk_cell(T.gen_payload(rng), rng.choice(T.REPS)))
                t._update_width(row) if hasattr(t, "_update_width") else None
    elif k == "row_repeated":
        if H:
            d["y"] = rng.randrange(H)
            d["rep"] = rng.choice([None, 2, 3])
            t.get_row(d["y"], clone=False).repeated = d["rep"]
    elif k == "cell_repeated":
        if H and W:
            d["x"], d["y"] = rng.randrange(W), rng.randrange(H)
            d["rep"] = rng.choice([None, 2, 3])
            t.get_cell((d["x"], d["y"]), clone=False).repeated = d["rep"]
    elif k == "clear_row":
        if H:
            d["y"] = rng.randrange(H)
            t.set_row(d["y"], Row())
    return d


def run_wide_histories(chk: core.Check, n_hist: int, extra=None):
    rng = chk.rng
    extra = extra or globals()["extra"]
    for hno in range(n_hist):
        if rng.random() < 0.3:
            # merged cells the way office applications store them (covered cells as repeated runs, styled or not)
            t, case0 = T.gen_merged_table(rng)
            chk.count("wide_initial", "office-style merged cells")
        else:
            cols, rows = T.gen_rle(rng)
            if rows and rng.random() < 0.4:
                # rows ending in a repeated run of empty cells, the last row holding a value: what optimize_width / rstrip
                # shorten IN PLACE through fresh wrappers (a wrapper cached before keeps its own map)
                rows = [(cells + [(T.EMPTY, rng.choice([2, 3, 7]))], rep) for cells, rep in rows[:-1]] + [(rows[-1][0] + [(("z", None), 1)], rows[-1][1])]
                width = max(sum(r for _, r in cells) for cells, _ in rows)
                cols = [(None, width + rng.choice([0, 2]))]
            t = T.table_from_rle(cols, rows)
            case0 = {"cols": cols, "rows": rows, "how": "xml"}
            chk.count("wide_initial", "run-length encoding")
        done = []
        for _ in range(rng.randint(2, 7)):
            failed = False
            for _r in range(rng.choice([0, 1, 2, 3])):
                try:
                    done.append({"op": "read", "read": wide_read(t, rng)})
                except Exception as e:  # noqa: BLE001
                    import traceback

                    chk.fail({**case0, "ops": list(done), "exception": repr(e), "trace": traceback.format_exc()[-700:]},
                             f"a read of the table raised {type(e).__name__} (the caches do not hold what the XML says)")
                    failed = True
                    break
            if failed:
                break
            try:
                d = wide_op(t, rng)
            except Exception as e:  # noqa: BLE001
                # a refusal (overlapping span, bad argument) is not a failure, but the table must still be what its XML says
                d = {"op": "refused", "exception": repr(e)[:120]}
            done.append(d)
            chk.count("wide_ops", d["op"])
            case = {**case0, "ops": list(done)}
            W, H = t.size
            g = T.Grid()
            g.ncols = W
            g.rows = [[T.EMPTY] * W for _ in range(H)]
            chk.case(("wide", repr(case)), nontrivial=d["op"] in WIDE_OPS)
            if extra(chk, t, g, case) is False:
                break
            if t.width == 0 and t.height:
                break
            if d["op"] in LIVE_REPEATED:
                # known finding C02-F3 leaves the owner stale whenever the count really changed: whatever follows in
                # the same history would be attributed to it, so the history ends here
                break


def run(chk: core.Check) -> None:
    chk.classifiers["live_repeated_setter"] = lambda case: bool(case.get("ops")) and case["ops"][-1].get("op") in LIVE_REPEATED
    chk.rule = (
        "the C01 histories with a cache-filling read (get_row / get_cell / get_value / traverse / get_column / get_values / get_column_cells, "
        "clone True/False) before most mutations; after every mutation the live object, the fresh parse of its serialisation and an independent "
        "lxml expansion are compared on size, matrix, random cells (in / edge / beyond / negative), a row and its width, a column, traverse with "
        "styles; save + reload of a document every third step (thorough: every step). non-trivial as in C01; distinct by (encoding, op prefix). "
        "object layer: histories of the 17 proved mutators (rstrip and transpose included) with 0-3 reads (get_value / get_cell / get_row / get_row_values, in / edge / beyond / "
        "negative) before each, on tables parsed from XML; after EVERY step the live table's cache of Row wrappers (keys, each wrapper's own _rmap, "
        "its cached cells) is compared with OdfModel/TableObj.lean, every cached wrapper must hold the element at its key, and every answer is "
        "compared with the model and with a fresh parse; non-trivial there = the wrapper cache is non-empty after the step. wide alphabet: histories "
        "mixing the C01 mutators with rstrip / optimize_width / transpose / set_span / del_span / extend_rows / set_column_cells / edits and repeat changes "
        "through a live row, 0-3 reads before each, decided by the live == fresh parse == independent reader oracle alone"
    )
    run_histories(chk, chk.n(500, 7000), 8, compare_runs=False, reads=True, extra=extra)
    run_row_histories(chk, chk.n(400, 5000))
    run_obj_histories(chk, chk.n(600, 7000))
    run_wide_histories(chk, chk.n(450, 5000))


def replay(obj: dict) -> int:
    print(obj)
    return 0
