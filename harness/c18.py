"""C18 — date, time, duration, boolean, colour codecs: exact inverses, ODF lexical form.

correspondence: datatype.py / color.py vs OdfModel/Codec.lean on boundary lattices, random
interior points and a malformed near-miss stream; model-free oracle: round trip, lexical
regular expressions (xsd:duration, xsd:date, xsd:dateTime, #rrggbb), rejection."""
from __future__ import annotations

import re
from datetime import date, datetime, timedelta, timezone

import core
import translate
from core import enc_str, err_kind

LEVEL = "proof"

RE_DURATION = re.compile(r"-?P(?!$)([0-9]+Y)?([0-9]+M)?([0-9]+D)?(T(?=[0-9])([0-9]+H)?([0-9]+M)?([0-9]+(\.[0-9]+)?S)?)?\Z")
RE_DATE = re.compile(r"-?[0-9]{4,}-(0[1-9]|1[0-2])-(0[1-9]|[12][0-9]|3[01])(Z|[+-][0-9]{2}:[0-9]{2})?\Z")
RE_DATETIME = re.compile(
    r"-?[0-9]{4,}-(0[1-9]|1[0-2])-(0[1-9]|[12][0-9]|3[01])T([01][0-9]|2[0-3]):[0-5][0-9]:[0-5][0-9](\.[0-9]+)?(Z|[+-][0-9]{2}:[0-9]{2})?\Z"
)
RE_COLOUR = re.compile(r"#[0-9a-fA-F]{6}\Z")


def TRANSLATE():
    return translate.gen_colors()


def run(chk: core.Check) -> None:
    from odfdo.datatype import Boolean, Date, DateTime, Duration
    from odfdo.utils.color import hex2rgb, rgb2hex, hexa_color
    from odfdo.const import CSS3_COLORMAP

    rng = chk.rng
    chk.classifiers["date_decode_returns_datetime"] = lambda case: (
        case.get("op") == "Date roundtrip type" and case.get("decoded", "").startswith("datetime.datetime(") and case["decoded"].endswith(", 0, 0)")
    )
    chk.rule = (
        "datetimes also as the same instant under 2 other offsets (equal for ==, different lexical form), encoded one after the other; durations: boundary lattice around second/minute/hour/day carries of either sign + random; dates/datetimes: years 1..9999 "
        "lattice x month ends x leap days x times x microseconds x offsets + random; colours: 256 values per channel on the axes + "
        "random + every CSS name; malformed near-miss stream for every decoder. non-trivial = carry boundary / negative / year<1000 / "
        "microseconds / offset / malformed; distinct by canonical input"
    )
    reqs = []

    def impl(fn, *a):
        try:
            return ("ok", fn(*a))
        except Exception as e:  # noqa: BLE001
            return ("err", err_kind(e))

    # ---- durations --------------------------------------------------------------------
    secs = set()
    for base in [0, 1, 59, 60, 61, 3599, 3600, 3601, 86399, 86400, 86401, 90061, 359999, 360000, 360001,
                 86400 * 365, 86400 * 366, 86400 * 365 * 5 + 7, 86400 * 36525, 35999, 36000, 86400 * 1000 - 1]:
        for d in (-1, 0, 1):
            secs.add(base + d)
    for _ in range(chk.n(1500, 20000)):
        secs.add(rng.randrange(0, rng.choice([100, 4000, 90000, 10**7, 3 * 10**9])))
    durs = sorted(secs | {-s for s in secs})
    for s in durs:
        td = timedelta(seconds=s)
        us = s * 1000000
        r = impl(Duration.encode, td)
        reqs.append((f"codec durenc {us}", r, {"op": "durenc", "seconds": s}, "str"))
        nontriv = s < 0 or s % 60 in (0, 59) or s >= 86400
        chk.case(("dur", s), nontrivial=nontriv, sample={"duration_seconds": s, "encoded": r[1] if r[0] == "ok" else r})
        if r[0] != "ok":
            chk.fail({"op": "Duration.encode", "seconds": s, "got": r}, "Duration.encode raised")
            continue
        if not RE_DURATION.match(r[1]):
            chk.fail({"op": "Duration.encode", "seconds": s, "encoded": r[1]}, "encoded duration is not in the xsd:duration lexical space")
        back = impl(Duration.decode, r[1])
        if back != ("ok", td):
            chk.fail({"op": "Duration roundtrip", "seconds": s, "encoded": r[1], "decoded": repr(back)}, "Duration.decode(Duration.encode(d)) != d")
        reqs.append((f"codec durdec {enc_str(r[1])}", (back[0], (back[1] // timedelta(microseconds=1)) if back[0] == "ok" else back[1]), {"op": "durdec", "s": r[1]}, "int"))
    # sub-second durations and the extremes of timedelta (round trip down to the microsecond, any magnitude)
    uss = [1, 10, 100, 999999, 500000, 1000001, 59999999, 60000001, 3599999999, 3600000001, 86399999999, 1234567, 100000, 120000]
    uss += [(timedelta.max // timedelta(microseconds=1)), (timedelta.min // timedelta(microseconds=1)), (timedelta.max // timedelta(microseconds=1)) - 999999]
    uss += [-u for u in uss[:14]]
    for _ in range(chk.n(300, 4000)):
        uss.append(rng.randrange(-10**rng.choice([3, 7, 10, 14, 19]), 10**rng.choice([3, 7, 10, 14, 19])))
    for us in uss:
        td = timedelta(microseconds=us)
        r = impl(Duration.encode, td)
        reqs.append((f"codec durenc {us}", r, {"op": "durenc", "us": us}, "str"))
        chk.case(("durus", us), nontrivial=True, sample={"duration_us": us, "encoded": r[1] if r[0] == "ok" else r})
        if r[0] != "ok":
            chk.fail({"op": "Duration.encode", "us": us, "got": r}, "Duration.encode raised")
            continue
        if not RE_DURATION.match(r[1]):
            chk.fail({"op": "Duration.encode", "us": us, "encoded": r[1]}, "encoded duration is not in the xsd:duration lexical space")
        back = impl(Duration.decode, r[1])
        if back != ("ok", td):
            chk.fail({"op": "Duration roundtrip", "us": us, "encoded": r[1], "decoded": repr(back)}, "Duration.decode(Duration.encode(d)) != d (sub-second / large)")
        reqs.append((f"codec durdec {enc_str(r[1])}", (back[0], (back[1] // timedelta(microseconds=1)) if back[0] == "ok" else back[1]), {"op": "durdec", "s": r[1]}, "int"))
    valid_extra = ["PT1.5S", "P2DT3H", "P1D", "-P1DT0.000001S", "PT1H1S", "PT0S", "P0D", "PT007M", "PT1.1234567S", "-PT5M", "PT36H", "P10DT10H10M10.10S"]
    malformed = ["", "P", "PT", "-P", "P1Y2D", "P1M", "PXYZ", "P1DT", "PT5", "PT1S2", "PT1M1H", "1D", "P-1D", "PT-1S", "P1D2H", "PT1.S", "PT.5S",
                 "P1.5D", "PT1H2", " PT1S", "PT1S ", "pt1s", "PT1s", "P1DT1D", "PTS", "PT1HS", "+PT1S", "--PT1S", "P1DPT1S", "PT1S1M", "P٣D", "PT1M2M"]
    pool = []
    for s in rng.sample(durs, min(len(durs), chk.n(150, 1500))):
        e = Duration.encode(timedelta(seconds=s))
        for _ in range(3):
            k = rng.randrange(len(e) + 1)
            mode = rng.randrange(3)
            if mode == 0 and e:
                k = min(k, len(e) - 1)
                pool.append(e[:k] + e[k + 1:])
            elif mode == 1:
                pool.append(e[:k] + rng.choice("PTHMSDY.-5 ") + e[k:])
            else:
                k = min(k, len(e) - 1)
                pool.append(e[:k] + rng.choice("PTHMSDY.-5") + e[k + 1:])
    for s in valid_extra + malformed + pool:
        if any(ord(c) > 127 for c in s):
            # outside the model's alphabet: oracle only
            r = impl(Duration.decode, s)
            if r[0] == "ok":
                chk.fail({"op": "Duration.decode", "s": s, "got": repr(r[1])}, "Duration.decode accepts a string outside the xsd:duration form")
            continue
        r = impl(Duration.decode, s)
        ok_form = bool(RE_DURATION.match(s))
        chk.case(("durdec", s), nontrivial=True)
        chk.count("duration_decode", ("accepted" if r[0] == "ok" else "rejected") + ("/in-form" if ok_form else "/out-of-form"))
        if r[0] == "ok" and not ok_form:
            chk.fail({"op": "Duration.decode", "s": s, "got": repr(r[1])}, "Duration.decode returns a value for a string outside the xsd:duration form")
        if r[0] == "err" and r[1] != "value":
            chk.fail({"op": "Duration.decode", "s": s, "got": r}, "Duration.decode fails with something else than ValueError")
        if r[0] == "ok":
            # independent evaluation of the accepted string
            m = re.fullmatch(r"(-)?P(?:(\d+)D)?(?:T(?:(\d+)H)?(?:(\d+)M)?(?:(\d+)(?:\.(\d+))?S)?)?", s)
            exp = None
            if m:
                exp = timedelta(days=int(m[2] or 0), hours=int(m[3] or 0), minutes=int(m[4] or 0), seconds=int(m[5] or 0),
                                microseconds=int(((m[6] or "") + "000000")[:6]))
                exp = -exp if m[1] else exp
            if exp != r[1]:
                chk.fail({"op": "Duration.decode", "s": s, "got": repr(r[1]), "expected": repr(exp)}, "Duration.decode returns a wrong value")
        reqs.append((f"codec durdec {enc_str(s)}", (r[0], (r[1] // timedelta(microseconds=1)) if r[0] == "ok" else r[1]), {"op": "durdec", "s": s}, "int"))

    # ---- booleans ------------------------------------------------------------------
    for b in (True, False):
        e = Boolean.encode(b)
        chk.case(("bool", b), nontrivial=True)
        if e not in ("true", "false") or Boolean.decode(e) is not b:
            chk.fail({"op": "Boolean", "b": b, "encoded": e}, "boolean round trip / lexical form")
        reqs.append((f"codec boolenc {int(b)}", ("ok", e), {"op": "boolenc", "b": b}, "str"))
    for s in ["true", "false", "True", "FALSE", "1", "0", "", " true", "true ", "yes", "truee", "t"]:
        r = impl(Boolean.decode, s)
        chk.case(("booldec", s), nontrivial=True)
        if r[0] == "ok" and s not in ("true", "false"):
            chk.fail({"op": "Boolean.decode", "s": s}, "Boolean.decode accepts a string outside xsd:boolean's true/false")
        reqs.append((f"codec booldec {enc_str(s)}", (r[0], int(r[1]) if r[0] == "ok" else r[1]), {"op": "booldec", "s": s}, "int"))

    # ---- colours ------------------------------------------------------------------
    cols = set()
    for v in range(256):
        cols |= {(v, 0, 0), (0, v, 0), (0, 0, v), (v, v, v), (255 - v, v, 17)}
    for _ in range(chk.n(2000, 50000)):
        cols.add((rng.randrange(256), rng.randrange(256), rng.randrange(256)))
    for c in sorted(cols):
        r = impl(rgb2hex, c)
        chk.case(("col", c), nontrivial=max(c) > 9)
        if r[0] != "ok" or not RE_COLOUR.match(r[1]) or hex2rgb(r[1]) != c or hex2rgb(r[1].lower()) != c or hexa_color(c) != r[1]:
            chk.fail({"op": "colour", "rgb": c, "encoded": r}, "hex2rgb(rgb2hex(c)) != c or not #RRGGBB")
        reqs.append((f"codec r2h {c[0]} {c[1]} {c[2]}", r, {"op": "r2h", "c": c}, "str"))
        if r[0] == "ok":
            reqs.append((f"codec h2r {enc_str(r[1])}", ("ok", " ".join(map(str, hex2rgb(r[1])))), {"op": "h2r", "s": r[1]}, "raw"))
    for c in [(256, 0, 0), (0, 256, 0), (0, 0, 256), (1000, 1, 1)]:
        r = impl(rgb2hex, c)
        chk.case(("colbad", c), nontrivial=True)
        if r[0] == "ok":
            chk.fail({"op": "rgb2hex", "rgb": c, "got": r}, "rgb2hex accepts a channel outside 0..255")
        reqs.append((f"codec r2h {c[0]} {c[1]} {c[2]}", r, {"op": "r2h", "c": c}, "str"))
    for name, code in sorted(CSS3_COLORMAP.items()):
        r = impl(rgb2hex, name)
        chk.case(("css", name), nontrivial=True)
        if r[0] != "ok" or not RE_COLOUR.match(r[1]) or hex2rgb(r[1]) != tuple(code) or rgb2hex(name.upper()) != r[1] or hexa_color(" " + name + " ") != r[1]:
            chk.fail({"op": "css colour", "name": name, "got": r}, "CSS colour name does not encode to the #RRGGBB of its table entry")
    bad_cols = ["", "#", "#12345", "#1234567", "123456", "#12345G", "#-12345", "#+12345", "#0x12AB", "#1_2_3F", "# 12345", "#1234F\n", "#١٢١٢١٢",
                "#12 345", "#é12345", "#FFFFFg", "##12345", "#12345٣"]
    for _ in range(chk.n(300, 3000)):
        k = rng.choice([5, 6, 6, 6, 7])
        bad_cols.append("#" + "".join(rng.choice("0123456789abcdefABCDEFgG _-+xX") for _ in range(k)))
    for s in bad_cols:
        r = impl(hex2rgb, s)
        good = bool(RE_COLOUR.match(s))
        chk.case(("h2r", s), nontrivial=True)
        chk.count("hex2rgb", ("accepted" if r[0] == "ok" else "rejected") + ("/in-form" if good else "/out-of-form"))
        if r[0] == "ok" and not good:
            chk.fail({"op": "hex2rgb", "s": s, "got": r[1]}, "hex2rgb returns a value for a string that is not #RRGGBB")
        if good and (r[0] != "ok" or r[1] != tuple(int(s[i:i + 2], 16) for i in (1, 3, 5))):
            chk.fail({"op": "hex2rgb", "s": s, "got": r}, "hex2rgb wrong on a well-formed colour")
        if all(ord(c) < 128 for c in s):
            reqs.append((f"codec h2r {enc_str(s)}", (r[0], " ".join(map(str, r[1])) if r[0] == "ok" else r[1]), {"op": "h2r", "s": s}, "raw"))

    # ---- dates and datetimes ---------------------------------------------------------
    years = [1, 2, 9, 10, 99, 100, 999, 1000, 1582, 1899, 1900, 1970, 1999, 2000, 2024, 2038, 9998, 9999]
    days = []
    for y in years + [rng.randrange(1, 10000) for _ in range(chk.n(40, 400))]:
        for (m, d) in [(1, 1), (1, 31), (2, 28), (3, 1), (6, 30), (12, 31), (rng.randrange(1, 13), rng.randrange(1, 29))]:
            days.append(date(y, m, d))
        try:
            days.append(date(y, 2, 29))
        except ValueError:
            pass
    tzs = [None, timezone.utc, timezone(timedelta(hours=5, minutes=30)), timezone(-timedelta(hours=8)), timezone(timedelta(hours=14)),
           timezone(-timedelta(hours=12)), timezone(timedelta(minutes=1)), timezone(-timedelta(minutes=1)), timezone(timedelta(hours=23, minutes=59)),
           timezone(-timedelta(hours=23, minutes=59))]
    times = [(0, 0, 0, 0), (23, 59, 59, 999999), (12, 30, 15, 0), (0, 0, 0, 1), (9, 5, 7, 500000), (0, 0, 1, 0), (1, 0, 0, 100)]
    for d in days:
        e = impl(Date.encode, d)
        chk.case(("date", d.isoformat()), nontrivial=d.year < 1000, sample={"date": d.isoformat()})
        if e[0] != "ok" or not RE_DATE.match(e[1]):
            chk.fail({"op": "Date.encode", "date": repr(d), "got": e}, "encoded date is not in the xsd:date lexical space")
            continue
        back = impl(Date.decode, e[1])
        # value round trip (the decoder widens the type to datetime: known finding C18-F2)
        if back[0] != "ok" or (back[1].year, back[1].month, back[1].day) != (d.year, d.month, d.day) or (
            isinstance(back[1], datetime) and (back[1].hour, back[1].minute, back[1].second, back[1].microsecond, back[1].tzinfo) != (0, 0, 0, 0, None)
        ):
            chk.fail({"op": "Date roundtrip", "date": repr(d), "encoded": e[1], "decoded": repr(back)}, "Date.decode(Date.encode(d)) is another day")
        elif type(back[1]) is not date:
            chk.fail({"op": "Date roundtrip type", "date": repr(d), "encoded": e[1], "decoded": repr(back[1])},
                     "Date.decode(Date.encode(d)) is a datetime, not the original date")
        reqs.append((f"codec dateenc {d.year} {d.month} {d.day}", e, {"op": "dateenc", "d": d.isoformat()}, "str"))
        h, mi, s, us = rng.choice(times)
        tz = rng.choice(tzs)
        variants = [datetime(d.year, d.month, d.day, h, mi, s, us, tzinfo=tz)]
        if rng.random() < 0.3:
            variants += [datetime(d.year, d.month, d.day, *t, tzinfo=z) for t in times[:3] for z in tzs[:4]]
        if rng.random() < 0.5:
            variants.append(datetime(d.year, d.month, d.day, rng.randrange(24), rng.randrange(60), rng.randrange(60), rng.randrange(10**6),
                                     tzinfo=timezone(timedelta(minutes=rng.randrange(-1439, 1440))) if rng.random() < 0.5 else None))
        # the same instant written with other offsets: equal for Python's ==, different lexical forms
        for dt in list(variants):
            if dt.tzinfo is not None and rng.random() < 0.6:
                for z in rng.sample(tzs[1:], 2):
                    try:
                        variants.append(dt.astimezone(z))
                        chk.count("datetime", "same instant, other offset")
                    except (OverflowError, ValueError):
                        pass
        for dt in variants:
            e = impl(DateTime.encode, dt)
            off = dt.utcoffset()
            chk.case(("dt", dt.isoformat()), nontrivial=dt.year < 1000 or dt.microsecond != 0 or off is not None)
            chk.count("datetime", ("aware" if off is not None else "naive") + ("+us" if dt.microsecond else ""))
            if e[0] != "ok" or not RE_DATETIME.match(e[1]):
                chk.fail({"op": "DateTime.encode", "dt": repr(dt), "got": e}, "encoded datetime is not in the xsd:dateTime lexical space")
                continue
            back = impl(DateTime.decode, e[1])
            if back[0] != "ok" or back[1] != dt or back[1].utcoffset() != off or back[1].replace(tzinfo=None) != dt.replace(tzinfo=None):
                chk.fail({"op": "DateTime roundtrip", "dt": repr(dt), "encoded": e[1], "decoded": repr(back)}, "DateTime.decode(DateTime.encode(t)) != t")
            if off is not None and off == timedelta(0) and not e[1].endswith("Z"):
                chk.fail({"op": "DateTime.encode", "dt": repr(dt), "encoded": e[1]}, "UTC is not written in the canonical Z form")
            tzs_ = "N" if off is None else ("-" if off < timedelta(0) else "+") + "%d:%d" % divmod(abs(off) // timedelta(minutes=1), 60)
            reqs.append((f"codec dtenc {dt.year} {dt.month} {dt.day} {dt.hour} {dt.minute} {dt.second} {dt.microsecond} {tzs_}", e, {"op": "dtenc", "dt": dt.isoformat()}, "str"))
            reqs.append((f"codec dtdec {enc_str(e[1])}", ("ok", _dt_canon(back[1])) if back[0] == "ok" else back, {"op": "dtdec", "s": e[1]}, "raw"))
            # Date.encode of a datetime keeps the day
            e2 = impl(Date.encode, dt)
            if e2 != ("ok", date(dt.year, dt.month, dt.day).isoformat()):
                chk.fail({"op": "Date.encode(datetime)", "dt": repr(dt), "got": e2}, "Date.encode of a datetime is not its day")
    # malformed dates / datetimes (rejected by both; only forms inside the modelled shape are compared)
    for s in ["", "2024", "2024-1-31", "24-01-31", "2024-13-01", "2024-00-10", "2024-01-32", "2024-01-00", "2024-01-31T", "2024-01-31T25:00:00", "2024-01-31T12:60:00",
              "2024-01-31T12:30:61", "2024-01-31T12:30:15+24:00", "2024-01-31T12:30:15+05:60", "2024-01-31 12:30", "0000-01-01", "2024-01-31T12:30:15.1234567",
              "2024-01-31T12:30:15ZZ", "2024-01-31T12:30:15z", "999-01-02", "1-01-01", "2024-01-31T12:30:15+0530x"]:
        r = impl(DateTime.decode, s)
        chk.case(("dtbad", s), nontrivial=True)
        chk.count("datetime_decode_malformed", r[0])
        if r[0] == "ok" and not (RE_DATETIME.match(s) or RE_DATE.match(s)):
            # CPython's fromisoformat accepts more ISO-8601 forms than xsd (e.g. a blank separator); only a *wrong value* for an xsd form would count
            chk.count("datetime_decode_malformed", "accepted-by-fromisoformat")
        if s in ("", "2024", "2024-13-01", "2024-00-10", "2024-01-32", "2024-01-00", "2024-01-31T25:00:00", "2024-01-31T12:60:00", "2024-01-31T12:30:61", "0000-01-01",
                 "2024-1-31", "24-01-31", "999-01-02", "1-01-01", "2024-01-31T12:30:15ZZ"):
            if r[0] == "ok":
                chk.fail({"op": "DateTime.decode", "s": s, "got": repr(r[1])}, "DateTime.decode returns a value for a malformed string")
            reqs.append((f"codec dtdec {enc_str(s)}", r, {"op": "dtdec", "s": s}, "raw"))

    # ---- correspondence ----------------------------------------------------------------
    answers = core.run_driver([q for q, _, _, _ in reqs])
    for (q, r, case, kind), ans in zip(reqs, answers):
        if r[0] == "err":
            canon = f"err {r[1]}"
        elif kind == "str":
            canon = "ok " + enc_str(r[1])
        else:
            canon = f"ok {r[1]}"
        if canon != ans:
            chk.disagree({**case, "line": q}, f"impl {canon!r} != model {ans!r}")


def _dt_canon(dt) -> str:
    off = dt.utcoffset()
    tz = "N" if off is None else ("-" if off < timedelta(0) else "+") + "%d:%d" % divmod(abs(off) // timedelta(minutes=1), 60)
    return f"{dt.year} {dt.month} {dt.day} {dt.hour} {dt.minute} {dt.second} {dt.microsecond} {tz}"


def replay(obj: dict) -> int:
    print(obj)
    return 0
