"""shared by C09 / C16 / C11: generated paragraph layouts, the token-stream view of an lxml
subtree (bijective with it up to attribute labels), independent text projections.

token stream (document order):
  ("T", hid, skip, text)   a text node (lxml keeps one for "": visible to XPath, not in the serialisation); hid = inside a note / annotation (not paragraph
                           text), skip = inside an office:annotation (what `main_text` filters out)
  ("O", kind, label, hid)  start tag; kind is a small code, label identifies the attribute tuple
  ("C",)                   end tag
"""
from __future__ import annotations

NS = {
    "text": "urn:oasis:names:tc:opendocument:xmlns:text:1.0",
    "xlink": "http://www.w3.org/1999/xlink",
    "office": "urn:oasis:names:tc:opendocument:xmlns:office:1.0",
    "dc": "http://purl.org/dc/elements/1.1/",
    "draw": "urn:oasis:names:tc:opendocument:xmlns:drawing:1.0",
    "svg": "urn:oasis:names:tc:opendocument:xmlns:svg-compatible:1.0",
}
T = "{%s}" % NS["text"]
O = "{%s}" % NS["office"]

KINDS = {
    T + "p": 0, T + "s": 1, T + "tab": 2, T + "line-break": 3, T + "span": 4, T + "a": 5,
    T + "bookmark": 6, T + "bookmark-start": 7, T + "bookmark-end": 8,
    T + "reference-mark": 9, T + "reference-mark-start": 10, T + "reference-mark-end": 11,
    T + "note": 12, T + "note-citation": 13, T + "note-body": 14,
    O + "annotation": 15, O + "annotation-end": 16, T + "h": 17,
}
K_S, K_TAB, K_LB, K_SPAN, K_A = 1, 2, 3, 4, 5
K_NOTE, K_ANNOT = 12, 15
HIDDEN_KINDS = (K_NOTE, K_ANNOT)


class Labels:
    """attribute tuples <-> small integers (the model carries labels opaquely)"""

    def __init__(self):
        self.ids: dict = {}
        self.rev: list = []

    def of(self, tag: str, attrs) -> int:
        key = (tag, tuple(sorted(attrs)))
        if key not in self.ids:
            self.ids[key] = len(self.rev)
            self.rev.append(key)
        return self.ids[key]


def kind_of(tag: str, other: dict) -> int:
    if tag in KINDS:
        return KINDS[tag]
    if tag not in other:
        other[tag] = 100 + len(other)
    return other[tag]


def tokens(node, labels: Labels, other: dict | None = None, volatile=("dc:date",)) -> list:
    """token stream of the subtree of the lxml element `node` (its own tail excluded)"""
    other = {} if other is None else other
    out: list = []

    def walk(e, hid, top, in_annot=False):
        k = kind_of(e.tag, other)
        if k == K_S:
            lab = int(e.get(T + "c", "1"))
        else:
            lab = labels.of(e.tag, e.attrib.items())
        out.append(("O", k, lab, hid))
        inner_hid = hid or k in HIDDEN_KINDS
        skip = in_annot or k == K_ANNOT
        if e.text is not None:
            out.append(("T", inner_hid, skip, e.text))
        for ch in e:
            if not isinstance(ch.tag, str):
                continue
            walk(ch, inner_hid, False, skip)
            if ch.tail is not None:
                out.append(("T", inner_hid, skip, ch.tail))
        out.append(("C",))

    walk(node, False, True)
    return out


def enc_tokens(toks) -> str:
    """one blank-free word per token, for the driver line protocol"""
    from core import enc_str

    ws = []
    for t in toks:
        if t[0] == "T":
            ws.append(f"T{int(t[1])}{int(t[2])}:{enc_str(t[3])}")
        elif t[0] == "O":
            ws.append(f"O{int(t[3])}:{t[1]}:{t[2]}")
        else:
            ws.append("C")
    return " ".join(ws)


def plain_main(toks) -> str:
    """the paragraph's own characters: text nodes outside notes/annotations + the characters the
    white-space elements stand for (raw: no collapsing)"""
    out = []
    for t in toks:
        if t[0] == "T" and not t[1]:
            out.append(t[3])
        elif t[0] == "O" and not t[3]:
            if t[1] == K_S:
                out.append(" " * t[2])
            elif t[1] == K_TAB:
                out.append("\t")
            elif t[1] == K_LB:
                out.append("\n")
    return "".join(out)


def unhide(toks) -> list:
    """the same tokens with every hidden flag cleared (to project the inside of a note)"""
    return [("T", False, t[2], t[3]) if t[0] == "T" else (("O", t[1], t[2], False) if t[0] == "O" else t) for t in toks]


def plain_hidden(toks) -> str:
    """characters inside notes / annotations"""
    return plain_main([("T", not t[1], t[2], t[3]) if t[0] == "T" else (("O", t[1], t[2], not t[3]) if t[0] == "O" else t) for t in toks])


def consumer(toks) -> str:
    """ODF 1.2 §6.1.2 reading of the paragraph's own characters: raw white-space runs collapse to one
    blank, leading / trailing blanks go, text:s / tab / line-break count as what they are"""
    out: list[str] = []
    ign = True
    for t in toks:
        if t[0] == "T" and not t[1]:
            for c in t[3]:
                if c in " \t\n\r":
                    if not ign:
                        out.append(" ")
                    ign = True
                else:
                    out.append(c)
                    ign = False
        elif t[0] == "O" and not t[3]:
            if t[1] == K_S:
                out.append(" " * t[2]); ign = False
            elif t[1] == K_TAB:
                out.append("\t"); ign = False
            elif t[1] == K_LB:
                out.append("\n"); ign = False
    s = "".join(out)
    return s[:-1] if s.endswith(" ") and ign and out and out[-1] == " " else s


def text_nodes(toks) -> list[str]:
    return [t[3] for t in toks if t[0] == "T"]


# ---- layouts ---------------------------------------------------------------------------------

WORDS = ["a", "b", "ab", "ba", "abc", "x", "aa", "bab", "c", "1", "é"]


def gen_text(rng, raw_ws=False) -> str:
    n = rng.randrange(1, 5)
    parts = [rng.choice(WORDS) for _ in range(n)]
    s = " ".join(parts)
    if rng.random() < 0.3:
        s = " " + s
    if rng.random() < 0.3:
        s = s + " "
    if raw_ws and rng.random() < 0.5:
        s = s.replace(" ", rng.choice(["  ", " ", "\n", "\t "]), 1)
    return s


def gen_pieces(rng, depth=0, raw_ws=False, rich=True) -> list:
    """a forest of inline content"""
    out = []
    for _ in range(rng.randrange(1, 5 if depth == 0 else 3)):
        k = rng.random()
        if k < 0.42:
            out.append(("t", gen_text(rng, raw_ws)))
        elif k < 0.56 and depth < 2:
            out.append(("span", f"S{rng.randrange(3)}", gen_pieces(rng, depth + 1, raw_ws, rich)))
        elif k < 0.66 and depth < 2:
            out.append(("a", f"http://h/{rng.randrange(3)}", gen_pieces(rng, depth + 1, raw_ws, rich)))
        elif k < 0.76:
            out.append(("s", rng.choice([1, 1, 2, 3])))
        elif k < 0.82:
            out.append(("tab",))
        elif k < 0.87:
            out.append(("lb",))
        elif k < 0.93 and rich:
            out.append(("bm", f"bk{rng.randrange(100)}"))
        elif rich and depth == 0:
            out.append(("note", f"n{rng.randrange(100)}", rng.choice(["1", "a"]), rng.choice(["note ab", "b a"])))
        else:
            out.append(("t", gen_text(rng, raw_ws)))
    return out


def esc(s: str) -> str:
    return s.replace("&", "&amp;").replace("<", "&lt;").replace(">", "&gt;").replace('"', "&quot;")


def pieces_xml(pieces) -> str:
    out = []
    for p in pieces:
        if p[0] == "t":
            out.append(esc(p[1]))
        elif p[0] == "span":
            out.append(f'<text:span text:style-name="{esc(p[1])}">{pieces_xml(p[2])}</text:span>')
        elif p[0] == "a":
            out.append(f'<text:a xlink:href="{esc(p[1])}">{pieces_xml(p[2])}</text:a>')
        elif p[0] == "s":
            out.append("<text:s/>" if p[1] == 1 else f'<text:s text:c="{p[1]}"/>')
        elif p[0] == "tab":
            out.append("<text:tab/>")
        elif p[0] == "lb":
            out.append("<text:line-break/>")
        elif p[0] == "bm":
            out.append(f'<text:bookmark text:name="{esc(p[1])}"/>')
        elif p[0] == "note":
            out.append(
                f'<text:note text:note-class="footnote" text:id="{esc(p[1])}"><text:note-citation>{esc(p[2])}</text:note-citation>'
                f"<text:note-body><text:p>{esc(p[3])}</text:p></text:note-body></text:note>"
            )
    return "".join(out)


def make_paragraph(pieces, tag="text:p"):
    from odfdo import Element

    return Element.from_tag(f"<{tag}>{pieces_xml(pieces)}</{tag}>")


def lxml_of(elem):
    return elem._Element__element
