#!/bin/bash
# cleanruns.sh <seed> [parallel] [tier] : every check once on the tree as it is, with VERIF_SEED=<seed>; summary of exit codes
SEED=${1:-0}; PAR=${2:-5}; TIER=${3:-quick}
V=$(cd "$(dirname "$0")/.." && pwd)
OUT=/tmp/cleanruns-$SEED-$TIER; mkdir -p $OUT; rm -f $OUT/*
printf '%s\n' C01 C02 C03 C04 C05 C06 C07 C08 C09 C10 C11 C12 C13 C14 C15 C16 C17 C18 C19 C20 | \
  xargs -P $PAR -I{} bash -c "cd $V && VERIF_SEED=$SEED ./check {} --tier $TIER > $OUT/{}.txt 2>&1; echo \"{} exit=\$? \$(grep -c '^VIOLATION' $OUT/{}.txt) violation lines; \$(tail -1 $OUT/{}.txt | grep -o 'wall=[0-9.]*s')\" >> $OUT/SUMMARY"
sort $OUT/SUMMARY
