"""C08 — table getters return correctly addressed, expanded, detached copies.

oracle: for every getter of the property, on tables drawn as run-length encodings (after a few
cache-filling reads): coordinates carried by the returned objects, no repeat count on expanding
reads, detachment (every mutation of a returned object leaves the table's XML byte-identical),
reads outside the populated area.  correspondence: Row.traverse (both branches) vs
OdfModel/Traverse.lean (positions, payloads, repeat attribute)."""
from __future__ import annotations

import core
import heapwalk
import tables as T

HP: list = []          # finished ownership traces (requests for the `hp` model), run at the end


def heap_part(chk, t, rng, rle, W, H):
    """the detached clause as a statement on aliasing (OdfModel/Heap, theorems returned_copies_*): the table is twin 0, every
    object a getter returns is a twin of its own; the live Python objects (wrappers, their dicts and lists, lxml trees) are
    walked after the read and after each modification of a returned object: an object reachable from two twins, or a
    modification of returned object i that changes or creates an object of the table or of returned object j, is not a
    trace of the model"""
    getters = [("get_cell", lambda: [t.get_cell((rng.randrange(W + 1), rng.randrange(H + 1)))]),
               ("get_row", lambda: [t.get_row(rng.randrange(H + 1))]),
               ("get_column", lambda: [t.get_column(rng.randrange(W + 1))]),
               ("traverse", lambda: list(t.traverse())),
               ("rows", lambda: t.rows),
               ("get_rows", lambda: t.get_rows()),
               ("cells", lambda: [c for r in t.cells for c in r]),
               ("get_cells", lambda: [c for r in t.get_cells() for c in r]),
               ("traverse_columns", lambda: list(t.traverse_columns())),
               ("columns", lambda: t.columns),
               ("get_column_cells", lambda: t.get_column_cells(rng.randrange(max(W, 1)))),
               ("Row.traverse", lambda: list(t.get_row(rng.randrange(max(H, 1)), clone=False).traverse())),
               ("Row.cells", lambda: t.get_row(rng.randrange(max(H, 1)), clone=False).cells),
               ("Row.get_cell", lambda: [t.get_row(rng.randrange(max(H, 1)), clone=False).get_cell(rng.randrange(W + 1))])]
    for getter, fn in rng.sample(getters, 3):
        case = {**rle, "getter": getter, "model": "heap"}
        tr = heapwalk.HeapTrace(case)
        tr.step({0: t}, 0, "the table before the read")
        objs = [o for o in fn() if o is not None]
        if len(objs) > 4:
            objs = rng.sample(objs, 4)
        tr.step({0: t}, 0, f"{getter} (a read may fill caches of the table)")
        twins = {0: t}
        for i, o in enumerate(objs):
            twins[i + 1] = o
            tr.step({i + 1: o}, i + 1, f"{getter}: birth of returned object {i}")
        for i, o in enumerate(objs):
            mutate(o, rng)
            tr.step(twins, i + 1, f"modification of returned object {i}")
        tr.finish()
        HP.append(tr)
        chk.count("getter", getter + " (ownership trace)")
        chk.case((repr(rle), getter, "heap", len(objs)), nontrivial=bool(objs))
        for k, owner, first_owner, path, first_path, tname in tr.shared[:3]:
            chk.fail({**case, "shared_object": tname, "reached_from": "the table" if owner == 0 else f"returned object {owner - 1}", "as": path,
                      "owned_by": "the table" if first_owner == 0 else f"returned object {first_owner - 1}", "there": first_path},
                     f"{getter}: a mutable {tname} is reachable from the returned object and from {'the table' if 0 in (owner, first_owner) else 'another returned object'}: not a detached copy")


def rep_of(obj):
    return obj.repeated


def mutate(obj, rng):
    """every way to modify a returned object"""
    from odfdo import Cell, Column, Row

    if isinstance(obj, Row):
        k = rng.randrange(8)
        if k == 5:
            obj.repeated = 3                      # the public setter (it looks for an owner table to refresh)
        elif k >= 6:
            # the copy starts a life of its own in ANOTHER table, and is edited there
            from odfdo import Table

            other = Table("Other")
            other.append_row(Row(width=2))
            other.append_row(obj, clone=(k == 7))
            obj.repeated = 4
            other.set_value((0, 1), "MUT")
        elif k == 0:
            obj.set_value(0, "MUT")
        elif k == 1:
            obj.append_cell(Cell("MUT"))
        elif k == 2:
            obj.style = "ro_mut"
        elif k == 3:
            obj.set_values(["M1", "M2", "M3", "M4", "M5", "M6", "M7", "M8"])
        else:
            obj._set_repeated(5)
    elif isinstance(obj, Column):
        k = rng.randrange(2)
        if k == 0:
            obj.style = "co_mut"
        else:
            obj._set_repeated(4)
    else:
        k = rng.randrange(4)
        if k == 0:
            obj.set_value("MUT")
        elif k == 1:
            obj.style = "ce_mut"
        elif k == 2:
            obj._set_repeated(6)
        else:
            obj.set_value(4242)


def run(chk: core.Check) -> None:
    from odfdo import Element

    rng = chk.rng
    chk.rule = (
        "tables drawn as run-length encodings (repeated rows / cells / columns, ragged rows), optionally after cache-filling reads; every getter "
        "of {get_cell, get_row, get_cells, get_rows, traverse, rows, cells, get_column, get_columns, traverse_columns, get_column_cells, Row.get_cell, "
        "Row.traverse, Row.cells} with tuple / string / ranged / negative / outside coordinates; each returned object is checked for its coordinates and "
        "repeat count, then mutated in one of 4-8 ways (rows also through the public repeated setter, detached or after being put into ANOTHER table) and the table's "
        "serialisation (byte for byte) and its answers (size, matrix) are compared; the generators (traverse, Row.traverse, "
        "traverse_columns, with and without range) are also consumed lazily, each yielded object being modified before the next is asked for. non-trivial = the target lies in a run of "
        "repeat >= 2, the read is ranged or outside; distinct by (encoding, getter, coordinates)"
    )
    reqs = []
    n_tables = chk.n(260, 3000)
    for tno in range(n_tables):
        cols, rows = T.gen_rle(rng)
        if not rows:
            rows = [(T.gen_line(rng, 3), rng.choice(T.REPS))]
            cols = [(None, max(1, sum(r for _, r in rows[0][0])))]
        t = T.table_from_rle(cols, rows)
        # the column declarations differ from one another (styles), so that a column read from the wrong declaration shows
        for ci, cel in enumerate(t._Element__element.iter(T.TB + "table-column")):
            if rng.random() < 0.8:
                cel.set(T.TB + "style-name", f"co{ci % 3}")
        g = T.grid_from_rle(cols, rows)
        W, H = g.ncols, len(g.rows)
        for _ in range(rng.randrange(3)):
            T.do_read(t, T.gen_read(rng, g))
        base = t.serialize()
        base_reads = (tuple(t.size), T.canon(t.get_values()))
        rle = {"cols": cols, "rows": rows}

        def check(getter, objs, expect_xy, expanding, case, documented_copy=True):
            """objs: list of returned objects; expect_xy: list of (x, y) (None = not checked)"""
            chk.count("getter", getter)
            nontriv = any(r > 1 for _, r in rows) or any(rr > 1 for cells, _ in rows for _, rr in cells) or case.get("outside", False)
            chk.case((repr(rle), getter, repr(case)), nontriv, sample={"getter": getter, **case, **rle} if nontriv else None)
            for obj, (ex, ey) in zip(objs, expect_xy):
                if obj is None:
                    continue
                if ex is not None and getattr(obj, "x", None) != ex:
                    chk.fail({**rle, "getter": getter, **case, "got_x": getattr(obj, "x", None), "expected_x": ex}, f"{getter}: returned object does not carry the x it was read from")
                    return
                if ey is not None and getattr(obj, "y", None) != ey:
                    chk.fail({**rle, "getter": getter, **case, "got_y": getattr(obj, "y", None), "expected_y": ey}, f"{getter}: returned object does not carry the y it was read from")
                    return
                if expanding and rep_of(obj) is not None:
                    chk.fail({**rle, "getter": getter, **case, "repeated": rep_of(obj)}, f"{getter}: an expanding read returned an object that still carries a repeat count")
                    return
            if t.serialize() != base:
                chk.fail({**rle, "getter": getter, **case}, f"{getter}: the read itself changed the table")
                return
            if documented_copy:
                others = [o.serialize() for o in objs if o is not None]
                for i, obj in enumerate(objs):
                    if obj is None:
                        continue
                    mutate(obj, rng)
                    if t.serialize() != base:
                        chk.fail({**rle, "getter": getter, **case, "index": i}, f"{getter}: modifying the returned object changed the table")
                        return
                    if (tuple(t.size), T.canon(t.get_values())) != base_reads:
                        chk.fail({**rle, "getter": getter, **case, "index": i, "size_now": tuple(t.size)},
                                 f"{getter}: after the returned object was modified the table answers differently (its XML is unchanged: a map or cache is shared with the copy)")
                        return
                    now = [o.serialize() for o in objs if o is not None]
                    for j, (a, b) in enumerate(zip(others, now)):
                        if j != i and a != b:
                            chk.fail({**rle, "getter": getter, **case, "index": i, "other": j}, f"{getter}: modifying one returned object changed another one")
                            return
                    others = now

        try:
            # --- single reads ---
            for _ in range(3):
                x = rng.randrange(0, W + 2); y = rng.randrange(0, H + 2)
                outside = x >= W or y >= H
                for form in ("tuple", "str", "neg"):
                    if form == "tuple":
                        coord = (x, y)
                    elif form == "str":
                        coord = f"{T_d2a(x)}{y + 1}"
                    else:
                        if outside or not W or not H:
                            continue
                        coord = (x - W, y - H)
                    c = t.get_cell(coord)
                    val0 = c.get_value()
                    check("get_cell", [c], [(x, y)], False, {"coord": coord, "outside": outside})
                    if outside and (val0 is not None or tuple(t.size) != (W, H)):
                        chk.fail({**rle, "coord": coord, "value": val0, "size": tuple(t.size)}, "get_cell outside the populated area is not an empty cell / grew the table")
                r = t.get_row(y)
                w0 = r.width
                check("get_row", [r], [(None, y)], False, {"y": y, "outside": y >= H})
                if y >= H and (w0 != 0 or tuple(t.size) != (W, H)):
                    chk.fail({**rle, "y": y, "width": w0}, "get_row outside the table is not an empty row / grew the table")
                col = t.get_column(x)
                check("get_column", [col], [(x, None)], False, {"x": x, "outside": x >= W})
                if y < H:
                    row = t.get_row(y)
                    rc = row.get_cell(x)
                    check("Row.get_cell", [rc], [(x, y)], False, {"x": x, "y": y, "outside": x >= row.width})
            # --- expanding reads ---
            rws = list(t.traverse())
            check("traverse", rws, [(None, i) for i in range(len(rws))], True, {})
            if len(rws) != H:
                chk.fail({**rle, "yielded": len(rws), "height": H}, "traverse does not yield one row per repetition")
            rws = t.rows
            check("rows", rws, [(None, i) for i in range(len(rws))], True, {})
            if H:
                y0 = rng.randrange(H); y1 = rng.randrange(y0, H + 1)
                rws = t.get_rows((y0, y1))
                check("get_rows", rws, [(None, y0 + i) for i in range(len(rws))], True, {"range": (y0, y1)})
            cells = t.cells
            flat = [c for r in cells for c in r]
            check("cells", flat, [(x, y) for y, r in enumerate(cells) for x, _ in enumerate(r)], True, {})
            if W and H:
                x0 = rng.randrange(W); x1 = rng.randrange(x0, W)
                y0 = rng.randrange(H); y1 = rng.randrange(y0, H)
                area = rng.choice([(x0, y0, x1, y1), f"{T_d2a(x0)}{y0 + 1}:{T_d2a(x1)}{y1 + 1}"])
                cells = t.get_cells(area)
                flat = [c for r in cells for c in r]
                check("get_cells", flat, [(x0 + i, y0 + j) for j, r in enumerate(cells) for i, _ in enumerate(r)], True, {"area": area})
            cls = list(t.traverse_columns())
            check("traverse_columns", cls, [(i, None) for i in range(len(cls))], True, {})
            if len(cls) != W:
                chk.fail({**rle, "yielded": len(cls), "width": W}, "traverse_columns does not yield one column per repetition")
            check("columns", t.columns, [(i, None) for i in range(W)], True, {})
            if W:
                x0 = rng.randrange(W); x1 = rng.randrange(x0, W)
                cls = t.get_columns((x0, x1))
                check("get_columns", cls, [(x0 + i, None) for i in range(len(cls))], True, {"range": (x0, x1)})
                if len(cls) != x1 - x0 + 1:
                    chk.fail({**rle, "range": (x0, x1), "yielded": len(cls)}, "get_columns(range) does not return exactly the columns of the range")
                # a ranged read yields the columns the whole traversal yields at those positions (also when the range begins strictly
                # inside a repeated column declaration that is followed by a different one)
                full_cols = [c.serialize() for c in t.traverse_columns()]
                for form, got_cols in (("get_columns(range)", t.get_columns((x0, x1))), ("traverse_columns(start, end)", list(t.traverse_columns(x0, x1))),
                                       ("traverse_columns(start)", list(t.traverse_columns(x0)))):
                    chk.count("getter", form + " vs the whole traversal")
                    bad = [(c.x, c.serialize(), full_cols[c.x]) for c in got_cols if c.x is not None and c.x < len(full_cols) and c.serialize() != full_cols[c.x]]
                    if bad or [c.x for c in got_cols] != list(range(x0, (x1 if "end" in form or "range" in form else W - 1) + 1)):
                        chk.fail({**rle, "getter": form, "range": (x0, x1), "positions": [c.x for c in got_cols], "first_difference": bad[:1]},
                                 f"{form}: not the columns the whole traversal yields at these positions")
                        break
                xc = rng.randrange(W)
                cc = t.get_column_cells(xc)
                check("get_column_cells", cc, [(xc, i) for i in range(len(cc))], False, {"x": xc})
            # --- lazy consumption: the caller modifies each yielded object BEFORE asking for the next one (the documented
            #     "copies are returned, use set_row() to push them back" loop); what is yielded later must not depend on it
            def lazy(getter, make_iter, case):
                ref = [(o.serialize(), getattr(o, "x", None), getattr(o, "y", None)) for o in make_iter()]
                chk.count("getter", getter + " (lazy)")
                chk.case((repr(rle), getter, "lazy", repr(case)), nontrivial=True)
                it = iter(make_iter())
                for i, (exp, ex, ey) in enumerate(ref):
                    try:
                        obj = next(it)
                    except StopIteration:
                        chk.fail({**rle, "getter": getter, **case, "index": i}, f"{getter}: consumed lazily with modifications, the iteration ends early")
                        return
                    if (obj.serialize(), getattr(obj, "x", None), getattr(obj, "y", None)) != (exp, ex, ey):
                        chk.fail({**rle, "getter": getter, **case, "index": i, "yielded": obj.serialize(), "untouched_pass_yields": exp},
                                 f"{getter}: after the caller modified an earlier yielded object, a later one is not what an untouched traversal yields")
                        return
                    mutate(obj, rng)
                    if t.serialize() != base:
                        chk.fail({**rle, "getter": getter, **case, "index": i}, f"{getter}: modifying a yielded object changed the table")
                        return

            lazy("traverse", lambda: t.traverse(), {})
            if H:
                y0 = rng.randrange(H); y1 = rng.randrange(y0, H)
                lazy("traverse(start, end)", lambda: t.traverse(y0, y1), {"range": (y0, y1)})
                yl = rng.randrange(H)
                lazy("Row.traverse", lambda: t.get_row(yl, clone=False).traverse(), {"y": yl})
                rwl = t.get_row(yl).width
                if rwl:
                    s1 = rng.randrange(rwl); e1 = rng.randrange(s1, rwl)
                    lazy("Row.traverse(start, end)", lambda: t.get_row(yl, clone=False).traverse(start=s1, end=e1), {"y": yl, "range": (s1, e1)})
            lazy("traverse_columns", lambda: t.traverse_columns(), {})
            if W:
                x2 = rng.randrange(W); x3 = rng.randrange(x2, W)
                lazy("traverse_columns(start, end)", lambda: t.traverse_columns(x2, x3), {"range": (x2, x3)})
            # --- Row level ---
            if H:
                y = rng.randrange(H)
                row = t.get_row(y)
                rw = row.width
                rcs = list(row.traverse())
                check("Row.traverse", rcs, [(i, y) for i in range(len(rcs))], True, {"y": y})
                check("Row.cells", row.cells, [(i, y) for i in range(rw)], True, {"y": y})
                if rw:
                    s0 = rng.randrange(rw); e0 = rng.randrange(s0, rw + 1)
                    rcs = list(row.traverse(start=s0, end=e0))
                    check("Row.traverse(range)", rcs, [(s0 + i, y) for i in range(len(rcs))], True, {"y": y, "range": (s0, e0)})
                    rcs = row.get_cells((s0, e0))
                    check("Row.get_cells(range)", rcs, [(s0 + i, y) for i in range(len(rcs))], True, {"y": y, "range": (s0, e0)})
                # correspondence of Row.traverse with the Lean model
                line_cells = None
                for cells_, rrep in rows:
                    pass
                fresh_row = Element.from_tag(t.get_row(y).serialize())
                node = T.lxml_table(f'<table:table table:name="x">{fresh_row.serialize()}</table:table>')
                _c, rows_, _p = T.lxml_runs(node)
                spec = T.enc_cells(rows_[0][0])
                reqs.append((f"row init {spec}", None, None))
                for (s0, e0) in [(None, None), (rng.randrange(rw + 1) if rw else 0, None), (rng.randrange(rw + 1) if rw else 0, rng.randrange(rw + 2))]:
                    got = list(fresh_row.traverse(start=s0, end=e0))
                    exp = "ok " + (" ".join(f"{c.x}:{T.pay_id((c.get_value(), c.style))}:{'N' if c.repeated is None else c.repeated}" for c in got) if got else "-")
                    reqs.append((f"row trav {'N' if s0 is None else s0} {'N' if e0 is None else e0}", exp, {**rle, "row": spec, "start": s0, "end": e0}))
            # correspondence of Table.traverse(start, end) with the Lean model (Traverse.tableTraverse): ranges that begin and end
            # anywhere, also strictly inside a repeated run and beyond the table
            cs_, rs_, _pb, _g = T.state_of_xml(t.serialize())
            reqs.append((f"tbl init {cs_} {rs_}", None, None))
            for (s0, e0) in [(None, None), (rng.randrange(H + 1), None), (rng.randrange(H + 1), rng.randrange(H + 2)), (rng.randrange(H + 1), rng.randrange(H + 2))]:
                got = []
                for r_ in t.traverse(s0, e0):
                    node_ = T.lxml_table(f'<table:table table:name="x">{r_.serialize()}</table:table>')
                    _c, rws_, _p = T.lxml_runs(node_)
                    got.append(f"{r_.y}={T.enc_cells(rws_[0][0])}:{'N' if r_.repeated is None else r_.repeated}")
                chk.count("getter", "traverse(start, end) vs model")
                reqs.append((f"tbl travrows {0 if s0 is None else s0} {'N' if e0 is None else e0}", "ok " + (";".join(got) if got else "-"),
                             {**rle, "getter": "traverse", "start": s0, "end": e0}))
            if tno < chk.n(120, 1200):
                heap_part(chk, t, rng, rle, W, H)
                if t.serialize() != base:
                    chk.fail({**rle, "part": "ownership traces"}, "after reads and modifications of the returned objects the table's XML differs")
        except Exception as e:  # noqa: BLE001
            import traceback

            chk.fail({**rle, "exception": repr(e), "trace": traceback.format_exc()[-600:]}, f"a getter raised {type(e).__name__}")
    hreqs = [r for tr in HP for r in tr.reqs]
    for (q, exp, case), ans in zip(hreqs, core.run_driver([q for q, _, _ in hreqs])):
        if exp != ans:
            if ans == "foreign":
                chk.fail({**case, "line": q[:120]}, f"{case.get('getter')}: modifying a returned object changed or created a mutable object of "
                         + ("the table" if case.get("of_twin") == 0 else "another returned object") + " (ownership model: refused)")
            else:
                chk.disagree({**case, "line": q[:120]}, f"ownership trace: impl {exp!r} != model {ans!r}")
    answers = core.run_driver([q for q, _, _ in reqs])
    for (q, exp, case), ans in zip(reqs, answers):
        if exp is None:
            continue
        if exp != ans:
            chk.disagree({**case, "line": q}, f"{'Table.traverse' if q.startswith('tbl ') else 'Row.traverse'} impl {exp!r} != model {ans!r}")


def T_d2a(n: int) -> str:
    s = ""
    n += 1
    while n > 0:
        n, r = divmod(n - 1, 26)
        s = "ABCDEFGHIJKLMNOPQRSTUVWXYZ"[r] + s
    return s


def replay(obj: dict) -> int:
    print(obj)
    return 0
